(* resolve_natural for a span function that is injective only where the resolver compares spans: on the spans of the
   names of `use` statements (U).  Every namespace entry of every table carries such a span (InvU), from the first
   pass -- which only inserts variables -- through the import pass.  This admits `phi := columns erased`
   (Resolve/ColumnsLua.v), which is far from injective. *)
From Coq Require Import String List NArith ZArith Bool Lia Arith.
From Sylt Require Import Syntax.Resolved Resolve.PAst Resolve.Resolver Resolve.SpanMap Resolve.SpanMapProofs
     Resolve.ImportProofs Resolve.ImportFix Resolve.TotalProofs.
Import ListNotations.
Local Open Scope list_scope.

Definition use_spans_s (s : pstmt) : list span :=
  match s with PUse _ nm _ _ => [i_span (usename_ident nm)] | _ => [] end.
Definition use_spans (ast : past) : list span := flat_map (fun m => flat_map use_spans_s (m_stmts m)) ast.

Section Rel.
Variable phi : span -> span.
Hypothesis Hfile : forall s, sp_file (phi s) = sp_file s.
Variable U : span -> Prop.
Hypothesis HinjU : forall a b, U a -> U b -> phi a = phi b -> a = b.

Notation mst := (mp_st phi).
Notation idu := (fun u : unit => u).

Definition InvU (st : rstate) : Prop :=
  forall f t x g sp, fol_get (st_ns st) f = Some t -> ns_get t x = Some (NNamespace g sp) -> U sp.

Definition okU (v : name) : Prop := match v with NNamespace _ sp => U sp | NName _ => True end.

(* natural on the states that satisfy InvU, and keeps it *)
Definition natI {A B} (fa : A -> B) (m : M A) (m' : M B) : Prop :=
  forall st, InvU st -> m' (mst st) = mp_mr phi fa (m st) /\ (forall a st', m st = Ok (a, st') -> InvU st').

Lemma natI_ret {A B} (fa : A -> B) a : natI fa (ret a) (ret (fa a)).
Proof. intros st HI. split; [reflexivity|]. intros a0 st' E. inversion E; subst. exact HI. Qed.

Lemma natI_bind {A B A' B'} (fa : A -> A') (fb : B -> B') (m : M A) (m' : M A') (k : A -> M B) (k' : A' -> M B') :
  natI fa m m' -> (forall a, natI fb (k a) (k' (fa a))) -> natI fb (bind m k) (bind m' k').
Proof.
  intros Hm Hk st HI. destruct (Hm st HI) as [E P]. unfold bind. rewrite E.
  destruct (m st) as [[a s]| | |]; cbn [mp_mr]; try (split; [reflexivity|intros ? ? X; discriminate X]).
  apply Hk. eapply P. reflexivity.
Qed.

Lemma natI_fail {A B} (fa : A -> B) k sp : natI fa (fail k sp) (fail k (phi sp)).
Proof. intros st HI. split; [reflexivity|]. intros ? ? X. discriminate X. Qed.

Lemma natI_for_each {X X'} (ga : X -> X') (h : X -> M unit) (h' : X' -> M unit) l :
  (forall x, In x l -> natI idu (h x) (h' (ga x))) -> natI idu (for_each h l) (for_each h' (map ga l)).
Proof.
  induction l as [|x l IH]; intros H; cbn [for_each map]; [apply (natI_ret idu)|].
  eapply natI_bind; [apply H; left; reflexivity|]. intros _. apply IH. intros z Hz. apply H. right. exact Hz.
Qed.

Lemma span_eqb_U a b : U a -> U b -> span_eqb (phi a) (phi b) = span_eqb a b.
Proof.
  intros Ha Hb. destruct (span_eqb a b) eqn:E.
  - apply span_eqb_eq in E. subst. apply span_eqb_eq. reflexivity.
  - destruct (span_eqb (phi a) (phi b)) eqn:E2; [|reflexivity].
    apply span_eqb_eq in E2. apply (HinjU _ _ Ha Hb) in E2. subst. rewrite (proj2 (span_eqb_eq b b) eq_refl) in E. discriminate.
Qed.

Lemma name_eqb_U a b : okU a -> okU b -> name_eqb (mp_name phi a) (mp_name phi b) = name_eqb a b.
Proof. destruct a, b; cbn; intros Ha Hb; try reflexivity. rewrite span_eqb_U; auto. Qed.

Lemma import_name_I f nm v k sp : okU v -> natI idu (import_name f nm v k sp) (import_name f nm (mp_name phi v) k (phi sp)).
Proof.
  intros Hv st HI. unfold import_name. cbn [mp_st st_ns]. rewrite (fol_get_mp phi).
  destruct (fol_get (st_ns st) f) as [t|] eqn:Et; [|split; [reflexivity|intros ? ? X; discriminate X]].
  rewrite (ns_get_mp phi). destruct (ns_get t nm) as [old|] eqn:En.
  - rewrite name_eqb_U; [|destruct old as [r|g s0]; cbn; [exact I|eapply HI; eauto]|exact Hv].
    destruct (name_eqb old v).
    + split; [reflexivity|]. intros a st' E. inversion E; subst. exact HI.
    + split; [reflexivity|]. intros ? ? X. discriminate X.
  - change ((nm, mp_name phi v) :: mp_tab phi t) with (mp_tab phi ((nm, v) :: t)). split; [apply (set_namespace_mp phi)|].
    intros a st' E. unfold set_namespace in E. inversion E; subst. clear E.
    intros f0 t0 x g s0 Hf Hx. cbn [st_ns] in Hf. destruct (fol_eqb f0 f) eqn:Ef.
    + apply ModulesProofs.fol_eqb_eq in Ef. subst. rewrite fol_get_set_same in Hf. inversion Hf; subst. cbn in Hx.
      destruct (String.eqb x nm); [inversion Hx; subst; exact Hv|eapply HI; eauto].
    + rewrite fol_get_set_other in Hf; [eapply HI; eauto|]. intros ->.
      rewrite (proj2 (ModulesProofs.fol_eqb_eq f f) eq_refl) in Ef. discriminate.
Qed.

Lemma get_ns_I f : natI (mo_t phi) (get_ns f) (get_ns f).
Proof.
  intros st HI. split; [apply (get_ns_mp phi)|]. intros a st' E. unfold get_ns in E. inversion E; subst. exact HI.
Qed.

Lemma natI_get_ns {B B'} (fb : B -> B') f (k k' : option nstable -> M _) :
  (forall t, (forall x g sp, ns_get t x = Some (NNamespace g sp) -> U sp) ->
             natI fb (k (Some t)) (k' (Some (mp_tab phi t)))) ->
  natI fb (k None) (k' None) ->
  natI fb (bind (get_ns f) k) (bind (get_ns f) k').
Proof.
  intros Hs Hn st HI. unfold bind, get_ns. cbn [mp_st st_ns]. rewrite (fol_get_mp phi).
  destruct (fol_get (st_ns st) f) as [t|] eqn:Ef.
  - apply Hs; [|exact HI]. intros x g sp Hx. eapply HI; eauto.
  - apply Hn. exact HI.
Qed.

Lemma from_imports_I f file sp imps :
  natI idu (from_imports f file sp imps) (from_imports f file (phi sp) (map (mp_imp phi) imps)).
Proof.
  induction imps as [|[nm al] rest IH]; cbn [map from_imports mp_imp fst snd]; [apply (natI_ret idu)|].
  apply (natI_get_ns idu file
           (fun from_ns => match from_ns with
                           | Some from_ns => match ns_get from_ns (i_name nm) with
                                             | Some v => _ <- import_name f (i_name match al with Some a => a | None => nm end) v ECollisionFrom
                                                                (i_span match al with Some a => a | None => nm end) ;;
                                                         from_imports f file sp rest
                                             | None => fail ECannotFind (i_span nm)
                                             end
                           | None => fail ENoNamespace sp
                           end)); [|apply natI_fail].
  intros t Ht. cbn [mp_i i_name i_span]. rewrite (ns_get_mp phi).
  destruct (ns_get t (i_name nm)) as [v|] eqn:Ev; [|apply natI_fail].
  assert (Hv : okU v) by (destruct v as [r|g s0]; cbn; [exact I|eapply Ht; eauto]).
  eapply natI_bind; [|intros _; exact IH].
  destruct al as [a|]; cbn [mp_oi mp_i i_name i_span]; apply import_name_I; exact Hv.
Qed.

Lemma rgv_I f ss : (forall s, In s ss -> forall sp, In sp (use_spans_s s) -> U sp) ->
  natI idu (resolve_global_variables f ss) (resolve_global_variables f (map (mp_s phi) ss)).
Proof.
  induction ss as [|s ss IH]; intros HU; cbn [map resolve_global_variables]; [apply (natI_ret idu)|].
  eapply natI_bind; [|intros _; apply IH; intros s0 H0; apply HU; right; exact H0].
  pose proof (HU s (or_introl eq_refl)) as Hs.
  destruct s; cbn [mp_s]; try apply (natI_ret idu).
  - assert (E : usename_ident (mp_un phi name) = mp_i phi (usename_ident name)) by (destruct name; reflexivity).
    rewrite E. cbn [mp_i i_name i_span].
    apply (natI_get_ns idu file
             (fun target => match target with
                            | Some _ => import_name f (i_name (usename_ident name))
                                          (NNamespace file (i_span (usename_ident name))) ECollisionUse sp
                            | None => fail ENoNamespace (i_span (usename_ident name))
                            end)); [|apply natI_fail].
    intros t _.
    apply (import_name_I f (i_name (usename_ident name)) (NNamespace file (i_span (usename_ident name))) ECollisionUse sp).
    cbn. apply Hs. left. reflexivity.
  - apply from_imports_I.
Qed.

Lemma try_I (m m' : M unit) : natI idu m m' -> natI idu (try_ m) (try_ m').
Proof.
  intros H st HI. destruct (H st HI) as [E P]. unfold try_. rewrite E.
  destruct (m st) as [[[] s]| | |]; cbn [mp_mr]; (split; [reflexivity|]); intros a st' X; inversion X; subst; eauto.
Qed.

Lemma quiet_stmt_I f s : (forall sp, In sp (use_spans_s s) -> U sp) -> natI idu (quiet_stmt f s) (quiet_stmt f (mp_s phi s)).
Proof.
  intros Hs. destruct s; cbn [mp_s quiet_stmt]; try apply (natI_ret idu).
  - apply try_I. apply (rgv_I f [PUse path name file sp]). intros s0 [<-|[]]. exact Hs.
  - apply (natI_for_each (mp_imp phi)). intros it _. apply try_I. apply (from_imports_I f file sp [it]).
Qed.

Section Ast.
Variable ast : past.
Hypothesis HU : forall sp, In sp (use_spans ast) -> U sp.

Lemma HU_stmt m s sp : In m ast -> In s (m_stmts m) -> In sp (use_spans_s s) -> U sp.
Proof.
  intros Hm Hs Hsp. apply HU. unfold use_spans. apply in_flat_map. exists m. split; [exact Hm|].
  apply in_flat_map. exists s. auto.
Qed.

Lemma quiet_round_I : natI idu (quiet_round ast) (quiet_round (mp_ast phi ast)).
Proof.
  unfold quiet_round, mp_ast. apply natI_for_each. intros m Hm. unfold quiet_pass, mp_module. cbn [m_stmts m_file].
  apply natI_for_each. intros s Hs. apply quiet_stmt_I. intros sp Hsp. eapply HU_stmt; eauto.
Qed.

Lemma import_rounds_I n : natI idu (import_rounds n ast) (import_rounds n (mp_ast phi ast)).
Proof.
  induction n as [|n IH]; intros st HI; cbn [import_rounds]; [split; [reflexivity|intros ? ? X; discriminate X]|].
  destruct (quiet_round_I st HI) as [E P]. rewrite E.
  destruct (quiet_round ast st) as [[[] s]| | |]; cbn [mp_mr]; try (split; [reflexivity|intros ? ? X; discriminate X]).
  rewrite !(names_count_mp phi). destruct (Nat.eqb (names_count s) (names_count st)).
  - split; [reflexivity|]. intros a st' X. inversion X; subst. eapply P. reflexivity.
  - apply IH. eapply P. reflexivity.
Qed.

Lemma import_pass_I b : natI idu (import_pass b ast) (import_pass b (mp_ast phi ast)).
Proof.
  unfold import_pass. eapply natI_bind.
  - destruct b; [rewrite (import_items_mp phi); apply import_rounds_I|apply (natI_ret idu)].
  - intros _. unfold report_pass, mp_ast. apply natI_for_each. intros m Hm. unfold mp_module. cbn [m_stmts m_file].
    apply rgv_I. intros s Hs sp Hsp. eapply HU_stmt; eauto.
Qed.

(* after the first pass every table holds variables only *)
Lemma pass1_InvU st u : for_each insert_namespace_and_add_definitions ast (init_state ast) = Ok (u, st) -> InvU st.
Proof.
  intros E. pose proof (pass1_tot ast ast [] (init_state ast)) as H1. cbn [app] in H1.
  assert (HP0 : P1 ast [] (init_state ast)).
  { constructor; cbn.
    - reflexivity.
    - intros f Hf. exfalso. apply Hf. reflexivity.
    - intros m [].
    - intros f t Hf. discriminate. }
  specialize (H1 HP0). rewrite E in H1.
  intros f t x g sp Hf Hx. destruct (p_names _ _ _ H1 f t Hf x _ Hx) as [r Hr]. discriminate.
Qed.

Theorem resolve_fuel_natural_U fl fuel :
  res_nat phi (resolve_fuel fl fuel ast) (resolve_fuel fl fuel (mp_ast phi ast)).
Proof.
  unfold resolve_fuel, resolve_m. rewrite (init_state_mp phi).
  pose proof (pass1_mp phi ast (init_state ast)) as H1.
  unfold bind at 1 5. rewrite H1.
  destruct (for_each insert_namespace_and_add_definitions ast (init_state ast)) as [[[] s1]|es| |] eqn:E1;
    cbn [mp_mr res_nat]; auto; [|rewrite map_map; reflexivity].
  pose proof (pass1_InvU _ _ E1) as HI1.
  destruct (import_pass_I (imports_fixpoint fl) s1 HI1) as [E2 _].
  unfold bind at 1 4. rewrite E2.
  destruct (import_pass (imports_fixpoint fl) ast s1) as [[[] s2]|es| |]; cbn [mp_mr res_nat]; auto;
    [|rewrite map_map; reflexivity].
  assert (H3 : nat1 phi (map (mr_s phi)) (block_with (stmt_r fl fuel) (flat_map m_stmts ast))
                    (block_with (stmt_r fl fuel) (flat_map m_stmts (mp_ast phi ast)))).
  { rewrite (flat_stmts_mp phi). apply nat_block. intros x _. apply (proj2 (proj2 (n_all phi Hfile fl fuel))). }
  unfold bind at 1 3. rewrite H3.
  destruct (block_with (stmt_r fl fuel) (flat_map m_stmts ast) s2) as [[out s]|es| |]; cbn [mp_mr res_nat]; auto;
    [|rewrite map_map; reflexivity].
  unfold bind, lift. rewrite (lookup_global_mp phi).
  destruct (lookup_global_cases s 0%N "start") as [[o E]|[p E]]; rewrite E; cbn; [|reflexivity].
  destruct o as [v|]; cbn; [|reflexivity].
  unfold mr_resolved. cbn. rewrite map_rev. reflexivity.
Qed.

End Ast.
End Rel.
