-- expect-wf: bad malformed number
local x = 3x
