(* Driver for the extracted Runtime model (Sem/Runtime.v).  One case per line, tokens separated by one
   space, strings hex-encoded ("-" = empty).

   value  ::= N (Lua nil) | Z (__NIL) | T | F | I<int> (integer) | Q<num>/<den> (float, lowest terms) | S<hex>
            | t<n> value*n | l<n> value*n | b<n> (<hex-name> value)*n | v<hex-tag> value
   case   ::= OP2 <eq|ne|lt|le|gt|ge|add|sub|mul|div> value value
            | OP1 <neg|tostring> value
            | CASE <op2 name> value(Maybe) value      the payload bound by a `case` arm, then payload <op> value
            | FN <min|max|abs|clamp|sign|div|floor|rem|isjust|isnone|ordefault|index> <n> value*n
            | LIST value <n> lop*n      lop ::= push v | prepend v | pop | popeq v | get I | geteq I v | getcase I v | getisjust I | getisnone I
                                              | getordefault I v | set I v | len | map addk v
                                              | filter <ltk|eqk|nek> v | fold add v | find <ltk|eqk|nek> v
                                              | contains v | last
            | DICT <n> dop*n            dop ::= update k v | remove k | get k | geteq k v | len | has k | fromlist value
            | SET <n> sop*n             sop ::= add k | remove k | has k | len | fromlist value
            | MULTI <nregs> <n> mop*n   mop ::= new R value | dnew R | snew R | on R lop | kon R dop/sop
                                              | filter DST SRC <ltk|eqk|nek|all|none> v | map DST SRC id | map DST SRC addk v
                                              | dictfrom DST SRC | setfrom DST SRC
                                        item = <hex observation>/<register 0>/<register 1>/... (lists printed, dicts / sets by len)
   output ::= R OK:<hex tostring> | R ERR | R UNSUP
            | H item*        item = <hex observation>/<hex tostring(list)> for LIST, <hex observation> for
                             DICT/SET (after update/remove/add/fromlist the observation is the new len);
                             a failing operation ends the line with ERR or UNSUP *)
open Runtimemodel

exception Lua_error
exception Unsupported

let rec pos_of_int n = if n = 1 then XH else if n land 1 = 1 then XI (pos_of_int (n lsr 1)) else XO (pos_of_int (n lsr 1))
let z_of_int n = if n = 0 then Z0 else if n > 0 then Zpos (pos_of_int n) else Zneg (pos_of_int (- n))

let unhex s =
  if s = "-" then "" else begin
    let n = String.length s / 2 in
    let b = Bytes.create n in
    for i = 0 to n - 1 do
      Bytes.set b i (Char.chr (int_of_string ("0x" ^ String.sub s (2*i) 2)))
    done; Bytes.to_string b end

let hex_of_string s =
  if s = "" then "-" else begin
    let b = Buffer.create (2 * String.length s) in
    String.iter (fun c -> Buffer.add_string b (Printf.sprintf "%02x" (Char.code c))) s;
    Buffer.contents b end

let chars_of_string s = List.init (String.length s) (String.get s)
let string_of_chars cs = let b = Buffer.create 16 in List.iter (Buffer.add_char b) cs; Buffer.contents b

let tail s = String.sub s 1 (String.length s - 1)

(* tokens -> value, rest *)
let rec parse_value (toks : string list) : value * string list =
  match toks with
  | [] -> failwith "value expected"
  | t :: rest ->
    (match t.[0] with
     | 'N' -> (VLuaNil, rest)
     | 'Z' -> (VNil, rest)
     | 'T' -> (VBool true, rest)
     | 'F' -> (VBool false, rest)
     | 'I' -> (vint (z_of_int (int_of_string (tail t))), rest)
     | 'Q' ->
       (match String.split_on_char '/' (tail t) with
        | [a; b] -> (VFloat { qnum = z_of_int (int_of_string a); qden = pos_of_int (int_of_string b) }, rest)
        | _ -> failwith "bad rational")
     | 'S' -> (VStr (chars_of_string (unhex (tail t))), rest)
     | 't' -> let (vs, r) = parse_values (int_of_string (tail t)) rest in (VTuple vs, r)
     | 'l' -> let (vs, r) = parse_values (int_of_string (tail t)) rest in (VList vs, r)
     | 'b' ->
       let rec fields n toks = if n = 0 then ([], toks) else
           (match toks with
            | k :: r -> let (v, r) = parse_value r in let (fs, r) = fields (n - 1) r in ((chars_of_string (unhex k), v) :: fs, r)
            | [] -> failwith "field expected") in
       let (fs, r) = fields (int_of_string (tail t)) rest in (VBlob fs, r)
     | 'v' -> let (p, r) = parse_value rest in (VVariant (chars_of_string (unhex (tail t)), p), r)
     | _ -> failwith ("bad value token " ^ t))
and parse_values n toks =
  if n = 0 then ([], toks) else
    let (v, r) = parse_value toks in let (vs, r) = parse_values (n - 1) r in (v :: vs, r)

let parse_int t = if t.[0] = 'I' then int_of_string (tail t) else failwith "int expected"

let show v = hex_of_string (string_of_chars (rt_tostring v))
let vbool b = VBool b

let force = function Ok v -> v | Err -> raise Lua_error | Unsup -> raise Unsupported

let res_line (r : value res) =
  match r with Ok v -> "R OK:" ^ show v | Err -> "R ERR" | Unsup -> "R UNSUP"

let op2 name a b : value res =
  match name with
  | "eq" -> Ok (vbool (rt_eq a b))
  | "ne" -> Ok (vbool (rt_neq a b))
  | "lt" -> rmap vbool (rt_lt a b)
  | "le" -> rmap vbool (rt_le a b)
  | "gt" -> rmap vbool (rt_gt a b)
  | "ge" -> rmap vbool (rt_ge a b)
  | "add" -> rt_add a b
  | "sub" -> rt_sub a b
  | "mul" -> rt_mul a b
  | "div" -> rt_div a b
  | _ -> failwith ("bad op2 " ^ name)

let fn name (args : value list) : value res =
  match name, args with
  | "min", [a; b] -> rt_min a b
  | "max", [a; b] -> rt_max a b
  | "abs", [a] -> rt_abs a
  | "clamp", [x; lo; hi] -> rt_clamp x lo hi
  | "sign", [a] -> rt_sign a
  | "div", [a; b] -> rt_idiv a b
  | "floor", [a] -> rt_floor a
  | "rem", [a; b] -> rt_rem a b
  | "isjust", [m] -> rmap vbool (rt_is_just m)
  | "isnone", [m] -> rmap vbool (rt_is_none m)
  | "ordefault", [m; d] -> rt_or_default m d
  | "index", [o; i] -> rt_index o i
  | _ -> failwith ("bad fn " ^ name)

let pred name k : value -> bool =
  match name with
  | "ltk" -> (fun x -> match force (rt_lt x k) with b -> b)
  | "eqk" -> (fun x -> rt_eq x k)
  | "nek" -> (fun x -> rt_neq x k)
  | _ -> failwith ("bad predicate " ^ name)

let z_of_tok t = z_of_int (parse_int t)

(* `case m do Just x -> ... None -> ... end`: the tag is __INDEX(m, 1), the payload is bound to __INDEX(m, 2).
   The observation made inside the Just arm: tostring(x) | tostring(x == v) [| yes/no for `if x` when v is a bool] *)
let truthy = function VBool false | VLuaNil -> false | _ -> true
let text v = string_of_chars (rt_tostring v)
let case_obs (m : value) (v : value) : value =
  if force (rt_is_just m) then begin
    let x = force (rt_index m (vint (z_of_int 2))) in
    let s = text x ^ "|" ^ text (VBool (rt_eq x v)) in
    let s = (match v with VBool _ -> s ^ "|" ^ (if truthy x then "yes" else "no") | _ -> s) in
    VStr (chars_of_string s)
  end else VStr (chars_of_string "none")

(* one list operation: (new list, observation) *)
let list_step (l : value) (toks : string list) : (value * value) * string list =
  match toks with
  | "push" :: r -> let (v, r) = parse_value r in ((force (rt_list_push l v), VLuaNil), r)
  | "prepend" :: r -> let (v, r) = parse_value r in ((force (rt_list_prepend l v), VLuaNil), r)
  | "pop" :: r -> (force (rt_list_pop l), r)
  | "get" :: i :: r -> ((l, force (rt_list_get l (z_of_tok i))), r)
  | "geteq" :: i :: r -> let (v, r) = parse_value r in ((l, vbool (rt_eq (force (rt_list_get l (z_of_tok i))) v)), r)
  | "popeq" :: r -> let (v, r) = parse_value r in let (l', o) = force (rt_list_pop l) in ((l', vbool (rt_eq o v)), r)
  | "getcase" :: i :: r -> let (v, r) = parse_value r in ((l, case_obs (force (rt_list_get l (z_of_tok i))) v), r)
  | "getisjust" :: i :: r -> ((l, vbool (force (rt_is_just (force (rt_list_get l (z_of_tok i)))))), r)
  | "getisnone" :: i :: r -> ((l, vbool (force (rt_is_none (force (rt_list_get l (z_of_tok i)))))), r)
  | "getordefault" :: i :: r ->
    let (v, r) = parse_value r in ((l, force (rt_or_default (force (rt_list_get l (z_of_tok i))) v)), r)
  | "set" :: i :: r -> let (v, r) = parse_value r in ((force (rt_list_set l (z_of_tok i) v), VLuaNil), r)
  | "len" :: r -> ((l, force (rt_len l)), r)
  | "map" :: "addk" :: r ->
    let (k, r) = parse_value r in ((force (rt_list_map (fun x -> force (rt_add x k)) l), VLuaNil), r)
  | "filter" :: p :: r -> let (k, r) = parse_value r in ((force (rt_list_filter (pred p k) l), VLuaNil), r)
  | "fold" :: "add" :: r ->
    let (a0, r) = parse_value r in ((l, force (rt_list_fold (fun v a -> force (rt_add a v)) a0 l)), r)
  | "find" :: p :: r -> let (k, r) = parse_value r in ((l, force (rt_list_find (pred p k) l)), r)
  | "contains" :: r -> let (v, r) = parse_value r in ((l, vbool (force (rt_list_contains l v))), r)
  | "last" :: r -> ((l, force (rt_list_last l)), r)
  | t :: _ -> failwith ("bad list op " ^ t)
  | [] -> failwith "list op expected"

(* skip the tokens of one operation without executing it is not needed: a failing op ends the line *)
let run_list (init : value) (n : int) (toks : string list) : string =
  let b = Buffer.create 256 in
  Buffer.add_string b "H";
  let l = ref init and toks = ref toks in
  (try
     for _ = 1 to n do
       let ((l', o), r) = list_step !l !toks in
       l := l'; toks := r;
       Buffer.add_string b (" " ^ show o ^ "/" ^ show l')
     done
   with Lua_error -> Buffer.add_string b " ERR" | Unsupported -> Buffer.add_string b " UNSUP");
  Buffer.contents b

let len_of c = force (rt_len c)

let dict_step (d : value) (toks : string list) : (value * value) * string list =
  match toks with
  | "update" :: r ->
    let (k, r) = parse_value r in let (v, r) = parse_value r in
    let d' = force (rt_dict_update d k v) in ((d', len_of d'), r)
  | "remove" :: r -> let (k, r) = parse_value r in let d' = force (rt_dict_remove d k) in ((d', len_of d'), r)
  | "get" :: r -> let (k, r) = parse_value r in ((d, force (rt_dict_get d k)), r)
  | "geteq" :: r ->
    let (k, r) = parse_value r in let (v, r) = parse_value r in ((d, vbool (rt_eq (force (rt_dict_get d k)) v)), r)
  | "getcase" :: r ->
    let (k, r) = parse_value r in let (v, r) = parse_value r in ((d, case_obs (force (rt_dict_get d k)) v), r)
  | "len" :: r -> ((d, len_of d), r)
  | "has" :: r -> let (k, r) = parse_value r in ((d, vbool (force (rt_dict_contains_key d k))), r)
  | "fromlist" :: r -> let (l, r) = parse_value r in let d' = force (rt_dict_from_list l) in ((d', len_of d'), r)
  | t :: _ -> failwith ("bad dict op " ^ t)
  | [] -> failwith "dict op expected"

let set_step (s : value) (toks : string list) : (value * value) * string list =
  match toks with
  | "add" :: r -> let (k, r) = parse_value r in let s' = force (rt_set_add s k) in ((s', len_of s'), r)
  | "remove" :: r -> let (k, r) = parse_value r in let s' = force (rt_set_remove s k) in ((s', len_of s'), r)
  | "has" :: r -> let (k, r) = parse_value r in ((s, vbool (force (rt_set_contains s k))), r)
  | "len" :: r -> ((s, len_of s), r)
  | "fromlist" :: r -> let (l, r) = parse_value r in let s' = force (rt_set_from_list l) in ((s', len_of s'), r)
  | t :: _ -> failwith ("bad set op " ^ t)
  | [] -> failwith "set op expected"

let run_keyed step (init : value) (n : int) (toks : string list) : string =
  let b = Buffer.create 256 in
  Buffer.add_string b "H";
  let c = ref init and toks = ref toks in
  (try
     for _ = 1 to n do
       let ((c', o), r) = step !c !toks in
       c := c'; toks := r;
       Buffer.add_string b (" " ^ show o)
     done
   with Lua_error -> Buffer.add_string b " ERR" | Unsupported -> Buffer.add_string b " UNSUP");
  Buffer.contents b

(* several live containers: a register file.  After every operation the observation and the printed form of
   every register (lists: tostring, dicts / sets: len) *)
let mpred name k : value -> bool =
  match name with
  | "all" -> (fun _ -> true)
  | "none" -> (fun _ -> false)
  | _ -> pred name k

let show_reg (v : value) : string =
  match v with
  | VDict _ | VSet _ -> show (len_of v)
  | _ -> show v

let multi_step (regs : value array) (toks : string list) : value * string list =
  let reg t = int_of_string t in
  match toks with
  | "new" :: r :: rest -> let (v, rest) = parse_value rest in regs.(reg r) <- v; (VLuaNil, rest)
  | "dnew" :: r :: rest -> regs.(reg r) <- rt_dict_new; (VLuaNil, rest)
  | "snew" :: r :: rest -> regs.(reg r) <- rt_set_new; (VLuaNil, rest)
  | "on" :: r :: rest ->
    let ((l', o), rest) = list_step regs.(reg r) rest in regs.(reg r) <- l'; (o, rest)
  | "kon" :: r :: rest ->
    let step = (match regs.(reg r) with VDict _ -> dict_step | _ -> set_step) in
    let ((c', o), rest) = step regs.(reg r) rest in regs.(reg r) <- c'; (o, rest)
  | "filter" :: d :: s :: p :: rest ->
    let (k, rest) = parse_value rest in
    regs.(reg d) <- force (rt_list_filter (mpred p k) regs.(reg s)); (VLuaNil, rest)
  | "map" :: d :: s :: "id" :: rest ->
    regs.(reg d) <- force (rt_list_map (fun x -> x) regs.(reg s)); (VLuaNil, rest)
  | "map" :: d :: s :: "addk" :: rest ->
    let (k, rest) = parse_value rest in
    regs.(reg d) <- force (rt_list_map (fun x -> force (rt_add x k)) regs.(reg s)); (VLuaNil, rest)
  | "dictfrom" :: d :: s :: rest -> regs.(reg d) <- force (rt_dict_from_list regs.(reg s)); (VLuaNil, rest)
  | "setfrom" :: d :: s :: rest -> regs.(reg d) <- force (rt_set_from_list regs.(reg s)); (VLuaNil, rest)
  | t :: _ -> failwith ("bad multi op " ^ t)
  | [] -> failwith "multi op expected"

let run_multi (nregs : int) (n : int) (toks : string list) : string =
  let b = Buffer.create 256 in
  Buffer.add_string b "H";
  let regs = Array.make nregs (VList []) and toks = ref toks in
  (try
     for _ = 1 to n do
       let (o, r) = multi_step regs !toks in
       toks := r;
       Buffer.add_string b (" " ^ show o);
       Array.iter (fun v -> Buffer.add_string b ("/" ^ show_reg v)) regs
     done
   with Lua_error -> Buffer.add_string b " ERR" | Unsupported -> Buffer.add_string b " UNSUP");
  Buffer.contents b

let run_case (line : string) : string =
  match String.split_on_char ' ' line with
  | "OP2" :: name :: r ->
    let (a, r) = parse_value r in let (b, _) = parse_value r in
    (try res_line (op2 name a b) with Lua_error -> "R ERR" | Unsupported -> "R UNSUP")
  | "OP1" :: name :: r ->
    let (a, _) = parse_value r in
    (match name with
     | "neg" -> res_line (rt_neg a)
     | "tostring" -> "R OK:" ^ show a
     | _ -> failwith "bad op1")
  | "CASE" :: name :: r ->
    (* case m do Just x -> x <op> w ... None -> "none" *)
    let (m, r) = parse_value r in let (w, _) = parse_value r in
    (try
       if force (rt_is_just m) then res_line (op2 name (force (rt_index m (vint (z_of_int 2)))) w)
       else "R OK:" ^ hex_of_string "none"
     with Lua_error -> "R ERR" | Unsupported -> "R UNSUP")
  | "FN" :: name :: n :: r ->
    let (args, _) = parse_values (int_of_string n) r in
    (try res_line (fn name args) with Lua_error -> "R ERR" | Unsupported -> "R UNSUP")
  | "LIST" :: r -> let (init, r) = parse_value r in
    (match r with n :: r -> run_list init (int_of_string n) r | [] -> failwith "count expected")
  | "DICT" :: n :: r -> run_keyed dict_step rt_dict_new (int_of_string n) r
  | "SET" :: n :: r -> run_keyed set_step rt_set_new (int_of_string n) r
  | "MULTI" :: k :: n :: r -> run_multi (int_of_string k) (int_of_string n) r
  | _ -> failwith "bad case"

let () =
  let file = Sys.argv.(Array.length Sys.argv - 1) in
  let ic = open_in file in
  (try
     while true do
       let line = input_line ic in
       (try print_endline (run_case line)
        with Failure m -> print_endline ("BAD " ^ m) | Stack_overflow -> print_endline "BAD stack overflow"
           | Not_found -> print_endline "BAD not found" | Invalid_argument m -> print_endline ("BAD " ^ m))
     done
   with End_of_file -> ());
  close_in ic
