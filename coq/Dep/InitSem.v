(* A small abstract semantics of top-level initialisation, to say what "initialised before use" means
   when functions are values: a core calculus with global reads and assignments, closures, application,
   let, pairs (so that data can carry functions) and conditionals; a store of globals in which a global
   is either initialised or not; a fuelled big-step evaluator in which reading OR assigning an
   uninitialised global is the distinguished outcome `OUninit`.

   A program is a list of definitions `v :: e` run in order.  `uses e` lists every global read or assigned
   anywhere in e, inside function bodies too -- the counterpart of Dep/Deps.v `uses_s`.
   Definitions only. *)
From Coq Require Import List NArith Bool.
Import ListNotations.

Inductive tm :=
| TUnit
| TBool (b : bool)
| TLoc (n : nat)                 (* local variable (parameter / let), de Bruijn index *)
| TGlob (g : N)                  (* read a global *)
| TSet (g : N) (e : tm)          (* assign a global *)
| TLam (body : tm)               (* a function value; it captures the local environment *)
| TApp (f a : tm)
| TLet (e body : tm)
| TPair (a b : tm)
| TFst (e : tm)
| TSnd (e : tm)
| TIf (c a b : tm).

(* the local environment of a closure is itself a value: a right-nested pair list *)
Inductive val :=
| VUnit
| VBool (b : bool)
| VPair (a b : val)
| VClo (env : val) (body : tm).

Definition store := N -> option val.
Definition upd (s : store) (g : N) (v : val) : store := fun x => if N.eqb x g then Some v else s x.
Definition inited (s : store) (g : N) : Prop := s g <> None.

Fixpoint env_get (n : nat) (env : val) : option val :=
  match env with
  | VPair a r => match n with 0 => Some a | S n' => env_get n' r end
  | _ => None
  end.

Inductive out :=
| OVal (v : val) (s : store)
| OUninit (g : N)        (* an uninitialised global was read or assigned *)
| OStuck                 (* ill-typed: not our concern *)
| OFuel.

Fixpoint eval (fuel : nat) (env : val) (s : store) (e : tm) : out :=
  match fuel with
  | 0 => OFuel
  | S f =>
    match e with
    | TUnit => OVal VUnit s
    | TBool b => OVal (VBool b) s
    | TLoc n => match env_get n env with Some v => OVal v s | None => OStuck end
    | TGlob g => match s g with Some v => OVal v s | None => OUninit g end
    | TSet g e1 =>
        match eval f env s e1 with
        | OVal v s1 => match s1 g with Some _ => OVal VUnit (upd s1 g v) | None => OUninit g end
        | o => o
        end
    | TLam body => OVal (VClo env body) s
    | TApp ef ea =>
        match eval f env s ef with
        | OVal (VClo cenv body) s1 =>
            match eval f env s1 ea with
            | OVal va s2 => eval f (VPair va cenv) s2 body
            | o => o
            end
        | OVal _ _ => OStuck
        | o => o
        end
    | TLet e1 body =>
        match eval f env s e1 with
        | OVal v s1 => eval f (VPair v env) s1 body
        | o => o
        end
    | TPair a b =>
        match eval f env s a with
        | OVal va s1 => match eval f env s1 b with OVal vb s2 => OVal (VPair va vb) s2 | o => o end
        | o => o
        end
    | TFst e1 => match eval f env s e1 with OVal (VPair a _) s1 => OVal a s1 | OVal _ _ => OStuck | o => o end
    | TSnd e1 => match eval f env s e1 with OVal (VPair _ b) s1 => OVal b s1 | OVal _ _ => OStuck | o => o end
    | TIf c a b =>
        match eval f env s c with
        | OVal (VBool true) s1 => eval f env s1 a
        | OVal (VBool false) s1 => eval f env s1 b
        | OVal _ _ => OStuck
        | o => o
        end
    end
  end.

(* every global mentioned anywhere in the term, function bodies included *)
Fixpoint uses (e : tm) : list N :=
  match e with
  | TGlob g => [g]
  | TSet g e1 => g :: uses e1
  | TLam body => uses body
  | TApp a b | TLet a b | TPair a b => uses a ++ uses b
  | TFst a | TSnd a => uses a
  | TIf c a b => uses c ++ uses a ++ uses b
  | _ => []
  end.

Definition is_lam (e : tm) : bool := match e with TLam _ => true | _ => false end.

(* running the definitions in the given order *)
Inductive run_out := RDone (s : store) | RUninit (g : N) | ROther.

Fixpoint run (fuel : nat) (s : store) (defs : list (N * tm)) : run_out :=
  match defs with
  | [] => RDone s
  | (v, e) :: ds =>
      match eval fuel VUnit s e with
      | OVal x s1 => run fuel (upd s1 v x) ds
      | OUninit g => RUninit g
      | _ => ROther
      end
  end.

(* the order respects the uses: every global a definition mentions is initialised beforehand (by the
   environment or by an earlier definition) -- except that a function definition may mention itself *)
Fixpoint ordered (I : N -> Prop) (defs : list (N * tm)) : Prop :=
  match defs with
  | [] => True
  | (v, e) :: ds =>
      (forall g, In g (uses e) -> I g \/ (g = v /\ is_lam e = true))
      /\ ordered (fun g => I g \/ g = v) ds
  end.
