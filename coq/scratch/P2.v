
(* ---------------------------------------------------------------------------------------- *)

Ltac finish_le :=
  repeat first
    [ assumption
    | apply set_cell_le | apply raw_set_in_le | apply emit_line_le | apply set_positional_le
    | apply put_table_le ].

Ltac mono_step :=
  match goal with
  | |- st_le _ (res_state (bind _ _)) => apply bind_le; [ | intros ]
  | |- st_le _ (res_state (ROk _ _)) => cbn [res_state]; finish_le
  | |- st_le _ (res_state (RErr _ _)) => cbn [res_state]; finish_le
  | |- st_le _ (res_state (RFuel _)) => cbn [res_state]; finish_le
  | |- st_le _ (res_state (RUnsup _ _)) => cbn [res_state]; finish_le
  | |- st_le _ (res_state (err _ _)) => unfold err; cbn [res_state]; finish_le
  | |- st_le _ (res_state (bad_arg _ _ _ _ _)) => unfold bad_arg, err; cbn [res_state]; finish_le
  | |- st_le _ (res_state (compare_error _ _ _)) => unfold compare_error, err
  | |- st_le ?s0 (res_state (match alloc_closure ?st ?c with _ => _ end)) =>
      let H := fresh "Hle" in
      assert (H : st_le s0 (snd (alloc_closure st c))) by (apply alloc_closure_le; finish_le);
      destruct (alloc_closure st c); cbn [snd] in H
  | |- st_le ?s0 (res_state (match alloc_table ?st ?c with _ => _ end)) =>
      let H := fresh "Hle" in
      assert (H : st_le s0 (snd (alloc_table st c))) by (apply alloc_table_le; finish_le);
      destruct (alloc_table st c); cbn [snd] in H
  | |- st_le ?s0 (res_state (match alloc_cell ?st ?c with _ => _ end)) =>
      let H := fresh "Hle" in
      assert (H : st_le s0 (snd (alloc_cell st c))) by (apply alloc_cell_le; finish_le);
      destruct (alloc_cell st c); cbn [snd] in H
  | |- st_le ?s0 (res_state (match bind_locals ?e ?xs ?vs ?st with _ => _ end)) =>
      let H := fresh "Hle" in
      assert (H : st_le s0 (snd (bind_locals e xs vs st))) by (apply bind_locals_le; finish_le);
      destruct (bind_locals e xs vs st); cbn [snd] in H
  | |- st_le _ (res_state (match ?x with _ => _ end)) => destruct x
  | |- st_le _ (res_state (if ?x then _ else _)) => destruct x
  end.

Lemma num_arg_le : forall s0 i f args st, st_le s0 st -> st_le s0 (res_state (num_arg i f args st)).
Proof. intros; unfold num_arg; repeat mono_step. Qed.
Lemma opt_num_arg_le : forall s0 i f args d st, st_le s0 st -> st_le s0 (res_state (opt_num_arg i f args d st)).
Proof. intros; unfold opt_num_arg; destruct (arg i args); cbn [res_state]; try assumption; apply num_arg_le; assumption. Qed.
Lemma str_arg_le : forall s0 i f args st, st_le s0 st -> st_le s0 (res_state (str_arg i f args st)).
Proof. intros; unfold str_arg; repeat mono_step. Qed.
Lemma tab_arg_le : forall s0 i f args st, st_le s0 st -> st_le s0 (res_state (tab_arg i f args st)).
Proof. intros; unfold tab_arg; repeat mono_step. Qed.
Lemma fold_num_le : forall rest s0 f fname i acc st, st_le s0 st -> st_le s0 (res_state (fold_num f fname i acc rest st)).
Proof. induction rest; intros; cbn [fold_num]; repeat mono_step. apply IHrest; assumption. Qed.
Lemma chars_of_le : forall vs s0 i st, st_le s0 st -> st_le s0 (res_state (chars_of i vs st)).
Proof.
  induction vs; intros; cbn [chars_of]; repeat mono_step.
  apply IHvs; assumption.
Qed.
Lemma arith_num_le : forall s0 op x y st, st_le s0 st -> st_le s0 (res_state (arith_num op x y st)).
Proof. intros; unfold arith_num; repeat mono_step. Qed.

Ltac arg_step :=
  match goal with
  | |- st_le _ (res_state (num_arg _ _ _ _)) => apply num_arg_le
  | |- st_le _ (res_state (opt_num_arg _ _ _ _ _)) => apply opt_num_arg_le
  | |- st_le _ (res_state (str_arg _ _ _ _)) => apply str_arg_le
  | |- st_le _ (res_state (tab_arg _ _ _ _)) => apply tab_arg_le
  | |- st_le _ (res_state (fold_num _ _ _ _ _ _)) => apply fold_num_le
  | |- st_le _ (res_state (chars_of _ _ _)) => apply chars_of_le
  | |- st_le _ (res_state (arith_num _ _ _ _)) => apply arith_num_le
  end; finish_le.

Lemma pure_builtin_le : forall s0 b args st, st_le s0 st -> st_le s0 (res_state (pure_builtin b args st)).
Proof.
  intros s0 b args st H. unfold pure_builtin.
  destruct b; repeat first [ arg_step | mono_step ].
Qed.
