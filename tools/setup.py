#!/usr/bin/env python3
"""setup: build everything from files on disk (offline): tables, Coq development, harness, extracted drivers."""
import importlib
import json
import os
import sys
sys.path.insert(0, os.path.dirname(os.path.abspath(__file__)))
import gen_tables
import vlib


def main():
    st = gen_tables.main()
    print("tables:", st)
    vlib.coq_makefile()
    man = json.load(open(os.path.join(vlib.VERIF, "MANIFEST.json")))
    # whole development, best effort (files of properties not yet claimed may be under construction) ...
    ok_all, out = vlib.coq_make([], timeout=3000, keep_going=True)
    print("coq (all):", "ok" if ok_all else "some files do not build:\n" + out[-1500:])
    # ... but everything a claimed check needs must build
    ok, out = vlib.coq_make(["Props/%s.vo" % c["property_id"] for c in man["checks"]], timeout=3000)
    print("coq (claimed):", "ok" if ok else out[-3000:])
    ok2, out2 = vlib.build_harness()
    print("harness:", "ok" if ok2 else out2[-3000:])
    ok3, out3 = vlib.build_sylt_bin()
    print("sylt bin:", "ok" if ok3 else out3[-3000:])
    allok = ok and ok2 and ok3

    class C:
        tier = "quick"
        seed = 1
    for c in man["checks"]:
        try:
            mod = importlib.import_module("props." + c["property_id"].lower())
            bok, bout = mod.build(C())
            print("model", c["property_id"], "ok" if bok else bout[-2000:])
            allok = allok and bok
        except Exception as e:
            print("model", c["property_id"], "error", e)
            allok = False
    return 0 if allok else 1


if __name__ == "__main__":
    sys.exit(main())
