(* the reference run of a stage-3a program: print, the global definitions, start, the call of start *)
From Coq Require Import String Ascii List NArith ZArith Bool Lia.
From Sylt Require Import Syntax.Resolved.
From Sylt Require Sem.Values Sem.Runtime Sem.SyltSem.
From Sylt Require Import Back.IR.
From Sylt Require Import Pres.Frag.
Import ListNotations.
Local Open Scope N_scope.

Lemma split_last_app {A} (l : list A) i y : split_last l = Some (i, y) -> l = i ++ [y].
Proof.
  revert i y. induction l as [|x t IH]; intros i y H; [discriminate|]. cbn [split_last] in H.
  destruct (split_last t) as [[i' y']|] eqn:E.
  - inversion H; subst. rewrite (IH i' y eq_refl). reflexivity.
  - inversion H; subst. destruct t as [|x' t']; [reflexivity|]. cbn [split_last] in E.
    destruct (split_last t') as [[? ?]|]; discriminate.
Qed.

Lemma set_nth_last {A} (l : list A) x y : SyltSem.set_nth (length l) x (l ++ [y]) = l ++ [x].
Proof. induction l as [|h t IH]; cbn; [reflexivity | rewrite IH; reflexivity]. Qed.

Lemma nth_error_last {A} (l : list A) x : nth_error (l ++ [x]) (length l) = Some x.
Proof. rewrite nth_error_app2 by lia. rewrite Nat.sub_diag. reflexivity. Qed.

Lemma run_outer_app n : forall a e b st,
  SyltSem.run_outer n e (a ++ b) st =
  match SyltSem.run_outer n e a st with
  | (SyltSem.RVal e', st') => SyltSem.run_outer n e' b st'
  | (SyltSem.RStop o, st') => (SyltSem.RStop o, st')
  | (SyltSem.RAbrupt c, st') => (SyltSem.RAbrupt c, st')
  end.
Proof.
  induction a as [|s a IH]; intros e b st; [reflexivity|].
  destruct s; cbn [app SyltSem.run_outer]; try apply IH.
  unfold SyltSem.bind. destruct (SyltSem.exec n e (SDefinition name var kind t value sp) st) as [[e1|o|c] st1]; [apply IH | reflexivity | reflexivity].
Qed.

(* the state after the definition of a function (start: no parameters) *)
Definition def_env (fv : N) (eg : SyltSem.env) (stg : SyltSem.state) : SyltSem.env := (fv, length (SyltSem.cells stg)) :: eg.
Definition def_state (fv : N) (ps : list N) (body : list stmt) (eg : SyltSem.env) (stg : SyltSem.state) : SyltSem.state :=
  SyltSem.mkState (SyltSem.cells stg ++ [SyltSem.SClos (length (SyltSem.clos stg))]) (SyltSem.blobs stg)
                  (SyltSem.clos stg ++ [SyltSem.mkClos ps body (def_env fv eg stg)]) (SyltSem.trace stg).
Definition start_env := def_env.
Definition start_state (sv : N) (body : list stmt) := def_state sv [] body.

Lemma exec_def_fun f nm fv kd t fname params ret body pure fsp dsp e st :
  SyltSem.exec (S (S f)) e (SDefinition nm fv kd t (EFunction fname params ret body pure fsp) dsp) st =
  (SyltSem.RVal (def_env fv e st), def_state fv (param_ids params) body e st).
Proof.
  cbn [SyltSem.exec SyltSem.eval]. unfold SyltSem.bind, SyltSem.new_cell, SyltSem.new_clos, SyltSem.write_cell, SyltSem.ret.
  cbn [SyltSem.cells SyltSem.clos SyltSem.blobs SyltSem.trace]. rewrite set_nth_last. reflexivity.
Qed.

Definition print_state : SyltSem.state := SyltSem.mkState [SyltSem.SExt "print"] [] [] [].

Lemma run_frag_eq r pv sv kd t sp gs nm kd' t' fname ret body pure fsp dsp f' :
  r_stmts r = SExternalDefinition "print" pv kd t sp :: gs ++ [SDefinition nm sv kd' t' (EFunction fname [] ret body pure fsp) dsp] ->
  IR.find_start (Resolved.r_vars r) = Some sv ->
  SyltSem.run (S (S f')) r =
  match SyltSem.run_outer (S (S f')) [(pv, 0%nat)] gs print_state with
  | (SyltSem.RVal eg, stg) =>
      match SyltSem.block_value (S f') (start_env sv eg stg) body (start_state sv body eg stg) with
      | (SyltSem.RVal _, st) => SyltSem.mkRun (rev (SyltSem.trace st)) SyltSem.ODone
      | (SyltSem.RAbrupt (SyltSem.CReturn _), st) => SyltSem.mkRun (rev (SyltSem.trace st)) SyltSem.ODone
      | (SyltSem.RStop o, st) => SyltSem.mkRun (rev (SyltSem.trace st)) o
      | (SyltSem.RAbrupt _, st) => SyltSem.mkRun (rev (SyltSem.trace st)) (SyltSem.OStuck "break/continue outside a loop")
      end
  | (SyltSem.RStop o, stg) => SyltSem.mkRun (rev (SyltSem.trace stg)) o
  | (SyltSem.RAbrupt _, stg) => SyltSem.mkRun (rev (SyltSem.trace stg)) (SyltSem.OStuck "ret/break/continue at top level")
  end.
Proof.
  intros Hstmts Hstart. unfold SyltSem.run. rewrite Hstmts.
  change (SyltSem.find_start (Resolved.r_vars r)) with (IR.find_start (Resolved.r_vars r)). rewrite Hstart.
  unfold SyltSem.bind at 1.
  change (SyltSem.run_outer (S (S f')) [] (SExternalDefinition "print" pv kd t sp :: gs ++ [SDefinition nm sv kd' t' (EFunction fname [] ret body pure fsp) dsp]) (SyltSem.mkState [] [] [] []))
    with (SyltSem.run_outer (S (S f')) [(pv, 0%nat)] (gs ++ [SDefinition nm sv kd' t' (EFunction fname [] ret body pure fsp) dsp]) print_state).
  rewrite run_outer_app.
  destruct (SyltSem.run_outer (S (S f')) [(pv, 0%nat)] gs print_state) as [[eg|o|c] stg]; [|reflexivity|reflexivity].
  assert (Hdef : SyltSem.run_outer (S (S f')) eg [SDefinition nm sv kd' t' (EFunction fname [] ret body pure fsp) dsp] stg
                 = (SyltSem.RVal (start_env sv eg stg), start_state sv body eg stg)).
  { cbn [SyltSem.run_outer]. unfold SyltSem.bind at 1. rewrite exec_def_fun. reflexivity. }
  rewrite Hdef. unfold start_env, def_env at 1. cbn [SyltSem.lookup]. rewrite N.eqb_refl.
  unfold SyltSem.bind at 1. unfold SyltSem.read_cell. unfold start_state, def_state at 1. cbn [SyltSem.cells]. rewrite nth_error_last.
  cbn [SyltSem.apply]. unfold SyltSem.bind at 1. unfold SyltSem.get_clos. unfold start_state, def_state at 1. cbn [SyltSem.clos]. rewrite nth_error_last.
  cbn [SyltSem.cl_params length Nat.eqb SyltSem.mapM]. unfold SyltSem.bind at 1. cbn [SyltSem.ret combine app SyltSem.cl_env SyltSem.cl_body].
  fold (def_state sv [] body eg stg). fold (start_state sv body eg stg). fold (def_env sv eg stg). fold (start_env sv eg stg).
  destruct (SyltSem.block_value (S f') (start_env sv eg stg) body (start_state sv body eg stg)) as [[v|o|[| |v]] st]; reflexivity.
Qed.

(* with fuel 1 nothing gets past the first definition *)
Lemma run_outer_fuel1 : forall gs e st r st', forallb is_def gs = true ->
  SyltSem.run_outer 1 e gs st = (r, st') ->
  match r with SyltSem.RVal _ => True | SyltSem.RStop o => o = SyltSem.OFuel | SyltSem.RAbrupt _ => False end.
Proof.
  induction gs as [|s gs IH]; intros e st r st' Hp H.
  - cbn in H. inversion H; subst. exact I.
  - cbn [forallb] in Hp. apply andb_prop in Hp as [Hs Hp]. destruct s; try discriminate Hs.
    cbn in H. inversion H; subst. reflexivity.
Qed.

Lemma run_fuel1 r pv sv kd t sp gs nm kd' t' fname ret body pure fsp dsp :
  r_stmts r = SExternalDefinition "print" pv kd t sp :: gs ++ [SDefinition nm sv kd' t' (EFunction fname [] ret body pure fsp) dsp] ->
  IR.find_start (Resolved.r_vars r) = Some sv -> forallb is_def gs = true ->
  SyltSem.r_final (SyltSem.run 1 r) = SyltSem.OFuel.
Proof.
  intros Hstmts Hstart Hp. unfold SyltSem.run. rewrite Hstmts.
  change (SyltSem.find_start (Resolved.r_vars r)) with (IR.find_start (Resolved.r_vars r)). rewrite Hstart.
  unfold SyltSem.bind at 1.
  change (SyltSem.run_outer 1 [] (SExternalDefinition "print" pv kd t sp :: gs ++ [SDefinition nm sv kd' t' (EFunction fname [] ret body pure fsp) dsp]) (SyltSem.mkState [] [] [] []))
    with (SyltSem.run_outer 1 [(pv, 0%nat)] (gs ++ [SDefinition nm sv kd' t' (EFunction fname [] ret body pure fsp) dsp]) print_state).
  rewrite run_outer_app.
  destruct (SyltSem.run_outer 1 [(pv, 0%nat)] gs print_state) as [[eg|o|c] stg] eqn:Hg; apply run_outer_fuel1 in Hg; try exact Hp.
  - reflexivity.
  - subst o. reflexivity.
  - destruct Hg.
Qed.

(* the outer statements never stop with ODone either *)
From Sylt Require Pres.SemSane.
Lemma run_outer_not_done n : forall gs e st st', SyltSem.run_outer n e gs st <> (SyltSem.RStop SyltSem.ODone, st').
Proof.
  assert (H : forall gs e st, SemSane.Q (SyltSem.run_outer n e gs st)).
  { induction gs as [|s gs IH]; intros e st; [exact I|].
    destruct s; cbn [SyltSem.run_outer]; try apply IH.
    apply SemSane.Q_bind; [apply (SemSane.s_exec _ (SemSane.sane_all n)) | intros; apply IH]. }
  intros gs e st st' Heq. pose proof (H gs e st) as Hq. rewrite Heq in Hq. exact Hq.
Qed.
