(* Run-time values of compiled Sylt programs, as `preamble.lua` represents them, and their types.
   Definitions only.

   WHAT IS MODELLED AND WHAT IS NOT
   * Values are finite TREES.  Lua tables are mutable references; here a container is a value and an
     operation that mutates it RETURNS THE NEW CONTAINER (explicit state threading, Sem/Runtime.v).
     Aliasing of one mutable list/dict/set under two names and cyclic values are outside the model.
   * Numbers: the reference interpreter is Lua 5.3 (the repo's CI runs lua5.3): integers and floats are
     distinct subtypes of `number`.  `VInt z` is an integer (unbounded `Z`; 64-bit wrap-around is OUT
     OF SCOPE), `VFloat q` a float, modelled as an exact rational `Q` in lowest terms (the
     representation of Lua/LuaNum.v, shared with LuaCore).  NaN, infinities, negative zero and IEEE
     rounding are OUT OF SCOPE: an operation whose IEEE result would be inf/NaN yields `Unsup`, never
     a normal-looking value.  (Under LuaJIT/5.1 there is one number type; what differs there is a
     note in the reports, not part of the model.)
   * `VLuaNil` is Lua's `nil` (absence); `VNil` is the table `__NIL`, the value of Sylt's `nil`.
     They are different run-time values and `==` tells them apart -- this matters for C18. *)
From Coq Require Import String Ascii List NArith ZArith QArith Bool.
Import ListNotations.

Inductive value : Type :=
| VLuaNil                                         (* Lua nil *)
| VNil                                            (* __NIL *)
| VBool (b : bool)
| VInt (z : Z)                                    (* number, integer subtype *)
| VFloat (q : Q)                                  (* number, float subtype *)
| VStr (s : string)
| VTuple (vs : list value)                        (* __TUPLE{ ... } *)
| VList (vs : list value)                         (* __LIST{ ... }: the array part 1..n *)
| VBlob (fs : list (string * value))              (* __BLOB{ f = v, ... } in insertion order *)
| VVariant (tag : string) (payload : value)       (* __VARIANT{ tag, payload } *)
| VDict (es : list (string * (value * value)))    (* dict_new(): tostring(k) |-> __TUPLE{k, v}, insertion order *)
| VSet (es : list (string * value))               (* set_new():  tostring(k) |-> k, insertion order *)
| VFun (id : N).                                  (* a closure; only its identity is observable by == *)

(* outcome of a run-time operation *)
Inductive res (A : Type) : Type :=
| Ok (a : A)
| Err                 (* the Lua program stops with a run-time error (message text not modelled) *)
| Unsup.              (* outside the model (inf/NaN, exotic operand kinds); never a normal value *)
Arguments Ok {A} a.
Arguments Err {A}.
Arguments Unsup {A}.

Definition rbind {A B : Type} (r : res A) (f : A -> res B) : res B :=
  match r with Ok a => f a | Err => Err | Unsup => Unsup end.
Definition rmap {A B : Type} (f : A -> B) (r : res A) : res B :=
  match r with Ok a => Ok (f a) | Err => Err | Unsup => Unsup end.

(* sequential map: the first failing element decides the outcome (a Lua `for` loop) *)
Section RmapM.
  Context {A B : Type}.
  Variable f : A -> res B.
  Fixpoint rmapM (l : list A) : res (list B) :=
    match l with
    | [] => Ok []
    | x :: l' => rbind (f x) (fun y => rbind (rmapM l') (fun ys => Ok (y :: ys)))
    end.
End RmapM.

(* ---- list combinators (top-level, so that the nested recursions below have names; the function
   arguments are section variables, i.e. bound OUTSIDE the `fix`, as in List.map) ---- *)

Section Combinators.
  Context {T A B C : Type}.

  Section Preds.
    Variable P1 : A -> Prop.
    Variable P2 : A -> B -> Prop.
    Variable P3 : A -> B -> C -> Prop.
    Variable k : string.

    Fixpoint allP (l : list A) : Prop :=
      match l with [] => True | x :: l' => P1 x /\ allP l' end.

    (* same length and pointwise related *)
    Fixpoint all2 (l : list A) (m : list B) : Prop :=
      match l, m with
      | [], [] => True
      | a :: l', b :: m' => P2 a b /\ all2 l' m'
      | _, _ => False
      end.

    Fixpoint all3 (l : list A) (m : list B) (n : list C) : Prop :=
      match l, m, n with
      | [], [], [] => True
      | a :: l', b :: m', c :: n' => P3 a b c /\ all3 l' m' n'
      | _, _, _ => False
      end.

    (* P holds of the first entry named k *)
    Fixpoint with_assoc (l : list (string * A)) : Prop :=
      match l with
      | [] => False
      | na :: l' => if String.eqb k (fst na) then P1 (snd na) else with_assoc l'
      end.
  End Preds.

  (* Lua loops `for x = 1, #a do ... a[x] ... b[x] ... end` over the elements xs of a and ys of b:
     when b is shorter, b[x] is nil *)
  Section Loops.
    Variable f : A -> B -> bool.
    Variable fM : A -> B -> res bool.
    Variable g : A -> B -> res C.
    Variable dflt : bool.

    Fixpoint zip_all (xs : list A) (ys : list B) : bool :=
      match xs, ys with
      | [], _ => true
      | _ :: _, [] => false
      | x :: xs', y :: ys' => if f x y then zip_all xs' ys' else false
      end.

    Fixpoint zip_allM (xs : list A) (ys : list B) : res bool :=
      match xs, ys with
      | [], _ => Ok true
      | _ :: _, [] => Err
      | x :: xs', y :: ys' => rbind (fM x y) (fun c => if c then zip_allM xs' ys' else Ok false)
      end.

    (* the first position where the elements differ decides; `dflt` when there is none *)
    Fixpoint lex_go (xs : list A) (ys : list B) : res bool :=
      match xs, ys with
      | [], _ => Ok dflt
      | _ :: _, [] => Err
      | x :: xs', y :: ys' => if f x y then lex_go xs' ys' else fM x y
      end.

    Fixpoint zipM (xs : list A) (ys : list B) : res (list C) :=
      match xs, ys with
      | [], _ => Ok []
      | _ :: _, [] => Err
      | x :: xs', y :: ys' => rbind (g x y) (fun z => rbind (zipM xs' ys') (fun zs => Ok (z :: zs)))
      end.
  End Loops.

  (* exact-length versions used by the specifications *)
  Section Exact.
    Variable h3 : T -> A -> B -> res C.
    Variable h2 : T -> A -> res C.

    Fixpoint zipM3 (ts : list T) (xs : list A) (ys : list B) : res (list C) :=
      match ts, xs, ys with
      | [], [], [] => Ok []
      | t :: ts', x :: xs', y :: ys' =>
          rbind (h3 t x y) (fun z => rbind (zipM3 ts' xs' ys') (fun zs => Ok (z :: zs)))
      | _, _, _ => Err
      end.

    Fixpoint zipM2 (ts : list T) (xs : list A) : res (list C) :=
      match ts, xs with
      | [], [] => Ok []
      | t :: ts', x :: xs' => rbind (h2 t x) (fun z => rbind (zipM2 ts' xs') (fun zs => Ok (z :: zs)))
      | _, _ => Err
      end.
  End Exact.
End Combinators.

(* ---- association lists keyed by strings (Lua tables with string keys, in insertion order) ---- *)

Fixpoint tbl_get {A : Type} (k : string) (es : list (string * A)) : option A :=
  match es with
  | [] => None
  | (k', v) :: es' => if String.eqb k k' then Some v else tbl_get k es'
  end.

Definition tbl_mem {A : Type} (k : string) (es : list (string * A)) : bool :=
  match tbl_get k es with Some _ => true | None => false end.

(* t[k] = v, v not nil: an existing key keeps its place, a new key goes last *)
Fixpoint tbl_set {A : Type} (k : string) (v : A) (es : list (string * A)) : list (string * A) :=
  match es with
  | [] => [(k, v)]
  | (k', v') :: es' => if String.eqb k k' then (k, v) :: es' else (k', v') :: tbl_set k v es'
  end.

(* t[k] = nil *)
Fixpoint tbl_del {A : Type} (k : string) (es : list (string * A)) : list (string * A) :=
  match es with
  | [] => []
  | (k', v') :: es' => if String.eqb k k' then tbl_del k es' else (k', v') :: tbl_del k es'
  end.

(* ---- types of values (what the Sylt type checker calls int, float, str, tuples, lists, blobs, enums) ---- *)

Inductive ty : Type :=
| TNil | TBool | TInt | TFloat | TStr
| TTuple (ts : list ty)
| TList (t : ty)
| TBlob (fs : list (string * ty))
| TEnum (vs : list (string * ty))        (* variant name |-> payload type (TNil for a bare variant) *)
| TFun.

(* a number in lowest terms *)
Definition q_wf (q : Q) : Prop := Qred q = q.
Definition q_wfb (q : Q) : bool := Z.eqb (Qnum (Qred q)) (Qnum q) && Pos.eqb (Qden (Qred q)) (Qden q).

(* `vty t v`: v is a value of type t AS WRITTEN IN SOURCE / built by the operators (in particular the
   payload of a bare enum variant is `VNil`, never `VLuaNil`) *)
Fixpoint vty (t : ty) (v : value) {struct t} : Prop :=
  match t with
  | TNil => v = VNil
  | TBool => exists b, v = VBool b
  | TInt => exists z, v = VInt z
  | TFloat => exists q, v = VFloat q /\ q_wf q
  | TStr => exists s, v = VStr s
  | TTuple ts => match v with VTuple vs => all2 (fun t' v' => vty t' v') ts vs | _ => False end
  | TList t' => match v with VList vs => allP (fun v' => vty t' v') vs | _ => False end
  | TBlob fs =>
      match v with
      | VBlob fv =>
          NoDup (map fst fv) /\ (forall k, In k (map fst fv) <-> In k (map fst fs)) /\
          allP (fun nt => exists x, tbl_get (fst nt) fv = Some x /\ vty (snd nt) x) fs
      | _ => False
      end
  | TEnum vars =>
      match v with
      | VVariant tag p => with_assoc (fun t' => vty t' p) tag vars
      | _ => False
      end
  | TFun => exists i, v = VFun i
  end.

(* types whose values the type checker lets `<`, `<=`, `>`, `>=` compare (typechecker.rs `cmp`) *)
Fixpoint ord_ty (t : ty) : bool :=
  match t with
  | TInt | TFloat | TStr => true
  | TTuple ts => forallb ord_ty ts
  | _ => false
  end.

(* types on which `- * /` and unary minus are element-wise arithmetic (`sub`, `mul`, `div`) *)
Fixpoint num_ty (t : ty) : bool :=
  match t with
  | TInt | TFloat => true
  | TTuple ts => forallb num_ty ts
  | _ => false
  end.

(* `+` additionally admits str, also inside tuples (typechecker.rs `add`) *)
Fixpoint add_ty (t : ty) : bool :=
  match t with
  | TInt | TFloat | TStr => true
  | TTuple ts => forallb add_ty ts
  | _ => false
  end.

(* the Maybe enum of std/maybe.sy at payload type t *)
Definition TMaybe (t : ty) : ty := TEnum [("Just"%string, t); ("None"%string, TNil)].
