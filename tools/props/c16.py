"""C16 -- compilation is deterministic."""
import collections
import os
import shutil
import subprocess

import noise_gen
import vlib

GEN = ["GenHashSites"]
TRUSTED = [
    "Coq 8.16.1 kernel; vm_compute for C16_sites_covered / C16_all_sites_order_free; no axioms",
    "translator tools/gens/gen_hashsites.py (finds iterations over identifiers that are bound to a HashMap/HashSet anywhere in the five crates; over-approximates by name; lists every hand-written PartialEq/Ord/Hash impl with its derives and bodies)",
    "coq/Det/DocKeyTypes.v: the hand review of which fields each hand-written equality / hash reads; Det/HashKeys.v as the model of a hash map (buckets indexed by the hash value)",
    "coq/Det/DocHashSites.v: the hand review that assigns each site its consumer class (NotHash entries rest on reading the Rust types)",
    "Det/Consumers.v as the model of the consumer shapes (collect-into-map, min, first-error, sorted-first-error)",
    "the repetition oracle: harness `repeat` (in-process) and separate harness processes (fresh RandomState per process and per map)",
    "modelled, not verified: that no other source of nondeterminism exists (addresses, time, environment are not read by the compiler; checked only by the repetitions)",
]
ASSUMPTIONS = ["sources are served from an in-memory file map; --dump-tree and the formatter are outside the property"]
EXPLANATION = ("Every iteration over a hash container in the compiler is regenerated from the source on each run and must equal the "
               "reviewed list; each reviewed site's consumer class is proved order-free for all visiting orders; the real compiler "
               "is run repeatedly in one process and in fresh processes on valid and multi-error inputs.")


def build(ctx):
    return True, ""


def gen_cases(ctx):
    r = vlib.rng(ctx.seed, "c16")
    n = 600 if ctx.tier == "quick" else 8000
    st = noise_gen.stream(r, n, std_ratio=0.05)
    # make sure every multi-error shape is present several times
    for _ in range(120 if ctx.tier == "quick" else 1500):
        st.append(("multi-error", noise_gen.multi_error(r), "nostd,render"))
    # std bundled: projects of 1-3 files some of which redefine a name the std preamble imports, and plain valid ones
    stdnames = ["print", "map", "min", "max", "len", "push", "filter", "fold", "abs", "as_str"]
    for k in range(60 if ctx.tier == "quick" else 600):
        nfiles = r.randint(1, 3)
        files = {}
        for i in range(1, nfiles):
            files["/m%d.sy" % i] = "c%d :: %d\n" % (i, i)
        main = "".join("use m%d\n" % i for i in range(1, nfiles))
        if r.random() < 0.7:
            nm = r.choice(stdnames)
            main += r.choice(["%s :: fn x: int do end\n", "%s :: 3\n", "%s := \"s\"\n"]) % nm
        main += "start :: fn do\n  x := 1\nend\n"
        files["/main.sy"] = main
        st.append(("std-project", files, "std,render"))
    return st


def rare_cases(ctx):
    """inputs whose verdict goes through a hash-keyed lookup of an EQUAL BUT NOT IDENTICAL key (a repeated blob
    field / enum variant: two Identifiers with the same name and different spans).  With an inconsistent Hash the
    lookup misses unless the hashes collide (about 1% of the random states), so these are repeated many times."""
    r = vlib.rng(ctx.seed, "c16-rare")
    out = []
    names = ["a", "b", "value", "x1", "Zed"]
    for k in range(6 if ctx.tier == "quick" else 24):
        n = r.choice(names)
        m = r.choice([x for x in names if x != n])
        shape = k % 6
        if shape == 0:
            src = "B :: blob { %s: int, %s: int }\nstart :: fn do end\n" % (n, n)
        elif shape == 1:
            src = "B :: blob { %s: int, %s: str, %s: int }\nstart :: fn do end\n" % (n, m, n)
        elif shape == 2:
            src = "E :: enum %s, %s end\nstart :: fn do end\n" % (n.capitalize(), n.capitalize())
        elif shape == 3:
            src = "E :: enum %s int, %s, %s str end\nstart :: fn do end\n" % (n.capitalize(), m.capitalize(), n.capitalize())
        elif shape == 4:
            src = "B :: blob {\n  %s: int,\n  %s: int,\n\n  %s: int,\n}\nstart :: fn do end\n" % (n, m, n)
        else:
            src = "start :: fn do\n  x := 1\nend\nB :: blob { %s: fn -> int, %s: fn -> int }\n" % (n, n)
        out.append(("duplicate-key", {"/main.sy": src}, "nostd,render"))
    return out


def run_rare(ctx, cases):
    lines = [noise_gen.case_line(f, flags=fl) for _, f, fl in cases]
    reps = 500 if ctx.tier == "quick" else 4000
    res = vlib.sharded(lambda cs: vlib.run_lines([vlib.HARNESS_BIN, "--timeout", "120", "repeat", str(reps)], cs, 120), lines)
    bad = [i for i, x in enumerate(res) if not x.startswith("D ") or len(set(x.split(" ")[1:])) > 1]
    return bad, res, reps


def run_all(ctx, cases):
    lines = [noise_gen.case_line(f, flags=fl) for _, f, fl in cases]
    reps = 5 if ctx.tier == "quick" else 12
    procs = 3 if ctx.tier == "quick" else 6
    inproc = vlib.sharded(lambda cs: vlib.run_lines([vlib.HARNESS_BIN, "--timeout", "20", "repeat", str(reps)], cs, 20), lines)
    cross = []
    for k in range(procs):
        # every run in fresh processes AND in a different order, so that a result that depends on what the
        # process compiled before (state kept between compilations) shows up as a difference
        order = list(range(len(lines)))
        if k:
            vlib.rng(ctx.seed, "c16-order-%d" % k).shuffle(order)
        res = vlib.harness("compile", [lines[i] for i in order], timeout_s=20)
        back = [None] * len(lines)
        for pos, i in enumerate(order):
            back[i] = res[pos]
        cross.append(back)
    # ... and each std-bundled case once more as the FIRST compilation of its own process
    alone_idx = [i for i, l in enumerate(lines) if l.startswith("std,")][:(150 if ctx.tier == "quick" else 1200)]
    from concurrent.futures import ThreadPoolExecutor
    with ThreadPoolExecutor(16) as ex:
        alone = list(ex.map(lambda i: vlib.run_lines([vlib.HARNESS_BIN, "--timeout", "20", "compile"], [lines[i]], 20)[0], alone_idx))
    first = [None] * len(lines)
    for i, x in zip(alone_idx, alone):
        first[i] = x
    cross.append([first[i] if first[i] is not None else cross[0][i] for i in range(len(lines))])
    bad = []
    for i, l in enumerate(lines):
        ds = set(inproc[i].split(" ")[1:]) if inproc[i].startswith("D ") else {inproc[i]}
        outs = set(c[i] for c in cross)
        if len(ds) > 1 or len(outs) > 1:
            bad.append(i)
    return bad, inproc, cross, reps, procs


def tie(ctx):
    cases = gen_cases(ctx)
    bad, inproc, cross, reps, procs = run_all(ctx, cases)
    dist = collections.Counter(c[0] for c in cases)
    outcome = collections.Counter(x.split(" ")[0] for x in cross[0])
    nerr = collections.Counter()
    for x in cross[0]:
        if x.startswith("ERR"):
            nerr[min(len(x.split(" ")) - 1, 5)] += 1
    mism = []
    for i in bad[:5]:
        mism.append({"class": cases[i][0], "files": cases[i][1], "outputs": sorted(set(c[i][:200] for c in cross))})
    ctx.c16_bad = [cases[i] for i in bad]
    ctx.c16_outputs = {noise_gen.case_line(cases[i][1], flags=cases[i][2]): sorted(set(c[i][:400] for c in cross)) for i in bad}
    rare = rare_cases(ctx)
    rbad, rres, rreps = run_rare(ctx, rare)
    for i in rbad[:3]:
        mism.append({"class": rare[i][0], "files": rare[i][1],
                     "outputs": "%d distinct results in %d in-process compilations" % (len(set(rres[i].split(" ")[1:])), rreps)})
    ctx.c16_bad += [rare[i] for i in rbad]
    dist["duplicate-key x%d" % rreps] = len(rare)
    bad = bad + [len(cases) + i for i in rbad]
    distinct = len(set(noise_gen.case_line(f, flags=fl) for _, f, fl in cases if len(f) > 1 or len(next(iter(f.values()))) > 20))
    samples = [{"class": cases[i][0], "files": cases[i][1], "result": cross[0][i][:160]} for i in (0, len(cases) // 2, len(cases) - 1)]
    return {"name": "repeat", "ok": not bad, "mismatches": mism, "evaluations": len(cases) * (reps + procs) + len(rare) * rreps,
            "distinct_nontrivial": distinct,
            "rule": "mutated/spliced/truncated programs from /repo/tests, token soup, programs with 2-5 independent errors "
                    "(bad blob/enum field types, unknown generics, undefined names, duplicate globals, missing imports, bad "
                    "blob fields, bad case arms), multi-file projects with missing/conflicting/cyclic imports, valid programs, "
                    "std-bundled projects of 1-3 files redefining std names; "
                    "each compiled %d times in one process and in %d fresh processes that visit the cases in different orders, std-bundled "
                    "cases also as the first compilation of their own process (state kept between compilations); plus programs with a repeated blob field / "
                    "enum variant (verdict goes through a hash lookup of an equal, not identical key), each compiled %d times "
                    "in one process; non-trivial = more than 20 bytes of source" % (reps, procs, rreps),
            "samples": samples,
            "distribution": {"classes": dict(dist), "outcomes": dict(outcome), "errors_per_rejected_input": dict(nerr),
                             "in_process_repeats": reps, "processes": procs}}


# ---- the command line: the output file after a compilation does not depend on what an earlier one left there ----

_cli = {}


def cli_history(ctx):
    """`sylt -o FILE` run after other compilations wrote (longer and shorter) programs to the same FILE must leave the
    bytes a compilation into a new file leaves"""
    import prog_gen
    ok, out = vlib.build_sylt_bin()
    if not ok:
        return None, "cargo build of the sylt binary failed: " + out[-300:]
    exe = os.path.join(vlib.BUILD, "target", "release", "sylt")
    d = os.path.join(vlib.BUILD, "tmp", "c16-cli-%d" % os.getpid())
    shutil.rmtree(d, ignore_errors=True)
    os.makedirs(d)
    progs = []
    for i, size in enumerate([1, 4, 2, 6, 1, 3] if ctx.tier == "quick" else [1, 4, 2, 6, 1, 3, 8, 2, 5, 1, 7, 3]):
        src = prog_gen.program(vlib.rng(ctx.seed, "c16-cli-%d" % i), size)
        if i % 3 == 2:
            src += "\n// a trailing comment: same Lua as without it\n"
        f = os.path.join(d, "p%d.sy" % i)
        open(f, "w").write(src)
        progs.append(f)

    def comp(src, out):
        return subprocess.run([exe, "--no-std", "-o", out, src], capture_output=True, timeout=120).returncode
    fresh = {}
    for f in progs:
        o = f + ".fresh.lua"
        fresh[f] = open(o, "rb").read() if comp(f, o) == 0 else None
    bad = []
    n = 0
    shared = os.path.join(d, "out.lua")
    for a in progs:
        for b in progs:
            if fresh[a] is None or fresh[b] is None:
                continue
            if os.path.exists(shared):
                os.remove(shared)
            comp(a, shared)
            comp(b, shared)
            got = open(shared, "rb").read()
            n += 1
            if got != fresh[b]:
                bad.append({"class": "cli-output-file-history", "first": open(a).read(), "then": open(b).read(),
                            "what": "`sylt -o out.lua A; sylt -o out.lua B` leaves %d bytes in out.lua, `sylt -o new.lua B` leaves %d "
                                    "(len of A's program: %d)" % (len(got), len(fresh[b]), len(fresh[a]))})
    shutil.rmtree(d, ignore_errors=True)
    _cli["bad"] = bad
    return {"pairs": n, "programs": len(progs), "accepted": sum(1 for v in fresh.values() if v is not None),
            "distinct_program_sizes": len(set(len(v) for v in fresh.values() if v is not None)), "differences": len(bad)}, None


def always(ctx):
    stats, err = cli_history(ctx)
    if err:
        ctx.brk("oracle:cli-output-file-history", err)
        return {}
    for b in _cli["bad"][:2]:
        ctx.brk("property:cli-output-file-history", b["what"])
    return {"cli_output_file_history": stats}


def heavy_program(lines):
    """expensive to type-check (every call copies a wide generic function type), trivial otherwise"""
    return ("wide :: fn a -> * do\n    ret (" + ", ".join(["a"] * 600) + ")\nend\nstart :: fn do\n"
            + "".join("    x%d :: wide(%d)\n" % (i, i) for i in range(lines)) + "end\n")


def clock_oracle(ctx):
    """the same sources compiled by an undisturbed process and by one that only gets a few percent of the wall-clock
    time (SIGSTOP / SIGCONT rhythm): same exit status and the same bytes.  Only run when an obligation broke (it takes
    a minute or two)."""
    import signal
    import time
    ok, out = vlib.build_sylt_bin()
    if not ok:
        return None
    exe = os.path.join(vlib.BUILD, "target", "release", "sylt")
    d = os.path.join(vlib.BUILD, "tmp", "c16-clock-%d" % os.getpid())
    shutil.rmtree(d, ignore_errors=True)
    os.makedirs(d)
    src = os.path.join(d, "heavy.sy")
    lines = 500
    while True:                       # calibrate: about two seconds of undisturbed compilation
        open(src, "w").write(heavy_program(lines))
        t0 = time.time()
        a = subprocess.run([exe, "--no-std", "-o", os.path.join(d, "a.lua"), src], capture_output=True, timeout=600)
        dt = time.time() - t0
        if dt >= 2.0 or lines >= 64000:
            break
        lines *= 2
    p = subprocess.Popen([exe, "--no-std", "-o", os.path.join(d, "b.lua"), src], stdout=subprocess.PIPE, stderr=subprocess.PIPE)
    t0 = time.time()
    while p.poll() is None and time.time() - t0 < 600:
        os.kill(p.pid, signal.SIGSTOP)
        time.sleep(0.45)
        os.kill(p.pid, signal.SIGCONT)
        time.sleep(0.03)
    if p.poll() is None:
        p.kill()
    bout, berr = p.communicate()
    la = open(os.path.join(d, "a.lua"), "rb").read() if os.path.exists(os.path.join(d, "a.lua")) else b""
    lb = open(os.path.join(d, "b.lua"), "rb").read() if os.path.exists(os.path.join(d, "b.lua")) else b""
    res = None
    if a.returncode != p.returncode or la != lb or a.stdout != bout:
        res = {"class": "depends-on-the-clock", "files": {"/main.sy": "<heavy_program(%d) of tools/props/c16.py>" % lines},
               "what": "the same sources: an undisturbed process exits %s with %d bytes of Lua (%.1f s), a process that is "
                       "stopped 94%% of the time exits %s with %d bytes (%.0f s wall clock): %s"
                       % (a.returncode, len(la), dt, p.returncode, len(lb), time.time() - t0, (bout + berr)[:300].decode("utf-8", "replace")),
               "replay_cmd": "compile heavy_program(%d) once normally and once under a SIGSTOP/SIGCONT rhythm (tools/props/c16.py clock_oracle)" % lines,
               "failing_inputs_found": 1}
    shutil.rmtree(d, ignore_errors=True)
    return res


def search(ctx):
    if _cli.get("bad"):
        b = min(_cli["bad"], key=lambda x: len(x["first"]) + len(x["then"]))
        return {"class": b["class"], "files": {"/A.sy": b["first"], "/B.sy": b["then"]}, "what": b["what"],
                "replay_cmd": "sylt --no-std -o out.lua A.sy; sylt --no-std -o out.lua B.sy; sylt --no-std -o new.lua B.sy; cmp out.lua new.lua",
                "failing_inputs_found": len(_cli["bad"])}
    bad = getattr(ctx, "c16_bad", None)
    if bad is None:
        cases = gen_cases(ctx)
        idx, _, _, _, _ = run_all(ctx, cases)
        bad = [cases[i] for i in idx]
        rare = rare_cases(ctx)
        bad += [rare[i] for i in run_rare(ctx, rare)[0]]
    if not bad:
        # an obligation broke (search only runs then) and the repetitions show nothing: does the result depend on time?
        return clock_oracle(ctx)
    bad.sort(key=lambda c: sum(len(s) for s in c[1].values()))
    cls, files, flags = bad[0]
    line = noise_gen.case_line(files, flags=flags)
    outs = set()
    for _ in range(8):
        outs.add(vlib.harness("compile", [line], timeout_s=20)[0])
    if len(outs) < 2:        # rare: collect the distinct outputs from many fresh processes
        for _ in range(40):
            outs |= set(vlib.harness("compile", [line] * 50, timeout_s=20))
            if len(outs) > 1:
                break
    observed = getattr(ctx, "c16_outputs", {}).get(line)
    return {"class": cls, "files": files, "flags": flags, "distinct_outputs": sorted(o[:400] for o in outs),
            "outputs_observed_in_the_run": observed,
            "note": "" if len(outs) > 1 else "compiled alone the result is stable: it depends on what the same process compiled before "
                                             "(the run compares fresh processes that visit the cases in different orders)",
            "what": "the same sources compile to different results in different runs",
            "replay_cmd": "write the case line to a file and run `%s repeat 20 FILE`" % vlib.HARNESS_BIN, "case_line": line,
            "failing_inputs_found": len(bad)}


def replay_known(ctx, kf):
    return False


def replay(ctx, rep):
    fi = rep.get("failing_input") or {}
    if not fi:
        print("nothing to replay")
        return 0
    vlib.build_harness()
    outs = set()
    for _ in range(40):
        outs |= set(vlib.harness("compile", [fi["case_line"]] * 50, timeout_s=20))
        if len(outs) > 1:
            break
    print("distinct outputs:", len(outs))
    return 1 if len(outs) > 1 else 0
