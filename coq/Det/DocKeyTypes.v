(* The types of the compiler with a hand-written PartialEq / Ord / Hash, as reviewed BY HAND.
   `k_eq_fields` are the fields the equality looks at, `k_hash_fields` the fields the hash looks at
   (None: the type has no Hash, it can not be a HashMap/HashSet key).  Props/C16.v proves that the list
   regenerated from /repo equals this one (same derives, same impl bodies) and that every hashable type
   hashes exactly the fields it compares (Det/HashKeys.v: then lookups do not depend on RandomState). *)
From Coq Require Import String List.
Import ListNotations.
Local Open Scope string_scope.

Record key_type := mkKey {
  k_file : string; k_type : string; k_derives : string; k_eq : string; k_ord : string; k_hash : string;
  k_eq_fields : list string; k_hash_fields : option (list string) }.

Definition doc_key_types : list key_type := [
  mkKey "sylt-parser/src/expression.rs" "Expression" "Clone,Debug" "self.kind == other.kind" "" "" ["kind"] None;
  mkKey "sylt-parser/src/parser.rs" "Assignable" "Clone,Debug" "self.kind == other.kind" "" "" ["kind"] None;
  mkKey "sylt-parser/src/parser.rs" "Identifier" "Clone,Debug,Eq" "self.name == other.name" "self.name.cmp(&other.name)"
        "self.name.hash(state);" ["name"] (Some ["name"]);
  mkKey "sylt-parser/src/parser.rs" "Type" "Clone,Debug" "self.kind == other.kind" "" "" ["kind"] None;
  mkKey "sylt-parser/src/statement.rs" "Statement" "Clone,Debug" "self.kind == other.kind" "" "" ["kind"] None
].
