(* C14, parser level: call sugar.  `f' a, b` and `f(a, b)` parse to the same tree; `a -> f(b)` parses to an
   ArrowCall node; the condition `loop do` computes is `true`. *)
From Coq Require Import List NArith Bool Arith Lia.
From Sylt Require Import Syntax.Ast Syntax.Tok Parse.PrecTable Parse.Parser Parse.ParserProofs Parse.OpTree
  Parse.ExprRoundTrip.
Import ListNotations.

Ltac starter_cases t S :=
  destruct t as [?s|?s|?z|?s|?b| |?k|]; try (exfalso; exact S);
  [ | | match goal with k : kw |- _ => destruct k; try (exfalso; exact S) end ].

Section Sugar.
Variable T : ptab.
Hypothesis OK : tab_ok T.

Notation C := mkctx.

(* ---- tokens no expression can start with ---- *)
Definition no_start (t : tok) : Prop :=
  match t with
  | TK KFn | TK KPu | TK KIf | TK KCase | TK KLeftParen | TK KLeftBracket | TK KNil => False
  | TFloat _ | TInt _ | TBool _ | TStr _ | TIdent _ => False
  | t => pt_unary T t = None
  end.

Lemma prec_err q c f : no_start (token c) -> go T (S f) (QPrec q c) = Err (skip 1 c) [consumed c].
Proof.
  intros H. rewrite go_S. cbn [step]. unfold step_prec, prefix.
  destruct (token c) as [s|s|z|s|b| |k|]; cbn [no_start] in H; try contradiction.
  - rewrite H. reflexivity.
  - destruct k; try contradiction; cbn [no_start] in H; rewrite H; reflexivity.
  - rewrite H. reflexivity.
Qed.

(* ---- where the argument list of a prime call ends ----
   The list ends at the first position where, after an argument, there is no comma -- not even behind line
   breaks, blank lines and comment-only lines ([first_sig]) -- and no expression can start: end of input,
   `)`, or a token satisfying [no_start]; that token must not continue a postfix chain ( ' ( [ . ) or an
   operator expression, and must not be a comment. *)
Fixpoint first_sig (ts : list tok) : tok :=
  match ts with
  | [] => TEOF
  | TK KNewline :: r => first_sig r
  | TComment :: r => first_sig r
  | t :: _ => t
  end.

Definition prime_end (b : bool) (rest : list tok) : Prop :=
  match rest with
  | [] => True
  | t :: r' =>
      (t = TK KRightParen \/ no_start t) /\ follow_tok b t = true /\ pt_valid T t = false
      /\ first_sig rest <> TK KComma
  end.

Lemma prime_end_follow b rest : prime_end b rest -> follow b rest.
Proof. destruct rest as [|t r]; [trivial|]. intros (_ & F & _). exact F. Qed.

Lemma prime_end_follow_rest rest : prime_end false rest -> follow_rest T false rest.
Proof. destruct rest as [|t r]; [trivial|]. intros (_ & F & V & _). split; assumption. Qed.

(* skipping newlines (and the comments behind them) lands on [first_sig] *)
Lemma strip_false_first ts : forall p,
  first_sig (snd (strip false ts p)) = first_sig ts
  /\ length (snd (strip false ts p)) <= length ts
  /\ match snd (strip false ts p) with TComment :: _ => False | _ => True end.
Proof.
  induction ts as [|t ts IH]; intros p; [repeat split; auto|].
  cbn [strip]. destruct t as [s|s|z|s|b0| |k|]; try (repeat split; auto; fail).
  - destruct (IH (TComment :: p)) as (A & B & Cc). cbn [first_sig length]. repeat split; [exact A|lia|exact Cc].
  - destruct k; repeat split; auto.
Qed.

Lemma skip_nls_token n : forall ts p ov, length ts <= n ->
  match ts with TComment :: _ => False | _ => True end ->
  token (skip_while_nl (S n) (C p ts ov false)) = first_sig ts.
Proof.
  induction n as [|n IH]; intros ts p ov Hl Hc.
  - destruct ts as [|t ts]; [reflexivity|cbn [length] in Hl; lia].
  - destruct ts as [|t ts]; [reflexivity|].
    cbn [skip_while_nl]. unfold is_k. cbn [token post].
    destruct t as [s|s|z|s|b0| |k|]; try reflexivity; [contradiction|].
    destruct k; try reflexivity. cbn [tok_is kw_eqb first_sig].
    unfold skip. cbn [post pre over nl adv]. rewrite adv0.
    destruct (strip_false_first ts (TK KNewline :: p)) as (A & B & Cc).
    destruct (strip false ts (TK KNewline :: p)) as [p2 q2]. cbn [snd] in A, B, Cc.
    rewrite <- A. apply IH; [cbn [length] in Hl; lia|exact Cc].
Qed.

Lemma skip_nls_first p ts ov : match ts with TComment :: _ => False | _ => True end ->
  token (skip_nls (C p ts ov false)) = first_sig ts.
Proof.
  intros Hc. unfold skip_nls, local_fuel. cbn [post]. apply skip_nls_token; [lia|exact Hc].
Qed.

(* the argument loop stops at [rest] *)
Lemma args_stop acc p rest ov b f : prime_end b rest ->
  go T (S (S f)) (QArgs true acc (C p rest ov b)) = Ok (REs acc (C p rest ov b)).
Proof.
  intros H. rewrite go_S. cbn [step]. unfold step_args. cbn [token post].
  destruct rest as [|t r]; [reflexivity|]. destruct H as ([->|N] & _); [reflexivity|].
  assert (E : go T (S f) (QPrec (pt_entry T) (C p (t :: r) ov b)) = Err (skip 1 (C p (t :: r) ov b)) [consumed (C p (t :: r) ov b)])
    by (apply prec_err; exact N).
  assert (R : run (go T (S f)) (ptry (expression T (C p (t :: r) ov b))
                 (fun '(e, c1) => call (QArgs true (acc ++ [e]) (after_arg c1)))
                 (fun c' es => if true then ok (REs acc (C p (t :: r) ov b)) else reraise c' es))
              = Ok (REs acc (C p (t :: r) ov b))).
  { unfold expression. rewrite !run_ptry. unfold call_E. cbn [run]. rewrite E. reflexivity. }
  destruct t as [s|s|z|s|b0| |k|]; cbn [no_start] in N; try contradiction; try exact R; try reflexivity.
  destruct k; try contradiction; try exact R; reflexivity.
Qed.

(* after an argument that is followed by [rest], nothing is skipped *)
Lemma after_arg_stay p rest ov b : prime_end b rest -> after_arg (C p rest ov b) = C p rest ov b.
Proof.
  intros H. unfold after_arg. cbn [token post]. destruct rest as [|t r]; [reflexivity|].
  destruct H as (_ & F & _ & NC).
  destruct t as [s|s|z|s|b0| |k|]; try reflexivity.
  destruct k; try reflexivity.
  - exfalso. apply NC. reflexivity.
  - destruct b; [discriminate|]. cbn [tok_is kw_eqb orb andb].
    rewrite skip_nls_first by exact I.
    destruct (first_sig (TK KNewline :: r)) as [s|s|z|s|b0| |k|] eqn:E; try reflexivity.
    destruct k; try reflexivity. exfalso. apply NC. reflexivity.
Qed.

Lemma args_last_prime acc p t ts ov b f e p1 rest ov1 b1 : starter t -> prime_end b1 rest ->
  go T f (QPrec (pt_entry T) (C p (t :: ts) ov b)) = Ok (RE e (C p1 rest ov1 b1)) ->
  go T (S f) (QArgs true acc (C p (t :: ts) ov b)) = go T f (QArgs true (acc ++ [e]) (C p1 rest ov1 b1)).
Proof.
  intros S PE He. rewrite go_S. cbn [step]. unfold step_args.
  starter_cases t S; cbn [token post];
    (unfold expression; rewrite !run_ptry; unfold call_E; cbn [run]; rewrite He; cbn [get_E run ok ptry];
     rewrite after_arg_stay by exact PE; apply run_call).
Qed.

Lemma args_comma_prime acc p t ts ov b f e p1 t2 rest ov1 b1 : starter t -> starter t2 ->
  go T f (QPrec (pt_entry T) (C p (t :: ts) ov b)) = Ok (RE e (C p1 (TK KComma :: t2 :: rest) ov1 b1)) ->
  go T (S f) (QArgs true acc (C p (t :: ts) ov b))
  = go T f (QArgs true (acc ++ [e]) (C (TK KComma :: p1) (t2 :: rest) ov1 b1)).
Proof.
  intros S S2 He. rewrite go_S. cbn [step]. unfold step_args.
  starter_cases t S; cbn [token post];
    (unfold expression; rewrite !run_ptry; unfold call_E; cbn [run]; rewrite He; cbn [get_E run ok ptry];
     rewrite after_arg_comma by exact S2; apply run_call).
Qed.

(* the arguments of a prime call, printed with commas, followed by [rest] *)
Lemma prime_args : forall args, lower_args args = true -> dwf_args args = true ->
  forall acc p rest ov b, prime_end b rest ->
  exists f0, forall f, f0 <= f ->
    go T f (QArgs true acc (C p (pp_args args ++ rest) ov b))
    = Ok (REs (acc ++ emb_args args) (C (rev (pp_args args) ++ p) rest ov b)).
Proof.
  destruct (roundtrip_all T OK) as [HP _]. destruct (dwf_wf_all T OK) as [HW _].
  induction args as [|e r IH]; intros L D acc p rest ov b PE.
  - exists 2. intros f Hf. destruct f as [|[|f]]; try lia. cbn [pp_args app rev emb_args].
    rewrite app_nil_r. apply args_stop. exact PE.
  - cbn [lower_args] in L. apply andb_prop in L. destruct L as [L1 L2].
    cbn [dwf_args] in D. apply andb_prop in D. destruct D as [D1 D2].
    destruct r as [|e2 r2].
    + assert (F : follow b rest) by (apply prime_end_follow; exact PE).
      assert (St : stop_at T (pt_entry T) rest /\ hstop T e rest).
      { destruct rest as [|t r']; [split; exact I|]. destruct PE as (_ & _ & V & _). split; left; exact V. }
      destruct St as [St Hs].
      destruct (direct T OK e (HP e) L1 (HW e D1) (pt_entry T) p rest ov b (entry_accepts T OK e) Hs F St) as [f1 H1].
      destruct (hs_pp e rest) as (t & ts & E & S0).
      exists (S (S (S f1))). intros f Hf. destruct f as [|[|[|f]]]; try lia.
      cbn [pp_args emb_args]. revert H1. rewrite E. intros H1.
      rewrite (args_last_prime acc p t ts ov b (S (S f)) (emb e) _ rest _ _ S0 PE (H1 (S (S f)) ltac:(lia))).
      rewrite args_stop by exact PE. reflexivity.
    + destruct (direct T OK e (HP e) L1 (HW e D1) (pt_entry T) p (TK KComma :: pp_args (ACons e2 r2) ++ rest) ov b
                  (entry_accepts T OK e) (valid_hstop T e _ _ (ok_comma T OK)) eq_refl
                  (valid_stop_at T _ _ _ (ok_comma T OK))) as [f1 H1].
      destruct (IH L2 D2 (acc ++ [emb e]) (TK KComma :: rev (pp e) ++ p) rest ov b PE) as [f2 H2].
      destruct (hs_pp e (TK KComma :: pp_args (ACons e2 r2) ++ rest)) as (t & ts & E & S0).
      destruct (hs_args e2 r2 rest) as (t2 & ts2 & E2 & S2).
      exists (S (Nat.max f1 f2)). intros f Hf. destruct f as [|f]; [lia|].
      change (pp_args (ACons e (ACons e2 r2))) with (pp e ++ TK KComma :: pp_args (ACons e2 r2)).
      change (emb_args (ACons e (ACons e2 r2))) with (emb e :: emb_args (ACons e2 r2)).
      rewrite ?rev_app_distr. cbn [rev]. rewrite <- ?app_assoc. cbn [app].
      revert H1 H2. rewrite E, E2. intros H1 H2.
      rewrite (args_comma_prime acc p t ts ov b f (emb e) _ t2 ts2 _ _ S0 S2 (H1 f ltac:(lia))).
      rewrite H2 by lia. rewrite <- app_assoc. reflexivity.
Qed.

(* ---- the prime call itself ---- *)

Lemma sub_prime a p ts ov b f args p3 rest ov3 : clean b ts ->
  go T f (QArgs true [] (C (TK KPrime :: p) ts ov b)) = Ok (REs args (C p3 rest ov3 b)) ->
  go T (S f) (QSub a (C p (TK KPrime :: ts) ov b)) = go T f (QSub (ACall a args) (C p3 rest ov3 b)).
Proof.
  intros Hc Ha. rewrite go_S. cbn [step]. unfold step_sub. cbn [token post]. unfold assignable_call.
  cbv zeta. change (is_k KPrime (C p (TK KPrime :: ts) ov b)) with true. cbv iota.
  rewrite skip1; [|discriminate|exact Hc].
  unfold push_nl, set_nl. cbn [pre post over nl]. rewrite skip0 by exact Hc.
  rewrite !run_ptry. unfold call_Es. cbn [run]. rewrite Ha. cbn [get_Es run ok ptry].
  unfold pop_nl, set_nl. cbn [pre post over nl]. apply run_call.
Qed.

Lemma ta_err_plain p r ts ov b : is_capitalized r = false -> clean b ts -> is_k KDot (C (TIdent r :: p) ts ov b) = false ->
  is_err (type_assignable (C p (TIdent r :: ts) ov b)).
Proof.
  intros Hr Hc Hd. unfold type_assignable. cbn [token post]. rewrite Hr.
  rewrite skip1; [|discriminate|exact Hc]. unfold expect. rewrite Hd. exact I.
Qed.

Lemma prec_ident_plain q p r ts ov b f a c1 :
  is_capitalized r = false -> clean b ts -> is_k KDot (C (TIdent r :: p) ts ov b) = false ->
  go T f (QSub (ARead r) (C (TIdent r :: p) ts ov b)) = Ok (RA a c1) ->
  go T (S f) (QPrec q (C p (TIdent r :: ts) ov b)) = go T f (QLoop q (EGet a) c1).
Proof.
  intros Hr Hc Hd Ha. rewrite go_S. cbn [step]. unfold step_prec, prefix. cbn [token post].
  pose proof (ta_err_plain p r ts ov b Hr Hc Hd) as E.
  destruct (type_assignable (C p (TIdent r :: ts) ov b)); try contradiction.
  cbv iota. unfold assignable_p. cbn [token post].
  rewrite skip1; [|discriminate|exact Hc].
  rewrite !run_ptry. unfold call_A. cbn [run]. rewrite Ha. cbn [get_A get_E run ok ptry]. apply run_call.
Qed.

Definition prime_tokens (fn : name) (args : oargs) : list tok := TIdent fn :: TK KPrime :: pp_args args.
Definition paren_tokens (fn : name) (args : oargs) : list tok :=
  TIdent fn :: TK KLeftParen :: pp_args args ++ [TK KRightParen].
Definition call_tree (fn : name) (args : oargs) : expr := EGet (ACall (ARead fn) (emb_args args)).

Lemma args_head_clean b args rest : prime_end b rest -> clean b (pp_args args ++ rest).
Proof.
  intros PE. destruct args as [|e r].
  - cbn [pp_args app]. apply follow_is_clean. apply prime_end_follow. exact PE.
  - apply hs_clean. apply hs_args.
Qed.

Theorem prime_call_parses fn args : is_capitalized fn = false -> lower_args args = true -> dwf_args args = true ->
  forall rest, prime_end false rest ->
  exists f0, forall f, f0 <= f -> exists c,
    parse_expression T f (prime_tokens fn args ++ rest) = Ok (call_tree fn args, c)
    /\ post c = rest /\ consumed c = length (prime_tokens fn args).
Proof.
  intros Hfn L D rest PE.
  destruct (prime_args args L D [] [TK KPrime; TIdent fn] rest 0 false PE) as [f1 H1].
  exists (S (S (S (S f1)))). intros f Hf.
  exists (C (rev (pp_args args) ++ [TK KPrime; TIdent fn]) rest 0 false).
  destruct f as [|[|[|[|f]]]]; try lia.
  unfold parse_expression, init, prime_tokens. cbn [app].
  assert (Hc : clean false (pp_args args ++ rest)) by (apply args_head_clean; exact PE).
  rewrite (prec_ident_plain (pt_entry T) [] fn (TK KPrime :: pp_args args ++ rest) 0 false (S (S (S f)))
             (ACall (ARead fn) (emb_args args)) (C (rev (pp_args args) ++ [TK KPrime; TIdent fn]) rest 0 false) Hfn).
  - rewrite loop_stop.
    + cbn [as_E post]. split; [reflexivity|]. split; [reflexivity|].
      unfold consumed. cbn [pre over]. rewrite app_length, rev_length. cbn [length]. lia.
    + left. cbn [token post]. destruct rest as [|t r]; [apply (ok_eof T OK)|]. apply PE.
  - split; [discriminate|intros X; discriminate].
  - reflexivity.
  - rewrite (sub_prime (ARead fn) [TIdent fn] (pp_args args ++ rest) 0 false (S (S f)) (emb_args args)
               (rev (pp_args args) ++ [TK KPrime; TIdent fn]) rest 0 Hc).
    + apply sub_nil. cbn [nl post]. apply prime_end_follow. exact PE.
    + rewrite H1 by lia. reflexivity.
Qed.

Theorem paren_call_parses fn args : is_capitalized fn = false -> lower_args args = true -> dwf_args args = true ->
  forall rest, follow_rest T false rest ->
  exists f0, forall f, f0 <= f -> exists c,
    parse_expression T f (paren_tokens fn args ++ rest) = Ok (call_tree fn args, c)
    /\ post c = rest /\ consumed c = length (paren_tokens fn args).
Proof.
  intros Hfn L D rest F.
  destruct (parse_literal T OK (OGet fn (PCall args PNil))) with (rest := rest) as [f0 H]; [| |exact F|].
  - cbn [lower_ok lower_posts]. rewrite Hfn, L. reflexivity.
  - cbn [dwf dwf_posts]. rewrite D. reflexivity.
  - exists f0. intros f Hf. destruct (H f Hf) as (c & A & B & Cc & _). exists c.
    split; [exact A|split; [exact B|exact Cc]].
Qed.

(* C14 prime_call: both spellings give the same tree *)
Theorem prime_call fn args : is_capitalized fn = false -> lower_args args = true -> dwf_args args = true ->
  forall rest, prime_end false rest ->
  exists f0, forall f, f0 <= f -> exists c1 c2,
    parse_expression T f (prime_tokens fn args ++ rest) = Ok (call_tree fn args, c1)
    /\ parse_expression T f (paren_tokens fn args ++ rest) = Ok (call_tree fn args, c2)
    /\ post c1 = rest /\ post c2 = rest.
Proof.
  intros Hfn L D rest PE.
  destruct (prime_call_parses fn args Hfn L D rest PE) as [f1 H1].
  destruct (paren_call_parses fn args Hfn L D rest (prime_end_follow_rest rest PE)) as [f2 H2].
  exists (Nat.max f1 f2). intros f Hf.
  destruct (H1 f ltac:(lia)) as (c1 & A1 & B1 & _). destruct (H2 f ltac:(lia)) as (c2 & A2 & B2 & _).
  exists c1, c2. auto.
Qed.

(* ---- arrow call ---- *)

Definition arrow_ok : Prop := pt_valid T (TK KArrow) = true /\ pt_entry T <= pt_prec T (TK KArrow).

Definition atomic (l : ox) : bool := match l with OBin _ _ _ | OUn _ _ => false | _ => true end.

Definition arrow_tree (l : ox) (fn : name) (args : oargs) : expr :=
  EGet (AArrowCall (emb l) (ARead fn) (emb_args args)).

Lemma loop_arrow q lhs p ts ov b f rhs_callee rhs_args c2 :
  arrow_ok -> q <= pt_prec T (TK KArrow) -> clean b ts ->
  go T f (QPrec (pt_entry T) (C (TK KArrow :: p) ts ov b)) = Ok (RE (EGet (ACall rhs_callee rhs_args)) c2) ->
  go T (S f) (QLoop q lhs (C p (TK KArrow :: ts) ov b))
  = go T f (QLoop q (EGet (AArrowCall lhs rhs_callee rhs_args)) c2).
Proof.
  intros [Hv He] Hq Hc Hr. rewrite go_S. cbn [step]. unfold step_loop. cbn [token post].
  apply Nat.leb_le in Hq. rewrite Hq, Hv. cbn [andb].
  unfold infix. cbn [token post tok_is kw_eqb]. unfold arrow_call.
  unfold pexpect, expect, is_k. cbn [token post tok_is kw_eqb].
  rewrite skip1; [|discriminate|exact Hc].
  rewrite !run_ptry. cbn [run]. unfold expression. rewrite !run_ptry. unfold call_E. cbn [run]. rewrite Hr.
  cbn [get_E run ok ptry prepend]. apply run_call.
Qed.

Theorem arrow_call_parses l fn args : arrow_ok ->
  atomic l = true -> lower_ok l = true -> dwf l = true ->
  is_capitalized fn = false -> lower_args args = true -> dwf_args args = true ->
  forall rest, follow_rest T false rest ->
  exists f0, forall f, f0 <= f -> exists c,
    parse_expression T f (pp l ++ TK KArrow :: paren_tokens fn args ++ rest) = Ok (arrow_tree l fn args, c)
    /\ post c = rest.
Proof.
  intros AO At Ll Dl Hfn La Da rest F.
  destruct (roundtrip_all T OK) as [HP _]. destruct (dwf_wf_all T OK) as [HW _].
  (* the call on the right of the arrow *)
  destruct (roundtrip_literal T OK (OGet fn (PCall args PNil))) with
    (p := TK KArrow :: rev (pp l)) (rest := rest) (ov := 0) (b := false) as [f1 H1].
  { cbn [lower_ok lower_posts]. rewrite Hfn, La. reflexivity. }
  { cbn [dwf dwf_posts]. rewrite Da. reflexivity. }
  { exact F. }
  set (c2 := C (rev (pp (OGet fn (PCall args PNil))) ++ TK KArrow :: rev (pp l)) rest 0 false) in *.
  assert (HL : go T (S (S f1)) (QLoop (pt_entry T) (emb l)
                 (C (rev (pp l) ++ []) (TK KArrow :: paren_tokens fn args ++ rest) 0 false))
               = Ok (RE (arrow_tree l fn args) c2)).
  { rewrite app_nil_r.
    rewrite (loop_arrow (pt_entry T) (emb l) (rev (pp l)) (paren_tokens fn args ++ rest) 0 false (S f1)
               (ARead fn) (emb_args args) c2 AO (proj2 AO)).
    - apply loop_stop. left. subst c2. cbn [token post]. destruct rest as [|t r]; [apply (ok_eof T OK)|apply F].
    - split; [discriminate|intros X; discriminate].
    - apply (H1 (S f1)). lia. }
  destruct (HP l Ll (HW l Dl) (pt_entry T) [] (TK KArrow :: paren_tokens fn args ++ rest) 0 false (S (S f1))
              (RE (arrow_tree l fn args) c2)) as [f0 H0].
  - apply entry_accepts. exact OK.
  - right. destruct l; try discriminate; exact I.
  - reflexivity.
  - exact HL.
  - exists f0. intros f Hf. exists c2. unfold parse_expression, init.
    rewrite (go_ok_le T f0 f _ _ Hf H0). split; reflexivity.
Qed.

(* ---- redundant parentheses: the trees differ only in Parenthesis nodes ---- *)

Theorem paren_insignificant e1 e2 : unparen e1 = unparen e2 ->
  lower_ok e1 = true -> dwf e1 = true -> lower_ok e2 = true -> dwf e2 = true ->
  forall rest, follow_rest T false rest ->
  exists f0, forall f, f0 <= f -> exists t1 c1 t2 c2,
    parse_expression T f (pp e1 ++ rest) = Ok (t1, c1) /\ parse_expression T f (pp e2 ++ rest) = Ok (t2, c2)
    /\ strip_e t1 = strip_e t2 /\ post c1 = rest /\ post c2 = rest.
Proof.
  intros U L1 D1 L2 D2 rest F.
  destruct (parse_literal T OK e1 L1 D1 rest F) as [f1 H1].
  destruct (parse_literal T OK e2 L2 D2 rest F) as [f2 H2].
  exists (Nat.max f1 f2). intros f Hf.
  destruct (H1 f ltac:(lia)) as (c1 & A1 & B1 & _). destruct (H2 f ltac:(lia)) as (c2 & A2 & B2 & _).
  exists (emb e1), c1, (emb e2), c2. repeat split; auto.
  destruct strip_emb_all as [S _]. rewrite !S, U. reflexivity.
Qed.

(* ---- `loop do` ---- *)

Definition same_modulo_pre (c c' : ctx) : Prop := post c = post c' /\ over c = over c' /\ nl c = nl c'.

Lemma adv_indep post : forall n pre pre',
  snd (fst (adv post n pre)) = snd (fst (adv post n pre')) /\ snd (adv post n pre) = snd (adv post n pre').
Proof.
  induction post as [|t post IH]; intros n pre pre'.
  - destruct n; split; reflexivity.
  - destruct n; [split; reflexivity|]. cbn [adv]. apply IH.
Qed.

Lemma strip_indep b post : forall pre pre', snd (strip b post pre) = snd (strip b post pre').
Proof.
  induction post as [|t post IH]; intros pre pre'; [reflexivity|].
  cbn [strip]. destruct t as [s|s|z|s|b0| |k|]; try reflexivity; [apply IH|].
  destruct k; try reflexivity. destruct b; [apply IH|reflexivity].
Qed.

Lemma skip_smp n c c' : same_modulo_pre c c' -> same_modulo_pre (skip n c) (skip n c').
Proof.
  intros (Hp & Ho & Hn). unfold skip. rewrite <- Hp, <- Ho, <- Hn.
  destruct (adv_indep (post c) n (pre c) (pre c')) as [A1 A2].
  destruct (adv (post c) n (pre c)) as [[p1 q1] l1]. destruct (adv (post c) n (pre c')) as [[p2 q2] l2].
  cbn [fst snd] in A1, A2. subst q2 l2.
  pose proof (strip_indep (nl c) q1 p1 p2) as S0.
  destruct (strip (nl c) q1 p1) as [p3 q3]. destruct (strip (nl c) q1 p2) as [p4 q4]. cbn [snd] in S0. subst q4.
  repeat split.
Qed.

Lemma prec_bool q p v ts ov b f : clean b ts ->
  go T (S f) (QPrec q (C p (TBool v :: ts) ov b)) = go T f (QLoop q (EBool v) (C (TBool v :: p) ts ov b)).
Proof.
  intros Hc. rewrite go_S. cbn [step]. unfold step_prec, prefix. cbn [token post]. unfold value.
  cbn [token post]. rewrite skip1; [|discriminate|exact Hc]. cbn [ptry get_E ok]. apply run_call.
Qed.

(* the tail of `statement`: what happens after the loop body has been parsed *)
Definition loop_finish (old : bool) (cond : expr) (body : stmt) (c3 : ctx) : res out :=
  match prev c3 with
  | None => Panic
  | Some cp =>
      let c1 := if is_k KNewline cp then cp else c3 in
      match (if is_k KEnd c1 || is_k KElse c1 || is_k KElif c1 then Ok c1 else expect KNewline c1) with
      | Ok c2 => Ok (RS (SLoop cond body) (pop_nl old c2))
      | Err c es => Err c es
      | Fuel => Fuel
      | Panic => Panic
      end
  end.

(* `loop do <body>`: the condition is the literal `true`, and the body statement is parsed from `do` *)
Lemma loop_do_step p ts ov b f body c3 :
  go T f (QStmt (C (TK KLoop :: p) (TK KDo :: ts) ov false)) = Ok (RS body c3) ->
  go T (S f) (QStmt (C p (TK KLoop :: TK KDo :: ts) ov b)) = loop_finish b (EBool true) body c3.
Proof.
  intros Hb. rewrite go_S. cbn [step]. unfold step_stmt, push_nl, set_nl. cbn [pre post over nl].
  rewrite skip0 by (split; [discriminate|intros X; discriminate]).
  unfold look3. cbn [token post].
  rewrite skip1; [|discriminate|split; [discriminate|intros X; discriminate]].
  change (is_k KDo (C (TK KLoop :: p) (TK KDo :: ts) ov false)) with true. cbv iota.
  cbn [ok ptry]. unfold statement. rewrite !run_ptry. unfold call_S. cbn [run]. rewrite Hb.
  cbn [get_S run ok ptry]. unfold loop_finish, pexpect.
  destruct (prev c3) as [cp|]; [|reflexivity]. cbn [run ok ptry]. cbv zeta.
  set (c1 := if is_k KNewline cp then cp else c3).
  destruct (is_k KEnd c1 || is_k KElse c1 || is_k KElif c1).
  - reflexivity.
  - cbn [run]. destruct (expect KNewline c1); reflexivity.
Qed.

(* `loop true do <body>`: the same, with one more token behind the body's starting point *)
Lemma loop_true_do_step p ts ov b f body c3 :
  pt_valid T (TK KDo) = false ->
  go T (S (S f)) (QStmt (C (TBool true :: TK KLoop :: p) (TK KDo :: ts) ov false)) = Ok (RS body c3) ->
  go T (S (S (S f))) (QStmt (C p (TK KLoop :: TBool true :: TK KDo :: ts) ov b))
  = loop_finish b (EBool true) body c3.
Proof.
  intros Hdo Hb. rewrite go_S. cbn [step]. unfold step_stmt, push_nl, set_nl. cbn [pre post over nl].
  rewrite skip0 by (split; [discriminate|intros X; discriminate]).
  unfold look3. cbn [token post].
  rewrite skip1; [|discriminate|split; [discriminate|intros X; discriminate]].
  change (is_k KDo (C (TK KLoop :: p) (TBool true :: TK KDo :: ts) ov false)) with false. cbv iota.
  unfold expression, statement. rewrite !run_ptry. unfold call_E. cbn [run].
  rewrite prec_bool by (split; [discriminate|intros X; discriminate]).
  rewrite loop_stop by (left; exact Hdo).
  cbn [get_E run ok ptry]. rewrite !run_ptry. unfold call_S. cbn [run]. rewrite Hb.
  cbn [get_S run ok ptry]. unfold loop_finish, pexpect.
  destruct (prev c3) as [cp|]; [|reflexivity]. cbn [run ok ptry]. cbv zeta.
  set (c1 := if is_k KNewline cp then cp else c3).
  destruct (is_k KEnd c1 || is_k KElse c1 || is_k KElif c1).
  - reflexivity.
  - cbn [run]. destruct (expect KNewline c1); reflexivity.
Qed.

(* two outcomes that agree up to what lies behind the cursor *)
Definition same_out (r r' : res out) : Prop :=
  match r, r' with
  | Ok (RS s1 c1), Ok (RS s2 c2) => s1 = s2 /\ same_modulo_pre c1 c2
  | Err c1 es1, Err c2 es2 => same_modulo_pre c1 c2
  | Panic, Panic => True
  | _, _ => False
  end.

Definition prev_smp (c3 c3' : ctx) : Prop :=
  match prev c3, prev c3' with
  | Some a, Some b => same_modulo_pre a b
  | None, None => True
  | _, _ => False
  end.

Lemma loop_finish_smp b cond body c3 c3' :
  same_modulo_pre c3 c3' -> prev_smp c3 c3' ->
  same_out (loop_finish b cond body c3) (loop_finish b cond body c3').
Proof.
  unfold prev_smp, loop_finish. intros H3 H.
  destruct (prev c3) as [cp|], (prev c3') as [cp'|]; try contradiction; [|exact I].
  assert (Tp : token cp = token cp') by (unfold token; destruct H as (-> & _); reflexivity).
  cbv zeta.
  assert (Ek : is_k KNewline cp' = is_k KNewline cp) by (unfold is_k; rewrite Tp; reflexivity). rewrite Ek.
  assert (H1 : same_modulo_pre (if is_k KNewline cp then cp else c3) (if is_k KNewline cp then cp' else c3'))
    by (destruct (is_k KNewline cp); assumption).
  set (c1 := if is_k KNewline cp then cp else c3) in *.
  set (c1' := if is_k KNewline cp then cp' else c3') in *.
  assert (Tk : token c1 = token c1') by (unfold token; destruct H1 as (-> & _); reflexivity).
  unfold is_k, expect, is_k, raise. rewrite <- Tk.
  destruct (tok_is KEnd (token c1) || tok_is KElse (token c1) || tok_is KElif (token c1)).
  - split; [reflexivity|]. unfold pop_nl, set_nl. destruct H1 as (A & B & _). repeat split; assumption.
  - pose proof (skip_smp 1 _ _ H1) as (A & B & D).
    destruct (tok_is KNewline (token c1)); cbn [same_out].
    + split; [reflexivity|]. unfold pop_nl, set_nl. repeat split; assumption.
    + repeat split; assumption.
Qed.

(* C14 loop_do, conditional form: IF the body statement parses to the same statement from the two starting
   points (which differ only in what lies BEHIND the cursor) and leaves the cursor in the same place, THEN
   `loop do B` and `loop true do B` parse to the same statement and leave the cursor in the same place. *)
Theorem loop_do_conditional p ts ov b f body c3 c3' :
  pt_valid T (TK KDo) = false ->
  go T (S (S f)) (QStmt (C (TK KLoop :: p) (TK KDo :: ts) ov false)) = Ok (RS body c3) ->
  go T (S (S f)) (QStmt (C (TBool true :: TK KLoop :: p) (TK KDo :: ts) ov false)) = Ok (RS body c3') ->
  same_modulo_pre c3 c3' -> prev_smp c3 c3' ->
  same_out (go T (S (S (S f))) (QStmt (C p (TK KLoop :: TK KDo :: ts) ov b)))
           (go T (S (S (S f))) (QStmt (C p (TK KLoop :: TBool true :: TK KDo :: ts) ov b))).
Proof.
  intros Hdo HA HB H3 Hs.
  rewrite (loop_do_step p ts ov b (S (S f)) body c3 HA).
  rewrite (loop_true_do_step p ts ov b f body c3' Hdo HB).
  apply loop_finish_smp; assumption.
Qed.

End Sugar.

(* Proved in PreSim.v (which needs the progress facts of ParserTotal.v, hence not here): the statement parser's
   result does not depend on the tokens behind the cursor.  It is true of the real parser only because `prev()`
   (used by `loop`) never steps back further than the loop's own tokens: "a successful statement consumes at
   least one non-comment token". *)
Definition statement_pre_insensitive_statement (T : ptab) : Prop :=
  forall f c c' s c3, same_modulo_pre c c' ->
    go T f (QStmt c) = Ok (RS s c3) ->
    exists c3', go T f (QStmt c') = Ok (RS s c3') /\ same_modulo_pre c3 c3' /\ prev_smp c3 c3'.

(* the unconditional form of C14 loop_do; follows from [loop_do_conditional] and the statement above
   (PreSim.v: [loop_do], and [loop_do_converse] for the other direction) *)
Definition loop_do_statement (T : ptab) : Prop :=
  forall p ts ov b f s c,
    go T f (QStmt (mkctx p (TK KLoop :: TK KDo :: ts) ov b)) = Ok (RS s c) ->
    exists g c', go T g (QStmt (mkctx p (TK KLoop :: TBool true :: TK KDo :: ts) ov b)) = Ok (RS s c')
                 /\ same_modulo_pre c c'.
