(* lower_ignores_spans: the lowering to IR (Back/IR.v) and hence the emitted text (Back/Emit.v) do not depend on the
   spans of the resolved program, except for the LINE of an `<!>` statement, which is printed in the message
   "Reached unreachable code on line N".  `er` erases every other span (and, since the lowering never reads a type,
   the spans inside types as well); two programs with `er r1 = er r2` (same_modulo_spans) lower to the same IR and
   emit the same text.  Structure after Types/Erasure.v (lower_ignores_annotations). *)
From Coq Require Import String List NArith ZArith Bool.
From Sylt Require Import Syntax.Resolved Back.IR Back.Emit.
Import ListNotations.

Definition sp0 : span := span_zero 0.
(* what survives of the span of an `<!>`: its first line *)
Definition line_only (sp : span) : span := mkSpan 0 (sp_line0 sp) 0 0 0.

Fixpoint er_ty (t : ty) : ty :=
  match t with
  | TUser r args _ => TUser r (map er_ty args) sp0
  | TImplied _ => TImplied sp0
  | TResolved b _ => TResolved b sp0
  | TGeneric n _ => TGeneric n sp0
  | TTuple ts _ => TTuple (map er_ty ts) sp0
  | TList t' _ => TList (er_ty t') sp0
  | TFn cs ps r p _ => TFn cs (map er_ty ps) (er_ty r) p sp0
  end.

Definition er_param (p : string * N * span * ty) : string * N * span * ty :=
  (fst (fst (fst p)), snd (fst (fst p)), sp0, er_ty (snd p)).

Fixpoint er_e (e : expr) : expr :=
  match e with
  | ERead v _ => ERead v sp0
  | EVariant ev v value _ => EVariant ev v (er_e value) sp0
  | ECall f args _ => ECall (er_e f) (map er_e args) sp0
  | EBlobAccess value field _ => EBlobAccess (er_e value) field sp0
  | EIndex value index _ => EIndex (er_e value) (er_e index) sp0
  | EBinOp op a b _ => EBinOp op (er_e a) (er_e b) sp0
  | EUniOp op a _ => EUniOp op (er_e a) sp0
  | EIf branches _ => EIf (map er_b branches) sp0
  | ECase m branches fall _ =>
    ECase (er_e m) (map er_c branches) (match fall with Some l => Some (map er_s l) | None => None end) sp0
  | EFunction name params rty body pure _ =>
    EFunction name (map er_param params) (er_ty rty) (map er_s body) pure sp0
  | EBlob blob fields self_var _ => EBlob blob (map (fun fe => (fst fe, er_e (snd fe))) fields) self_var sp0
  | ECollection k values _ => ECollection k (map er_e values) sp0
  | EFloat r _ => EFloat r sp0
  | EInt z _ => EInt z sp0
  | EStr s _ => EStr s sp0
  | EBool b _ => EBool b sp0
  | ENil _ => ENil sp0
  end
with er_b (b : ifbranch) : ifbranch :=
  match b with
  | IfBranch cond body _ => IfBranch (match cond with Some c => Some (er_e c) | None => None end) (map er_s body) sp0
  end
with er_c (b : casebranch) : casebranch :=
  match b with
  | CaseBranch pat _ var body _ => CaseBranch pat sp0 var (map er_s body) sp0
  end
with er_s (s : stmt) : stmt :=
  match s with
  | SAssignment op target value _ => SAssignment op (er_e target) (er_e value) sp0
  | SBlob name var _ tvars fields ext => SBlob name var sp0 tvars (map (fun f => (fst f, (sp0, er_ty (snd (snd f))))) fields) ext
  | SEnum name var _ tvars variants => SEnum name var sp0 tvars (map (fun f => (fst f, (sp0, er_ty (snd (snd f))))) variants)
  | SDefinition name var kind t value _ => SDefinition name var kind (er_ty t) (er_e value) sp0
  | SExternalDefinition name var kind t _ => SExternalDefinition name var kind (er_ty t) sp0
  | SLoop cond body _ => SLoop (er_e cond) (map er_s body) sp0
  | SBreak _ => SBreak sp0
  | SContinue _ => SContinue sp0
  | SRet value _ => SRet (match value with Some v => Some (er_e v) | None => None end) sp0
  | SBlock stmts _ => SBlock (map er_s stmts) sp0
  | SStatementExpression value _ => SStatementExpression (er_e value) sp0
  | SUnreachable sp => SUnreachable (line_only sp)
  end.

Definition er_var (v : var) : var := mkVar (v_id v) (v_name v) sp0 (v_global v) (v_kind v).

Definition er (r : resolved) : resolved := mkResolved (map er_var (r_vars r)) (map er_s (r_stmts r)).

(* two resolved programs that differ only in spans, the line of every `<!>` excepted *)
Definition same_modulo_spans (r1 r2 : resolved) : Prop := er r1 = er r2.

Lemma bind_ext {A B} (m m' : IR.M A) (k k' : A -> IR.M B) :
  (forall c, m c = m' c) -> (forall a c, k a c = k' a c) -> forall c, IR.bind m k c = IR.bind m' k' c.
Proof. intros Hm Hk c. unfold IR.bind. rewrite Hm. destruct (m' c) as [[a c']| |]; auto. Qed.

Lemma mapM_ext {A B} (f f' : A -> IR.M B) : (forall x c, f x c = f' x c) -> forall l c, IR.mapM f l c = IR.mapM f' l c.
Proof.
  intros H. induction l as [|x l IH]; intros c; cbn [IR.mapM]; [reflexivity|].
  apply bind_ext; [intros; apply H|intros y c']. apply bind_ext; [apply IH|reflexivity].
Qed.

Lemma mapM_map {A B C} (f : B -> IR.M C) (g : A -> B) l : IR.mapM f (map g l) = IR.mapM (fun x => f (g x)) l.
Proof. induction l as [|x l IH]; cbn [IR.mapM map]; [reflexivity|]. rewrite IH. reflexivity. Qed.

Section Er.
  Variable stm : stmt -> N -> IR.M (list ir).
  Variable exp : expr -> N -> IR.M (list ir * N).
  Hypothesis Hs : forall s ctx c, stm (er_s s) ctx c = stm s ctx c.
  Hypothesis He : forall e ctx c, exp (er_e e) ctx c = exp e ctx c.

  Lemma lower_list_er ss ctx c : lower_list stm (map er_s ss) ctx c = lower_list stm ss ctx c.
  Proof.
    unfold lower_list. apply bind_ext; [|reflexivity]. intros c'. rewrite mapM_map. apply mapM_ext. intros; apply Hs.
  Qed.

  Lemma lower_fbody_er body ctx c : lower_fbody stm exp (map er_s body) ctx c = lower_fbody stm exp body ctx c.
  Proof.
    unfold lower_fbody. rewrite <- map_rev. destruct (rev body) as [|last init]; cbn [map]; [reflexivity|].
    apply bind_ext; [intros; rewrite <- map_rev; apply lower_list_er|intros b c'].
    apply bind_ext; [|reflexivity]. intros c''.
    destruct last; cbn [er_s];
      try (match goal with |- stm ?x ctx c'' = stm ?y ctx c'' => exact (Hs y ctx c'') end).
    apply bind_ext; [intros; apply He|reflexivity].
  Qed.

  Lemma lower_eblock_er out block ctx c : lower_eblock stm exp out (map er_s block) ctx c = lower_eblock stm exp out block ctx c.
  Proof.
    unfold lower_eblock. rewrite <- map_rev. destruct (rev block) as [|last rest] eqn:E; cbn [map].
    - apply lower_list_er.
    - destruct last; cbn [er_s]; try apply lower_list_er.
      apply bind_ext; [intros; rewrite <- map_rev; apply lower_list_er|intros ops c'].
      apply bind_ext; [intros; apply He|reflexivity].
  Qed.

  Lemma lower_if_branch_er out ctx br c :
    lower_if_branch stm exp out ctx (er_b br) c = lower_if_branch stm exp out ctx br c.
  Proof.
    destruct br as [[cond|] body sp]; cbn [er_b lower_if_branch].
    - apply bind_ext; [intros; apply He|intros rc c']. apply bind_ext; [intros; apply lower_eblock_er|reflexivity].
    - apply bind_ext; [reflexivity|intros v c']. apply bind_ext; [intros; apply lower_eblock_er|reflexivity].
  Qed.

  Lemma lower_case_branch_er out tag value ctx br c :
    lower_case_branch stm exp out tag value ctx (er_c br) c = lower_case_branch stm exp out tag value ctx br c.
  Proof.
    destruct br; cbn [er_c lower_case_branch]. apply bind_ext; [intros; apply lower_eblock_er|reflexivity].
  Qed.
End Er.

Ltac bx :=
  repeat first
    [ reflexivity
    | apply bind_ext; [intros ?|intros ? ?] ].

Lemma lower_er : forall fuel,
  (forall e ctx c, expression fuel (er_e e) ctx c = expression fuel e ctx c) /\
  (forall s ctx c, statement fuel (er_s s) ctx c = statement fuel s ctx c) /\
  (forall var value ctx c, definition fuel var (er_e value) ctx c = definition fuel var value ctx c).
Proof.
  induction fuel as [|f (IHe & IHs & IHd)]; [repeat split; reflexivity|].
  assert (LL : forall ss ctx c, lower_list (statement f) (map er_s ss) ctx c = lower_list (statement f) ss ctx c)
    by (intros; now apply lower_list_er).
  assert (LF : forall b ctx c, lower_fbody (statement f) (expression f) (map er_s b) ctx c
                               = lower_fbody (statement f) (expression f) b ctx c)
    by (intros; now apply lower_fbody_er).
  assert (LE : forall o b ctx c, lower_eblock (statement f) (expression f) o (map er_s b) ctx c
                                 = lower_eblock (statement f) (expression f) o b ctx c)
    by (intros; now apply lower_eblock_er).
  assert (ME : forall l ctx c, IR.mapM (fun a => expression f a ctx) (map er_e l) c = IR.mapM (fun a => expression f a ctx) l c).
  { intros. rewrite mapM_map. apply mapM_ext. intros; apply IHe. }
  assert (MS : forall l ctx c, IR.mapM (fun s => statement f s ctx) (map er_s l) c = IR.mapM (fun s => statement f s ctx) l c).
  { intros. rewrite mapM_map. apply mapM_ext. intros; apply IHs. }
  repeat split.
  - intros e ctx c. destruct e; cbn [er_e expression]; try reflexivity.
    + bx; apply IHe.
    + bx; try apply IHe; try apply ME.
    + bx; apply IHe.
    + bx; apply IHe.
    + destruct op; bx; apply IHe.
    + destruct op; bx; apply IHe.
    + bx. rewrite mapM_map. apply mapM_ext. intros; now apply lower_if_branch_er.
      rewrite (map_map er_b (fun _ : ifbranch => IEnd) branches). reflexivity.
    + bx; try apply IHe.
      * rewrite mapM_map. apply mapM_ext. intros; now apply lower_case_branch_er.
      * destruct fall_through; [apply LE|reflexivity].
      * rewrite (map_map er_c (fun _ : casebranch => IEnd) branches). reflexivity.
    + rewrite map_map. cbn [fst snd]. bx. apply LF.
    + bx. rewrite mapM_map. apply mapM_ext. intros [k e'] c'. cbn [fst snd]. bx. apply IHe.
    + match goal with c0 : collection |- _ => destruct c0 end; bx; apply ME.
  - intros s ctx c. destruct s; cbn [er_s statement]; try reflexivity.
    + apply bind_ext; [reflexivity|intros res c1].
      apply bind_ext; [intros c2; destruct target; cbn [er_e]; bx; apply IHe|intros [[pre_code current] post_code] c2].
      bx. apply IHe.
    + apply IHd.
    + bx; first [apply IHe|apply LL|apply MS].
    + destruct value; cbn; bx. apply IHe.
    + first [apply LL|bx; apply MS].
    + bx. apply IHe.
  - intros var value ctx c. destruct value; cbn [er_e definition];
      try (apply bind_ext; [|reflexivity]; intros cc;
           match goal with |- expression f ?x ctx cc = expression f ?y ctx cc => exact (IHe y ctx cc) end).
    rewrite map_map. cbn [fst snd]. bx. apply LF.
Qed.

Lemma find_start_er vars : IR.find_start (map er_var vars) = IR.find_start vars.
Proof.
  unfold IR.find_start. induction vars as [|v vars IH]; cbn [map find]; [reflexivity|].
  cbn [er_var v_name v_global]. destruct (String.eqb (v_name v) "start" && v_global v); [reflexivity|exact IH].
Qed.

(* the whole lowering, and hence the emitted text, is the same for programs that differ only in spans *)
Theorem lower_ignores_spans fuel r : IR.lower fuel (er r) = IR.lower fuel r.
Proof.
  unfold IR.lower, er. cbn [r_vars r_stmts]. rewrite map_length, find_start_er.
  destruct (lower_er fuel) as (He & Hs & Hd).
  assert (E : forall c, (cs <- IR.mapM (compile_stmt fuel) (map er_s (r_stmts r)) ;;
                         match IR.find_start (r_vars r) with
                         | None => IR.panic "intermediate.rs:compile: no start (unwrap)"
                         | Some start => tmp <- fresh ;; IR.ret (concat cs ++ [ICall tmp start []])
                         end) c
                       = (cs <- IR.mapM (compile_stmt fuel) (r_stmts r) ;;
                         match IR.find_start (r_vars r) with
                         | None => IR.panic "intermediate.rs:compile: no start (unwrap)"
                         | Some start => tmp <- fresh ;; IR.ret (concat cs ++ [ICall tmp start []])
                         end) c).
  { apply bind_ext; [|reflexivity]. intros c. rewrite mapM_map. apply mapM_ext. intros s c'.
    destruct s; cbn [er_s compile_stmt]; try reflexivity. apply Hd. }
  rewrite E. reflexivity.
Qed.

Theorem backend_ignores_spans fuel req r1 r2 :
  same_modulo_spans r1 r2 -> Emit.backend fuel req r1 = Emit.backend fuel req r2.
Proof.
  unfold same_modulo_spans, Emit.backend. intros H.
  rewrite <- (lower_ignores_spans fuel r1), <- (lower_ignores_spans fuel r2), H. reflexivity.
Qed.

(* the line of an `<!>` is NOT erased, and it matters: two programs that differ in it emit different texts *)
Example unreachable_line_matters :
  let prog l := mkResolved [mkVar 0 "start" sp0 true Const]
                  [SDefinition "start" 0 Const (TImplied sp0)
                     (EFunction "start" [] (TImplied sp0) [SUnreachable (mkSpan 0 l l 1 4)] false sp0) sp0] in
  Emit.backend 10 None (prog 3%N) <> Emit.backend 10 None (prog 4%N)
  /\ Emit.backend 10 None (prog 3%N) = Emit.backend 10 None (er (prog 3%N)).
Proof. cbn zeta. split; [vm_compute; intros E; discriminate E|vm_compute; reflexivity]. Qed.
