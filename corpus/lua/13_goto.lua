-- expect-wf: ok
-- expect: 1
-- expect: 3
-- expect: 5
-- expect: j	1
-- expect: j	3
-- expect: k	1
-- expect: k	3
-- expect: 1	1
-- expect: 2	1
-- expect: 3	1
-- expect: 3
-- expect: after
-- expect: 0	1	2
-- expect: r	1
-- expect: r	3
-- expect: 2
-- expect: 3	nil
-- continue in while (label at the end of the body)
local i = 0
while i < 5 do
  i = i + 1
  if i % 2 == 0 then goto continue end
  print(i)
  ::continue::
end
-- the shape emitted by the Sylt compiler: label first, goto jumps back to it
local j = 0
while true do
  ::top::
  j = j + 1
  if j > 3 then break end
  if j == 2 then goto top end
  print("j", j)
end
for k = 1, 3 do
  if k == 2 then goto cont end
  print("k", k)
  ::cont::
end
-- goto out of an inner loop to a label of the outer loop body
for a = 1, 3 do
  for b = 1, 3 do
    if b == 2 then goto next_a end
    print(a, b)
  end
  ::next_a::
end
-- backward goto as a loop in the main chunk
local n = 0
::again::
n = n + 1
if n < 3 then goto again end
print(n)
-- goto out of nested blocks
do
  do
    if true then goto out end
  end
  print("skipped")
  ::out::
end
print("after")
-- every pass over `local` makes a new variable
local fs = {}
local m = 0
::loop::
do
  local v = m
  fs[#fs + 1] = function() return v end
end
m = m + 1
if m < 3 then goto loop end
print(fs[1](), fs[2](), fs[3]())
local r = 0
repeat
  r = r + 1
  if r == 2 then goto cont2 end
  print("r", r)
  ::cont2::
until r >= 3
-- same label name in sibling blocks and in a nested function
do ::dup:: end
do ::dup:: end
local function inner()
  local c = 0
  ::dup::
  c = c + 1
  if c < 2 then goto dup end
  return c
end
print(inner())
-- goto inside a function returning from within the loop
local function find(t, x)
  local idx = 0
  while true do
    ::continue::
    idx = idx + 1
    if idx > #t then return nil end
    if t[idx] ~= x then goto continue end
    return idx
  end
end
print(find({5, 6, 7}, 7), find({5, 6, 7}, 8))
