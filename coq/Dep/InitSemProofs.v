(* init_safe: if the definitions are run in an order that respects their uses (Dep/InitSem.v `ordered`:
   what topo_sound + deps_complete provide, see DepProofs.order_respects_uses), no global is ever read or
   assigned before it is initialised -- neither directly, nor through a call of any function value,
   wherever that value came from (a global, an argument, a returned closure, a component of a data
   structure, a global assigned during initialisation).
   Invariant: every function value that exists (in the store, in an environment, as a result) mentions only
   initialised globals. *)
From Coq Require Import List NArith Bool Lia.
From Sylt Require Import Dep.InitSem.
Import ListNotations.

(* every closure inside the value mentions only globals of I *)
Fixpoint val_ok (I : N -> Prop) (v : val) : Prop :=
  match v with
  | VPair a b => val_ok I a /\ val_ok I b
  | VClo env body => val_ok I env /\ (forall g, In g (uses body) -> I g)
  | _ => True
  end.

Definition store_ok (s : store) : Prop := forall g v, s g = Some v -> val_ok (inited s) v.

Lemma val_ok_mono (I I' : N -> Prop) v : (forall g, I g -> I' g) -> val_ok I v -> val_ok I' v.
Proof. intros H. induction v; cbn; intuition. Qed.

Lemma env_get_ok I n env v : val_ok I env -> env_get n env = Some v -> val_ok I v.
Proof.
  revert n. induction env; intros n H E; destruct n; cbn in E; try discriminate; destruct H as [Ha Hb].
  - inversion E; subst; exact Ha.
  - eauto.
Qed.

Lemma inited_upd s g v x : inited s x -> inited (upd s g v) x.
Proof. unfold inited, upd. intros H. destruct (N.eqb x g); [discriminate|exact H]. Qed.

Lemma inited_upd_same s g v x : s g <> None -> inited (upd s g v) x -> inited s x.
Proof. unfold inited, upd. intros Hg H. destruct (N.eqb_spec x g); [subst; exact Hg|exact H]. Qed.

(* assigning an initialised global keeps the store well-formed *)
Lemma store_ok_upd s g v : store_ok s -> s g <> None -> val_ok (inited s) v -> store_ok (upd s g v).
Proof.
  intros Hs Hg Hv x w E. unfold upd in E.
  assert (Hm : forall y, inited s y -> inited (upd s g v) y) by (intros y; apply inited_upd).
  destruct (N.eqb x g).
  - inversion E; subst. eapply val_ok_mono; eauto.
  - eapply val_ok_mono; [exact Hm|]. eapply Hs; eauto.
Qed.

Definition safe_out (s : store) (o : out) : Prop :=
  match o with
  | OUninit _ => False
  | OVal v s' => store_ok s' /\ val_ok (inited s') v /\ (forall g, inited s g -> inited s' g)
  | _ => True
  end.

Lemma eval_safe : forall fuel env s e,
  store_ok s -> val_ok (inited s) env -> (forall g, In g (uses e) -> inited s g) ->
  safe_out s (eval fuel env s e).
Proof.
  induction fuel as [|f IH]; intros env s e Hs He Hu; [exact I|].
  destruct e; cbn [eval uses] in *.
  - cbn. auto.
  - cbn. auto.
  - destruct (env_get n env) eqn:E; cbn; auto. split; [assumption|]. split; [eapply env_get_ok; eauto|auto].
  - destruct (s g) eqn:E; cbn.
    + split; [assumption|]. split; [eapply Hs; eauto|auto].
    + apply (Hu g); [left; reflexivity|exact E].
  - (* TSet *)
    assert (H1 := IH env s e Hs He (fun x Hx => Hu x (or_intror Hx))).
    destruct (eval f env s e) as [v s1| | |]; cbn in *; auto.
    destruct H1 as (Hs1 & Hv & Hm).
    assert (Hg : s1 g <> None) by (apply Hm; apply Hu; left; reflexivity).
    destruct (s1 g) eqn:E; [|contradiction]. cbn.
    assert (Hg' : s1 g <> None) by (rewrite E; discriminate).
    split; [apply store_ok_upd; assumption|]. split; [exact I|].
    intros x Hx. apply inited_upd. apply Hm. exact Hx.
  - (* TLam *) cbn. split; [assumption|]. split; [split; [assumption|exact Hu]|auto].
  - (* TApp *)
    assert (H1 := IH env s e1 Hs He (fun x Hx => Hu x (in_or_app _ _ _ (or_introl Hx)))).
    destruct (eval f env s e1) as [v1 s1| | |]; cbn in *; auto.
    destruct H1 as (Hs1 & Hv1 & Hm1).
    destruct v1 as [| | |cenv body]; cbn; auto.
    assert (H2 := IH env s1 e2 Hs1 (val_ok_mono _ _ _ Hm1 He)
                     (fun x Hx => Hm1 x (Hu x (in_or_app _ _ _ (or_intror Hx))))).
    destruct (eval f env s1 e2) as [v2 s2| | |]; cbn in *; auto.
    destruct H2 as (Hs2 & Hv2 & Hm2). destruct Hv1 as [Hce Hcb].
    assert (H3 := IH (VPair v2 cenv) s2 body Hs2 (conj Hv2 (val_ok_mono _ _ _ Hm2 Hce))
                     (fun x Hx => Hm2 x (Hcb x Hx))).
    destruct (eval f (VPair v2 cenv) s2 body) as [v3 s3| | |]; cbn in *; auto.
    destruct H3 as (Hs3 & Hv3 & Hm3). split; [assumption|]. split; [assumption|]. auto.
  - (* TLet *)
    assert (H1 := IH env s e1 Hs He (fun x Hx => Hu x (in_or_app _ _ _ (or_introl Hx)))).
    destruct (eval f env s e1) as [v1 s1| | |]; cbn in *; auto.
    destruct H1 as (Hs1 & Hv1 & Hm1).
    assert (H2 := IH (VPair v1 env) s1 e2 Hs1 (conj Hv1 (val_ok_mono _ _ _ Hm1 He))
                     (fun x Hx => Hm1 x (Hu x (in_or_app _ _ _ (or_intror Hx))))).
    destruct (eval f (VPair v1 env) s1 e2) as [v2 s2| | |]; cbn in *; auto.
    destruct H2 as (Hs2 & Hv2 & Hm2). auto.
  - (* TPair *)
    assert (H1 := IH env s e1 Hs He (fun x Hx => Hu x (in_or_app _ _ _ (or_introl Hx)))).
    destruct (eval f env s e1) as [v1 s1| | |]; cbn in *; auto.
    destruct H1 as (Hs1 & Hv1 & Hm1).
    assert (H2 := IH env s1 e2 Hs1 (val_ok_mono _ _ _ Hm1 He)
                     (fun x Hx => Hm1 x (Hu x (in_or_app _ _ _ (or_intror Hx))))).
    destruct (eval f env s1 e2) as [v2 s2| | |]; cbn in *; auto.
    destruct H2 as (Hs2 & Hv2 & Hm2). split; [assumption|]. split; [split; [eapply val_ok_mono; eauto|assumption]|auto].
  - (* TFst *)
    assert (H1 := IH env s e Hs He Hu).
    destruct (eval f env s e) as [v1 s1| | |]; cbn in *; auto.
    destruct v1; cbn; auto. destruct H1 as (Hs1 & [Ha Hb] & Hm1). auto.
  - (* TSnd *)
    assert (H1 := IH env s e Hs He Hu).
    destruct (eval f env s e) as [v1 s1| | |]; cbn in *; auto.
    destruct v1; cbn; auto. destruct H1 as (Hs1 & [Ha Hb] & Hm1). auto.
  - (* TIf *)
    assert (H1 := IH env s e1 Hs He (fun x Hx => Hu x (in_or_app _ _ _ (or_introl Hx)))).
    destruct (eval f env s e1) as [v1 s1| | |]; cbn in *; auto.
    destruct H1 as (Hs1 & Hv1 & Hm1).
    destruct v1 as [|[|]| |]; cbn; auto.
    + assert (H2 := IH env s1 e2 Hs1 (val_ok_mono _ _ _ Hm1 He)
                       (fun x Hx => Hm1 x (Hu x (in_or_app _ _ _ (or_intror (in_or_app _ _ _ (or_introl Hx))))))).
      destruct (eval f env s1 e2) as [v2 s2| | |]; cbn in *; auto. destruct H2 as (Hs2 & Hv2 & Hm2). auto.
    + assert (H2 := IH env s1 e3 Hs1 (val_ok_mono _ _ _ Hm1 He)
                       (fun x Hx => Hm1 x (Hu x (in_or_app _ _ _ (or_intror (in_or_app _ _ _ (or_intror Hx))))))).
      destruct (eval f env s1 e3) as [v2 s2| | |]; cbn in *; auto. destruct H2 as (Hs2 & Hv2 & Hm2). auto.
Qed.

(* defining a new global with a value that mentions only initialised globals and possibly itself *)
Lemma store_ok_define s v x :
  store_ok s -> val_ok (fun g => inited s g \/ g = v) x -> store_ok (upd s v x).
Proof.
  intros Hs Hx g w E.
  assert (Hm : forall y, inited s y \/ y = v -> inited (upd s v x) y).
  { intros y [Hy| ->]; [apply inited_upd; exact Hy|]. unfold inited, upd. rewrite N.eqb_refl. discriminate. }
  unfold upd in E. destruct (N.eqb g v).
  - inversion E; subst. exact (val_ok_mono _ _ _ Hm Hx).
  - eapply val_ok_mono; [|eapply Hs; eauto]. intros y Hy. apply Hm. left. exact Hy.
Qed.

Lemma ordered_mono (I I' : N -> Prop) defs : (forall g, I g -> I' g) -> ordered I defs -> ordered I' defs.
Proof.
  revert I I'. induction defs as [|[v e] ds IH]; intros I I' H; cbn; [auto|].
  intros [H1 H2]. split.
  - intros g Hg. destruct (H1 g Hg) as [Hi|Hs]; [left; apply H; exact Hi|right; exact Hs].
  - eapply IH; [|exact H2]. intros g [Hg|Hg]; [left; apply H; exact Hg|right; exact Hg].
Qed.

(* init_safe *)
Theorem init_safe : forall fuel defs s,
  store_ok s -> ordered (inited s) defs -> forall g, run fuel s defs <> RUninit g.
Proof.
  intros fuel defs. induction defs as [|[v e] ds IH]; intros s Hs Ho g; [discriminate|].
  cbn [run]. destruct Ho as [Hu Hrest].
  assert (Hstep : match eval fuel VUnit s e with
                  | OVal x s1 => store_ok (upd s1 v x) /\ (forall y, inited (upd s1 v x) y <-> (inited s1 y \/ y = v))
                                 /\ (forall y, inited s y -> inited s1 y)
                  | OUninit _ => False
                  | _ => True
                  end).
  { assert (Hupd : forall s1 x y, inited (upd s1 v x) y <-> (inited s1 y \/ y = v)).
    { intros s1 x y. unfold inited, upd. destruct (N.eqb_spec y v); split; intros; auto; try discriminate.
      - destruct H; [assumption|contradiction]. }
    destruct (is_lam e) eqn:El.
    - (* a function definition: it may mention itself; evaluating it creates the closure and nothing else *)
      destruct e; try discriminate El. destruct fuel; cbn; [exact I|].
      split; [|split; [apply Hupd|auto]].
      apply store_ok_define; [assumption|]. cbn. split; [exact I|].
      intros y Hy. destruct (Hu y Hy) as [Hi|[-> _]]; auto.
    - assert (Hu' : forall y, In y (uses e) -> inited s y).
      { intros y Hy. destruct (Hu y Hy) as [Hi|[_ Hc]]; [exact Hi|discriminate]. }
      pose proof (eval_safe fuel VUnit s e Hs I Hu') as H.
      destruct (eval fuel VUnit s e) as [x s1| | |]; cbn in *; auto.
      destruct H as (Hs1 & Hx & Hm). split; [|split; [apply Hupd|auto]].
      apply store_ok_define; [assumption|]. eapply val_ok_mono; [|exact Hx]. auto. }
  destruct (eval fuel VUnit s e) as [x s1|g0| |]; try discriminate; [|contradiction].
  destruct Hstep as (Hs1 & Hiff & Hm).
  apply IH; [assumption|].
  (* the rest is ordered w.r.t. the new initialised set, which contains the old one and v *)
  eapply ordered_mono; [|exact Hrest].
  intros y [Hy| ->]; apply Hiff; [left; apply Hm; exact Hy|right; reflexivity].
Qed.
