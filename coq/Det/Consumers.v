(* Determinism (C16): the shapes in which the compiler consumes an iteration over a HashMap/HashSet,
   as functions of the visiting order, and which of them are independent of that order.
   The visiting order of a hash container is an arbitrary permutation of its entries (keys distinct). *)
From Coq Require Import List NArith Bool Lia Permutation Sorted.
Import ListNotations.
Local Open Scope N_scope.

Definition entry := (N * N)%type.          (* key (e.g. source position or id), payload *)

Inductive class :=
| NotHash          (* the iterated value is a Vec/BTreeMap here: order fixed by construction *)
| DumpOnly         (* only feeds --dump-tree / the verification hook, never the compiler's result *)
| CollectMap       (* .collect() into a HashMap/BTreeMap/BTreeSet, or a loop that only inserts into one *)
| MinOf            (* .min() / .max() of a total order *)
| FirstErr         (* stop at the first entry whose processing fails: ORDER-SENSITIVE *)
| SortedFirstErr.  (* sort by key first, then stop at the first failing entry *)

(* what a consumer lets the rest of the compiler observe *)
Inductive observable :=
| OLookup (f : N -> option N)      (* a finite map, observed through lookups *)
| OValue (v : option N)            (* a single value *)
| ONone.

Fixpoint lookup (l : list entry) (k : N) : option N :=
  match l with
  | [] => None
  | (k', v) :: l' => if k =? k' then Some v else lookup l' k
  end.

Definition min_opt (a : option N) (b : N) : option N :=
  match a with None => Some b | Some x => Some (N.min x b) end.
Definition min_of (l : list entry) : option N := fold_left min_opt (map snd l) None.

(* processing an entry fails iff `bad` holds for it; the consumer returns the first failing payload *)
Section FirstErr.
Variable bad : entry -> bool.
Fixpoint first_err (l : list entry) : option N :=
  match l with
  | [] => None
  | e :: l' => if bad e then Some (snd e) else first_err l'
  end.
End FirstErr.

Fixpoint insert_sorted (e : entry) (l : list entry) : list entry :=
  match l with
  | [] => [e]
  | x :: l' => if fst e <=? fst x then e :: l else x :: insert_sorted e l'
  end.
Definition sort_entries (l : list entry) : list entry := fold_right insert_sorted [] l.

Definition run (bad : entry -> bool) (c : class) (l : list entry) : observable :=
  match c with
  | NotHash | DumpOnly => ONone
  | CollectMap => OLookup (lookup l)
  | MinOf => OValue (min_of l)
  | FirstErr => OValue (first_err bad l)
  | SortedFirstErr => OValue (first_err bad (sort_entries l))
  end.

Definition obs_eq (a b : observable) : Prop :=
  match a, b with
  | OLookup f, OLookup g => forall k, f k = g k
  | OValue x, OValue y => x = y
  | ONone, ONone => True
  | _, _ => False
  end.

Definition order_free (c : class) : bool :=
  match c with FirstErr => false | _ => true end.
