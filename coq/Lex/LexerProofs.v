(* Theorems about the lexer model: longest match, tiling, exact positions.  Generic in the table. *)
From Coq Require Import String List NArith Bool Lia Arith.
From Sylt Require Import Lex.Regex Lex.Logos Lex.RegexProofs.
Import ListNotations.

Definition pat_matches (p : pat) (s : list N) : Prop := matches (compile (p_rx p)) s.

(* ------------------------------------------------------------------------------------------ *)
(* list helpers *)

Lemma firstn_app_len {A} (pre rest : list A) : firstn (length pre) (pre ++ rest) = pre.
Proof. rewrite firstn_app, Nat.sub_diag, firstn_all, firstn_O, app_nil_r. reflexivity. Qed.

Lemma firstn_prefix_split {A} (pre rest : list A) m :
  length pre <= m -> firstn m (pre ++ rest) = pre ++ firstn (m - length pre) rest.
Proof.
  intros H. rewrite firstn_app. rewrite firstn_all2 by lia. reflexivity.
Qed.

Lemma skipn_add {A} (l : list A) a b : skipn (a + b) l = skipn b (skipn a l).
Proof.
  revert l; induction a as [|a IH]; intros l; [reflexivity|].
  destruct l as [|x l]; cbn; [destruct b; reflexivity|apply IH].
Qed.

(* ------------------------------------------------------------------------------------------ *)
(* the set of live patterns *)

Definition live_inv (t : table) (pre : list N) (l : live) : Prop :=
  (forall p r, In (p, r) l -> In p t /\ r = derivs pre (compile (p_rx p))) /\
  (forall p, In p t -> is_none (derivs pre (compile (p_rx p))) = false ->
             In (p, derivs pre (compile (p_rx p))) l).

Lemma start_live_inv t : live_inv t [] (start_live t).
Proof.
  unfold live_inv, start_live. split.
  - intros p r H. apply in_map_iff in H as (q & E & Hq). inversion E; subst. auto.
  - intros p Hp _. cbn. apply in_map_iff. exists p. auto.
Qed.

Lemma deriv_none c : deriv c RNone = RNone.
Proof. reflexivity. Qed.

Lemma step_live_inv t pre l c : live_inv t pre l -> live_inv t (pre ++ [c]) (step_live c l).
Proof.
  intros [Hs Hc]. unfold step_live. split.
  - intros p r H. apply in_flat_map in H as ([q rq] & Hin & Hx). cbn in Hx.
    destruct (is_none (deriv c rq)) eqn:E; [contradiction|].
    destruct Hx as [Hx|[]]. inversion Hx; subst.
    destruct (Hs _ _ Hin) as [Hp ->]. split; [exact Hp|].
    rewrite derivs_app. reflexivity.
  - intros p Hp Hn. rewrite derivs_app in Hn |- *. cbn in Hn |- *.
    apply in_flat_map. exists (p, derivs pre (compile (p_rx p))). split.
    + apply Hc; [exact Hp|].
      destruct (derivs pre (compile (p_rx p))); try reflexivity. cbn in Hn. discriminate.
    + cbn. rewrite Hn. left. reflexivity.
Qed.

Lemma live_matches t pre l p :
  live_inv t pre l -> In p t -> pat_matches p pre ->
  exists r, In (p, r) l /\ nullable r = true.
Proof.
  intros [_ Hc] Hp Hm. exists (derivs pre (compile (p_rx p))).
  assert (Hnull : nullable (derivs pre (compile (p_rx p))) = true).
  { apply nullable_correct, derivs_correct. rewrite app_nil_r. exact Hm. }
  split; [|exact Hnull]. apply Hc; [exact Hp|].
  destruct (derivs pre (compile (p_rx p))); try reflexivity. discriminate.
Qed.

Lemma live_nullable t pre l p r :
  live_inv t pre l -> In (p, r) l -> nullable r = true -> In p t /\ pat_matches p pre.
Proof.
  intros [Hs _] Hin Hn. destruct (Hs _ _ Hin) as [Hp ->]. split; [exact Hp|].
  apply nullable_correct, derivs_correct in Hn. rewrite app_nil_r in Hn. exact Hn.
Qed.

Lemma live_empty_dead t pre p s :
  live_inv t pre [] -> In p t -> ~ pat_matches p (pre ++ s).
Proof.
  intros [_ Hc] Hp. apply derivs_dead.
  destruct (is_none (derivs pre (compile (p_rx p)))) eqn:E; [reflexivity|].
  exfalso. exact (Hc p Hp E).
Qed.

(* ------------------------------------------------------------------------------------------ *)
(* best_nullable *)

Lemma best_nullable_spec l : forall acc,
  match best_nullable l acc with
  | Some p =>
      ((exists r, In (p, r) l /\ nullable r = true) \/ acc = Some p) /\
      (forall q r, In (q, r) l -> nullable r = true -> (p_prio q <= p_prio p)%N) /\
      (forall a, acc = Some a -> (p_prio a <= p_prio p)%N)
  | None => acc = None /\ forall q r, In (q, r) l -> nullable r = false
  end.
Proof.
  induction l as [|[p r] l IH]; intros acc; cbn [best_nullable].
  - destruct acc as [a|].
    + split; [right; reflexivity|]. split; [intros ? ? []|]. intros a' E; inversion E; subst; lia.
    + split; [reflexivity|intros ? ? []].
  - destruct (nullable r) eqn:Nr.
    + destruct acc as [a|].
      * destruct (N.ltb_spec (p_prio a) (p_prio p)) as [Hlt|Hge].
        -- specialize (IH (Some p)). destruct (best_nullable l (Some p)) as [b|].
           ++ destruct IH as (H1 & H2 & H3). split; [|split].
              ** destruct H1 as [(r' & Hin & Hn)|E].
                 --- left. exists r'. split; [right; exact Hin|exact Hn].
                 --- inversion E; subst. left. exists r. split; [left; reflexivity|exact Nr].
              ** intros q r' [E|Hin] Hn; [inversion E; subst; apply H3; reflexivity|eapply H2; eassumption].
              ** intros a' E; inversion E; subst. specialize (H3 p eq_refl). lia.
           ++ destruct IH as [E _]. discriminate.
        -- specialize (IH (Some a)). destruct (best_nullable l (Some a)) as [b|].
           ++ destruct IH as (H1 & H2 & H3). split; [|split].
              ** destruct H1 as [(r' & Hin & Hn)|E].
                 --- left. exists r'. split; [right; exact Hin|exact Hn].
                 --- right. exact E.
              ** intros q r' [E|Hin] Hn; [inversion E; subst; specialize (H3 a eq_refl); lia|eapply H2; eassumption].
              ** exact H3.
           ++ destruct IH as [E _]. discriminate.
      * specialize (IH (Some p)). destruct (best_nullable l (Some p)) as [b|].
        -- destruct IH as (H1 & H2 & H3). split; [|split].
           ++ left. destruct H1 as [(r' & Hin & Hn)|E].
              ** exists r'. split; [right; exact Hin|exact Hn].
              ** inversion E; subst. exists r. split; [left; reflexivity|exact Nr].
           ++ intros q r' [E|Hin] Hn; [inversion E; subst; apply H3; reflexivity|eapply H2; eassumption].
           ++ intros a E; discriminate.
        -- destruct IH as [E _]. discriminate.
    + specialize (IH acc). destruct (best_nullable l acc) as [b|].
      * destruct IH as (H1 & H2 & H3). split; [|split].
        -- destruct H1 as [(r' & Hin & Hn)|E]; [left; exists r'; split; [right; exact Hin|exact Hn]|right; exact E].
        -- intros q r' [E|Hin] Hn; [inversion E; subst; congruence|eapply H2; eassumption].
        -- exact H3.
      * destruct IH as [E H]. split; [exact E|].
        intros q r' [E'|Hin]; [inversion E'; subst; exact Nr|eapply H; eassumption].
Qed.

(* ------------------------------------------------------------------------------------------ *)
(* scan: longest match with priority *)

Definition best_ok (t : table) (s : list N) (hi : nat) (best : option (nat * pat)) : Prop :=
  match best with
  | Some (n, p) =>
      0 < n <= hi /\ In p t /\ pat_matches p (firstn n s) /\
      (forall q, In q t -> pat_matches q (firstn n s) -> (p_prio q <= p_prio p)%N) /\
      (forall m q, n < m <= hi -> In q t -> ~ pat_matches q (firstn m s))
  | None => forall m q, 0 < m <= hi -> In q t -> ~ pat_matches q (firstn m s)
  end.

Lemma best_ok_extend t s hi best :
  best_ok t s hi best ->
  (forall q, In q t -> ~ pat_matches q (firstn (S hi) s)) ->
  best_ok t s (S hi) best.
Proof.
  intros H Hn. destruct best as [[n p]|]; cbn in *.
  - destruct H as (H1 & H2 & H3 & H4 & H5). repeat split; try assumption; try lia.
    intros m q Hm Hq. destruct (Nat.eq_dec m (S hi)) as [->|Hne]; [apply Hn; exact Hq|apply H5; [lia|exact Hq]].
  - intros m q Hm Hq. destruct (Nat.eq_dec m (S hi)) as [->|Hne]; [apply Hn; exact Hq|apply H; [lia|exact Hq]].
Qed.

Lemma scan_spec t s : forall rest pre l best viable res v,
  s = pre ++ rest ->
  live_inv t pre l ->
  best_ok t s (length pre) best ->
  viable = length pre ->
  scan l rest (length pre) best viable = (res, v) ->
  best_ok t s (length s) res /\ v <= length s /\
  (* nothing matches beyond the viable prefix *)
  (forall m q, v < m <= length s -> In q t -> ~ pat_matches q (firstn m s)).
Proof.
  induction rest as [|c rest IH]; intros pre l best viable res v Es Hl Hb Hv Hscan.
  - cbn in Hscan. inversion Hscan; subst. rewrite app_nil_r in *. split; [exact Hb|]. split; [lia|].
    intros m q Hm. lia.
  - cbn [scan] in Hscan.
    assert (Hl' := step_live_inv t pre l c Hl).
    assert (Efn : firstn (S (length pre)) s = pre ++ [c]).
    { subst s. replace (pre ++ c :: rest) with ((pre ++ [c]) ++ rest) by (rewrite <- app_assoc; reflexivity).
      replace (S (length pre)) with (length (pre ++ [c])) by (rewrite app_length; cbn; lia).
      apply firstn_app_len. }
    assert (Elen : length s = length pre + S (length rest)).
    { subst s. rewrite app_length. reflexivity. }
    destruct (step_live c l) as [|x l'] eqn:El.
    + inversion Hscan; subst res v.
      assert (Hdead : forall m q, length pre < m <= length s -> In q t -> ~ pat_matches q (firstn m s)).
      { intros m q Hm Hq.
        assert (E : firstn m s = (pre ++ [c]) ++ firstn (m - S (length pre)) rest).
        { subst s. replace (pre ++ c :: rest) with ((pre ++ [c]) ++ rest) by (rewrite <- app_assoc; reflexivity).
          rewrite firstn_prefix_split by (rewrite app_length; cbn; lia).
          rewrite app_length. cbn. replace (length pre + 1) with (S (length pre)) by lia. reflexivity. }
        rewrite E. eapply live_empty_dead; eassumption. }
      split; [|split].
      * destruct best as [[n p]|]; cbn in *.
        -- destruct Hb as (H1 & H2 & H3 & H4 & H5). repeat split; try assumption; try lia.
           intros m q Hm Hq. destruct (le_lt_dec m (length pre)); [apply H5; [lia|exact Hq]|apply Hdead; [lia|exact Hq]].
        -- intros m q Hm Hq. destruct (le_lt_dec m (length pre)); [apply Hb; [lia|exact Hq]|apply Hdead; [lia|exact Hq]].
      * lia.
      * intros m q Hm Hq. apply Hdead; [lia|exact Hq].
    + rewrite <- El in *. clear El x l'.
      assert (Elen' : S (length pre) = length (pre ++ [c])) by (rewrite app_length; cbn; lia).
      rewrite Elen' in Hscan.
      eapply IH in Hscan; [exact Hscan| | | |].
      * subst s. rewrite <- app_assoc. reflexivity.
      * exact Hl'.
      * rewrite <- Elen'.
        pose proof (best_nullable_spec (step_live c l) None) as Hbn.
        destruct (best_nullable (step_live c l) None) as [p|].
        -- destruct Hbn as (H1 & H2 & _). destruct H1 as [(r & Hin & Hn)|E]; [|discriminate].
           destruct (live_nullable _ _ _ _ _ Hl' Hin Hn) as [Hp Hm].
           unfold best_ok. rewrite Efn. repeat split; try lia; try assumption.
           intros q Hq Hqm. destruct (live_matches _ _ _ _ Hl' Hq Hqm) as (rq & Hinq & Hnq).
           eapply H2; eassumption.
        -- destruct Hbn as [_ Hnone]. apply best_ok_extend; [exact Hb|].
           intros q Hq Hqm. rewrite Efn in Hqm.
           destruct (live_matches _ _ _ _ Hl' Hq Hqm) as (rq & Hinq & Hnq).
           rewrite (Hnone _ _ Hinq) in Hnq. discriminate.
      * reflexivity.
Qed.

(* the specification of one token *)
Definition longest_match (t : table) (s : list N) (n : nat) (p : pat) : Prop :=
  0 < n <= length s /\ In p t /\ pat_matches p (firstn n s) /\
  (forall q, In q t -> pat_matches q (firstn n s) -> (p_prio q <= p_prio p)%N) /\
  (forall m q, n < m <= length s -> In q t -> ~ pat_matches q (firstn m s)).

Definition no_match (t : table) (s : list N) : Prop :=
  forall m q, 0 < m <= length s -> In q t -> ~ pat_matches q (firstn m s).

Lemma scan_start t s res v :
  scan (start_live t) s 0 None 0 = (res, v) ->
  match res with
  | Some (n, p) => longest_match t s n p
  | None => no_match t s
  end /\ v <= length s.
Proof.
  intros H. pose proof (scan_spec t s s [] (start_live t) None 0 res v eq_refl (start_live_inv t)) as Hs.
  cbn [length] in Hs. destruct Hs as (Hb & Hv & _); [cbn; intros m q Hm; lia|reflexivity|exact H|].
  split; [|exact Hv]. destruct res as [[n p]|]; exact Hb.
Qed.

(* ------------------------------------------------------------------------------------------ *)
(* next_raw / raw_lex *)

Inductive raw_ok (t : table) (s : list N) (r : rtoken) : Prop :=
| RawMatch n p :
    longest_match t s n p -> r_text r = firstn n s ->
    (match r_kind r with
     | KSkip => p_cb p = CbSkip
     | KTok k pl => p_cb p <> CbSkip /\ k = p_kind p /\ run_callback (p_cb p) (r_text r) = Some pl
     | KError => p_cb p <> CbSkip /\ run_callback (p_cb p) (r_text r) = None
     end) -> raw_ok t s r
| RawNoMatch n :
    no_match t s -> 0 < n <= length s -> r_text r = firstn n s -> r_kind r = KError -> raw_ok t s r.

Lemma next_raw_ok t s : s <> [] -> raw_ok t s (next_raw t s).
Proof.
  intros Hne. unfold next_raw.
  destruct (scan (start_live t) s 0 None 0) as [res v] eqn:E.
  apply scan_start in E as [Hres Hv].
  destruct res as [[n p]|].
  - destruct (p_cb p) eqn:Ecb;
      try (destruct (run_callback _ (firstn n s)) as [pl|] eqn:Er;
           [eapply RawMatch; [exact Hres|reflexivity|cbn; rewrite Ecb; repeat split; try discriminate; exact Er]
           |eapply RawMatch; [exact Hres|reflexivity|cbn; rewrite Ecb; split; [discriminate|exact Er]]]).
    eapply RawMatch; [exact Hres|reflexivity|cbn; exact Ecb].
  - eapply (RawNoMatch _ _ _ (Nat.max 1 v)); [exact Hres| |reflexivity|reflexivity].
    destruct s; [congruence|]. cbn [length] in *. lia.
Qed.

Lemma raw_ok_text_nonempty t s r : raw_ok t s r -> r_text r <> [] /\ exists n, 0 < n <= length s /\ r_text r = firstn n s.
Proof.
  intros [n p (Hn & _) Et _|n _ Hn Et _]; (split; [|exists n; split; [lia|exact Et]]);
    rewrite Et; destruct s; cbn in *; try lia; destruct n; cbn; try lia; discriminate.
Qed.

(* tokens produced from position `off` of the whole input *)
Inductive raws_ok (t : table) : list N -> list rtoken -> Prop :=
| RawsNil : raws_ok t [] []
| RawsCons s r rs : s <> [] -> raw_ok t s r -> raws_ok t (skipn (length (r_text r)) s) rs -> raws_ok t s (r :: rs).

Lemma raw_lex_ok t : forall fuel s, length s <= fuel -> raws_ok t s (raw_lex fuel t s).
Proof.
  induction fuel as [|f IH]; intros s Hlen.
  - destruct s; [constructor|cbn in Hlen; lia].
  - cbn [raw_lex]. destruct s as [|c s']; [constructor|].
    set (s := c :: s') in *.
    assert (Hne : s <> []) by discriminate.
    pose proof (next_raw_ok t s Hne) as Hok.
    constructor; [exact Hne|exact Hok|].
    apply IH. destruct (raw_ok_text_nonempty _ _ _ Hok) as [_ (n & Hn & Et)].
    rewrite Et, skipn_length, firstn_length. lia.
Qed.

Lemma raws_concat t s rs : raws_ok t s rs -> concat (map r_text rs) = s.
Proof.
  induction 1 as [|s r rs Hne Hok _ IH]; [reflexivity|].
  cbn. rewrite IH. destruct (raw_ok_text_nonempty _ _ _ Hok) as [_ (n & Hn & Et)].
  rewrite Et at 1. rewrite Et, firstn_length, Nat.min_l by lia. apply firstn_skipn.
Qed.

Theorem raw_lex_tiles t s : concat (map r_text (raw_lex (length s) t s)) = s.
Proof. eapply raws_concat, raw_lex_ok. lia. Qed.

(* ------------------------------------------------------------------------------------------ *)
(* positions *)

Definition count_nl (pre : list N) : nat :=
  fold_left (fun k c => if (c =? 10)%N then S k else k) pre 0.
(* number of characters after the last newline of pre (all of pre if there is none) *)
Definition tail_len (pre : list N) : nat :=
  fold_left (fun k c => if (c =? 10)%N then 0 else S k) pre 0.

Definition line_of (pre : list N) : N := 1 + N.of_nat (count_nl pre).
Definition col_of (pre : list N) : N := 1 + N.of_nat (tail_len pre).

Lemma count_nl_snoc pre c : count_nl (pre ++ [c]) = if (c =? 10)%N then S (count_nl pre) else count_nl pre.
Proof. unfold count_nl. rewrite fold_left_app. reflexivity. Qed.
Lemma tail_len_snoc pre c : tail_len (pre ++ [c]) = if (c =? 10)%N then 0 else S (tail_len pre).
Proof. unfold tail_len. rewrite fold_left_app. reflexivity. Qed.

Lemma tail_len_le pre : tail_len pre <= length pre.
Proof.
  induction pre as [|c pre IH] using rev_ind; [cbn; lia|].
  rewrite tail_len_snoc, app_length. cbn. destruct (c =? 10)%N; lia.
Qed.

Definition st_ok (pre : list N) (st : pstate) : Prop :=
  idx st = N.of_nat (length pre) /\ line st = line_of pre /\
  lastnl st = N.of_nat (length pre - tail_len pre).

Lemma init_ok : st_ok [] init_state.
Proof. unfold st_ok, init_state, line_of. cbn. repeat split. Qed.

Lemma walk1_ok pre st c : st_ok pre st -> st_ok (pre ++ [c]) (walk1 st c).
Proof.
  intros (Hi & Hl & Hn). unfold st_ok, walk1, line_of in *.
  rewrite app_length, count_nl_snoc, tail_len_snoc. cbn [length].
  pose proof (tail_len_le pre).
  destruct (c =? 10)%N; cbn [idx line lastnl]; repeat split; lia.
Qed.

Lemma walk_ok txt : forall pre st, st_ok pre st -> st_ok (pre ++ txt) (walk st txt).
Proof.
  induction txt as [|c txt IH]; intros pre st H; cbn.
  - rewrite app_nil_r. exact H.
  - replace (pre ++ c :: txt) with ((pre ++ [c]) ++ txt) by (rewrite <- app_assoc; reflexivity).
    apply IH. apply walk1_ok. exact H.
Qed.

Lemma length_removelast {A} (l : list A) : l <> [] -> length (removelast l) = length l - 1.
Proof.
  intros H. destruct (exists_last H) as (l' & a & ->).
  rewrite removelast_last, app_length. cbn. lia.
Qed.

Lemma span_of_spec pre st txt :
  st_ok pre st -> txt <> [] ->
  span_of st txt =
    mkSpan (line_of pre) (line_of (pre ++ removelast txt))
           (col_of pre) (1 + col_of (pre ++ removelast txt)).
Proof.
  intros Hst Hne. unfold span_of.
  pose proof (walk_ok (removelast txt) pre st Hst) as (Hi2 & Hl2 & Hn2).
  destruct Hst as (Hi & Hl & Hn).
  pose proof (tail_len_le pre). pose proof (tail_len_le (pre ++ removelast txt)) as Ht2.
  rewrite app_length, length_removelast in * by exact Hne.
  assert (0 < length txt) by (destruct txt; [congruence|cbn; lia]).
  f_equal; unfold col_of; try assumption; lia.
Qed.

(* the placed tokens, described directly from the raw tokens *)
Fixpoint placed_spec (pre : list N) (rs : list rtoken) : list ptoken :=
  match rs with
  | [] => []
  | r :: rs' =>
      let pre' := pre ++ r_text r in
      let sp := mkSpan (line_of pre) (line_of (pre ++ removelast (r_text r)))
                       (col_of pre) (1 + col_of (pre ++ removelast (r_text r))) in
      let c0 := N.of_nat (length pre) in
      let c1 := N.of_nat (length pre + length (r_text r)) in
      match r_kind r with
      | KSkip => placed_spec pre' rs'
      | KTok k pl => mkP k pl sp c0 c1 :: placed_spec pre' rs'
      | KError => mkP error_kind PNone sp c0 c1 :: placed_spec pre' rs'
      end
  end.

Lemma place_spec rs : forall pre st,
  st_ok pre st -> Forall (fun r => r_text r <> []) rs -> place st rs = placed_spec pre rs.
Proof.
  induction rs as [|r rs IH]; intros pre st Hst Hne; [reflexivity|].
  inversion Hne as [|? ? Hr Hrs]; subst. cbn [place placed_spec].
  rewrite (span_of_spec pre st (r_text r) Hst Hr).
  destruct Hst as (Hi & Hl & Hn).
  assert (Hst' : st_ok (pre ++ r_text r) (walk st (r_text r))) by (apply walk_ok; repeat split; assumption).
  rewrite (IH _ _ Hst' Hrs). rewrite Hi.
  replace (N.of_nat (length pre) + N.of_nat (length (r_text r)))%N with (N.of_nat (length pre + length (r_text r))) by lia.
  destruct (r_kind r); reflexivity.
Qed.

Lemma raws_nonempty t s rs : raws_ok t s rs -> Forall (fun r => r_text r <> []) rs.
Proof.
  induction 1 as [|s r rs _ Hok _ IH]; constructor; [|exact IH].
  apply (raw_ok_text_nonempty _ _ _ Hok).
Qed.

Theorem lex_placed t s : lex t s = placed_spec [] (raw_lex (length s) t s).
Proof.
  unfold lex. apply place_spec; [apply init_ok|].
  eapply raws_nonempty, raw_lex_ok. lia.
Qed.

(* ------------------------------------------------------------------------------------------ *)
(* tiling of the placed tokens: in order, no overlap, only whitespace in the gaps *)

Definition is_ws (c : N) : bool := (c =? 32)%N || (c =? 9)%N || (c =? 13)%N.

Definition skip_ok (t : table) : bool :=
  forallb (fun p => match p_cb p with
                    | CbSkip => chars_in is_ws (compile (p_rx p))
                    | _ => true
                    end) t.

Fixpoint tiles (s : list N) (from : nat) (toks : list ptoken) : Prop :=
  match toks with
  | [] => Forall (fun c => is_ws c = true) (skipn from s)
  | tk :: ts =>
      let a := N.to_nat (t_cp0 tk) in
      let b := N.to_nat (t_cp1 tk) in
      from <= a /\ a < b /\ b <= length s /\
      Forall (fun c => is_ws c = true) (firstn (a - from) (skipn from s)) /\
      tiles s b ts
  end.

Lemma skip_text_ws t s r : skip_ok t = true -> raw_ok t s r -> r_kind r = KSkip ->
  Forall (fun c => is_ws c = true) (r_text r).
Proof.
  intros Hsk Hok Hk. destruct Hok as [n p (Hn & Hp & Hm & _) Et Hkind|n _ _ _ Hk']; [|congruence].
  rewrite Hk in Hkind. unfold skip_ok in Hsk. rewrite forallb_forall in Hsk.
  specialize (Hsk p Hp). rewrite Hkind in Hsk. rewrite Et.
  eapply chars_in_sound; eassumption.
Qed.

(* generalised: whole = pre ++ rest, a whitespace-only gap of length g has already been crossed *)
Lemma placed_tiles t whole : skip_ok t = true -> forall rs rest pre from,
  raws_ok t rest rs -> whole = pre ++ rest -> from <= length pre ->
  Forall (fun c => is_ws c = true) (firstn (length pre - from) (skipn from whole)) ->
  tiles whole from (placed_spec pre rs).
Proof.
  intros Hsk. induction rs as [|r rs IH]; intros rest pre from Hraws Ew Hfrom Hgap.
  - inversion Hraws; subst. cbn. rewrite app_nil_r in *.
    rewrite firstn_all2 in Hgap by (rewrite skipn_length; lia). exact Hgap.
  - inversion Hraws as [|s0 r0 rs0 Hne Hok Hrest]; subst s0 r0 rs0.
    destruct (raw_ok_text_nonempty _ _ _ Hok) as [Htne (n & Hn & Et)].
    assert (Elen : length (r_text r) = n) by (rewrite Et, firstn_length; lia).
    assert (Erest : rest = r_text r ++ skipn (length (r_text r)) rest).
    { rewrite Et at 1. rewrite Elen. symmetry. apply firstn_skipn. }
    assert (Ew' : whole = (pre ++ r_text r) ++ skipn (length (r_text r)) rest).
    { rewrite <- app_assoc, <- Erest. exact Ew. }
    assert (Hwl : length whole = length pre + length rest) by (subst whole; apply app_length).
    cbn [placed_spec].
    destruct (r_kind r) eqn:Ek.
    + (* token *)
      cbn [tiles t_cp0 t_cp1]. rewrite !Nat2N.id. repeat split; try lia.
      * exact Hgap.
      * eapply IH; [exact Hrest|exact Ew'|rewrite app_length; lia|].
        rewrite app_length. replace (length pre + length (r_text r) - (length pre + length (r_text r))) with 0 by lia.
        constructor.
    + (* skip: the gap grows *)
      eapply IH; [exact Hrest|exact Ew'|rewrite app_length; lia|].
      rewrite app_length.
      assert (Hws := skip_text_ws _ _ _ Hsk Hok Ek).
      (* firstn (|pre| + |txt| - from) (skipn from whole) = old gap ++ txt *)
      assert (E : firstn (length pre + length (r_text r) - from) (skipn from whole)
                  = firstn (length pre - from) (skipn from whole) ++ r_text r).
      { rewrite Ew' at 1. rewrite <- app_assoc.
        rewrite skipn_app. rewrite (proj2 (Nat.sub_0_le from (length pre)) Hfrom). cbn [skipn].
        rewrite firstn_app, skipn_length.
        replace (length pre + length (r_text r) - from - (length pre - from)) with (length (r_text r)) by lia.
        rewrite firstn_app, Nat.sub_diag, firstn_all. cbn [firstn]. rewrite app_nil_r.
        f_equal. rewrite firstn_all2 by (rewrite skipn_length; lia).
        rewrite Ew. rewrite skipn_app, (proj2 (Nat.sub_0_le from (length pre)) Hfrom). cbn [skipn].
        rewrite firstn_app, skipn_length, Nat.sub_diag. cbn [firstn]. rewrite app_nil_r.
        rewrite firstn_all2 by (rewrite skipn_length; lia). reflexivity. }
      rewrite E. apply Forall_app. split; assumption.
    + (* error token *)
      cbn [tiles t_cp0 t_cp1]. rewrite !Nat2N.id. repeat split; try lia.
      * exact Hgap.
      * eapply IH; [exact Hrest|exact Ew'|rewrite app_length; lia|].
        rewrite app_length. replace (length pre + length (r_text r) - (length pre + length (r_text r))) with 0 by lia.
        constructor.
Qed.

Theorem lex_tiles t s : skip_ok t = true -> tiles s 0 (lex t s).
Proof.
  intros Hsk. rewrite lex_placed.
  eapply (placed_tiles t s Hsk _ s [] 0); [apply raw_lex_ok; lia|reflexivity|cbn; lia|constructor].
Qed.

(* ------------------------------------------------------------------------------------------ *)
(* each placed token: where it lies, what it matched, where its span points *)

Definition tok_of_raw (r : rtoken) (k : string) (pl : payload) : Prop :=
  match r_kind r with
  | KTok k' pl' => k = k' /\ pl = pl'
  | KError => k = error_kind /\ pl = PNone
  | KSkip => False
  end.

Lemma placed_in : forall rs pre tk,
  In tk (placed_spec pre rs) ->
  exists rs1 r rs2, rs = rs1 ++ r :: rs2 /\
    let before := pre ++ concat (map r_text rs1) in
    tok_of_raw r (t_kind tk) (t_pl tk) /\
    t_cp0 tk = N.of_nat (length before) /\
    t_cp1 tk = N.of_nat (length before + length (r_text r)) /\
    t_span tk = mkSpan (line_of before) (line_of (before ++ removelast (r_text r)))
                       (col_of before) (1 + col_of (before ++ removelast (r_text r))).
Proof.
  induction rs as [|r rs IH]; intros pre tk Hin; [destruct Hin|].
  cbn [placed_spec] in Hin.
  assert (Hrec : In tk (placed_spec (pre ++ r_text r) rs) ->
                 exists rs1 r0 rs2, r :: rs = rs1 ++ r0 :: rs2 /\
                   let before := pre ++ concat (map r_text rs1) in
                   tok_of_raw r0 (t_kind tk) (t_pl tk) /\
                   t_cp0 tk = N.of_nat (length before) /\
                   t_cp1 tk = N.of_nat (length before + length (r_text r0)) /\
                   t_span tk = mkSpan (line_of before) (line_of (before ++ removelast (r_text r0)))
                                      (col_of before) (1 + col_of (before ++ removelast (r_text r0)))).
  { intros H. destruct (IH _ _ H) as (rs1 & r0 & rs2 & E & Hx).
    exists (r :: rs1), r0, rs2. split; [rewrite E; reflexivity|].
    cbn [map concat]. rewrite app_assoc. exact Hx. }
  assert (Hhere : forall k pl, tok_of_raw r k pl ->
            tk = mkP k pl (mkSpan (line_of pre) (line_of (pre ++ removelast (r_text r)))
                                  (col_of pre) (1 + col_of (pre ++ removelast (r_text r))))
                          (N.of_nat (length pre)) (N.of_nat (length pre + length (r_text r))) ->
            exists rs1 r0 rs2, r :: rs = rs1 ++ r0 :: rs2 /\
                   let before := pre ++ concat (map r_text rs1) in
                   tok_of_raw r0 (t_kind tk) (t_pl tk) /\
                   t_cp0 tk = N.of_nat (length before) /\
                   t_cp1 tk = N.of_nat (length before + length (r_text r0)) /\
                   t_span tk = mkSpan (line_of before) (line_of (before ++ removelast (r_text r0)))
                                      (col_of before) (1 + col_of (before ++ removelast (r_text r0)))).
  { intros k pl Hk ->. exists [], r, rs. split; [reflexivity|]. cbn [map concat]. rewrite app_nil_r.
    cbn. repeat split; exact Hk || reflexivity. }
  destruct (r_kind r) eqn:Ek.
  - destruct Hin as [E|Hin]; [|apply Hrec; exact Hin].
    eapply Hhere; [|symmetry; exact E]. unfold tok_of_raw. rewrite Ek. auto.
  - apply Hrec; exact Hin.
  - destruct Hin as [E|Hin]; [|apply Hrec; exact Hin].
    eapply Hhere; [|symmetry; exact E]. unfold tok_of_raw. rewrite Ek. auto.
Qed.

Lemma raws_split t : forall rs1 s r rs2,
  raws_ok t s (rs1 ++ r :: rs2) ->
  s = concat (map r_text rs1) ++ skipn (length (concat (map r_text rs1))) s /\
  raw_ok t (skipn (length (concat (map r_text rs1))) s) r.
Proof.
  induction rs1 as [|r1 rs1 IH]; intros s r rs2 H.
  - cbn in *. inversion H; subst. split; [reflexivity|assumption].
  - cbn [app] in H. inversion H as [|s0 r0 rs0 Hne Hok Hrest]; subst.
    destruct (IH _ _ _ Hrest) as [E Hr].
    destruct (raw_ok_text_nonempty _ _ _ Hok) as [_ (n & Hn & Et)].
    assert (Es : s = r_text r1 ++ skipn (length (r_text r1)) s).
    { rewrite Et at 2. rewrite Et at 1. rewrite firstn_length, Nat.min_l by lia. symmetry; apply firstn_skipn. }
    cbn [map concat]. rewrite app_length.
    assert (Esk : skipn (length (r_text r1) + length (concat (map r_text rs1))) s
                  = skipn (length (concat (map r_text rs1))) (skipn (length (r_text r1)) s)).
    { apply skipn_add. }
    rewrite Esk. split; [|exact Hr].
    rewrite <- app_assoc, <- E. exact Es.
Qed.

(* The main per-token statement.  For a token tk of lex t s with code point range [a, b):
   - its text s[a..b) is what a pattern matched, as the longest match at position a with the
     highest priority, or it is an Error token (callback failure or nothing matches at a);
   - its span is computed from the text before it. *)
Theorem lex_token_spec t s tk :
  In tk (lex t s) ->
  let a := N.to_nat (t_cp0 tk) in
  let b := N.to_nat (t_cp1 tk) in
  let before := firstn a s in
  let rem := skipn a s in
  a < b <= length s /\
  t_span tk = mkSpan (line_of before) (line_of (firstn (b - 1) s))
                     (col_of before) (1 + col_of (firstn (b - 1) s)) /\
  ((exists p, longest_match t rem (b - a) p /\ p_cb p <> CbSkip /\
              ((t_kind tk = p_kind p /\ run_callback (p_cb p) (firstn (b - a) rem) = Some (t_pl tk)) \/
               (t_kind tk = error_kind /\ run_callback (p_cb p) (firstn (b - a) rem) = None)))
   \/ (no_match t rem /\ t_kind tk = error_kind)).
Proof.
  intros Hin. rewrite lex_placed in Hin.
  apply placed_in in Hin as (rs1 & r & rs2 & Ers & Hk & H0 & H1 & Hsp).
  cbn [app] in *.
  pose proof (raw_lex_ok t (length s) s (le_n _)) as Hraws. rewrite Ers in Hraws.
  destruct (raws_split _ _ _ _ _ Hraws) as [Es Hok].
  set (pre := concat (map r_text rs1)) in *.
  cbn zeta. rewrite H0, H1, !Nat2N.id.
  destruct (raw_ok_text_nonempty _ _ _ Hok) as [Hne (n & Hn & Et)].
  assert (Elen : length (r_text r) = n) by (rewrite Et, firstn_length; lia).
  assert (Hls : length s = length pre + length (skipn (length pre) s)).
  { rewrite Es at 1. apply app_length. }
  assert (Efirst : firstn (length pre) s = pre).
  { rewrite Es. apply firstn_app_len. }
  replace (length pre + length (r_text r) - length pre) with n by lia.
  rewrite Efirst.
  assert (Eb : firstn (length pre + length (r_text r) - 1) s = pre ++ removelast (r_text r)).
  { rewrite Es. rewrite firstn_prefix_split by lia.
    replace (length pre + length (r_text r) - 1 - length pre) with (n - 1) by lia.
    f_equal. rewrite Et.
    destruct (exists_last Hne) as (l' & x & El).
    rewrite <- Et, El, removelast_last.
    assert (Hl' : length l' = n - 1) by (rewrite <- Elen, El, app_length; cbn; lia).
    rewrite Et in El. rewrite <- Hl'.
    assert (E2 : firstn n (skipn (length pre) s) = l' ++ [x]) by exact El.
    rewrite <- (firstn_skipn n (skipn (length pre) s)), E2, <- app_assoc.
    apply firstn_app_len. }
  split; [lia|]. split; [rewrite Hsp, Eb; reflexivity|].
  destruct Hok as [n' p Hlm Et' Hkind|n' Hnm Hn' Et' Hkind].
  - assert (n' = n).
    { destruct Hlm as (Hn'' & _). rewrite Et' in Elen. rewrite firstn_length in Elen. lia. }
    subst n'. left. exists p. split; [exact Hlm|].
    unfold tok_of_raw in Hk. rewrite <- Et.
    destruct (r_kind r) eqn:Ek.
    + destruct Hkind as (Hcb & Ekk & Hrun). destruct Hk as [-> ->]. split; [exact Hcb|]. left. split; [exact Ekk|exact Hrun].
    + contradiction.
    + destruct Hkind as (Hcb & Hrun). destruct Hk as [-> ->]. split; [exact Hcb|]. right. split; [reflexivity|exact Hrun].
  - right. split; [exact Hnm|]. unfold tok_of_raw in Hk. rewrite Hkind in Hk. apply Hk.
Qed.
