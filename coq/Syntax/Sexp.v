(* S-expression rendering of the parse tree: exactly the text of /verif/harness/src/sexp.rs without
   spans.  Definitions only.
   Two deliberate differences, both normalised by the tie before comparing:
   - float literals are printed with their source text ([(float 1.50)]); the harness prints Rust's {:?};
   - nothing else. *)
From Coq Require Import String Ascii List NArith Bool DecimalString.
From Sylt Require Import Syntax.Ast.
Import ListNotations.
Local Open Scope string_scope.

Definition byte (n : N) : ascii := ascii_of_N n.

(* UTF-8 encoding of a list of Unicode scalar values *)
Definition utf8_1 (c : N) : list N :=
  if N.ltb c 128 then [c]
  else if N.ltb c 2048 then [N.lor 192 (N.shiftr c 6); N.lor 128 (N.land c 63)]
  else if N.ltb c 65536 then
    [N.lor 224 (N.shiftr c 12); N.lor 128 (N.land (N.shiftr c 6) 63); N.lor 128 (N.land c 63)]
  else
    [N.lor 240 (N.shiftr c 18); N.lor 128 (N.land (N.shiftr c 12) 63);
     N.lor 128 (N.land (N.shiftr c 6) 63); N.lor 128 (N.land c 63)].

Definition utf8 (s : name) : list N := flat_map utf8_1 s.

Fixpoint string_of_bytes (l : list N) : string :=
  match l with
  | [] => EmptyString
  | b :: l' => String (byte b) (string_of_bytes l')
  end.

Definition str (s : name) : string := string_of_bytes (utf8 s).

Definition hex_digit (n : N) : ascii :=
  if N.ltb n 10 then ascii_of_N (48 + n) else ascii_of_N (87 + n).

Fixpoint hex_bytes (l : list N) : string :=
  match l with
  | [] => EmptyString
  | b :: l' => String (hex_digit (N.shiftr b 4)) (String (hex_digit (N.land b 15)) (hex_bytes l'))
  end.

Definition hex (s : name) : string :=
  match s with
  | [] => "-"
  | _ => hex_bytes (utf8 s)
  end.

Definition dec (z : N) : string := NilZero.string_of_uint (N.to_uint z).

Definition sp_cat (f : string -> string) := f.

Fixpoint concat_map {A : Type} (f : A -> string) (l : list A) : string :=
  match l with
  | [] => EmptyString
  | x :: l' => f x ++ concat_map f l'
  end.

(* join with single spaces *)
Fixpoint join (l : list string) : string :=
  match l with
  | [] => EmptyString
  | [x] => x
  | x :: l' => x ++ " " ++ join l'
  end.

Fixpoint sexp_ta (t : tyass) : string :=
  match t with
  | TARead n => "(tread " ++ str n ++ ")"
  | TAAccess a n => "(taccess " ++ sexp_ta a ++ " " ++ str n ++ ")"
  end.

Definition sexp_rty (r : rty) : string :=
  match r with
  | RVoid => "void" | RNil => "nil" | RInt => "int" | RFloat => "float"
  | RBool => "bool" | RStr => "str" | RUnknown => "unknown"
  end.

Definition sexp_tcons (c : tcons) : string :=
  " (" ++ str (fst c) ++ concat_map (fun a => " " ++ str a) (snd c) ++ ")".

Definition sexp_cons (p : name * list tcons) : string :=
  "(cons " ++ str (fst p) ++ concat_map sexp_tcons (snd p) ++ ")".

Fixpoint sexp_ty (t : ty) : string :=
  match t with
  | TyImplied => "implied"
  | TyResolved r => "(res " ++ sexp_rty r ++ ")"
  | TyUser a args =>
      "(user " ++ sexp_ta a
      ++ (fix go (l : list ty) := match l with [] => "" | x :: l' => " " ++ sexp_ty x ++ go l' end) args ++ ")"
  | TyFn cs ps r pure =>
      "(fnty " ++ (if pure then "pure" else "impure") ++ " (" ++ join (map sexp_cons cs) ++ ") ("
      ++ (fix go (l : list ty) := match l with
                                  | [] => ""
                                  | [x] => sexp_ty x
                                  | x :: l' => sexp_ty x ++ " " ++ go l'
                                  end) ps
      ++ ") " ++ sexp_ty r ++ ")"
  | TyTuple ts =>
      "(tuplety" ++ (fix go (l : list ty) := match l with [] => "" | x :: l' => " " ++ sexp_ty x ++ go l' end) ts
      ++ ")"
  | TyList x => "(listty " ++ sexp_ty x ++ ")"
  | TyGeneric n => "(generic " ++ str n ++ ")"
  | TyGroup x => "(group " ++ sexp_ty x ++ ")"
  end.

Definition sexp_cmp (k : cmpkind) : string :=
  match k with
  | Equals => "eq" | NotEquals => "ne" | Greater => "gt" | GreaterEqual => "ge" | Less => "lt" | LessEqual => "le"
  end.

Definition sexp_binop (o : binop) : string :=
  match o with
  | Add => "add" | Sub => "sub" | Mul => "mul" | Div => "div"
  | Cmp k => "cmp " ++ sexp_cmp k
  | AssertEq => "assert" | And => "and" | Or => "or"
  end.

Definition sexp_unop (u : unop) : string := match u with Neg => "neg" | Not => "not" end.

(* insertion sort by name (the harness sorts blob fields / enum variants by name) *)
Fixpoint insert_by_name {V : Type} (x : name * V) (l : list (name * V)) : list (name * V) :=
  match l with
  | [] => [x]
  | y :: l' => if name_ltb (fst y) (fst x) then y :: insert_by_name x l' else x :: l
  end.

Definition sort_by_name {V : Type} (l : list (name * V)) : list (name * V) :=
  fold_left (fun acc x => insert_by_name x acc) l [].

Definition sexp_file (f : file_or_lib) : string :=
  match f with
  | FFile p => "file:" ++ str p
  | FLib l => "lib:" ++ str l
  end.

Definition sexp_opname (o : option name) : string := match o with Some n => str n | None => "_" end.

Fixpoint sexp_e (e : expr) : string :=
  match e with
  | EGet a => "(get " ++ sexp_a a ++ ")"
  | EBin o l r => "(" ++ sexp_binop o ++ " " ++ sexp_e l ++ " " ++ sexp_e r ++ ")"
  | EUn u x => "(" ++ sexp_unop u ++ " " ++ sexp_e x ++ ")"
  | EParen x => "(paren " ++ sexp_e x ++ ")"
  | EIf bs =>
      "(if" ++ (fix go (l : list ifbranch) := match l with [] => "" | b :: l' => " " ++ sexp_ib b ++ go l' end) bs
      ++ ")"
  | ECase m bs ft =>
      "(case " ++ sexp_e m
      ++ (fix go (l : list casebranch) := match l with [] => "" | b :: l' => " " ++ sexp_cb b ++ go l' end) bs
      ++ match ft with
         | Some b =>
             " (else" ++ (fix go (l : list stmt) := match l with [] => "" | s :: l' => " " ++ sexp_s s ++ go l' end) b
             ++ ")"
         | None => " _"
         end
      ++ ")"
  | EFn ps r body pure =>
      "(fn " ++ (if pure then "pure" else "impure") ++ " ("
      ++ join (map (fun p => "(p " ++ str (fst p) ++ " " ++ sexp_ty (snd p) ++ ")") ps)
      ++ ") " ++ sexp_ty r
      ++ (fix go (l : list stmt) := match l with [] => "" | s :: l' => " " ++ sexp_s s ++ go l' end) body
      ++ ")"
  | EBlob b fs =>
      "(blob " ++ sexp_ta b
      ++ (fix go (l : list (name * expr)) :=
            match l with
            | [] => ""
            | (n, x) :: l' => " (f " ++ str n ++ " " ++ sexp_e x ++ ")" ++ go l'
            end) fs
      ++ ")"
  | ETuple es =>
      "(tuple" ++ (fix go (l : list expr) := match l with [] => "" | x :: l' => " " ++ sexp_e x ++ go l' end) es
      ++ ")"
  | EList es =>
      "(list" ++ (fix go (l : list expr) := match l with [] => "" | x :: l' => " " ++ sexp_e x ++ go l' end) es
      ++ ")"
  | EFloat s => "(float " ++ str s ++ ")"
  | EInt z => "(int " ++ dec z ++ ")"
  | EStr s => "(str " ++ hex s ++ ")"
  | EBool b => "(bool " ++ (if b then "true" else "false") ++ ")"
  | ENil => "(nil)"
  end
with sexp_a (a : assignable) : string :=
  match a with
  | ARead n => "(read " ++ str n ++ ")"
  | AVariant ea v x => "(variant " ++ sexp_a ea ++ " " ++ str v ++ " " ++ sexp_e x ++ ")"
  | ACall f args =>
      "(call " ++ sexp_a f
      ++ (fix go (l : list expr) := match l with [] => "" | x :: l' => " " ++ sexp_e x ++ go l' end) args
      ++ ")"
  | AArrowCall x f args =>
      "(arrow " ++ sexp_e x ++ " " ++ sexp_a f
      ++ (fix go (l : list expr) := match l with [] => "" | x :: l' => " " ++ sexp_e x ++ go l' end) args
      ++ ")"
  | AAccess b n => "(access " ++ sexp_a b ++ " " ++ str n ++ ")"
  | AIndex b x => "(index " ++ sexp_a b ++ " " ++ sexp_e x ++ ")"
  | AExpr x => "(aexpr " ++ sexp_e x ++ ")"
  end
with sexp_ib (b : ifbranch) : string :=
  match b with
  | IfBranch c body =>
      "(br " ++ match c with Some x => sexp_e x | None => "_" end
      ++ (fix go (l : list stmt) := match l with [] => "" | s :: l' => " " ++ sexp_s s ++ go l' end) body
      ++ ")"
  end
with sexp_cb (b : casebranch) : string :=
  match b with
  | CaseBranch p v body =>
      "(arm " ++ str p ++ " " ++ sexp_opname v
      ++ (fix go (l : list stmt) := match l with [] => "" | s :: l' => " " ++ sexp_s s ++ go l' end) body
      ++ ")"
  end
with sexp_s (s : stmt) : string :=
  match s with
  | SUse p nm f =>
      "(use " ++ str p ++ " "
      ++ match nm with
         | NImplicit i => "(implicit " ++ str i ++ ")"
         | NAlias i => "(alias " ++ str i ++ ")"
         end
      ++ " " ++ sexp_file f ++ ")"
  | SFromUse p imports f =>
      "(fromuse " ++ str p
      ++ concat_map (fun ia => " (imp " ++ str (fst ia) ++ " " ++ sexp_opname (snd ia) ++ ")") imports
      ++ " " ++ sexp_file f ++ ")"
  | SBlob nm vars fields external =>
      "(blobdef " ++ str nm ++ " " ++ (if external then "ext" else "int") ++ " (" ++ join (map str vars) ++ ")"
      ++ concat_map (fun nt => " (field " ++ str (fst nt) ++ " " ++ sexp_ty (snd nt) ++ ")") (sort_by_name fields)
      ++ ")"
  | SEnum nm vars variants =>
      "(enumdef " ++ str nm ++ " (" ++ join (map str vars) ++ ")"
      ++ concat_map (fun nt => " (variant " ++ str (fst nt) ++ " " ++ sexp_ty (snd nt) ++ ")")
                    (sort_by_name variants)
      ++ ")"
  | SAssign k t v =>
      "(assign "
      ++ match k with OpNop => "nop" | OpAdd => "add" | OpSub => "sub" | OpMul => "mul" | OpDiv => "div" end
      ++ " " ++ sexp_a t ++ " " ++ sexp_e v ++ ")"
  | SDef i k t v =>
      "(def " ++ str i ++ " " ++ (match k with VConst => "const" | VMutable => "mut" end) ++ " " ++ sexp_ty t
      ++ " " ++ sexp_e v ++ ")"
  | SExtDef i k t =>
      "(extdef " ++ str i ++ " " ++ (match k with VConst => "const" | VMutable => "mut" end) ++ " " ++ sexp_ty t
      ++ ")"
  | SLoop c b => "(loop " ++ sexp_e c ++ " " ++ sexp_s b ++ ")"
  | SBreak => "(break)"
  | SContinue => "(continue)"
  | SRet v => "(ret " ++ match v with Some x => sexp_e x | None => "_" end ++ ")"
  | SBlock ss =>
      "(block" ++ (fix go (l : list stmt) := match l with [] => "" | s :: l' => " " ++ sexp_s s ++ go l' end) ss
      ++ ")"
  | SExpr v => "(sexpr " ++ sexp_e v ++ ")"
  | SUnreachable => "(unreachable)"
  | SEmpty => "(empty)"
  end.
