(* Invariants of the type graph (DESIGN 2.4 `TcInv`).
   wf s       : every node lies below `next`, every representative is a node that is its own
                representative (`rep` idempotent and in range).
   ext s s'   : what every successful operation guarantees about the state it leaves: nodes persist,
                classes only grow (same representative stays same representative), a class whose head
                type is not Unknown keeps a head of the same shape (`head_stable`; for blobs and enums the
                shape includes the set of field / variant names: `decl_stable`).
   pres m     : m preserves wf and extends the state, whenever it returns Ok. *)
From Coq Require Import String List NArith ZArith PArith Bool Lia FMapPositive.
From Sylt Require Import Syntax.Resolved Types.TyGraph Types.DeclOrder Types.Tc.
Import ListNotations.
Local Open Scope positive_scope.
Local Open Scope tc_scope.

Definition lk (s : st) (i : tyid) : option node := PositiveMap.find i (nodes s).

Definition rep (s : st) (i : tyid) : option tyid := option_map nrep (lk s i).

Definition head (s : st) (i : tyid) : option tyh :=
  match lk s i with
  | Some n => option_map nty (lk s (nrep n))
  | None => None
  end.

Definition wf (s : st) : Prop :=
  (forall i n, lk s i = Some n -> i < next s) /\
  (forall i n, lk s i = Some n -> exists r, lk s (nrep n) = Some r /\ nrep r = nrep n).

(* ---- shapes *)
Definition keys (f : fieldmap) : list string := map fst f.
Definition keys_sub (f g : fieldmap) : bool := forallb (fun k => fmem k g) (keys f).

Definition same_shape (a b : tyh) : bool :=
  match a, b with
  | HUnknown, HUnknown | HTy, HTy | HInvalid, HInvalid | HVoid, HVoid | HNil, HNil | HInt, HInt
  | HFloat, HFloat | HBool, HBool | HStr, HStr | HList _, HList _ => true
  | HTuple xs, HTuple ys => Nat.eqb (length xs) (length ys)
  | HFn p _ _, HFn q _ _ => Nat.eqb (length p) (length q)
  | HBlob _ _ f _, HBlob _ _ g _ => keys_sub f g && keys_sub g f
  | HExtBlob _ _ _ _ i, HExtBlob _ _ _ _ j => N.eqb i j
  | HEnum _ _ f _, HEnum _ _ g _ => keys_sub f g && keys_sub g f
  | _, _ => false
  end.

(* types whose shape determines them (the leaves of monomorphic types) *)
Definition rigid (h : tyh) : bool :=
  match h with HVoid | HNil | HInt | HFloat | HBool | HStr | HTy | HInvalid => true | _ => false end.

(* known types with components *)
Definition inner (h : tyh) : bool := negb (is_unknown h) && negb (rigid h).

(* the components of a type: parameter n / the result of a function type, element n of a tuple, the element
   type of a list, field / variant k of a blob / an enum *)
Inductive sel := KArg (n : nat) | KRes | KElem (n : nat) | KItem | KField (k : string).

Definition kid (h : tyh) (x : sel) : option tyid :=
  match h, x with
  | HFn ps _ _, KArg n => nth_error ps n
  | HFn _ r _, KRes => Some r
  | HTuple ts, KElem n => nth_error ts n
  | HList t, KItem => Some t
  | HBlob _ _ fs _, KField k | HEnum _ _ fs _, KField k => option_map snd (flookup k fs)
  | _, _ => None
  end.

(* two classes that are one class, or that both have components: what `sub_unify` guarantees of a pair it has
   been called with, also when it returned early because the pair was in `seen` *)
Definition pair_ok (s : st) (x y : tyid) : Prop :=
  x = y \/
  (exists r, rep s x = Some r /\ rep s y = Some r) \/
  (exists hx hy, head s x = Some hx /\ head s y = Some hy /\ inner hx = true /\ inner hy = true).

(* the components of a class stay, position by position, in the classes of the components it had before,
   whatever the class is merged with ("ext keeps shapes" one level down; a component whose type is a leaf keeps
   that type: kid_keep) *)
Definition kids_keep (s s' : st) : Prop :=
  forall i h h' x c c',
    head s i = Some h -> head s' i = Some h' -> kid h x = Some c -> kid h' x = Some c' -> pair_ok s' c c'.

Definition ext (s s' : st) : Prop :=
  (next s <= next s') /\
  (forall i n, lk s i = Some n -> exists n', lk s' i = Some n') /\
  (forall i j r, rep s i = Some r -> rep s j = Some r -> exists r', rep s' i = Some r' /\ rep s' j = Some r') /\
  (forall i h, head s i = Some h -> is_unknown h = false ->
               exists h', head s' i = Some h' /\ same_shape h h' = true) /\
  kids_keep s s'.

Definition pres {A} (m : M A) : Prop :=
  forall s a s', wf s -> m s = Ok (a, s') -> wf s' /\ ext s s'.

(* the frame property of `copy`: nothing below the old `next` is touched *)
Definition frame (s s' : st) : Prop :=
  (next s <= next s') /\ (forall i, i < next s -> lk s' i = lk s i).

Definition framed {A} (m : M A) : Prop :=
  forall s a s', wf s -> m s = Ok (a, s') -> wf s' /\ frame s s'.

(* ------------------------------------------------------------------ same_shape is an equivalence *)

Lemma fmem_In {V} k (f : list (string * V)) : fmem k f = true <-> In k (map fst f).
Proof.
  unfold fmem. induction f as [|[k' v] f IH]; cbn [flookup map fst In].
  - split; [discriminate|tauto].
  - destruct (String.eqb k k') eqn:E.
    + apply String.eqb_eq in E. subst. split; auto.
    + apply String.eqb_neq in E. rewrite IH. split; [auto|intros [H|H]; [congruence|auto]].
Qed.

Lemma keys_sub_spec f g : keys_sub f g = true <-> (forall k, In k (keys f) -> In k (keys g)).
Proof.
  unfold keys_sub. rewrite forallb_forall. split; intros H k Hk.
  - apply fmem_In. now apply H.
  - apply fmem_In. now apply H.
Qed.

Lemma keys_sub_refl f : keys_sub f f = true.
Proof. apply keys_sub_spec. auto. Qed.

Lemma keys_sub_trans f g h : keys_sub f g = true -> keys_sub g h = true -> keys_sub f h = true.
Proof. rewrite !keys_sub_spec. auto. Qed.

Lemma same_shape_refl a : same_shape a a = true.
Proof.
  destruct a; cbn [same_shape]; try reflexivity; try apply PeanoNat.Nat.eqb_refl;
    try (rewrite keys_sub_refl; reflexivity). apply N.eqb_refl.
Qed.

Lemma same_shape_sym a b : same_shape a b = true -> same_shape b a = true.
Proof.
  destruct a, b; cbn [same_shape]; try discriminate; auto.
  - rewrite PeanoNat.Nat.eqb_sym. auto.
  - rewrite PeanoNat.Nat.eqb_sym. auto.
  - rewrite andb_comm. auto.
  - rewrite N.eqb_sym. auto.
  - rewrite andb_comm. auto.
Qed.

Lemma same_shape_trans a b c : same_shape a b = true -> same_shape b c = true -> same_shape a c = true.
Proof.
  destruct a, b; cbn [same_shape]; try discriminate; destruct c; cbn [same_shape]; try discriminate; auto.
  - rewrite !PeanoNat.Nat.eqb_eq. congruence.
  - rewrite !PeanoNat.Nat.eqb_eq. congruence.
  - rewrite !andb_true_iff. intros [A B] [C D]. split; eapply keys_sub_trans; eauto.
  - rewrite !N.eqb_eq. congruence.
  - rewrite !andb_true_iff. intros [A B] [C D]. split; eapply keys_sub_trans; eauto.
Qed.

Lemma same_shape_unknown_l b : same_shape HUnknown b = true -> b = HUnknown.
Proof. destruct b; cbn; congruence. Qed.

Lemma same_shape_known a b : same_shape a b = true -> is_unknown a = false -> is_unknown b = false.
Proof. destruct a, b; cbn; congruence. Qed.

Lemma rigid_shape h h' : rigid h = true -> same_shape h h' = true -> h' = h.
Proof. destruct h; try discriminate; destruct h'; try discriminate; reflexivity. Qed.

Lemma rigid_known h : rigid h = true -> is_unknown h = false.
Proof. destruct h; try discriminate; reflexivity. Qed.

Lemma inner_shape h h' : same_shape h h' = true -> inner h = true -> inner h' = true.
Proof. destruct h; try discriminate; destruct h'; try discriminate; auto. Qed.

Lemma inner_known h : inner h = true -> is_unknown h = false.
Proof. destruct h; try discriminate; reflexivity. Qed.

Lemma inner_not_rigid h : inner h = true -> rigid h = true -> False.
Proof. destruct h; discriminate. Qed.

Lemma kid_known h x c : kid h x = Some c -> is_unknown h = false.
Proof. destruct h; try discriminate; reflexivity. Qed.

Lemma nth_error_same_length {A B} (l : list A) (l' : list B) n a :
  length l = length l' -> nth_error l n = Some a -> exists b, nth_error l' n = Some b.
Proof.
  intros E H. destruct (nth_error l' n) as [b|] eqn:E'; [eauto|].
  apply nth_error_None in E'. assert (n < length l)%nat by (apply nth_error_Some; congruence). lia.
Qed.

Lemma flookup_keys_sub (f g : fieldmap) k v :
  keys_sub f g = true -> flookup k f = Some v -> exists v', flookup k g = Some v'.
Proof.
  intros S H. assert (F : fmem k f = true) by (unfold fmem; rewrite H; reflexivity).
  apply fmem_In in F. rewrite keys_sub_spec in S. apply S in F. apply fmem_In in F.
  unfold fmem in F. destruct (flookup k g); [eauto|discriminate].
Qed.

(* types of the same shape have the same components *)
Lemma kid_shape h h' x c : same_shape h h' = true -> kid h x = Some c -> exists c', kid h' x = Some c'.
Proof.
  intros S H. destruct h; try discriminate H; destruct h'; try discriminate S; destruct x; try discriminate H;
    cbn [kid same_shape] in *.
  - apply PeanoNat.Nat.eqb_eq in S. eapply nth_error_same_length; eassumption.
  - eauto.
  - apply PeanoNat.Nat.eqb_eq in S. eapply nth_error_same_length; eassumption.
  - eauto.
  - apply andb_true_iff in S as [S _]. destruct (flookup k fields) as [v|] eqn:E; [|discriminate].
    destruct (flookup_keys_sub _ _ _ _ S E) as [v' ->]. cbn. eauto.
  - apply andb_true_iff in S as [S _]. destruct (flookup k variants) as [v|] eqn:E; [|discriminate].
    destruct (flookup_keys_sub _ _ _ _ S E) as [v' ->]. cbn. eauto.
Qed.

(* ------------------------------------------------------------------ ext is a preorder *)

Lemma same_rep_same_head s a b q : rep s a = Some q -> rep s b = Some q -> head s a = head s b.
Proof.
  unfold rep, head. destruct (lk s a) as [x|]; [|discriminate]. destruct (lk s b) as [y|]; [|discriminate].
  cbn. intros [= ->] [= ->]. reflexivity.
Qed.

Lemma pair_ok_refl s x : pair_ok s x x.
Proof. left. reflexivity. Qed.

Lemma pair_ok_sym s x y : pair_ok s x y -> pair_ok s y x.
Proof. intros [->|[(r & ? & ?)|(hx & hy & ? & ? & ? & ?)]]; [left; reflexivity|right; left|right; right]; eauto 8. Qed.

Lemma pair_ok_trans s x y z : pair_ok s x y -> pair_ok s y z -> pair_ok s x z.
Proof.
  intros [->|[(r & Hx & Hy)|(hx & hy & Hx & Hy & Ix & Iy)]] H; [assumption| |].
  - destruct H as [<-|[(r' & Hy' & Hz)|(hy & hz & Hy' & Hz & Iy & Iz)]].
    + right; left; eauto.
    + right; left. exists r. split; [assumption|congruence].
    + right; right. exists hy, hz. rewrite (same_rep_same_head _ _ _ _ Hx Hy). auto.
  - destruct H as [<-|[(r' & Hy' & Hz)|(hy' & hz & Hy' & Hz & Iy' & Iz)]].
    + right; right; eauto 8.
    + right; right. exists hx, hy. rewrite <- (same_rep_same_head _ _ _ _ Hy' Hz). auto.
    + right; right. exists hx, hz. auto.
Qed.

Lemma pair_ok_ext0 s s' x y :
  (forall i j r, rep s i = Some r -> rep s j = Some r -> exists r', rep s' i = Some r' /\ rep s' j = Some r') ->
  (forall i h, head s i = Some h -> is_unknown h = false -> exists h', head s' i = Some h' /\ same_shape h h' = true) ->
  pair_ok s x y -> pair_ok s' x y.
Proof.
  intros E3 E4 [->|[(r & Hx & Hy)|(hx & hy & Hx & Hy & Ix & Iy)]].
  - left. reflexivity.
  - right; left. destruct (E3 _ _ _ Hx Hy) as (r' & ? & ?). eauto.
  - right; right. destruct (E4 _ _ Hx (inner_known _ Ix)) as (hx' & Hx' & Sx).
    destruct (E4 _ _ Hy (inner_known _ Iy)) as (hy' & Hy' & Sy).
    exists hx', hy'. split; [assumption|]. split; [assumption|]. split; eapply inner_shape; eassumption.
Qed.

Lemma pair_ok_rigid s x y t : pair_ok s x y -> head s x = Some t -> rigid t = true -> head s y = Some t.
Proof.
  intros [->|[(r & Hx & Hy)|(hx & hy & Hx & Hy & Ix & Iy)]] H R.
  - assumption.
  - rewrite <- (same_rep_same_head _ _ _ _ Hx Hy). assumption.
  - rewrite Hx in H. injection H as ->. exfalso. exact (inner_not_rigid _ Ix R).
Qed.

Lemma ext_refl s : ext s s.
Proof.
  repeat split.
  - lia.
  - eauto.
  - eauto.
  - intros i h H _. exists h. split; [assumption|apply same_shape_refl].
  - intros i h h' x c c' H H' K K'. rewrite H in H'. injection H' as <-. rewrite K in K'. injection K' as <-.
    apply pair_ok_refl.
Qed.

Lemma ext_trans s1 s2 s3 : ext s1 s2 -> ext s2 s3 -> ext s1 s3.
Proof.
  intros (A1 & A2 & A3 & A4 & A5) (B1 & B2 & B3 & B4 & B5). repeat split.
  - lia.
  - intros i n H. destruct (A2 _ _ H) as [n' H']. eauto.
  - intros i j r Hi Hj. destruct (A3 _ _ _ Hi Hj) as (r' & Hi' & Hj'). eauto.
  - intros i h H U. destruct (A4 _ _ H U) as (h' & H' & S').
    destruct (B4 _ _ H' (same_shape_known _ _ S' U)) as (h'' & H'' & S'').
    exists h''. split; [assumption|eapply same_shape_trans; eauto].
  - intros i h h3 x c c3 H H3 K K3.
    destruct (A4 _ _ H (kid_known _ _ _ K)) as (h2 & H2 & S2).
    destruct (kid_shape _ _ _ _ S2 K) as [c2 K2].
    apply (pair_ok_trans _ _ c2).
    + apply (pair_ok_ext0 s2 s3 _ _ B3 B4). exact (A5 i h h2 x c c2 H H2 K K2).
    + exact (B5 i h2 h3 x c2 c3 H2 H3 K2 K3).
Qed.

(* a leaf type never changes *)
Lemma head_keep s s' i t : ext s s' -> head s i = Some t -> rigid t = true -> head s' i = Some t.
Proof.
  intros (_ & _ & _ & E4 & _) H R. destruct (E4 _ _ H (rigid_known _ R)) as (h' & H' & S).
  rewrite (rigid_shape _ _ R S) in H'. assumption.
Qed.

(* a component whose type is a leaf keeps that type, at the same position *)
Lemma kid_keep s s' i h h' x c c' t :
  ext s s' -> head s i = Some h -> head s' i = Some h' -> kid h x = Some c -> kid h' x = Some c' ->
  head s c = Some t -> rigid t = true -> head s' c' = Some t.
Proof.
  intros E H H' K K' Hc R. pose proof (head_keep _ _ _ _ E Hc R) as Hc'.
  destruct E as (_ & _ & _ & _ & E5). exact (pair_ok_rigid _ _ _ _ (E5 _ _ _ _ _ _ H H' K K') Hc' R).
Qed.

Definition seen_ok (seen : seenset) (s : st) : Prop := forall x y, In (x, y) seen -> pair_ok s x y.

Lemma pair_ok_ext s s' x y : ext s s' -> pair_ok s x y -> pair_ok s' x y.
Proof. intros (_ & _ & E3 & E4 & _). now apply pair_ok_ext0. Qed.

Lemma seen_ok_ext seen s s' : ext s s' -> seen_ok seen s -> seen_ok seen s'.
Proof. intros E H x y Hin. eapply pair_ok_ext; eauto. Qed.

(* ------------------------------------------------------------------ the monad *)

Lemma bind_inv {A B} (m : M A) (k : A -> M B) s b s'' :
  bind m k s = Ok (b, s'') -> exists a s', m s = Ok (a, s') /\ k a s' = Ok (b, s'').
Proof.
  unfold bind. destruct (m s) as [[a s']| | |]; try discriminate. eauto.
Qed.

Lemma pres_ret {A} (a : A) : pres (ret a).
Proof. intros s a' s' W H. injection H as <- <-. split; [assumption|apply ext_refl]. Qed.

Lemma pres_fail {A} k sp : pres (@fail A k sp).
Proof. intros s a s' _ H. discriminate. Qed.
Lemma pres_fail_many {A} e more : pres (@fail_many A e more).
Proof. intros s a s' _ H. discriminate. Qed.
Lemma pres_panic {A} p : pres (@panic A p).
Proof. intros s a s' _ H. discriminate. Qed.
Lemma pres_oof {A} : pres (@out_of_fuel A).
Proof. intros s a s' _ H. discriminate. Qed.

Lemma pres_bind {A B} (m : M A) (k : A -> M B) : pres m -> (forall a, pres (k a)) -> pres (bind m k).
Proof.
  intros Hm Hk s b s'' W H. apply bind_inv in H as (a & s' & H1 & H2).
  destruct (Hm _ _ _ W H1) as [W' E']. destruct (Hk a _ _ _ W' H2) as [W'' E''].
  split; [assumption|eapply ext_trans; eauto].
Qed.

Lemma pres_iterM {A} (f : A -> M unit) l : (forall x, pres (f x)) -> pres (iterM f l).
Proof.
  intros H. induction l; cbn [iterM]; [apply pres_ret|].
  apply pres_bind; [apply H|intros _; assumption].
Qed.

Lemma pres_mapM {A B} (f : A -> M B) l : (forall x, pres (f x)) -> pres (mapM f l).
Proof.
  intros H. induction l; cbn [mapM]; [apply pres_ret|].
  apply pres_bind; [apply H|intros y]. apply pres_bind; [assumption|intros ys; apply pres_ret].
Qed.

Lemma pres_foldM {A B} (f : B -> A -> M B) l : (forall b x, pres (f b x)) -> forall b, pres (foldM f l b).
Proof.
  intros H. induction l; intros b; cbn [foldM]; [apply pres_ret|].
  apply pres_bind; [apply H|intros b'; apply IHl].
Qed.

Lemma framed_pres {A} (m : M A) : framed m -> pres m.
Proof.
  intros F s a s' W H. destruct (F _ _ _ W H) as [W' [F1 F2]]. split; [assumption|].
  destruct W as [W1 W2].
  assert (L : forall i n, lk s i = Some n -> lk s' i = Some n).
  { intros i n Hi. rewrite F2; [assumption|eauto]. }
  repeat split.
  - assumption.
  - intros i n Hi. eauto.
  - unfold rep. intros i j r Hi Hj.
    destruct (lk s i) as [ni|] eqn:Ei; [|discriminate]. destruct (lk s j) as [nj|] eqn:Ej; [|discriminate].
    rewrite (L _ _ Ei), (L _ _ Ej). eauto.
  - unfold head. intros i h Hi _.
    destruct (lk s i) as [ni|] eqn:Ei; [|discriminate].
    rewrite (L _ _ Ei).
    destruct (W2 _ _ Ei) as (r & Hr & _). rewrite (L _ _ Hr). rewrite Hr in Hi.
    exists h. split; [assumption|apply same_shape_refl].
  - intros i h h' x c c' Hi Hi' K K'.
    assert (Hd : forall j hj, head s j = Some hj -> head s' j = Some hj).
    { intros j hj Hj. unfold head in *. destruct (lk s j) as [nj|] eqn:Ej; [|discriminate]. rewrite (L _ _ Ej).
      destruct (W2 _ _ Ej) as (r & Hr & _). rewrite (L _ _ Hr). rewrite Hr in Hj. assumption. }
    rewrite (Hd _ _ Hi) in Hi'. injection Hi' as <-. rewrite K in K'. injection K' as <-. apply pair_ok_refl.
Qed.

(* ------------------------------------------------------------------ primitives *)

Lemma get_node_inv i s n s' : get_node i s = Ok (n, s') -> s' = s /\ lk s i = Some n.
Proof.
  unfold get_node, lk. destruct (PositiveMap.find i (nodes s)); [|discriminate].
  intros H. injection H as <- <-. auto.
Qed.

Lemma find_inv a s r s' : find a s = Ok (r, s') -> s' = s /\ rep s a = Some r.
Proof.
  unfold find. intros H. apply bind_inv in H as (n & s1 & H1 & H2).
  apply get_node_inv in H1 as [-> H1]. injection H2 as <- <-. unfold rep. rewrite H1. auto.
Qed.

Lemma find_node_inv a s n s' :
  find_node a s = Ok (n, s') -> s' = s /\ exists r, rep s a = Some r /\ lk s r = Some n.
Proof.
  unfold find_node. intros H. apply bind_inv in H as (r & s1 & H1 & H2).
  apply find_inv in H1 as [-> H1]. apply get_node_inv in H2 as [-> H2]. eauto.
Qed.

Lemma find_type_inv a s t s' : find_type a s = Ok (t, s') -> s' = s /\ head s a = Some t.
Proof.
  unfold find_type. intros H. apply bind_inv in H as (n & s1 & H1 & H2).
  apply find_node_inv in H1 as [-> (r & H1 & H1')]. injection H2 as <- <-. split; [reflexivity|].
  unfold head, rep in *. destruct (lk s a) as [na|]; [|discriminate]. injection H1 as <-.
  rewrite H1'. reflexivity.
Qed.

Lemma pres_get_node i : pres (get_node i).
Proof. intros s n s' W H. apply get_node_inv in H as [-> _]. split; [assumption|apply ext_refl]. Qed.
Lemma pres_find a : pres (find a).
Proof. intros s n s' W H. apply find_inv in H as [-> _]. split; [assumption|apply ext_refl]. Qed.
Lemma pres_find_node a : pres (find_node a).
Proof. intros s n s' W H. apply find_node_inv in H as [-> _]. split; [assumption|apply ext_refl]. Qed.
Lemma pres_find_type a : pres (find_type a).
Proof. intros s n s' W H. apply find_type_inv in H as [-> _]. split; [assumption|apply ext_refl]. Qed.
Lemma pres_is_void a : pres (is_void a).
Proof. unfold is_void. apply pres_bind; [apply pres_find_type|intros; apply pres_ret]. Qed.

(* push_type *)
Definition push_st (t : tyh) (s : st) : st :=
  mkSt (PositiveMap.add (next s) (mkNode t (next s) 1%N []) (nodes s)) (Pos.succ (next s)) (tnames s).

Lemma push_type_eq t s : push_type t s = Ok (next s, push_st t s).
Proof. reflexivity. Qed.

Lemma lk_push_new t s : lk (push_st t s) (next s) = Some (mkNode t (next s) 1%N []).
Proof. unfold lk, push_st. cbn [nodes]. apply PositiveMap.gss. Qed.

Lemma lk_push_old t s i : i <> next s -> lk (push_st t s) i = lk s i.
Proof. intros H. unfold lk, push_st. cbn [nodes]. now apply PositiveMap.gso. Qed.

Lemma wf_below s i n : wf s -> lk s i = Some n -> i <> next s.
Proof. intros [W1 _] H. specialize (W1 _ _ H). lia. Qed.

Lemma wf_rep_below s i n : wf s -> lk s i = Some n -> nrep n <> next s.
Proof. intros W H. destruct W as [W1 W2]. destruct (W2 _ _ H) as (r & Hr & _). specialize (W1 _ _ Hr). lia. Qed.

Lemma framed_push t : framed (push_type t).
Proof.
  intros s a s' W H. rewrite push_type_eq in H. injection H as <- <-.
  split.
  - destruct W as [W1 W2]. split.
    + intros i n Hi. cbn [push_st next]. destruct (Pos.eq_dec i (next s)) as [->|Ne]; [lia|].
      rewrite lk_push_old in Hi by assumption. specialize (W1 _ _ Hi). lia.
    + intros i n Hi. destruct (Pos.eq_dec i (next s)) as [->|Ne].
      * rewrite lk_push_new in Hi. injection Hi as <-. cbn [nrep]. rewrite lk_push_new. eauto.
      * rewrite lk_push_old in Hi by assumption.
        destruct (W2 _ _ Hi) as (r & Hr & Hrr). exists r. split; [|assumption].
        rewrite lk_push_old; [assumption|]. specialize (W1 _ _ Hr). lia.
  - split; [cbn [push_st next]; lia|]. intros i Hi. apply lk_push_old. lia.
Qed.

Lemma pres_push t : pres (push_type t).
Proof. apply framed_pres, framed_push. Qed.

(* updates of a root that keep its representative *)
Definition put_st (i : tyid) (n : node) (s : st) : st := mkSt (PositiveMap.add i n (nodes s)) (next s) (tnames s).

Lemma put_node_eq i n s : put_node i n s = Ok (tt, put_st i n s).
Proof. reflexivity. Qed.

Lemma lk_put_same i n s : lk (put_st i n s) i = Some n.
Proof. unfold lk, put_st. cbn [nodes]. apply PositiveMap.gss. Qed.

Lemma lk_put_other i n s j : j <> i -> lk (put_st i n s) j = lk s j.
Proof. intros H. unfold lk, put_st. cbn [nodes]. now apply PositiveMap.gso. Qed.

(* replacing the node of a root by one with the same representative: wf is kept; the head of that
   class becomes the new type *)
Lemma wf_put_root s r n n' :
  wf s -> lk s r = Some n -> nrep n' = nrep n -> wf (put_st r n' s).
Proof.
  intros [W1 W2] Hr E. split.
  - intros i x Hi. cbn [put_st next]. destruct (Pos.eq_dec i r) as [->|Ne].
    + eapply W1; eassumption.
    + rewrite lk_put_other in Hi by assumption. eapply W1; eassumption.
  - intros i x Hi. destruct (Pos.eq_dec i r) as [->|Ne].
    + rewrite lk_put_same in Hi. injection Hi as <-. rewrite E.
      destruct (W2 _ _ Hr) as (q & Hq & Hqq).
      destruct (Pos.eq_dec (nrep n) r) as [Eq|Nq].
      * rewrite Eq, lk_put_same. exists n'. split; [reflexivity|]. congruence.
      * rewrite lk_put_other by assumption. eauto.
    + rewrite lk_put_other in Hi by assumption.
      destruct (W2 _ _ Hi) as (q & Hq & Hqq).
      destruct (Pos.eq_dec (nrep x) r) as [Eq|Nq].
      * rewrite Eq, lk_put_same. exists n'. split; [reflexivity|].
        rewrite Eq in Hq. rewrite Hr in Hq. injection Hq as <-. congruence.
      * rewrite lk_put_other by assumption. eauto.
Qed.

Lemma rep_put_root s r n n' i :
  lk s r = Some n -> nrep n' = nrep n -> rep (put_st r n' s) i = rep s i.
Proof.
  intros Hr E. unfold rep. destruct (Pos.eq_dec i r) as [->|Ne].
  - rewrite lk_put_same, Hr. cbn. congruence.
  - rewrite lk_put_other by assumption. reflexivity.
Qed.

Lemma head_put_root s r n n' i :
  lk s r = Some n -> nrep n = r -> nrep n' = r ->
  head (put_st r n' s) i = match rep s i with
                           | Some q => if Pos.eqb q r then Some (nty n') else head s i
                           | None => None
                           end.
Proof.
  intros Hr E E'. unfold head, rep. destruct (Pos.eq_dec i r) as [->|Ne].
  - rewrite lk_put_same, Hr. cbn [option_map]. rewrite E, E', Pos.eqb_refl, lk_put_same. reflexivity.
  - rewrite lk_put_other by assumption. destruct (lk s i) as [x|]; [|reflexivity]. cbn [option_map].
    destruct (Pos.eqb_spec (nrep x) r) as [->|Nq].
    + rewrite lk_put_same. reflexivity.
    + rewrite lk_put_other by assumption. reflexivity.
Qed.

Lemma ext_put_root s r n n' :
  wf s -> lk s r = Some n -> nrep n = r -> nrep n' = r ->
  (is_unknown (nty n) = true \/ nty n' = nty n) ->
  ext s (put_st r n' s).
Proof.
  intros W Hr E E' Sh.
  assert (Hd : forall j hj, head s j = Some hj -> is_unknown hj = false -> head (put_st r n' s) j = Some hj).
  { intros j hj Hj U. rewrite (head_put_root s r n n') by assumption.
    unfold head in Hj. unfold rep. destruct (lk s j) as [x|] eqn:Ex; [|discriminate]. cbn [option_map].
    destruct (Pos.eqb_spec (nrep x) r) as [Eq|Nq].
    - rewrite Eq, Hr in Hj. injection Hj as <-. destruct Sh as [Sh|Sh]; congruence.
    - unfold head. rewrite Ex. assumption. }
  repeat split.
  - cbn [put_st next]. lia.
  - intros i x Hi. destruct (Pos.eq_dec i r) as [->|Ne].
    + rewrite lk_put_same. eauto.
    + rewrite lk_put_other by assumption. eauto.
  - intros i j q Hi Hj. exists q. rewrite !(rep_put_root s r n n') by congruence. auto.
  - intros i h Hi U. rewrite (head_put_root s r n n') by assumption.
    unfold head in Hi. unfold rep. destruct (lk s i) as [x|] eqn:Ex; [|discriminate]. cbn [option_map].
    destruct (Pos.eqb_spec (nrep x) r) as [Eq|Nq].
    + rewrite Eq, Hr in Hi. injection Hi as <-. exists (nty n'). split; [reflexivity|].
      destruct Sh as [Sh|Sh]; [congruence|rewrite Sh; apply same_shape_refl].
    + exists h. split; [|apply same_shape_refl]. unfold head. rewrite Ex. assumption.
  - intros i h h' x c c' Hi Hi' K K'.
    rewrite (Hd _ _ Hi (kid_known _ _ _ K)) in Hi'. injection Hi' as <-. rewrite K in K'. injection K' as <-.
    apply pair_ok_refl.
Qed.

(* add_constraint / set_cons: the type of the root is unchanged *)
Lemma root_of s a r : wf s -> rep s a = Some r -> exists n, lk s r = Some n /\ nrep n = r.
Proof.
  intros [_ W2] H. unfold rep in H. destruct (lk s a) as [x|] eqn:Ex; [|discriminate].
  injection H as <-. destruct (W2 _ _ Ex) as (q & Hq & Hqq). eauto.
Qed.

Lemma pres_update_root a (f : node -> node) :
  (forall n, nrep (f n) = nrep n) ->
  (forall n, is_unknown (nty n) = true \/ nty (f n) = nty n) ->
  pres (r <- find a ;; n <- get_node r ;; put_node r (f n)).
Proof.
  intros F1 F2 s u s' W H.
  apply bind_inv in H as (r & s1 & H1 & H). apply find_inv in H1 as [-> H1].
  apply bind_inv in H as (n & s2 & H2 & H). apply get_node_inv in H2 as [-> H2].
  rewrite put_node_eq in H. injection H as H. subst s'.
  destruct (root_of _ _ _ W H1) as (n0 & Hn0 & En0). rewrite H2 in Hn0. injection Hn0 as <-.
  split.
  - eapply wf_put_root; eauto.
  - eapply ext_put_root; eauto. rewrite F1. assumption.
Qed.

Lemma pres_add_constraint a c : pres (add_constraint a c).
Proof.
  unfold add_constraint.
  apply (pres_update_root a (fun n => mkNode (nty n) (nrep n) (nsize n) (cinsert c (ncons n)))).
  - reflexivity.
  - intros n. right. reflexivity.
Qed.

Lemma pres_set_cons a cs : pres (set_cons a cs).
Proof.
  unfold set_cons.
  apply (pres_update_root a (fun n => mkNode (nty n) (nrep n) (nsize n) cs)).
  - reflexivity.
  - intros n. right. reflexivity.
Qed.

(* the set of type names is not part of the graph *)
Lemma same_graph s s' : nodes s' = nodes s -> next s' = next s -> wf s -> wf s' /\ ext s s'.
Proof.
  intros Hn Hx W.
  assert (L : forall i, lk s' i = lk s i) by (intros; unfold lk; rewrite Hn; reflexivity).
  assert (R : forall i, rep s' i = rep s i) by (intros; unfold rep; rewrite L; reflexivity).
  assert (Hd : forall i, head s' i = head s i)
    by (intros; unfold head; rewrite L; destruct (lk s i); [rewrite L|]; reflexivity).
  split.
  - destruct W as [W1 W2]. split; intros i n H; rewrite L in H.
    + rewrite Hx. eauto.
    + destruct (W2 _ _ H) as (r & Hr & E). exists r. rewrite L. auto.
  - repeat split.
    + rewrite Hx. lia.
    + intros i n H. rewrite L. eauto.
    + intros i j r Hi Hj. rewrite !R. eauto.
    + intros i h H _. rewrite Hd. exists h. split; [assumption|apply same_shape_refl].
    + intros i h h' x c c' Hi Hi' K K'. rewrite Hd, Hi in Hi'. injection Hi' as <-.
      rewrite K in K'. injection K' as <-. apply pair_ok_refl.
Qed.

Lemma pres_add_type_name v : pres (add_type_name v).
Proof. intros s u s' W H. injection H as _ <-. apply same_graph; auto. Qed.

Lemma is_type_name_inv v s b s' : is_type_name v s = Ok (b, s') -> s' = s /\ b = existsb (N.eqb v) (tnames s).
Proof. intros H. injection H as <- <-. auto. Qed.

Lemma pres_is_type_name v : pres (is_type_name v).
Proof. intros s b s' W H. apply is_type_name_inv in H as [-> _]. split; [assumption|apply ext_refl]. Qed.

(* ------------------------------------------------------------------ set_type on a class whose head is Unknown *)

Lemma set_type_spec a t s u s' :
  wf s -> head s a = Some HUnknown -> set_type a t s = Ok (u, s') ->
  wf s' /\ ext s s' /\
  (forall i, rep s' i = rep s i) /\
  (forall i, head s' i = match rep s i, rep s a with
                         | Some q, Some r => if Pos.eqb q r then Some t else head s i
                         | _, _ => head s i
                         end).
Proof.
  intros W Hh H. unfold set_type in H.
  apply bind_inv in H as (r & s1 & H1 & H). apply find_inv in H1 as [-> H1].
  apply bind_inv in H as (n & s2 & H2 & H). apply get_node_inv in H2 as [-> H2].
  rewrite put_node_eq in H. injection H as H. subst s'.
  destruct (root_of _ _ _ W H1) as (n0 & Hn0 & En0). rewrite H2 in Hn0. injection Hn0 as <-.
  assert (Un : nty n = HUnknown).
  { unfold head, rep in *. destruct (lk s a) as [x|]; [|discriminate]. injection H1 as <-.
    rewrite H2 in Hh. cbn in Hh. congruence. }
  set (n' := mkNode t (nrep n) (nsize n) (ncons n)).
  assert (E' : nrep n' = r) by (cbn; assumption).
  assert (X : ext s (put_st r n' s)) by (apply (ext_put_root s r n n' W H2 En0 E'); left; rewrite Un; reflexivity).
  split; [exact (wf_put_root s r n n' W H2 eq_refl)|]. split; [exact X|]. split.
  - intros i. apply (rep_put_root s r n n'); [assumption|reflexivity].
  - intros i. rewrite (head_put_root s r n n' i H2 En0 E'). rewrite H1.
    destruct (rep s i) as [q|] eqn:Eq; [reflexivity|].
    unfold head, rep in *. destruct (lk s i); [discriminate|reflexivity].
Qed.

(* ------------------------------------------------------------------ union *)

Definition union_st (big small : tyid) (nbig nsmall : node) (s : st) : st :=
  mkSt (PositiveMap.add big
          (mkNode (nty nbig) big (nsize nbig + nsize nsmall)%N
                  (fold_left (fun acc c => cinsert c acc) (ncons nsmall) (ncons nbig)))
          (PositiveMap.map
             (fun n => if Pos.eqb (nrep n) small then mkNode (nty n) big (nsize n) (ncons n) else n) (nodes s)))
       (next s) (tnames s).

Definition moved (big small : tyid) (n : node) : node :=
  if Pos.eqb (nrep n) small then mkNode (nty n) big (nsize n) (ncons n) else n.

Lemma lk_union big small nbig nsmall s i :
  lk (union_st big small nbig nsmall s) i =
  if Pos.eqb i big
  then Some (mkNode (nty nbig) big (nsize nbig + nsize nsmall)%N
                    (fold_left (fun acc c => cinsert c acc) (ncons nsmall) (ncons nbig)))
  else option_map (moved big small) (lk s i).
Proof.
  unfold lk, union_st. cbn [nodes]. destruct (Pos.eqb_spec i big) as [->|Ne].
  - apply PositiveMap.gss.
  - rewrite PositiveMap.gso by assumption. unfold PositiveMap.map. rewrite PositiveMap.gmapi. reflexivity.
Qed.

Lemma nty_moved big small n : nty (moved big small n) = nty n.
Proof. unfold moved. destruct (Pos.eqb (nrep n) small); reflexivity. Qed.

Lemma nrep_moved big small n : nrep (moved big small n) = if Pos.eqb (nrep n) small then big else nrep n.
Proof. unfold moved. destruct (Pos.eqb (nrep n) small); reflexivity. Qed.

Lemma rep_union big small nbig nsmall s i :
  lk s big = Some nbig -> nrep nbig = big -> big <> small ->
  rep (union_st big small nbig nsmall s) i =
  option_map (fun q => if Pos.eqb q small then big else q) (rep s i).
Proof.
  intros Hb Eb Ne. unfold rep. rewrite lk_union. destruct (Pos.eqb_spec i big) as [->|Ni].
  - rewrite Hb. cbn [option_map nrep]. rewrite Eb.
    destruct (Pos.eqb_spec big small); [contradiction|reflexivity].
  - destruct (lk s i) as [x|]; [|reflexivity]. cbn [option_map]. rewrite nrep_moved. reflexivity.
Qed.

Lemma union_st_spec big small nbig nsmall s :
  wf s -> lk s big = Some nbig -> nrep nbig = big -> lk s small = Some nsmall -> nrep nsmall = small ->
  big <> small ->
  (is_unknown (nty nsmall) = true \/ same_shape (nty nsmall) (nty nbig) = true) ->
  (forall x cs cb, kid (nty nsmall) x = Some cs -> kid (nty nbig) x = Some cb -> pair_ok s cs cb) ->
  wf (union_st big small nbig nsmall s) /\ ext s (union_st big small nbig nsmall s).
Proof.
  intros W Hb Eb Hs Es Ne Sh Hk. pose proof W as [W1 W2].
  set (s' := union_st big small nbig nsmall s).
  assert (R : forall i, rep s' i = option_map (fun q => if Pos.eqb q small then big else q) (rep s i))
    by (intros; now apply rep_union).
  assert (Hroot : forall q x, lk s q = Some x -> nrep x = q -> q <> small -> q <> big ->
                              lk s' q = Some x).
  { intros q x Hq Eq N1 N2. unfold s'. rewrite lk_union.
    destruct (Pos.eqb_spec q big); [contradiction|]. rewrite Hq. cbn [option_map]. unfold moved.
    rewrite Eq. destruct (Pos.eqb_spec q small); [contradiction|reflexivity]. }
  assert (Hbig : exists x, lk s' big = Some x /\ nrep x = big /\ nty x = nty nbig).
  { unfold s'. rewrite lk_union, Pos.eqb_refl. eexists. repeat split. }
  assert (Hhead : forall i y, lk s i = Some y ->
            head s' i = if Pos.eqb (nrep y) small then Some (nty nbig) else head s i).
  { intros i y Ey.
    assert (Ri : rep s' i = Some (if Pos.eqb (nrep y) small then big else nrep y)).
    { rewrite R. unfold rep. rewrite Ey. reflexivity. }
    assert (Hd : forall q, rep s' i = Some q -> head s' i = option_map nty (lk s' q)).
    { intros q Hq. unfold head, rep in *. destruct (lk s' i); [|discriminate]. cbn in Hq. congruence. }
    rewrite (Hd _ Ri).
    destruct (Pos.eqb_spec (nrep y) small) as [Eq|Nq].
    + destruct Hbig as (b & Hb' & _ & Tb). rewrite Hb'. cbn [option_map]. rewrite Tb. reflexivity.
    + unfold head. rewrite Ey. destruct (Pos.eq_dec (nrep y) big) as [Eb2|Nb2].
      * destruct Hbig as (b & Hb' & _ & Tb). rewrite Eb2, Hb', Hb. cbn [option_map]. rewrite Tb. reflexivity.
      * destruct (W2 _ _ Ey) as (q & Hq & Eqq). rewrite (Hroot _ _ Hq Eqq Nq Nb2). rewrite Hq. reflexivity. }
  split; [split|repeat split].
  - intros i x Hi. unfold s' in *. rewrite lk_union in Hi. cbn [union_st next].
    destruct (Pos.eqb_spec i big) as [->|Ni]; [eapply W1; eassumption|].
    destruct (lk s i) as [y|] eqn:Ey; [|discriminate]. eapply W1; eassumption.
  - intros i x Hi.
    assert (Rx : rep s' i = Some (nrep x)) by (unfold rep; rewrite Hi; reflexivity).
    rewrite R in Rx. unfold rep in Rx. destruct (lk s i) as [y|] eqn:Ey; [|discriminate].
    cbn [option_map] in Rx. injection Rx as Rx.
    destruct (Pos.eqb_spec (nrep y) small) as [Eq|Nq].
    + rewrite <- Rx. destruct Hbig as (b & Hb' & Eb' & _). eauto.
    + destruct (W2 _ _ Ey) as (q & Hq & Eqq).
      destruct (Pos.eq_dec (nrep y) big) as [Eb2|Nb2].
      * rewrite <- Rx, Eb2. destruct Hbig as (b & Hb' & Eb' & _). eauto.
      * rewrite <- Rx. exists q. split; [|assumption]. apply Hroot; assumption.
  - unfold s'. cbn [union_st next]. lia.
  - intros i x Hi. unfold s'. rewrite lk_union. destruct (Pos.eqb i big); [eauto|]. rewrite Hi. cbn. eauto.
  - intros i j q Hi Hj. rewrite !R, Hi, Hj. cbn [option_map]. eexists; split; reflexivity.
  - intros i h Hi U. pose proof Hi as Hi0. unfold head in Hi. destruct (lk s i) as [y|] eqn:Ey; [|discriminate].
    rewrite (Hhead _ _ Ey). destruct (Pos.eqb_spec (nrep y) small) as [Eq|Nq].
    + rewrite Eq, Hs in Hi. cbn in Hi. injection Hi as <-. exists (nty nbig). split; [reflexivity|].
      destruct Sh as [Sh|Sh]; [congruence|assumption].
    + exists h. split; [exact Hi0|apply same_shape_refl].
  - intros i h h' x c c' Hi Hi' K K'.
    assert (PE : forall u v, pair_ok s u v -> pair_ok s' u v).
    { intros u v. apply pair_ok_ext0.
      - intros i0 j0 q Hi1 Hj1. rewrite !R, Hi1, Hj1. cbn [option_map]. eexists; split; reflexivity.
      - intros i0 h0 Hi1 U. pose proof Hi1 as Hi0. unfold head in Hi1. destruct (lk s i0) as [y|] eqn:Ey; [|discriminate].
        rewrite (Hhead _ _ Ey). destruct (Pos.eqb_spec (nrep y) small) as [Eq|Nq].
        + rewrite Eq, Hs in Hi1. cbn in Hi1. injection Hi1 as <-. exists (nty nbig). split; [reflexivity|].
          destruct Sh as [Sh|Sh]; [congruence|assumption].
        + exists h0. split; [exact Hi0|apply same_shape_refl]. }
    pose proof Hi as Hi0. unfold head in Hi. destruct (lk s i) as [y|] eqn:Ey; [|discriminate].
    rewrite (Hhead _ _ Ey) in Hi'. destruct (Pos.eqb_spec (nrep y) small) as [Eq|Nq].
    + injection Hi' as <-. rewrite Eq, Hs in Hi. cbn in Hi. injection Hi as <-.
      apply PE. exact (Hk x c c' K K').
    + rewrite Hi0 in Hi'. injection Hi' as <-. rewrite K in K'. injection K' as <-. apply pair_ok_refl.
Qed.

Lemma union_spec a b s u s' :
  wf s -> union a b s = Ok (u, s') ->
  (forall ha hb, head s a = Some ha -> head s b = Some hb -> same_shape ha hb = true) ->
  (forall ha hb x ca cb, head s a = Some ha -> head s b = Some hb ->
                         kid ha x = Some ca -> kid hb x = Some cb -> pair_ok s ca cb) ->
  wf s' /\ ext s s' /\ (exists r, rep s' a = Some r /\ rep s' b = Some r).
Proof.
  intros W H Sh Hk. unfold union in H.
  apply bind_inv in H as (ra & s1 & H1 & H). apply find_inv in H1 as [-> H1].
  apply bind_inv in H as (rb & s2 & H2 & H). apply find_inv in H2 as [-> H2].
  destruct (Pos.eqb_spec ra rb) as [->|Ne].
  - injection H as _ <-. split; [assumption|]. split; [apply ext_refl|eauto].
  - apply bind_inv in H as (na & s3 & H3 & H). apply get_node_inv in H3 as [-> H3].
    apply bind_inv in H as (nb & s4 & H4 & H). apply get_node_inv in H4 as [-> H4].
    destruct (root_of _ _ _ W H1) as (na' & Ha' & Ea). rewrite H3 in Ha'. injection Ha' as <-.
    destruct (root_of _ _ _ W H2) as (nb' & Hb' & Eb). rewrite H4 in Hb'. injection Hb' as <-.
    assert (Hha : head s a = Some (nty na)).
    { unfold head, rep in *. destruct (lk s a); [|discriminate]. injection H1 as ->. rewrite H3. reflexivity. }
    assert (Hhb : head s b = Some (nty nb)).
    { unfold head, rep in *. destruct (lk s b); [|discriminate]. injection H2 as ->. rewrite H4. reflexivity. }
    specialize (Sh _ _ Hha Hhb).
    destruct (N.ltb (nsize na) (nsize nb)).
    + injection H as _ H. change (union_st rb ra nb na s = s') in H. subst s'.
      destruct (union_st_spec rb ra nb na s W H4 Eb H3 Ea) as [W' E'];
        [congruence|right; assumption|intros x cs cb K1 K2; exact (Hk _ _ x cs cb Hha Hhb K1 K2)|].
      split; [assumption|]. split; [assumption|].
      exists rb. rewrite !(rep_union rb ra nb na s _ H4 Eb) by congruence. rewrite H1, H2. cbn [option_map].
      rewrite Pos.eqb_refl. destruct (Pos.eqb_spec rb ra); [congruence|auto].
    + injection H as _ H. change (union_st ra rb na nb s = s') in H. subst s'.
      destruct (union_st_spec ra rb na nb s W H3 Ea H4 Eb Ne) as [W' E'];
        [right; now apply same_shape_sym|intros x cs cb K1 K2; apply pair_ok_sym; exact (Hk _ _ x cb cs Hha Hhb K2 K1)|].
      split; [assumption|]. split; [assumption|].
      exists ra. rewrite !(rep_union ra rb na nb s _ H3 Ea Ne). rewrite H1, H2. cbn [option_map].
      rewrite Pos.eqb_refl. destruct (Pos.eqb_spec ra rb); [congruence|auto].
Qed.

(* ------------------------------------------------------------------ computations that only read the store *)

Definition readonly {A} (m : M A) : Prop := forall s a s', m s = Ok (a, s') -> s' = s.

Lemma ro_ret {A} (a : A) : readonly (ret a).
Proof. intros s x s' H. injection H as _ <-. reflexivity. Qed.

Lemma ro_fail {A} k sp : readonly (@fail A k sp).
Proof. intros s x s' H. discriminate. Qed.

Lemma ro_oof {A} : readonly (@out_of_fuel A).
Proof. intros s x s' H. discriminate. Qed.

Lemma ro_bind {A B} (m : M A) (k : A -> M B) : readonly m -> (forall a, readonly (k a)) -> readonly (bind m k).
Proof.
  intros Hm Hk s b s' H. apply bind_inv in H as (a & s1 & H1 & H2).
  apply Hm in H1. subst s1. exact (Hk a _ _ _ H2).
Qed.

Lemma ro_find a : readonly (find a).
Proof. intros s x s' H. apply find_inv in H as [-> _]. reflexivity. Qed.

Lemma ro_find_type a : readonly (find_type a).
Proof. intros s x s' H. apply find_type_inv in H as [-> _]. reflexivity. Qed.

Lemma ro_mapM {A B} (f : A -> M B) l : (forall x, readonly (f x)) -> readonly (mapM f l).
Proof.
  intros H. induction l; cbn [mapM]; [apply ro_ret|].
  apply ro_bind; [apply H|intros y]. apply ro_bind; [assumption|intros ys; apply ro_ret].
Qed.

Lemma readonly_pres {A} (m : M A) : readonly m -> pres m.
Proof. intros H s a s' W E. apply H in E. subst s'. split; [assumption|apply ext_refl]. Qed.

(* ------------------------------------------------------------------ the graph-level functions *)

Record gpres (R : grec) : Prop := mkGP {
  gp_unify : forall sp a b seen s r s', wf s -> seen_ok seen s -> g_unify R sp a b seen s = Ok (r, s') ->
             wf s' /\ ext s s' /\ seen_ok (snd r) s' /\ pair_ok s' a b;
  gp_check : forall sp a, pres (g_check R sp a);
  gp_arith : forall k sp a b, pres (g_arith R k sp a b);
  gp_div : forall sp a b, pres (g_div R sp a b);
  gp_divres : forall sp a b, pres (g_divres R sp a b);
  gp_copy : forall a m, framed (g_copy R a m);
  gp_neg : forall sp a, pres (g_neg R sp a);
  gp_inside : forall sp u todo seen, readonly (g_inside R sp u todo seen)
}.

(* fn check_not_inside only reads the store *)
Lemma ro_inside_body R (P : gpres R) sp u todo seen : readonly (inside_body R sp u todo seen).
Proof.
  unfold inside_body. destruct todo as [|ty todo]; [apply ro_ret|].
  apply ro_bind; [apply ro_find|intros r].
  destruct (existsb (Pos.eqb r) seen); [apply (gp_inside R P)|].
  apply ro_bind; [apply ro_find_type|intros h].
  destruct h; try apply (gp_inside R P).
  apply ro_bind; [apply ro_mapM; intros; apply ro_find|intros reps].
  match goal with |- readonly (if ?c then _ else _) => destruct c end; [apply ro_fail|apply (gp_inside R P)].
Qed.

Lemma ro_check_not_inside R (P : gpres R) sp u ty : readonly (check_not_inside R sp u ty).
Proof. unfold check_not_inside. apply ro_bind; [apply ro_find|intros r; apply (gp_inside R P)]. Qed.

Lemma pres_check_not_inside R (P : gpres R) sp u ty : pres (check_not_inside R sp u ty).
Proof. apply readonly_pres, ro_check_not_inside, P. Qed.

Lemma pres_iter2 (f : tyid -> tyid -> M unit) : (forall x y, pres (f x y)) -> forall xs ys, pres (iter2 f xs ys).
Proof.
  intros H. induction xs as [|x xs IH]; intros [|y ys]; cbn [iter2]; try apply pres_ret.
  apply pres_bind; [apply H|intros _; apply IH].
Qed.

Lemma seen_ok_nil s : seen_ok [] s.
Proof. intros x y []. Qed.

(* with nothing assumed (`seen` empty) sub_unify is an ordinary state extension *)
Lemma gp_unify0 R (P : gpres R) sp a b : pres (g_unify R sp a b []).
Proof.
  intros s r s' W H. destruct (gp_unify R P sp a b [] s r s' W (seen_ok_nil s) H) as (X & Y & _). auto.
Qed.

Lemma pres_unify R (P : gpres R) sp a b : pres (unify R sp a b).
Proof. unfold unify. apply pres_bind; [apply (gp_unify0 R P)|intros; apply pres_ret]. Qed.

Lemma unify2_spec R (P : gpres R) sp : forall xs ys seen s seen' s',
  wf s -> seen_ok seen s -> unify2 R sp xs ys seen s = Ok (seen', s') ->
  wf s' /\ ext s s' /\ seen_ok seen' s' /\
  (forall n x y, nth_error xs n = Some x -> nth_error ys n = Some y -> pair_ok s' x y).
Proof.
  induction xs as [|x xs IH]; intros [|y ys] seen s seen' s' W S H; cbn [unify2] in H;
    try (injection H as <- <-; split; [assumption|]; split; [apply ext_refl|]; split; [assumption|];
         intros n x0 y0 H1 H2; destruct n; cbn in *; discriminate).
  apply bind_inv in H as (r & s1 & H1 & H).
  destruct (gp_unify R P _ _ _ _ _ _ _ W S H1) as (W1 & E1 & S1 & P1).
  destruct (IH _ _ _ _ _ W1 S1 H) as (W2 & E2 & S2 & P2).
  split; [assumption|]. split; [eapply ext_trans; eassumption|]. split; [assumption|].
  intros [|n] x' y' Hx Hy; cbn [nth_error] in Hx, Hy.
  - injection Hx as <-. injection Hy as <-. eapply pair_ok_ext; eassumption.
  - eapply P2; eassumption.
Qed.

Lemma unify_fields_spec R (P : gpres R) sp missing a_fields : forall b_fields seen s seen' s',
  wf s -> seen_ok seen s -> unify_fields R sp missing a_fields b_fields seen s = Ok (seen', s') ->
  wf s' /\ ext s s' /\ seen_ok seen' s' /\
  (forall k va vb, flookup k a_fields = Some va -> flookup k b_fields = Some vb -> pair_ok s' (snd va) (snd vb)).
Proof.
  induction b_fields as [|[k [bsp b_ty]] rest IH]; intros seen s seen' s' W S H; cbn [unify_fields] in H.
  - injection H as <- <-. split; [assumption|]. split; [apply ext_refl|]. split; [assumption|].
    intros k va vb _ Hb. discriminate.
  - destruct (flookup k a_fields) as [[asp a_ty]|] eqn:Ea; [|discriminate].
    apply bind_inv in H as (r & s1 & H1 & H).
    destruct (gp_unify R P _ _ _ _ _ _ _ W S H1) as (W1 & E1 & S1 & P1).
    destruct (IH _ _ _ _ W1 S1 H) as (W2 & E2 & S2 & P2).
    split; [assumption|]. split; [eapply ext_trans; eassumption|]. split; [assumption|].
    intros k' va vb Ha Hb. cbn [flookup] in Hb. destruct (String.eqb k' k) eqn:Ek.
    + apply String.eqb_eq in Ek. subst k'. rewrite Ea in Ha. injection Ha as <-. injection Hb as <-. cbn [snd].
      eapply pair_ok_ext; eassumption.
    + eapply P2; eassumption.
Qed.

Ltac pstep R P :=
  match goal with
  | |- pres (ret _) => apply pres_ret
  | |- pres (fail _ _) => apply pres_fail
  | |- pres (fail_many _ _) => apply pres_fail_many
  | |- pres (panic _) => apply pres_panic
  | |- pres out_of_fuel => apply pres_oof
  | |- pres (bind _ _) => apply pres_bind; [|intros ?]
  | |- pres (iterM _ _) => apply pres_iterM; intros ?
  | |- pres (mapM _ _) => apply pres_mapM; intros ?
  | |- pres (foldM _ _ _) => apply pres_foldM; intros ? ?
  | |- pres (iter2 _ _ _) => apply pres_iter2; intros ? ?
  | |- pres (push_type _) => apply pres_push
  | |- pres (find _) => apply pres_find
  | |- pres (find_node _) => apply pres_find_node
  | |- pres (find_type _) => apply pres_find_type
  | |- pres (get_node _) => apply pres_get_node
  | |- pres (is_void _) => apply pres_is_void
  | |- pres (add_constraint _ _) => apply pres_add_constraint
  | |- pres (set_cons _ _) => apply pres_set_cons
  | |- pres (add_type_name _) => apply pres_add_type_name
  | |- pres (is_type_name _) => apply pres_is_type_name
  | |- pres (g_unify R _ _ _ []) => apply (gp_unify0 R P)
  | |- pres (g_check R _ _) => apply (gp_check R P)
  | |- pres (g_arith R _ _ _ _) => apply (gp_arith R P)
  | |- pres (g_div R _ _ _) => apply (gp_div R P)
  | |- pres (g_divres R _ _ _) => apply (gp_divres R P)
  | |- pres (g_copy R _ _) => apply framed_pres, (gp_copy R P)
  | |- pres (g_neg R _ _) => apply (gp_neg R P)
  | |- pres (check_not_inside R _ _ _) => apply (pres_check_not_inside R P)
  | |- pres (unify R _ _ _) => apply (pres_unify R P)
  | |- pres (unify_option R _ _ _) => unfold unify_option
  | |- pres (copy R _) => unfold copy
  | |- pres (match ?x with _ => _ end) => destruct x
  end.

Ltac pauto R P := repeat (pstep R P).

Lemma pres_arith_body R (P : gpres R) k sp a b : pres (arith_body R k sp a b).
Proof. unfold arith_body. pauto R P. Qed.

Lemma pres_div_body R (P : gpres R) sp a b : pres (div_body R sp a b).
Proof. unfold div_body. pauto R P. Qed.

Lemma pres_divres_body R (P : gpres R) sp a b : pres (divres_body R sp a b).
Proof. unfold divres_body. pauto R P. Qed.

Lemma pres_neg_body R (P : gpres R) sp a : pres (neg_body R sp a).
Proof. unfold neg_body. pauto R P. Qed.

Lemma pres_constant_index R (P : gpres R) sp a i r : pres (constant_index R sp a i r).
Proof. unfold constant_index. pauto R P. Qed.

Lemma pres_check_one R (P : gpres R) sp a c : pres (check_one R sp a c).
Proof. unfold check_one. destruct c; try apply pres_constant_index; try assumption; pauto R P. Qed.

Lemma pres_check_body R (P : gpres R) sp a : pres (check_body R sp a).
Proof. unfold check_body. pauto R P. apply pres_check_one; assumption. Qed.

(* ------------------------------------------------------------------ sub_unify *)

Lemma existsb_keys_sub (f g : fieldmap) :
  existsb (fun kv => negb (fmem (fst kv) g)) f = false -> keys_sub f g = true.
Proof.
  unfold keys_sub, keys. induction f as [|[k v] f IH]; cbn [existsb map forallb fst]; [reflexivity|].
  intros H. apply orb_false_iff in H as [H1 H2]. apply negb_false_iff in H1. rewrite H1. cbn. auto.
Qed.

Lemma unify_fields_ok R sp missing a_fields : forall b_fields seen s x s',
  unify_fields R sp missing a_fields b_fields seen s = Ok (x, s') -> keys_sub b_fields a_fields = true.
Proof.
  unfold keys_sub, keys. induction b_fields as [|[k [bsp b_ty]] rest IH]; intros seen s x s' H;
    cbn [map forallb fst]; [reflexivity|].
  cbn [unify_fields] in H. unfold fmem at 1. destruct (flookup k a_fields) as [[asp a_ty]|]; [|discriminate].
  apply bind_inv in H as (r & s1 & _ & H). cbn. eapply IH; eassumption.
Qed.

Lemma head_of_rep s a r : wf s -> rep s a = Some r -> head s r = head s a /\ rep s r = Some r.
Proof.
  intros W H. destruct (root_of _ _ _ W H) as (n & Hn & En). unfold head, rep in *.
  destruct (lk s a) as [x|]; [|discriminate]. injection H as ->. rewrite Hn. cbn. rewrite En, Hn. auto.
Qed.

Definition shapes_agree (s : st) (a b : tyid) : Prop :=
  forall h1 h2, head s a = Some h1 -> head s b = Some h2 -> same_shape h1 h2 = true.

Definition unify_compat (ta tb : tyh) : Prop :=
  is_unknown ta = true \/ is_unknown tb = true \/ same_shape ta tb = true.

(* the components of the current types of two classes correspond position by position *)
Definition kids_ok (s : st) (a b : tyid) : Prop :=
  forall ha hb x ca cb, head s a = Some ha -> head s b = Some hb -> kid ha x = Some ca -> kid hb x = Some cb ->
                        pair_ok s ca cb.

(* `seen` is fine but for the pair that is being unified *)
Definition seen_but (seen : seenset) (s : st) (a b : tyid) : Prop :=
  forall x y, In (x, y) seen -> pair_ok s x y \/ (x = a /\ y = b) \/ (x = b /\ y = a).

(* the middle of sub_unify for two known types of the same shape: the components have been unified *)
Lemma mid_structured s seen' s2 ra rb ta tb :
  wf s2 -> ext s s2 -> seen_ok seen' s2 ->
  head s ra = Some ta -> head s rb = Some tb ->
  is_unknown ta = false -> is_unknown tb = false -> same_shape ta tb = true ->
  (forall x ca cb, kid ta x = Some ca -> kid tb x = Some cb -> pair_ok s2 ca cb) ->
  wf s2 /\ ext s s2 /\ shapes_agree s2 ra rb /\ unify_compat ta tb /\ seen_but seen' s2 ra rb /\ kids_ok s2 ra rb.
Proof.
  intros W2 E2 S2 Ha Hb Ua Ub Sh Hk. split; [assumption|]. split; [assumption|].
  pose proof E2 as (_ & _ & _ & E4 & E5).
  destruct (E4 _ _ Ha Ua) as (ha' & Ha' & Sa). destruct (E4 _ _ Hb Ub) as (hb' & Hb' & Sb).
  split; [|split; [right; right; assumption|split]].
  - intros h1 h2 H1 H2. rewrite Ha' in H1. rewrite Hb' in H2. injection H1 as <-. injection H2 as <-.
    apply (same_shape_trans _ ta); [apply same_shape_sym; exact Sa|]. apply (same_shape_trans _ tb); [exact Sh|exact Sb].
  - intros x y Hin. left. now apply S2.
  - intros h1 h2 x c1 c2 H1 H2 K1 K2. rewrite Ha' in H1. rewrite Hb' in H2. injection H1 as <-. injection H2 as <-.
    destruct (kid_shape _ _ x c1 (same_shape_sym _ _ Sa) K1) as [ca Ka].
    destruct (kid_shape _ _ x ca Sh Ka) as [cb Kb].
    apply (pair_ok_trans _ _ ca); [apply pair_ok_sym; exact (E5 _ _ _ _ _ _ Ha Ha' Ka K1)|].
    apply (pair_ok_trans _ _ cb); [exact (Hk _ _ _ Ka Kb)|exact (E5 _ _ _ _ _ _ Hb Hb' Kb K2)].
Qed.

Lemma seen_mem_In a b seen : seen_mem a b seen = true -> In (a, b) seen.
Proof.
  unfold seen_mem. intros H. apply existsb_exists in H as ([x y] & Hin & E). cbn [fst snd] in E.
  apply andb_true_iff in E as [E1 E2]. apply Pos.eqb_eq in E1. apply Pos.eqb_eq in E2. subst. assumption.
Qed.

Lemma unify_body_spec R (P : gpres R) sp a b seen s r s' :
  wf s -> seen_ok seen s -> unify_body R sp a b seen s = Ok (r, s') ->
  wf s' /\ ext s s' /\ seen_ok (snd r) s' /\ pair_ok s' a b /\
  (seen = [] ->
   (exists q, rep s' a = Some q /\ rep s' b = Some q) /\
   (exists ha hb, head s a = Some ha /\ head s b = Some hb /\ (rep s a = rep s b \/ unify_compat ha hb))).
Proof.
  intros W S H. unfold unify_body in H.
  apply bind_inv in H as (ra & s1 & H1 & H). apply find_inv in H1 as [-> H1].
  apply bind_inv in H as (rb & s2 & H2 & H). apply find_inv in H2 as [-> H2].
  destruct (head_of_rep _ _ _ W H1) as [Hha Rra]. destruct (head_of_rep _ _ _ W H2) as [Hhb Rrb].
  assert (Preps : forall s0, ext s s0 -> pair_ok s0 ra rb -> pair_ok s0 a b).
  { intros s0 (_ & _ & E3 & _) Pk.
    destruct (E3 _ _ _ H1 Rra) as (x1 & X1 & X1'). destruct (E3 _ _ _ H2 Rrb) as (x2 & X2 & X2').
    apply (pair_ok_trans _ _ ra); [right; left; eauto|]. apply (pair_ok_trans _ _ rb); [assumption|right; left; eauto]. }
  destruct (Pos.eqb ra rb || seen_mem ra rb seen) eqn:Eq.
  - injection H as <- <-. split; [assumption|]. split; [apply ext_refl|]. split; [assumption|]. split.
    + apply (Preps s (ext_refl s)). apply orb_true_iff in Eq as [Eq|Eq].
      * apply Pos.eqb_eq in Eq. subst rb. apply pair_ok_refl.
      * apply S. now apply seen_mem_In.
    + intros ->. cbn [seen_mem existsb] in Eq. rewrite orb_false_r in Eq. apply Pos.eqb_eq in Eq. subst rb.
      split; [eauto|].
      destruct (root_of _ _ _ W H1) as (n & Hn & En).
      assert (Hh : head s ra = Some (nty n)).
      { unfold head. rewrite Hn, En, Hn. reflexivity. }
      exists (nty n), (nty n). rewrite <- Hha, <- Hhb. repeat split; try assumption. left. congruence.
  - apply orb_false_iff in Eq as [Ne _]. apply Pos.eqb_neq in Ne.
    apply bind_inv in H as (ta & s3 & H3 & H). apply find_type_inv in H3 as [-> H3].
    apply bind_inv in H as (tb & s4 & H4 & H). apply find_type_inv in H4 as [-> H4].
    apply bind_inv in H as (seen' & s5 & Hmid & H).
    assert (M : wf s5 /\ ext s s5 /\ shapes_agree s5 ra rb /\ unify_compat ta tb /\ seen_but seen' s5 ra rb /\
                kids_ok s5 ra rb).
    { set (sn := (rb, ra) :: (ra, rb) :: seen) in *.
      assert (Sbut : forall s0, ext s s0 -> seen_but sn s0 ra rb).
      { intros s0 E0 x y [Hin|[Hin|Hin]].
        - injection Hin as <- <-. right; right; auto.
        - injection Hin as <- <-. right; left; auto.
        - left. eapply pair_ok_ext; [exact E0|]. now apply S. }
      assert (CaseU1 : forall t, head s rb = Some HUnknown -> head s ra = Some t ->
                (check_not_inside R sp rb ra ;;; set_type rb t ;;; ret sn) s = Ok (seen', s5) ->
                wf s5 /\ ext s s5 /\ shapes_agree s5 ra rb /\ seen_but seen' s5 ra rb /\ kids_ok s5 ra rb).
      { intros t Hb Ha Hm. apply bind_inv in Hm as (u0 & s0 & Hc & Hm). apply (ro_check_not_inside R P) in Hc. subst s0.
        apply bind_inv in Hm as (u & s6 & Hs & Hr). injection Hr as <- <-.
        destruct (set_type_spec _ _ _ _ _ W Hb Hs) as (W' & E' & _ & Hd). split; [assumption|]. split; [assumption|].
        assert (X1 : head s6 ra = Some t).
        { rewrite Hd, Rra, Rrb. destruct (Pos.eqb_spec ra rb); [contradiction|]. exact Ha. }
        assert (X2 : head s6 rb = Some t) by (rewrite Hd, Rrb, Pos.eqb_refl; reflexivity).
        split; [|split; [now apply Sbut|]].
        - intros h1 h2 Y1 Y2. rewrite X1 in Y1. rewrite X2 in Y2. injection Y1 as <-. injection Y2 as <-.
          apply same_shape_refl.
        - intros h1 h2 x c1 c2 Y1 Y2 K1 K2. rewrite X1 in Y1. rewrite X2 in Y2. injection Y1 as <-. injection Y2 as <-.
          rewrite K1 in K2. injection K2 as <-. apply pair_ok_refl. }
      assert (CaseU2 : forall t, head s ra = Some HUnknown -> head s rb = Some t ->
                (check_not_inside R sp ra rb ;;; set_type ra t ;;; ret sn) s = Ok (seen', s5) ->
                wf s5 /\ ext s s5 /\ shapes_agree s5 ra rb /\ seen_but seen' s5 ra rb /\ kids_ok s5 ra rb).
      { intros t Ha Hb Hm. apply bind_inv in Hm as (u0 & s0 & Hc & Hm). apply (ro_check_not_inside R P) in Hc. subst s0.
        apply bind_inv in Hm as (u & s6 & Hs & Hr). injection Hr as <- <-.
        destruct (set_type_spec _ _ _ _ _ W Ha Hs) as (W' & E' & _ & Hd). split; [assumption|]. split; [assumption|].
        assert (X1 : head s6 ra = Some t) by (rewrite Hd, Rra, Pos.eqb_refl; reflexivity).
        assert (X2 : head s6 rb = Some t).
        { rewrite Hd, Rrb, Rra. destruct (Pos.eqb_spec rb ra); [congruence|]. exact Hb. }
        split; [|split; [now apply Sbut|]].
        - intros h1 h2 Y1 Y2. rewrite X1 in Y1. rewrite X2 in Y2. injection Y1 as <-. injection Y2 as <-.
          apply same_shape_refl.
        - intros h1 h2 x c1 c2 Y1 Y2 K1 K2. rewrite X1 in Y1. rewrite X2 in Y2. injection Y1 as <-. injection Y2 as <-.
          rewrite K1 in K2. injection K2 as <-. apply pair_ok_refl. }
      (* two equal leaves: nothing happens *)
      assert (CaseL : (ret sn) s = Ok (seen', s5) -> rigid ta = true -> tb = ta ->
                wf s5 /\ ext s s5 /\ shapes_agree s5 ra rb /\ unify_compat ta tb /\ seen_but seen' s5 ra rb /\
                kids_ok s5 ra rb).
      { intros Hm Rt ->. injection Hm as <- <-. split; [assumption|]. split; [apply ext_refl|].
        split; [|split; [right; right; apply same_shape_refl|split; [apply Sbut, ext_refl|]]].
        - intros h1 h2 Y1 Y2. rewrite H3 in Y1. rewrite H4 in Y2. injection Y1 as <-. injection Y2 as <-.
          apply same_shape_refl.
        - intros h1 h2 x c1 c2 Y1 Y2 K1 K2. rewrite H3 in Y1. injection Y1 as <-.
          destruct ta; discriminate. }
      (* the pair that is being unified may be assumed below two known types with components *)
      assert (Ssn : inner ta = true -> inner tb = true -> seen_ok sn s).
      { intros Ia Ib x y [Hin|[Hin|Hin]].
        - injection Hin as <- <-. right; right. exists tb, ta. auto.
        - injection Hin as <- <-. right; right. exists ta, tb. auto.
        - now apply S. }
      assert (CaseS : forall Wm Em Sm Ua Ub Sh Hk,
                wf s5 /\ ext s s5 /\ shapes_agree s5 ra rb /\ unify_compat ta tb /\ seen_but seen' s5 ra rb /\
                kids_ok s5 ra rb)
        by (intros Wm Em Sm Ua Ub Sh Hk; exact (mid_structured s seen' s5 ra rb ta tb Wm Em Sm H3 H4 Ua Ub Sh Hk)).
      destruct ta, tb; try discriminate Hmid;
        try (destruct (CaseU1 _ H4 H3 Hmid) as (X & Y & Z & Z1 & Z2); split; [exact X|]; split; [exact Y|];
             split; [exact Z|]; split; [right; left; reflexivity|]; split; [exact Z1|exact Z2]);
        try (destruct (CaseU2 _ H3 H4 Hmid) as (X & Y & Z & Z1 & Z2); split; [exact X|]; split; [exact Y|];
             split; [exact Z|]; split; [left; reflexivity|]; split; [exact Z1|exact Z2]);
        try (apply (CaseL Hmid); reflexivity).
      - (* tuples *)
        destruct (Nat.eqb (length ts) (length ts0)) eqn:El; cbn [negb] in Hmid; [|discriminate].
        destruct (unify2_spec R P sp _ _ _ _ _ _ W (Ssn eq_refl eq_refl) Hmid) as (Wm & Em & Sm & Pm).
        apply (CaseS Wm Em Sm); try reflexivity; [exact El|].
        intros x ca cb Ka Kb. destruct x; try discriminate Ka. cbn [kid] in Ka, Kb. eapply Pm; eassumption.
      - (* lists *)
        apply bind_inv in Hmid as (r0 & s6 & Hu & Hr). injection Hr as <- <-.
        destruct (gp_unify R P _ _ _ _ _ _ _ W (Ssn eq_refl eq_refl) Hu) as (Wm & Em & Sm & Pm).
        apply (CaseS Wm Em Sm); try reflexivity.
        intros x ca cb Ka Kb. destruct x; try discriminate Ka. cbn [kid] in Ka, Kb.
        injection Ka as <-. injection Kb as <-. exact Pm.
      - (* functions *)
        destruct (purity_compatible p p0); cbn [negb] in Hmid; [|discriminate].
        destruct (Nat.eqb (length params) (length params0)) eqn:El; cbn [negb] in Hmid; [|discriminate].
        apply bind_inv in Hmid as (seen1 & s6 & Hu & Hmid).
        destruct (unify2_spec R P sp _ _ _ _ _ _ W (Ssn eq_refl eq_refl) Hu) as (W6 & E6 & S6 & P6).
        apply bind_inv in Hmid as (r0 & s7 & Hu' & Hr). injection Hr as <- <-.
        destruct (gp_unify R P _ _ _ _ _ _ _ W6 S6 Hu') as (Wm & Em & Sm & Pm).
        apply (CaseS Wm (ext_trans _ _ _ E6 Em) Sm); try reflexivity; [exact El|].
        intros x ca cb Ka Kb. destruct x; try discriminate Ka; cbn [kid] in Ka, Kb.
        + eapply pair_ok_ext; [exact Em|]. eapply P6; eassumption.
        + injection Ka as <-. injection Kb as <-. exact Pm.
      - (* blobs *)
        destruct (existsb (fun kv => negb (fmem (fst kv) fields0)) fields) eqn:Ex; [discriminate|].
        destruct (unify_fields_spec R P sp _ _ _ _ _ _ _ W (Ssn eq_refl eq_refl) Hmid) as (Wm & Em & Sm & Pm).
        apply (CaseS Wm Em Sm); try reflexivity.
        + cbn [same_shape]. rewrite (existsb_keys_sub _ _ Ex). cbn.
          eapply unify_fields_ok; eassumption.
        + intros x ca cb Ka Kb. destruct x; try discriminate Ka. cbn [kid] in Ka, Kb.
          destruct (flookup k fields) as [va|] eqn:Ea; [|discriminate]. destruct (flookup k fields0) as [vb|] eqn:Eb; [|discriminate].
          injection Ka as <-. injection Kb as <-. eapply Pm; eassumption.
      - (* extern blobs *)
        destruct (N.eqb id id0) eqn:Ei; [|discriminate].
        destruct (unify2_spec R P sp _ _ _ _ _ _ W (Ssn eq_refl eq_refl) Hmid) as (Wm & Em & Sm & Pm).
        apply (CaseS Wm Em Sm); try reflexivity; [exact Ei|].
        intros x ca cb Ka Kb. destruct x; discriminate Ka.
      - (* enums *)
        destruct (existsb (fun kv => negb (fmem (fst kv) variants0)) variants) eqn:Ex; [discriminate|].
        destruct (unify_fields_spec R P sp _ _ _ _ _ _ _ W (Ssn eq_refl eq_refl) Hmid) as (Wm & Em & Sm & Pm).
        apply (CaseS Wm Em Sm); try reflexivity.
        + cbn [same_shape]. rewrite (existsb_keys_sub _ _ Ex). cbn.
          eapply unify_fields_ok; eassumption.
        + intros x ca cb Ka Kb. destruct x; try discriminate Ka. cbn [kid] in Ka, Kb.
          destruct (flookup k variants) as [va|] eqn:Ea; [|discriminate]. destruct (flookup k variants0) as [vb|] eqn:Eb; [|discriminate].
          injection Ka as <-. injection Kb as <-. eapply Pm; eassumption. }
    destruct M as (W5 & E5 & Sh5 & Cp & Sb5 & Kk5).
    apply bind_inv in H as (u & s6 & Hu & H).
    destruct (union_spec _ _ _ _ _ W5 Hu Sh5 Kk5) as (W6 & E6 & (q & Q1 & Q2)).
    apply bind_inv in H as (u' & s7 & Hc & H). injection H as <- <-.
    destruct (gp_check R P sp ra _ _ _ W6 Hc) as [W7 E7].
    assert (E07 : ext s s7) by (eapply ext_trans; [eassumption|eapply ext_trans; eassumption]).
    assert (Pab : pair_ok s7 ra rb) by (eapply pair_ok_ext; [exact E7|]; right; left; eauto).
    split; [assumption|]. split; [assumption|]. cbn [snd]. split; [|split; [now apply Preps|]].
    + intros x y Hin. destruct (Sb5 _ _ Hin) as [Pk|[[-> ->]|[-> ->]]].
      * eapply pair_ok_ext; [|exact Pk]. eapply ext_trans; eassumption.
      * assumption.
      * now apply pair_ok_sym.
    + intros _. split.
      * destruct E07 as (_ & _ & E3 & _). destruct E7 as (_ & _ & E3' & _).
        destruct (E3 _ _ _ H1 Rra) as (x1 & X1 & X1'). destruct (E3 _ _ _ H2 Rrb) as (x2 & X2 & X2').
        destruct (E3' _ _ _ Q1 Q2) as (x3 & X3 & X3').
        exists x3. split; congruence.
      * exists ta, tb. repeat split; try congruence. right. assumption.
Qed.

(* ------------------------------------------------------------------ inner_copy only adds nodes *)

Lemma frame_refl s : frame s s.
Proof. split; [lia|auto]. Qed.

Lemma frame_trans s1 s2 s3 : frame s1 s2 -> frame s2 s3 -> frame s1 s3.
Proof. intros [A1 A2] [B1 B2]. split; [lia|]. intros i Hi. rewrite B2 by lia. now apply A2. Qed.

Lemma framed_ret {A} (a : A) : framed (ret a).
Proof. intros s a' s' W H. injection H as _ <-. split; [assumption|apply frame_refl]. Qed.

Lemma framed_bind {A B} (m : M A) (k : A -> M B) : framed m -> (forall a, framed (k a)) -> framed (bind m k).
Proof.
  intros Hm Hk s b s'' W H. apply bind_inv in H as (a & s' & H1 & H2).
  destruct (Hm _ _ _ W H1) as [W' F']. destruct (Hk a _ _ _ W' H2) as [W'' F''].
  split; [assumption|eapply frame_trans; eauto].
Qed.

Lemma framed_foldM {A B} (f : B -> A -> M B) l : (forall b x, framed (f b x)) -> forall b, framed (foldM f l b).
Proof.
  intros H. induction l; intros b; cbn [foldM]; [apply framed_ret|].
  apply framed_bind; [apply H|intros b'; apply IHl].
Qed.

Lemma framed_copy_constr R (P : gpres R) c m : framed (copy_constr R c m).
Proof.
  unfold copy_constr. destruct c; try apply framed_ret;
    try (apply framed_bind; [apply (gp_copy R P)|intros; apply framed_ret]).
  destruct t; [|apply framed_ret]. apply framed_bind; [apply (gp_copy R P)|intros; apply framed_ret].
Qed.

Lemma framed_copy_list R (P : gpres R) : forall l m, framed (copy_list R l m).
Proof.
  induction l as [|x xs IH]; intros m; cbn [copy_list]; [apply framed_ret|].
  apply framed_bind; [apply (gp_copy R P)|intros r]. apply framed_bind; [apply IH|intros; apply framed_ret].
Qed.

Lemma framed_copy_fields R (P : gpres R) : forall l m, framed (copy_fields R l m).
Proof.
  induction l as [|[k [sp x]] xs IH]; intros m; cbn [copy_fields]; [apply framed_ret|].
  apply framed_bind; [apply (gp_copy R P)|intros r]. apply framed_bind; [apply IH|intros; apply framed_ret].
Qed.

Lemma framed_copy_ty R (P : gpres R) t m : framed (copy_ty R t m).
Proof.
  unfold copy_ty. destruct t; try apply framed_ret;
    repeat first [ apply framed_ret
                 | apply framed_bind; [|intros ?]
                 | apply framed_copy_list; assumption
                 | apply framed_copy_fields; assumption
                 | apply (gp_copy R P) ].
Qed.

(* an update of a node that is its own representative, keeping the representative *)
Lemma update_self j (f : node -> node) s u s' n0 :
  (forall n, nrep (f n) = nrep n) ->
  wf s -> lk s j = Some n0 -> nrep n0 = j ->
  (r <- find j ;; n <- get_node r ;; put_node r (f n)) s = Ok (u, s') ->
  wf s' /\ next s' = next s /\ (forall i, i <> j -> lk s' i = lk s i) /\ lk s' j = Some (f n0).
Proof.
  intros F W Hj Ej H.
  apply bind_inv in H as (r & s1 & H1 & H). apply find_inv in H1 as [-> H1].
  unfold rep in H1. rewrite Hj in H1. cbn in H1. injection H1 as <-. rewrite Ej in H.
  apply bind_inv in H as (n & s2 & H2 & H). apply get_node_inv in H2 as [-> H2].
  rewrite Hj in H2. injection H2 as <-.
  rewrite put_node_eq in H. injection H as _ <-.
  split; [eapply wf_put_root; eauto|]. split; [reflexivity|]. split.
  - intros i Ne. now apply lk_put_other.
  - apply lk_put_same.
Qed.

Lemma framed_copy_body R (P : gpres R) old m : framed (copy_body R old m).
Proof.
  intros s x s' W H. unfold copy_body in H.
  apply bind_inv in H as (ro & s0 & H0 & H). apply find_inv in H0 as [-> H0].
  destruct (copy_lookup ro m) as [r|].
  { injection H as _ <-. split; [assumption|apply frame_refl]. }
  apply bind_inv in H as (new & s1 & H1 & H). rewrite push_type_eq in H1. injection H1 as <- <-.
  destruct (framed_push HUnknown s _ _ W (push_type_eq _ _)) as [W1 F1].
  pose proof (lk_push_new HUnknown s) as N1.
  set (new := next s) in *. set (s1 := push_st HUnknown s) in *.
  assert (Nx1 : next s1 = Pos.succ new) by reflexivity.
  apply bind_inv in H as (tb & s1b & Htb & H). apply find_type_inv in Htb as [-> _].
  destruct (is_basic tb).
  { (* a basic type: the new node gets it, nothing else is written *)
    apply bind_inv in H as (ub & sb & Hb & H). unfold set_type in Hb.
    destruct (update_self new (fun n => mkNode tb (nrep n) (nsize n) (ncons n)) _ _ _ _ (fun _ => eq_refl) W1 N1 eq_refl Hb)
      as (Wb & Nxb & Ob & Nb).
    injection H as _ <-. split; [assumption|]. destruct F1 as [F1a F1b]. split; [rewrite Nxb; exact F1a|].
    intros i Hi. assert (i <> new) by (unfold new; lia). rewrite Ob by assumption. now apply F1b. }
  apply bind_inv in H as (n & s1' & Hn & H). apply find_node_inv in Hn as [-> _].
  apply bind_inv in H as ([cs m2] & s2 & Hf & H).
  assert (FF : framed (foldM (fun acc c => r <- copy_constr R c (snd acc);; ret (cinsert (fst r) (fst acc), snd r))
                             (ncons n) ([], (ro, new) :: m))).
  { apply framed_foldM. intros b c. apply framed_bind; [apply framed_copy_constr; assumption|intros; apply framed_ret]. }
  destruct (FF _ _ _ W1 Hf) as [W2 F2].
  assert (N2 : lk s2 new = Some (mkNode HUnknown new 1%N [])).
  { destruct F2 as [_ F2]. rewrite F2; [assumption|lia]. }
  apply bind_inv in H as (u3 & s3 & H3 & H). unfold set_cons in H3.
  destruct (update_self new (fun n => mkNode (nty n) (nrep n) (nsize n) cs) _ _ _ _ (fun _ => eq_refl) W2 N2 eq_refl H3)
    as (W3 & Nx3 & O3 & N3).
  apply bind_inv in H as (t & s3' & Ht & H). apply find_type_inv in Ht as [-> _].
  apply bind_inv in H as ([t' m3] & s4 & H4 & H).
  assert (F4 : wf s4 /\ frame s3 s4) by (eapply framed_copy_ty; eassumption).
  destruct F4 as [W4 F4].
  assert (N4 : lk s4 new = Some (mkNode HUnknown new 1%N cs)).
  { destruct F4 as [_ F4]. rewrite F4; [assumption|]. destruct F2 as [F2 _]. rewrite Nx3. lia. }
  apply bind_inv in H as (u5 & s5 & H5 & H). unfold set_type in H5.
  destruct (update_self new (fun n => mkNode t' (nrep n) (nsize n) (ncons n)) _ _ _ _ (fun _ => eq_refl) W4 N4 eq_refl H5)
    as (W5 & Nx5 & O5 & N5).
  injection H as _ <-. split; [assumption|].
  destruct F1 as [F1a F1b]. destruct F2 as [F2a F2b]. destruct F4 as [F4a F4b].
  split.
  - rewrite Nx5. rewrite Nx3 in F4a. lia.
  - intros i Hi. assert (i <> new) by (unfold new; lia).
    rewrite O5 by assumption. rewrite F4b by (rewrite Nx3; lia). rewrite O3 by assumption.
    rewrite F2b by lia. apply F1b. assumption.
Qed.

(* ------------------------------------------------------------------ what a copy looks like *)

Definition fn_purity (h : tyh) : option purity := match h with HFn _ _ p => Some p | _ => None end.
Definition copy_like (h h' : tyh) : Prop := same_shape h h' = true /\ fn_purity h = fn_purity h'.

Lemma copy_list_length R : forall l m s l' m' s', copy_list R l m s = Ok ((l', m'), s') -> length l' = length l.
Proof.
  induction l as [|x xs IH]; intros m s l' m' s' H; cbn [copy_list] in H.
  - injection H as <- _ _. reflexivity.
  - apply bind_inv in H as (r & s1 & _ & H). apply bind_inv in H as ([rs ms] & s2 & H2 & H).
    injection H as <- _ _. cbn [fst length]. f_equal. eapply IH; eassumption.
Qed.

Lemma copy_fields_keys R : forall l m s l' m' s', copy_fields R l m s = Ok ((l', m'), s') -> keys l' = keys l.
Proof.
  induction l as [|[k [sp x]] xs IH]; intros m s l' m' s' H; cbn [copy_fields] in H.
  - injection H as <- _ _. reflexivity.
  - apply bind_inv in H as (r & s1 & _ & H). apply bind_inv in H as ([rs ms] & s2 & H2 & H).
    injection H as <- _ _. unfold keys. cbn [fst map]. f_equal. eapply IH; eassumption.
Qed.

Lemma keys_sub_of_eq f g : keys f = keys g -> keys_sub f g = true /\ keys_sub g f = true.
Proof. intros E. split; apply keys_sub_spec; intros k; rewrite E; auto. Qed.

Lemma copy_ty_like R t m s t' m' s' : copy_ty R t m s = Ok ((t', m'), s') -> copy_like t t'.
Proof.
  unfold copy_ty, copy_like. intros H.
  destruct t; try (injection H as <- _ _; split; [apply same_shape_refl|reflexivity]).
  - apply bind_inv in H as ([l' ml] & s1 & H1 & H). injection H as <- _ _. cbn [fst same_shape fn_purity].
    rewrite (copy_list_length _ _ _ _ _ _ _ H1), PeanoNat.Nat.eqb_refl. auto.
  - apply bind_inv in H as (r & s1 & H1 & H). injection H as <- _ _. auto.
  - apply bind_inv in H as ([l' ml] & s1 & H1 & H). apply bind_inv in H as (rr & s2 & H2 & H).
    injection H as <- _ _. cbn [fst same_shape fn_purity].
    rewrite (copy_list_length _ _ _ _ _ _ _ H1), PeanoNat.Nat.eqb_refl. auto.
  - apply bind_inv in H as ([f' mf] & s1 & H1 & H). apply bind_inv in H as (ra & s2 & H2 & H).
    injection H as <- _ _. cbn [fst same_shape fn_purity].
    destruct (keys_sub_of_eq _ _ (copy_fields_keys _ _ _ _ _ _ _ H1)) as [A B]. rewrite A, B. auto.
  - apply bind_inv in H as ([f' mf] & s1 & H1 & H). apply bind_inv in H as (ra & s2 & H2 & H).
    injection H as <- _ _. cbn [fst same_shape fn_purity]. rewrite N.eqb_refl. auto.
  - apply bind_inv in H as ([f' mf] & s1 & H1 & H). apply bind_inv in H as (ra & s2 & H2 & H).
    injection H as <- _ _. cbn [fst same_shape fn_purity].
    destruct (keys_sub_of_eq _ _ (copy_fields_keys _ _ _ _ _ _ _ H1)) as [A B]. rewrite A, B. auto.
Qed.

Lemma copy_body_shape R (P : gpres R) old s r m' s' :
  wf s -> copy_body R old [] s = Ok ((r, m'), s') ->
  exists h h', head s old = Some h /\ head s' r = Some h' /\ copy_like h h'.
Proof.
  intros W H. unfold copy_body in H.
  apply bind_inv in H as (ro & s0 & H0 & H). apply find_inv in H0 as [-> H0].
  cbn [copy_lookup] in H.
  apply bind_inv in H as (new & s1 & H1 & H). rewrite push_type_eq in H1. injection H1 as <- <-.
  destruct (framed_push HUnknown s _ _ W (push_type_eq _ _)) as [W1 F1].
  pose proof (lk_push_new HUnknown s) as N1.
  set (new := next s) in *. set (s1 := push_st HUnknown s) in *.
  assert (Nx1 : next s1 = Pos.succ new) by reflexivity.
  apply bind_inv in H as (tb & s1b & Htb & H). apply find_type_inv in Htb as [-> Htb].
  destruct (is_basic tb).
  { apply bind_inv in H as (ub & sb & Hb & H). unfold set_type in Hb.
    destruct (update_self new (fun n => mkNode tb (nrep n) (nsize n) (ncons n)) _ _ _ _ (fun _ => eq_refl) W1 N1 eq_refl Hb)
      as (Wb & Nxb & Ob & Nb).
    injection H as <- _ <-.
    destruct (head_of_rep _ _ _ W H0) as [Hro Rro]. destruct (root_of _ _ _ W H0) as (nro & Lro & Ero).
    assert (Lt : ro < new) by (destruct W as [W1' _]; eapply W1'; eassumption).
    assert (L1 : lk s1 ro = Some nro) by (destruct F1 as [_ F1]; rewrite F1 by assumption; assumption).
    assert (Hs : head s old = Some tb).
    { rewrite <- Hro. unfold head in Htb |- *. rewrite L1 in Htb. rewrite Ero in Htb. rewrite L1 in Htb.
      rewrite Lro, Ero, Lro. assumption. }
    exists tb, tb. split; [assumption|]. split; [|split; [apply same_shape_refl|reflexivity]].
    unfold head. rewrite Nb. cbn [nrep]. rewrite Nb. reflexivity. }
  apply bind_inv in H as (n & s1' & Hn & H). apply find_node_inv in Hn as [-> _].
  apply bind_inv in H as ([cs m2] & s2 & Hf & H).
  assert (FF : framed (foldM (fun acc c => r <- copy_constr R c (snd acc);; ret (cinsert (fst r) (fst acc), snd r))
                             (ncons n) ([], [(ro, new)]))).
  { apply framed_foldM. intros b c. apply framed_bind; [apply framed_copy_constr; assumption|intros; apply framed_ret]. }
  destruct (FF _ _ _ W1 Hf) as [W2 F2].
  assert (N2 : lk s2 new = Some (mkNode HUnknown new 1%N [])).
  { destruct F2 as [_ F2]. rewrite F2; [assumption|lia]. }
  apply bind_inv in H as (u3 & s3 & H3 & H). unfold set_cons in H3.
  destruct (update_self new (fun n => mkNode (nty n) (nrep n) (nsize n) cs) _ _ _ _ (fun _ => eq_refl) W2 N2 eq_refl H3)
    as (W3 & Nx3 & O3 & N3).
  apply bind_inv in H as (t & s3' & Ht & H). apply find_type_inv in Ht as [-> Ht].
  apply bind_inv in H as ([t' m3] & s4 & H4 & H).
  pose proof (copy_ty_like _ _ _ _ _ _ _ H4) as CL.
  assert (F4 : wf s4 /\ frame s3 s4) by (eapply framed_copy_ty; eassumption).
  destruct F4 as [W4 F4].
  assert (N4 : lk s4 new = Some (mkNode HUnknown new 1%N cs)).
  { destruct F4 as [_ F4]. rewrite F4; [assumption|]. destruct F2 as [F2 _]. rewrite Nx3. lia. }
  apply bind_inv in H as (u5 & s5 & H5 & H). unfold set_type in H5.
  destruct (update_self new (fun n => mkNode t' (nrep n) (nsize n) (ncons n)) _ _ _ _ (fun _ => eq_refl) W4 N4 eq_refl H5)
    as (W5 & Nx5 & O5 & N5).
  injection H as <- _ <-.
  (* the head of ro did not change between s and s3 *)
  destruct (head_of_rep _ _ _ W H0) as [Hro Rro].
  destruct (root_of _ _ _ W H0) as (nro & Lro & Ero).
  assert (Lt : ro < new) by (destruct W as [W1' _]; eapply W1'; eassumption).
  assert (L3 : lk s3 ro = Some nro).
  { rewrite O3 by lia. destruct F2 as [_ F2]. rewrite F2 by lia. destruct F1 as [_ F1]. rewrite F1 by assumption. assumption. }
  assert (Hs : head s old = Some t).
  { rewrite <- Hro. unfold head in Ht |- *. rewrite L3 in Ht. rewrite Ero in Ht. rewrite L3 in Ht.
    rewrite Lro, Ero, Lro. assumption. }
  exists t, t'. split; [assumption|]. split; [|assumption].
  unfold head. rewrite N5. cbn [nrep]. rewrite N5. reflexivity.
Qed.

(* ------------------------------------------------------------------ all graph-level functions, every fuel *)

Theorem gfix_pres : forall g, gpres (gfix g).
Proof.
  induction g as [|g IH]; cbn [gfix].
  - constructor; intros; try apply pres_oof; try apply ro_oof.
    + discriminate.
    + intros s0 a' s0' _ H0. discriminate.
  - constructor; cbn [gstep g_unify g_check g_arith g_div g_divres g_copy g_neg g_inside]; intros.
    + match goal with W : wf _, S : seen_ok _ _, H : unify_body _ _ _ _ _ _ = Ok _ |- _ =>
        destruct (unify_body_spec _ IH _ _ _ _ _ _ _ W S H) as (X & Y & Z & Z' & _) end. auto.
    + now apply pres_check_body.
    + now apply pres_arith_body.
    + now apply pres_div_body.
    + now apply pres_divres_body.
    + now apply framed_copy_body.
    + now apply pres_neg_body.
    + now apply ro_inside_body.
Qed.

(* fn copy: a fresh class whose head has the shape (and, for function types, the purity) of the original's;
   nothing that existed is touched *)
Theorem copy_shape g a s r s' :
  wf s -> copy (gfix g) a s = Ok (r, s') ->
  wf s' /\ frame s s' /\ exists h h', head s a = Some h /\ head s' r = Some h' /\ copy_like h h'.
Proof.
  intros W H. unfold copy in H. apply bind_inv in H as ([r0 m'] & s1 & H1 & H). injection H as <- <-.
  destruct g as [|g]; [discriminate|]. cbn [gfix gstep g_copy] in H1.
  destruct (framed_copy_body _ (gfix_pres g) _ _ _ _ _ W H1) as [W' F'].
  split; [assumption|]. split; [assumption|]. eapply copy_body_shape; [apply gfix_pres|eassumption..].
Qed.

(* ------------------------------------------------------------------ the syntax-level functions *)

Record apres (R : arec) : Prop := mkAP {
  ap_expr : forall e ctx, pres (r_expr R e ctx);
  ap_stmt : forall s ctx, pres (r_stmt R s ctx);
  ap_type : forall t m, pres (r_type R t m)
}.

(* fn expression_block's split of the statements (Tc.block_split) *)
Lemma block_split_snoc ss e sp : block_split (ss ++ [SStatementExpression e sp]) = (ss, Some e).
Proof.
  induction ss as [|x ss IH]; [reflexivity|].
  change ((x :: ss) ++ [SStatementExpression e sp]) with (x :: (ss ++ [SStatementExpression e sp])).
  cbn [block_split]. rewrite IH. destruct ss; [|destruct x; reflexivity]. destruct x; reflexivity.
Qed.

Lemma block_split_single_other x :
  match x with SStatementExpression _ _ => False | _ => True end -> block_split [x] = ([x], None).
Proof. destruct x; intros H; try reflexivity. destruct H. Qed.

(* either the block ends with an expression statement, or all of it goes through fn statement *)
Lemma block_split_cases l :
  (exists ss e sp, l = ss ++ [SStatementExpression e sp] /\ block_split l = (ss, Some e)) \/ block_split l = (l, None).
Proof.
  induction l as [|x l IH]; [now right|]. destruct IH as [(ss & e & sp & -> & H)|H].
  - left. exists (x :: ss), e, sp. split; [reflexivity|]. apply (block_split_snoc (x :: ss)).
  - destruct l as [|y l].
    + destruct x; try (right; reflexivity). left. exists [], value, sp. split; reflexivity.
    + right. assert (E : block_split (x :: y :: l) = let '(i, v) := block_split (y :: l) in (x :: i, v))
        by (destruct x; reflexivity).
      rewrite E, H. reflexivity.
Qed.

Lemma block_split_incl l x : In x (fst (block_split l)) -> In x l.
Proof.
  destruct (block_split_cases l) as [(ss & e & sp & -> & H)|H]; rewrite H; cbn [fst]; [|tauto].
  intros I. apply in_or_app. now left.
Qed.

Section SyntaxLevel.
  Variable kinds : PositiveMap.t varkind.
  Variable G : grec.
  Hypothesis PG : gpres G.
  Variable R : arec.
  Hypothesis PR : apres R.

  Lemma pres_var_ty v : pres (var_ty kinds v).
  Proof. unfold var_ty. destruct (PositiveMap.find (N.succ_pos v) kinds); [apply pres_ret|apply pres_panic]. Qed.

  Lemma pres_var_kind v : pres (var_kind kinds v).
  Proof. unfold var_kind. destruct (PositiveMap.find (N.succ_pos v) kinds); [apply pres_ret|apply pres_panic]. Qed.

  Ltac astep :=
    first
      [ pstep G PG
      | match goal with
        | |- pres (r_expr R _ _) => apply (ap_expr R PR)
        | |- pres (r_stmt R _ _) => apply (ap_stmt R PR)
        | |- pres (r_type R _ _) => apply (ap_type R PR)
        | |- pres (var_ty _ _) => apply pres_var_ty
        | |- pres (var_kind _ _) => apply pres_var_kind
        end ].

  Ltac aauto := repeat astep.

  Lemma pres_resolve_constraint sp var c : pres (resolve_constraint sp var c).
  Proof. unfold resolve_constraint. aauto. Qed.

  Lemma pres_resolve_types : forall l seen, pres (resolve_types R l seen).
  Proof. induction l as [|t ts IH]; intros seen; cbn [resolve_types]; aauto. apply IH. Qed.

  Lemma pres_user_args defsp : forall vars sub seen, pres (user_args G R defsp vars sub seen).
  Proof.
    induction vars as [|v vs IH]; intros sub seen; cbn [user_args]; aauto. apply IH.
  Qed.

  Lemma pres_type_body t seen : pres (type_body kinds G R t seen).
  Proof.
    unfold type_body. destruct t; aauto;
      try apply pres_user_args; try apply pres_resolve_types; try apply pres_resolve_constraint.
  Qed.

  Lemma pres_resolve_type t : pres (resolve_type R t).
  Proof. unfold resolve_type. aauto. Qed.

  Lemma pres_type_from_function params r pure : pres (type_from_function kinds G R params r pure).
  Proof. unfold type_from_function. aauto. Qed.

  Lemma pres_can_assign sp target : pres (can_assign kinds sp target).
  Proof. unfold can_assign. destruct target; aauto. Qed.

  Lemma pres_expression_block sp stmts ctx : pres (expression_block G R sp stmts ctx).
  Proof. unfold expression_block. aauto. Qed.

  Lemma pres_call_args ctx : forall args params r, pres (call_args G R ctx args params r).
  Proof.
    induction args as [|a args IH]; intros [|p params] r; cbn [call_args]; aauto. apply IH.
  Qed.

  Lemma pres_value_or_ret v r : pres (value_or_ret v r).
  Proof. unfold value_or_ret. aauto. Qed.

  Lemma pres_if_branch sp ctx br : pres (if_branch G R sp ctx br).
  Proof. unfold if_branch. destruct br. aauto; apply pres_expression_block. Qed.

  Lemma pres_case_branch sp ctx m acc br : pres (case_branch kinds G R sp ctx m acc br).
  Proof. unfold case_branch. destruct acc as [[? ?] ?], br. aauto; apply pres_expression_block. Qed.

  Lemma pres_bin_op sp ctx a b con : pres (bin_op G R sp ctx a b con).
  Proof. unfold bin_op. aauto. Qed.

  Lemma pres_bin_op_ret sp ctx a b con h : pres (bin_op_ret G R sp ctx a b con h).
  Proof. unfold bin_op_ret. apply pres_bind; [apply pres_bin_op|intros [? ?]]. aauto. Qed.

  Lemma pres_expr_body e ctx : pres (expr_body kinds G R e ctx).
  Proof.
    unfold expr_body. apply pres_bind; [|intros [? ?]; aauto].
    destruct e; aauto;
      try apply pres_call_args; try apply pres_bin_op_ret; try apply pres_bin_op; try apply pres_if_branch;
      try apply pres_case_branch; try apply pres_expression_block; try apply pres_value_or_ret;
      try apply pres_type_from_function.
  Qed.

  Lemma pres_definition var kind t value sp ctx : pres (definition kinds G R var kind t value sp ctx).
  Proof.
    unfold definition. aauto; try apply pres_type_from_function; try apply pres_resolve_type.
  Qed.

  Lemma pres_stmt_body s ctx : pres (stmt_body kinds G R s ctx).
  Proof.
    unfold stmt_body. destruct s; aauto;
      try apply pres_can_assign; try apply pres_expression_block; try apply pres_definition.
  Qed.
End SyntaxLevel.

Theorem afix_pres kinds G (PG : gpres G) : forall f, apres (afix kinds G f).
Proof.
  induction f as [|f IH]; cbn [afix].
  - constructor; intros; apply pres_oof.
  - constructor; cbn [astep r_expr r_stmt r_type]; intros.
    + now apply pres_expr_body.
    + now apply pres_stmt_body.
    + now apply pres_type_body.
Qed.

Section TopLevel.
  Variable kinds : PositiveMap.t varkind.
  Variable G : grec.
  Hypothesis PG : gpres G.
  Variable R : arec.
  Hypothesis PR : apres R.

  Lemma pres_decl_params vars : pres (decl_params vars).
  Proof. unfold decl_params. apply pres_foldM. intros b x. apply pres_bind; [apply pres_push|intros; apply pres_ret]. Qed.

  Lemma pres_decl_fields n fields seen : pres (decl_fields R n fields seen).
  Proof.
    unfold decl_fields. apply pres_bind; [|intros; apply pres_ret].
    apply pres_foldM. intros b [k [ksp t]]. apply pres_bind; [apply (ap_type R PR)|intros rt].
    destruct (negb (Nat.eqb n (length (snd rt)))); [apply pres_fail|apply pres_ret].
  Qed.

  Lemma pres_outer_statement s ctx : pres (outer_statement kinds G R s ctx).
  Proof.
    unfold outer_statement. destruct s; try apply pres_panic.
    - apply pres_bind; [apply pres_add_type_name|intros _].
      apply pres_bind; [apply pres_var_ty|intros bt]. apply pres_bind; [apply pres_decl_params|intros [tp seen]].
      apply pres_bind; [apply pres_decl_fields|intros res]. apply pres_bind; [apply pres_push|intros t].
      apply pres_bind; [|intros; apply pres_ret]. unfold unify. apply pres_bind; [apply (gp_unify0 G PG)|intros; apply pres_ret].
    - apply pres_bind; [apply pres_add_type_name|intros _].
      apply pres_bind; [apply pres_var_ty|intros bt]. apply pres_bind; [apply pres_decl_params|intros [tp seen]].
      apply pres_bind; [apply pres_decl_fields|intros res]. apply pres_bind; [apply pres_push|intros t].
      apply pres_bind; [|intros; apply pres_ret]. unfold unify. apply pres_bind; [apply (gp_unify0 G PG)|intros; apply pres_ret].
    - apply pres_bind; [apply pres_definition; assumption|intros; apply pres_ret].
    - apply pres_bind; [apply pres_resolve_type; assumption|intros dt]. apply pres_bind; [apply pres_var_ty|intros vt].
      apply pres_bind; [|intros; apply pres_ret]. unfold unify. apply pres_bind; [apply (gp_unify0 G PG)|intros; apply pres_ret].
  Qed.

  Lemma pres_or_else_err {A} (m : M A) k sp : pres m -> pres (or_else_err m k sp).
  Proof.
    intros P s a s' W H. unfold or_else_err in H. destruct (m s) as [[x y]| | |] eqn:E; try discriminate.
    injection H as <- <-. eapply P; eassumption.
  Qed.

  Lemma pres_solve stmts start : pres (solve kinds G R stmts start).
  Proof.
    unfold solve. apply pres_bind; [apply pres_iterM; intros; apply pres_outer_statement|intros _].
    apply pres_bind; [apply pres_iterM; intros; apply pres_outer_statement|intros _].
    destruct start; [|apply pres_fail].
    apply pres_bind; [apply pres_push|intros v0]. apply pres_bind; [apply pres_push|intros st0].
    apply pres_bind; [apply pres_var_ty|intros t]. apply pres_or_else_err.
    apply pres_bind; [|intros; apply pres_ret]. unfold unify. apply pres_bind; [apply (gp_unify0 G PG)|intros; apply pres_ret].
  Qed.
End TopLevel.

Lemma wf_empty : wf empty_st.
Proof.
  split; intros i n H; unfold lk, empty_st in H; cbn [nodes] in H; rewrite PositiveMap.gempty in H; discriminate.
Qed.

Lemma pres_init_vars n : pres (init_vars n).
Proof. induction n; cbn [init_vars]; [apply pres_ret|]. apply pres_bind; [apply pres_push|intros; assumption]. Qed.

(* ================================================================== the invariants, as stated in DESIGN 2.4 *)

(* `rep` is idempotent and in range, in every well-formed state; the initial state is well formed and
   every function of the checker preserves well-formedness (gfix_pres, afix_pres, pres_solve) *)
Theorem rep_idempotent_in_range s i r :
  wf s -> rep s i = Some r -> rep s r = Some r /\ (r < next s)%positive.
Proof.
  intros W H. destruct (root_of _ _ _ W H) as (n & Hn & En). split.
  - unfold rep. rewrite Hn. cbn. congruence.
  - destruct W as [W1 _]. eapply W1; eassumption.
Qed.

Theorem reachable_wf fuel kinds stmts start nvars a s' :
  (init_vars nvars ;;; solve kinds (gfix fuel) (afix kinds (gfix fuel) fuel) stmts start) empty_st = Ok (a, s') ->
  wf s'.
Proof.
  intros H.
  assert (P : pres (init_vars nvars ;;; solve kinds (gfix fuel) (afix kinds (gfix fuel) fuel) stmts start)).
  { apply pres_bind; [apply pres_init_vars|intros u].
    apply pres_solve; [apply gfix_pres|apply afix_pres, gfix_pres]. }
  exact (proj1 (P _ _ _ wf_empty H)).
Qed.

(* push_type never changes an existing class *)
Theorem push_keeps_classes t s i s' :
  wf s -> push_type t s = Ok (i, s') ->
  i = next s /\ (forall j n, lk s j = Some n -> lk s' j = Some n /\ rep s' j = rep s j /\ head s' j = head s j).
Proof.
  intros W H. pose proof (framed_push t s i s' W H) as [W' [F1 F2]].
  rewrite push_type_eq in H. injection H as <- <-. split; [reflexivity|].
  intros j n Hj. destruct W as [W1 W2].
  assert (L : forall k x, lk s k = Some x -> lk (push_st t s) k = Some x).
  { intros k x Hk. rewrite F2; [assumption|eauto]. }
  split; [auto|]. split.
  - unfold rep. rewrite (L _ _ Hj), Hj. reflexivity.
  - unfold head. rewrite (L _ _ Hj), Hj. destruct (W2 _ _ Hj) as (r & Hr & _). rewrite (L _ _ Hr), Hr. reflexivity.
Qed.

(* unify a b = Ok: same representative afterwards, and the two classes had heads of the same shape
   (equal head constructors; for tuples equal lengths, for functions equal arities, for blobs and enums
   equal sets of field / variant names) or one of them was Unknown, or they were already one class *)
Theorem unify_same_rep g sp a b s r s' :
  wf s -> unify (gfix g) sp a b s = Ok (r, s') ->
  wf s' /\ ext s s' /\
  (exists q, rep s' a = Some q /\ rep s' b = Some q) /\
  (exists ha hb, head s a = Some ha /\ head s b = Some hb /\ (rep s a = rep s b \/ unify_compat ha hb)).
Proof.
  intros W H. unfold unify in H. apply bind_inv in H as ([r0 seen'] & s1 & H1 & H). injection H as _ <-.
  destruct g as [|g]; [discriminate|]. cbn [gfix gstep g_unify] in H1.
  destruct (unify_body_spec _ (gfix_pres g) _ _ _ _ _ _ _ W (seen_ok_nil s) H1) as (X & Y & _ & _ & Z).
  destruct (Z eq_refl) as [Z1 Z2]. auto.
Qed.

(* a non-Unknown head never changes its shape, whatever the checker does *)
Theorem head_stable {A} (m : M A) s a s' i h :
  pres m -> wf s -> m s = Ok (a, s') -> head s i = Some h -> is_unknown h = false ->
  exists h', head s' i = Some h' /\ same_shape h h' = true.
Proof. intros P W H Hh U. destruct (P _ _ _ W H) as [_ (_ & _ & _ & E4 & _)]. eauto. Qed.

(* declared blob / enum nodes keep their field / variant sets *)
Definition same_keys (f g : fieldmap) : Prop := forall k, In k (keys f) <-> In k (keys g).

Theorem decl_stable {A} (m : M A) s a s' i :
  pres m -> wf s -> m s = Ok (a, s') ->
  (forall name sp f args, head s i = Some (HBlob name sp f args) ->
     exists name' sp' f' args', head s' i = Some (HBlob name' sp' f' args') /\ same_keys f f') /\
  (forall name sp f args, head s i = Some (HEnum name sp f args) ->
     exists name' sp' f' args', head s' i = Some (HEnum name' sp' f' args') /\ same_keys f f').
Proof.
  intros P W H. split; intros name sp f args Hh;
    destruct (head_stable m s a s' i _ P W H Hh eq_refl) as (h' & Hh' & Sh);
    destruct h'; cbn [same_shape] in Sh; try discriminate;
    apply andb_true_iff in Sh as [S1 S2]; rewrite keys_sub_spec in S1, S2;
    do 4 eexists; (split; [eassumption|]); intros k; split; auto.
Qed.

(* ------------------------------------------------------------------ a solver for `pres` side conditions:
   looks for `gpres G` and `apres R` among the hypotheses *)
Ltac prs1 :=
  match goal with
  | |- pres (ret _) => apply pres_ret
  | |- pres (fail _ _) => apply pres_fail
  | |- pres (fail_many _ _) => apply pres_fail_many
  | |- pres (panic _) => apply pres_panic
  | |- pres out_of_fuel => apply pres_oof
  | |- pres (bind _ _) => apply pres_bind; [|intros ?]
  | |- pres (iterM _ _) => apply pres_iterM; intros ?
  | |- pres (mapM _ _) => apply pres_mapM; intros ?
  | |- pres (foldM _ _ _) => apply pres_foldM; intros ? ?
  | |- pres (iter2 _ _ _) => apply pres_iter2; intros ? ?
  | |- pres (push_type _) => apply pres_push
  | |- pres (find _) => apply pres_find
  | |- pres (find_node _) => apply pres_find_node
  | |- pres (find_type _) => apply pres_find_type
  | |- pres (get_node _) => apply pres_get_node
  | |- pres (is_void _) => apply pres_is_void
  | |- pres (add_constraint _ _) => apply pres_add_constraint
  | |- pres (set_cons _ _) => apply pres_set_cons
  | |- pres (add_type_name _) => apply pres_add_type_name
  | |- pres (is_type_name _) => apply pres_is_type_name
  | |- pres (var_ty _ _) => apply pres_var_ty
  | |- pres (var_kind _ _) => apply pres_var_kind
  | P : gpres ?G |- pres (g_unify ?G _ _ _ []) => apply (gp_unify0 G P)
  | P : gpres ?G |- pres (g_check ?G _ _) => apply (gp_check G P)
  | P : gpres ?G |- pres (g_arith ?G _ _ _ _) => apply (gp_arith G P)
  | P : gpres ?G |- pres (g_div ?G _ _ _) => apply (gp_div G P)
  | P : gpres ?G |- pres (g_divres ?G _ _ _) => apply (gp_divres G P)
  | P : gpres ?G |- pres (g_copy ?G _ _) => apply framed_pres, (gp_copy G P)
  | P : gpres ?G |- pres (g_neg ?G _ _) => apply (gp_neg G P)
  | P : gpres ?G |- pres (check_not_inside ?G _ _ _) => apply (pres_check_not_inside G P)
  | P : apres ?R |- pres (r_expr ?R _ _) => apply (ap_expr R P)
  | P : apres ?R |- pres (r_stmt ?R _ _) => apply (ap_stmt R P)
  | P : apres ?R |- pres (r_type ?R _ _) => apply (ap_type R P)
  | |- pres (unify _ _ _ _) => unfold unify
  | |- pres (unify_option _ _ _ _) => unfold unify_option
  | |- pres (copy _ _) => unfold copy
  | |- pres (expression_block _ _ _ _ _) => eapply pres_expression_block; eassumption
  | |- pres (type_from_function _ _ _ _ _ _) => eapply pres_type_from_function; eassumption
  | |- pres (resolve_type _ _) => eapply pres_resolve_type; eassumption
  | |- pres (can_assign _ _ _) => apply pres_can_assign
  | |- pres (call_args _ _ _ _ _ _) => eapply pres_call_args; eassumption
  | |- pres (value_or_ret _ _) => apply pres_value_or_ret
  | |- pres (if_branch _ _ _ _ _) => eapply pres_if_branch; eassumption
  | |- pres (case_branch _ _ _ _ _ _ _ _) => eapply pres_case_branch; eassumption
  | |- pres (bin_op _ _ _ _ _ _ _) => eapply pres_bin_op; eassumption
  | |- pres (bin_op_ret _ _ _ _ _ _ _ _) => eapply pres_bin_op_ret; eassumption
  | |- pres (definition _ _ _ _ _ _ _ _ _) => eapply pres_definition; eassumption
  | |- pres (match ?x with _ => _ end) => destruct x
  end.
Ltac prs := repeat prs1.

(* ------------------------------------------------------------------ the order in which solve checks the statements *)
(* the type declarations (blobs and enums) once, each after the declarations it mentions (/repo 3c0758d, 58eff66:
   DeclOrder.type_decl_order), then all the statements *)
Definition check_order (stmts : list stmt) : list stmt := type_decl_order stmts ++ stmts.

Lemma is_type_decl_var d : is_type_decl d = true <-> decl_var d <> None.
Proof. destruct d; cbn; split; intros H; try reflexivity; try discriminate; try congruence; exfalso; now apply H. Qed.

Lemma type_decl_order_In stmts d : In d (type_decl_order stmts) -> In d stmts /\ is_type_decl d = true.
Proof. intros H. destruct (type_decl_order_sound stmts d H) as [H1 H2]. split; [exact H1|now apply is_type_decl_var]. Qed.

Lemma iterM_app {A} (f : A -> M unit) l1 l2 s : iterM f (l1 ++ l2) s = (iterM f l1 ;;; iterM f l2) s.
Proof.
  revert s. induction l1 as [|x l1 IH]; intros s; cbn [app iterM]; [reflexivity|].
  unfold bind. destruct (f x s) as [[u s1]| | |]; try reflexivity. rewrite IH. reflexivity.
Qed.

Lemma solve_order kinds G R stmts start s :
  solve kinds G R stmts start s =
  (iterM (fun st => outer_statement kinds G R st ctx_new) (check_order stmts) ;;;
   match start with
   | Some v =>
     void <- push_type HVoid ;;
     start <- push_type (HFn [] void PUndefined) ;;
     t <- var_ty kinds (v_id v) ;;
     or_else_err (unify G (v_def v) t start ;;; ret tt) KMismatch (v_def v)
   | None => fail KExotic (span_zero 0)
   end) s.
Proof.
  unfold solve, check_order. unfold bind at 1. symmetry. unfold bind at 1. rewrite iterM_app. unfold bind at 1.
  destruct (iterM (fun st => outer_statement kinds G R st ctx_new) (type_decl_order stmts) s) as [[u s1]| | |]; reflexivity.
Qed.

Lemma check_order_no_decl stmts : forallb (fun st => negb (is_type_decl st)) stmts = true -> check_order stmts = stmts.
Proof.
  intros H. unfold check_order. rewrite type_decl_order_no_decl; [reflexivity|].
  intros d Hd. rewrite forallb_forall in H. specialize (H d Hd). destruct d; cbn in *; try reflexivity; discriminate.
Qed.
