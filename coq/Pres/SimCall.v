(* Calls of top-level functions (stage 3b): the world of the callee, the relation at the entry of its body and
   back in the caller after the call; P_apply by the simulation of the body (P_fb) one level of fuel below;
   all simulations together (P_all), for every set of callable functions and every world. *)
From Coq Require Import String Ascii List NArith ZArith QArith Bool Lia.
From Sylt Require Import Syntax.Resolved.
From Sylt Require Sem.Values Sem.Runtime Sem.SyltSem.
From Sylt Require Import Back.IR Back.Emit Back.ScopeProofs.
From Sylt Require Import Pres.EmitAst Pres.EmitRel Pres.Names Pres.LuaFuel Pres.LuaEv Pres.Preamble.
From Sylt Require Import Pres.Frag.
From Sylt Require Import Pres.SimDefs Pres.SimOps Pres.SimVals.
From Sylt Require Import Pres.SimExpr Pres.LowerShape Pres.SimSteps Pres.SimExprProofs.
From Sylt Require Import Pres.LuaLoop.
From Sylt Require Import Pres.NoExit Pres.SimStmt.
From Sylt Require Import Lua.LuaAst Lua.LuaMap Lua.LuaNum Lua.LuaProofs Lua.LuaCore.
Import ListNotations.
Local Open Scope N_scope.

Ltac splits := repeat match goal with |- _ /\ _ => split end.

(* ------------------------------------------------------------------ association lists with different keys *)

Lemma lookup_app_notin al e v : ~ In v (map fst al) -> SyltSem.lookup (al ++ e) v = SyltSem.lookup e v.
Proof.
  induction al as [|[k c] al IH]; intros Hn; [reflexivity|]. cbn [app SyltSem.lookup].
  destruct (N.eqb_spec k v) as [->|]; [exfalso; apply Hn; left; reflexivity | apply IH; intros H; apply Hn; right; exact H].
Qed.

Lemma lookup_app_in al e e' v : In v (map fst al) -> SyltSem.lookup (al ++ e) v = SyltSem.lookup (al ++ e') v.
Proof.
  induction al as [|[k c] al IH]; intros Hin; [destruct Hin|]. cbn [app SyltSem.lookup].
  destruct (N.eqb_spec k v) as [->|Hne]; [reflexivity|]. apply IH. destruct Hin as [H|H]; [contradiction | exact H].
Qed.

Lemma lookup_rev_nodup al : NoDup (map fst al) -> forall e v, SyltSem.lookup (rev al ++ e) v = SyltSem.lookup (al ++ e) v.
Proof.
  induction al as [|[k c] al IH]; intros Hnd e v; [reflexivity|].
  inversion Hnd as [|? ? Hnk Hnd']; subst. cbn [rev]. rewrite <- app_assoc. cbn [app].
  rewrite (IH Hnd' ((k, c) :: e) v). cbn [SyltSem.lookup].
  destruct (N.eqb_spec k v) as [->|Hne].
  - rewrite lookup_app_notin by exact Hnk. cbn [SyltSem.lookup]. rewrite N.eqb_refl. reflexivity.
  - destruct (in_dec N.eq_dec v (map fst al)) as [Hin|Hnin].
    + apply lookup_app_in. exact Hin.
    + rewrite !lookup_app_notin by exact Hnin. cbn [SyltSem.lookup]. destruct (N.eqb_spec k v); [contradiction | reflexivity].
Qed.

Section Sim.
Variable pv : N.
Variable sv : N.
Variable bound : N.
Variable u : counts.
Variable fl : list (N * nat).
Variable W : world.

Notation rel := (rel pv sv bound u fl W).
Notation winv := (winv pv sv bound u fl W).

(* the relation only looks at the Sylt environment through lookup *)
Lemma rel_lookup_ext sc e e' st E stL :
  (forall v, SyltSem.lookup e' v = SyltSem.lookup e v) -> rel sc e st E stL -> rel sc e' st E stL.
Proof.
  intros Hl [Hv Hb Hi Hp Hpb HpE HpG Hwf Ht Hli HW]. constructor; auto.
  - intros v Hin. destruct (Hv v Hin) as (c & x & p & H1 & H2 & H3 & H4). exists c, x, p. rewrite Hl. auto.
  - intros v1 v2 c. rewrite !Hl. apply Hi.
  - destruct Hp as (c & H1 & H2 & H3). exists c. rewrite Hl. splits; auto. intros v Hin. rewrite Hl. apply H3. exact Hin.
  - destruct HW as [H1 H2 H3 H4 H5 H6 H7 H8 H9 H10 H11 H12 H13]. constructor; auto.
    + intros v c x Hin. rewrite Hl. apply H8. exact Hin.
    + intros d Hd Hvis. destruct (H11 d Hd Hvis) as [Ha Hb']. constructor; [rewrite Hl; exact Ha | intros g Hg; rewrite Hl; apply Hb'; exact Hg].
Qed.

(* a new user variable with a value on both sides (a parameter) *)
Lemma rel_define_var sc e st E stL var x lv :
  rel sc e st E stL -> fresh_id pv sv bound fl sc var = true -> vrel x lv ->
  rel (var :: sc) ((var, length (SyltSem.cells st)) :: e) (s_alloc st x)
      (sset (fmt_var var) (s_ncell stL) E) (snd (alloc_cell stL lv)).
Proof.
  intros Hrel Hfresh Hxl. destruct (fresh_id_inv _ _ _ _ _ _ Hfresh) as (Hnin & Hnpv & Hnsv & Hvb).
  pose proof (fresh_id_fl _ _ _ _ _ _ Hfresh) as Hnfl.
  pose proof Hrel as [Hv Hb Hi Hp Hpb HpE HpG Hwf Ht Hli HW].
  constructor.
  - intros w [<-|Hin].
    + exists (length (SyltSem.cells st)), x, (s_ncell stL).
      cbn [SyltSem.lookup]. rewrite N.eqb_refl. splits; [reflexivity | apply nth_error_app_new | apply sget_sset_same |].
      rewrite get_cell_alloc_new. exact Hxl.
    + destruct (Hv w Hin) as (cc & y & p & H1 & H2 & H3 & H4).
      assert (Hne : w <> var) by (intros ->; contradiction).
      exists cc, y, p. cbn [SyltSem.lookup]. destruct (N.eqb_spec var w); [congruence|].
      splits; [exact H1 | apply nth_error_app_old; exact H2 | rewrite sget_sset_var by exact Hne; exact H3 |].
      rewrite get_cell_alloc_old; [exact H4 | eapply wf_alloc; eassumption].
  - intros w [<-|Hin]; [split; assumption | apply Hb; exact Hin].
  - assert (Hold : forall w cc, In w sc -> SyltSem.lookup e w = Some cc -> (cc < length (SyltSem.cells st))%nat).
    { intros w cc Hin Hlk. destruct (Hv w Hin) as (cc' & y & p & H1 & H2 & _). rewrite Hlk in H1. inversion H1; subst.
      apply nth_error_Some. congruence. }
    intros v1 v2 cc H1 H2. cbn [SyltSem.lookup].
    destruct H1 as [<-|H1]; destruct H2 as [<-|H2]; rewrite ?N.eqb_refl.
    + auto.
    + destruct (N.eqb_spec var v2); [auto|]. intros Ha Hb2. inversion Ha; subst.
      specialize (Hold v2 _ H2 Hb2). lia.
    + destruct (N.eqb_spec var v1); [auto|]. intros Ha Hb2. inversion Hb2; subst.
      specialize (Hold v1 _ H1 Ha). lia.
    + destruct (N.eqb_spec var v1) as [->|]; [contradiction|]. destruct (N.eqb_spec var v2) as [->|]; [contradiction|].
      apply Hi; assumption.
  - destruct Hp as (cp & Hlkp & Hnthp & Hdist).
    exists cp. cbn [SyltSem.lookup]. destruct (N.eqb_spec var pv); [congruence|].
    splits; [exact Hlkp | apply nth_error_app_old; exact Hnthp |].
    intros w [<-|Hin]; rewrite ?N.eqb_refl.
    + intros Heq. inversion Heq; subst. assert (length (SyltSem.cells st) < length (SyltSem.cells st))%nat by (apply nth_error_Some; congruence). lia.
    + destruct (N.eqb_spec var w) as [->|]; [contradiction|]. apply Hdist. exact Hin.
  - exact Hpb.
  - rewrite sget_sset_var by (intros Heq; apply Hnpv; symmetry; exact Heq). exact HpE.
  - eapply glob_frame; [|exact HpG]. reflexivity.
  - apply wfenv_local. exact Hwf.
  - exact Ht.
  - apply linv_alloc_cell. exact Hli.
  - apply winv_define_user; assumption.
Qed.

(* ------------------------------------------------------------------ the parameters of a call *)

Lemma params_ok_inv : forall ps sc, params_ok pv sv bound fl sc ps = true ->
  NoDup ps /\ (forall p, In p ps -> ~ In p sc /\ p < bound /\ p <> pv /\ ~ In p (fnames fl)).
Proof.
  induction ps as [|p ps IH]; intros sc H; [split; [constructor | intros p []]|].
  cbn [params_ok] in H. apply andb_prop in H as [Hf Hr]. destruct (IH _ Hr) as [Hnd Hall].
  destruct (fresh_id_inv _ _ _ _ _ _ Hf) as (Hnin & Hnpv & _ & Hb). pose proof (fresh_id_fl _ _ _ _ _ _ Hf) as Hnfl.
  split.
  - constructor; [|exact Hnd]. intros Hin. destruct (Hall p Hin) as [Hn _]. apply Hn. left. reflexivity.
  - intros q [<-|Hq]; [auto|]. destruct (Hall q Hq) as (Hn & H2 & H3 & H4). splits; auto. intros Hin. apply Hn. right. exact Hin.
Qed.

Lemma bind_params : forall ps avs lvs sc e st E stL,
  rel sc e st E stL -> Forall2 vrel avs lvs -> length ps = length avs ->
  params_ok pv sv bound fl sc ps = true ->
  exists cs st1 E1 stL1,
    SyltSem.mapM SyltSem.new_cell avs st = (SyltSem.RVal cs, st1) /\
    bind_locals E (map fmt_var ps) lvs stL = (E1, stL1) /\
    rel (rev ps ++ sc) (rev (combine ps cs) ++ e) st1 E1 stL1 /\
    length cs = length ps /\
    (s_ncell stL <= s_ncell stL1)%positive /\
    (forall t, bound <= t -> sget (fmt_var t) E1 = sget (fmt_var t) E) /\
    (forall v, ~ In v ps -> sget (fmt_var v) E1 = sget (fmt_var v) E).
Proof.
  induction ps as [|p ps IH]; intros avs lvs sc e st E stL Hrel Hvs Hlen Hok.
  - destruct avs; [|discriminate Hlen]. inversion Hvs; subst.
    exists [], st, E, stL. splits; try reflexivity; auto; try lia.
  - destruct avs as [|av avs]; [discriminate Hlen|]. inversion Hvs as [|? lv ? lvs' Hv Hvs']; subst.
    cbn [params_ok] in Hok. apply andb_prop in Hok as [Hf Hr].
    pose proof (rel_define_var sc e st E stL p av lv Hrel Hf Hv) as Hrel1.
    destruct (IH avs lvs' (p :: sc) ((p, length (SyltSem.cells st)) :: e) (s_alloc st av)
                 (sset (fmt_var p) (s_ncell stL) E) (snd (alloc_cell stL lv)) Hrel1 Hvs' ltac:(cbn in Hlen; lia) Hr)
      as (cs & st1 & E1 & stL1 & Hm & Hbl & Hrel2 & Hlc & Hn & Ht & Hu).
    destruct (fresh_id_inv _ _ _ _ _ _ Hf) as (_ & _ & _ & Hpb).
    exists (length (SyltSem.cells st) :: cs), st1, E1, stL1. splits.
    + cbn [SyltSem.mapM]. unfold SyltSem.bind at 1. rewrite new_cell_eq. unfold SyltSem.bind at 1. rewrite Hm. reflexivity.
    + cbn [map bind_locals]. unfold alloc_cell at 1. cbn [first tl]. exact Hbl.
    + cbn [rev combine]. rewrite <- !app_assoc. exact Hrel2.
    + cbn [length]. lia.
    + cbn [alloc_cell snd s_ncell] in Hn. lia.
    + intros t Hbt. rewrite (Ht t Hbt). apply sget_sset_var. lia.
    + intros v Hnv. rewrite Hu by (intros Hin; apply Hnv; right; exact Hin). apply sget_sset_var. intros ->. apply Hnv. left. reflexivity.
Qed.

End Sim.

Section Call.
Variable pv : N.
Variable sv : N.
Variable bound : N.
Variable u : counts.
Variable fl : list (N * nat).
Variable W : world.

Notation rel := (rel pv sv bound u fl W).
Notation winv := (winv pv sv bound u fl W).

(* ------------------------------------------------------------------ the world of the callee *)

(* during the call of d from the scope (sc, e, E) in the states (st, stL): the caller's variables that the
   callee does not see and all the caller's temporaries keep their content *)
Definition callee_world (d : fdyn) (sc : list N) (e : senv) (st : sstate) (E : env) (stL : state) : world :=
  mkWorld
    (fun c x => w_IS W c x \/
                exists v, In v sc /\ ~ In v (fd_sc d) /\ SyltSem.lookup e v = Some c /\ nth_error (SyltSem.cells st) c = Some x)
    (fun p lv => w_IL W p lv \/
                 (exists v, In v sc /\ ~ In v (fd_sc d) /\ sget (fmt_var v) E = Some p /\ get_cell stL p = lv) \/
                 (exists t, bound <= t /\ sget (fmt_var t) E = Some p /\ get_cell stL p = lv))
    (w_funs W).

(* the relation at the closure environment of a callable function, in the world of its call *)
Lemma callee_rel d sc e st E stL :
  rel sc e st E stL -> In d (w_funs W) -> In (fd_var d) (fnames fl) ->
  SimDefs.rel pv sv bound u (fd_fl d) (callee_world d sc e st E stL) (fd_sc d) (fd_ef d) st (fd_Ef d) stL.
Proof.
  intros Hrel Hd Hvis.
  pose proof Hrel as [Hv Hb Hi Hp Hpb HpE HpG Hwf Ht Hli HW].
  destruct (wi_fun _ _ _ _ _ _ _ _ _ _ _ HW d Hd) as (Hst & HIS & HIL).
  destruct (wi_clos _ _ _ _ _ _ _ _ _ _ _ HW d Hd) as (Hclo & HcloL & Halloc & _).
  destruct (wi_visS _ _ _ _ _ _ _ _ _ _ _ HW d Hd Hvis) as [HnameS HagS].
  destruct (wi_visL _ _ _ _ _ _ _ _ _ _ _ HW d Hd Hvis) as [HnameL HagL].
  destruct (wi_vsc _ _ _ _ _ _ _ _ _ _ _ HW d Hd Hvis) as [Hisc Hifl].
  assert (HlkS : forall g, In g (fd_sc d) -> SyltSem.lookup (fd_ef d) g = SyltSem.lookup e g) by (intros g Hg; apply HagS; left; left; exact Hg).
  assert (HlkL : forall g, In g (fd_sc d) -> sget (fmt_var g) (fd_Ef d) = sget (fmt_var g) E) by (intros g Hg; apply HagL; left; exact Hg).
  constructor.
  - intros g Hg. destruct (Hv g (Hisc g Hg)) as (c & x & p & H1 & H2 & H3 & H4).
    exists c, x, p. rewrite (HlkS g Hg), (HlkL g Hg). auto.
  - apply (fs_scb _ _ _ _ _ Hst).
  - intros v1 v2 c H1 H2. rewrite (HlkS v1 H1), (HlkS v2 H2). apply Hi; apply Hisc; assumption.
  - destruct Hp as (cp & Hlkp & Hnthp & Hdist). exists cp.
    rewrite (HagS pv (or_intror eq_refl)). splits; [exact Hlkp | exact Hnthp |].
    intros g Hg. rewrite (HlkS g Hg). apply Hdist. apply Hisc. exact Hg.
  - exact Hpb.
  - apply (fs_EpvE _ _ _ _ _ Hst).
  - exact HpG.
  - constructor; [apply (fs_EV _ _ _ _ _ Hst) | apply (fs_Einj _ _ _ _ _ Hst) | exact Halloc].
  - exact Ht.
  - exact Hli.
  - constructor; cbn [callee_world w_IS w_IL w_funs].
    + intros c x [Hc|(v & _ & _ & _ & Hn)]; [apply (wi_IS _ _ _ _ _ _ _ _ _ _ _ HW); exact Hc | exact Hn].
    + intros p lv [Hq|[(v & _ & _ & Hq & Hc)|(t & _ & Hq & Hc)]].
      * apply (wi_IL _ _ _ _ _ _ _ _ _ _ _ HW); exact Hq.
      * split; [exact Hc | eapply wf_alloc; eassumption].
      * split; [exact Hc | eapply wf_alloc; eassumption].
    + apply (wi_clos _ _ _ _ _ _ _ _ _ _ _ HW).
    + intros d' Hd'. destruct (wi_fun _ _ _ _ _ _ _ _ _ _ _ HW d' Hd') as (A & B & C). splits; [exact A | left; exact B | left; exact C].
    + apply (wi_inter _ _ _ _ _ _ _ _ _ _ _ HW).
    + intros f ar Hf. apply (wi_cover _ _ _ _ _ _ _ _ _ _ _ HW). apply Hifl. exact Hf.
    + apply (wi_uniq _ _ _ _ _ _ _ _ _ _ _ HW).
    + intros g c x Hg Hlk [Hc|(v & Hvin & Hnv & Hlkv & _)].
      * rewrite (HlkS g Hg) in Hlk. exact (wi_scS _ _ _ _ _ _ _ _ _ _ _ HW g c x (Hisc g Hg) Hlk Hc).
      * rewrite (HlkS g Hg) in Hlk. assert (v = g) by (eapply Hi; [exact Hvin | apply Hisc; exact Hg | exact Hlkv | exact Hlk]).
        subst v. contradiction.
    + intros g Hg Hgf. apply (wi_scfl _ _ _ _ _ _ _ _ _ _ _ HW g (Hisc g Hg)). unfold fnames in *. apply (incl_map fst Hifl). exact Hgf.
    + intros g p lv Hg Hq [Hc|[(v & Hvin & Hnv & Hqv & _)|(t & Hbt & Hqt & _)]]; rewrite (HlkL g Hg) in Hq.
      * exact (wi_lprot _ _ _ _ _ _ _ _ _ _ _ HW g p lv (Hisc g Hg) Hq Hc).
      * assert (fmt_var v = fmt_var g) by (eapply wf_inj; eassumption). apply fmt_var_inj in H. subst v. contradiction.
      * assert (fmt_var t = fmt_var g) by (eapply wf_inj; eassumption). apply fmt_var_inj in H. subst t. destruct (Hb g (Hisc g Hg)). lia.
    + intros d' Hd' Hv'. apply (wi_inter _ _ _ _ _ _ _ _ _ _ _ HW d d' Hd Hd' Hv').
    + intros d' Hd' Hv'. apply (wi_inter _ _ _ _ _ _ _ _ _ _ _ HW d d' Hd Hd' Hv').
    + intros d' Hd' Hv'. destruct (wi_inter _ _ _ _ _ _ _ _ _ _ _ HW d d' Hd Hd' Hv') as (_ & _ & A & B). split; assumption.
Qed.

(* back in the caller after the call *)
Lemma caller_back d sc e st E stL sc2 e2 E2 st' stL' :
  rel sc e st E stL -> In d (w_funs W) -> In (fd_var d) (fnames fl) ->
  SimDefs.rel pv sv bound u (fd_fl d) (callee_world d sc e st E stL) sc2 e2 st' E2 stL' ->
  incl (fd_sc d) sc2 ->
  (forall g, In g (fd_sc d) \/ g = pv -> SyltSem.lookup e2 g = SyltSem.lookup (fd_ef d) g) ->
  (forall g, In g (fd_sc d) -> sget (fmt_var g) E2 = sget (fmt_var g) (fd_Ef d)) ->
  (s_ncell stL <= s_ncell stL')%positive ->
  rel sc e st' E stL' /\ call_frame bound E stL stL'.
Proof.
  intros Hrel Hd Hvis Hrel' Hinc HeS HeL Hnc.
  pose proof Hrel as [Hv Hb Hi Hp Hpb HpE HpG Hwf Ht Hli HW].
  pose proof Hrel' as [Hv' Hb' Hi' Hp' Hpb' HpE' HpG' Hwf' Ht' Hli' HW'].
  destruct (wi_visS _ _ _ _ _ _ _ _ _ _ _ HW d Hd Hvis) as [HnameS HagS].
  destruct (wi_visL _ _ _ _ _ _ _ _ _ _ _ HW d Hd Hvis) as [HnameL HagL].
  assert (HIS' : forall c x, w_IS (callee_world d sc e st E stL) c x -> nth_error (SyltSem.cells st') c = Some x)
    by apply (wi_IS _ _ _ _ _ _ _ _ _ _ _ HW').
  assert (HIL' : forall p lv, w_IL (callee_world d sc e st E stL) p lv -> get_cell stL' p = lv)
    by (intros p lv H; apply (wi_IL _ _ _ _ _ _ _ _ _ _ _ HW' p lv H)).
  split.
  - constructor.
    + intros v Hin. destruct (in_dec N.eq_dec v (fd_sc d)) as [Hg|Hng].
      * destruct (Hv' v (Hinc v Hg)) as (c & x & p & H1 & H2 & H3 & H4).
        exists c, x, p. rewrite (HeS v (or_introl Hg)), (HagS v (or_introl (or_introl Hg))) in H1.
        rewrite (HeL v Hg), (HagL v (or_introl Hg)) in H3. auto.
      * destruct (Hv v Hin) as (c & x & p & H1 & H2 & H3 & H4).
        exists c, x, p. splits; [exact H1 | | exact H3 |].
        -- apply HIS'. right. exists v. auto.
        -- rewrite (HIL' p (get_cell stL p)); [exact H4|]. right. left. exists v. auto.
    + exact Hb.
    + exact Hi.
    + destruct Hp as (cp & Hlkp & Hnthp & Hdist). destruct Hp' as (cp' & Hlkp' & Hnthp' & _).
      rewrite (HeS pv (or_intror eq_refl)), (HagS pv (or_intror eq_refl)), Hlkp in Hlkp'. inversion Hlkp'; subst cp'.
      exists cp. auto.
    + exact Hpb.
    + exact HpE.
    + exact HpG'.
    + destruct Hwf as [HV Hinj Hal]. constructor; [exact HV | exact Hinj |]. intros x p Hx. specialize (Hal x p Hx). lia.
    + exact Ht'.
    + exact Hli'.
    + destruct HW as [H1 H2 H3 H4 H5 H6 H7 H8 H9 H10 H11 H12 H13]. constructor; auto.
      * intros c x Hc. apply HIS'. left. exact Hc.
      * intros p lv Hq. apply (wi_IL _ _ _ _ _ _ _ _ _ _ _ HW' p lv). left. exact Hq.
      * apply (wi_clos _ _ _ _ _ _ _ _ _ _ _ HW').
  - split; [exact Hnc|]. intros t p Hbt Hq. apply HIL'. right. right. exists t. auto.
Qed.

(* ------------------------------------------------------------------ a call, by the simulation of the body *)

Lemma map_fst_combine {A B} : forall (l : list A) (l' : list B), length l = length l' -> map fst (combine l l') = l.
Proof. induction l as [|a l IH]; intros [|b l'] H; cbn in *; try reflexivity; try lia. rewrite IH by lia. reflexivity. Qed.

Lemma P_apply_succ n : (forall fl' W', SimExpr.P_fb pv sv bound u fl' W' n) -> P_apply pv sv bound u fl W (S n).
Proof.
  intros IHfb d avs lvs sc e st E stL r st' Hrel Hd Hvis Hvs Hap Hint.
  pose proof (r_world _ _ _ _ _ _ _ _ _ _ _ Hrel) as HW.
  destruct (wi_fun _ _ _ _ _ _ _ _ _ _ _ HW d Hd) as (Hst & _ & _).
  destruct (wi_clos _ _ _ _ _ _ _ _ _ _ _ HW d Hd) as (Hclo & HcloL & _).
  cbn [SyltSem.apply] in Hap. unfold SyltSem.bind at 1 in Hap. unfold SyltSem.get_clos in Hap. rewrite Hclo in Hap.
  cbn [SyltSem.cl_params SyltSem.cl_body SyltSem.cl_env] in Hap.
  destruct (Nat.eqb (length (fd_params d)) (length avs)) eqn:Hlen.
  2: { inversion Hap; subst. destruct Hint. }
  apply Nat.eqb_eq in Hlen.
  (* the world and the environment of the callee *)
  pose proof (callee_rel d sc e st E stL Hrel Hd Hvis) as Hrel0.
  set (W' := callee_world d sc e st E stL) in *.
  destruct (bind_params pv sv bound u (fd_fl d) W' (fd_params d) avs lvs (fd_sc d) (fd_ef d) st (fd_Ef d) stL Hrel0 Hvs Hlen
                        (fs_params _ _ _ _ _ Hst))
    as (cs & st1 & E1 & stL1 & Hm & Hbl & Hrel1 & Hlc & Hn1 & Ht1 & Hu1).
  unfold SyltSem.bind at 1 in Hap. rewrite Hm in Hap.
  destruct (params_ok_inv pv sv bound (fd_fl d) _ _ (fs_params _ _ _ _ _ Hst)) as [Hnd Hpall].
  assert (Hmf : map fst (combine (fd_params d) cs) = fd_params d) by (apply map_fst_combine; lia).
  set (ec := (combine (fd_params d) cs ++ fd_ef d)%list) in *.
  assert (Hlk : forall v, SyltSem.lookup ec v = SyltSem.lookup (rev (combine (fd_params d) cs) ++ fd_ef d) v)
    by (intros v; unfold ec; symmetry; apply lookup_rev_nodup; rewrite Hmf; exact Hnd).
  pose proof (rel_lookup_ext pv sv bound u (fd_fl d) W' _ _ ec _ _ _ Hlk Hrel1) as Hrel1'.
  assert (Hlkf : forall g, In g (fd_sc d) \/ g = pv -> SyltSem.lookup ec g = SyltSem.lookup (fd_ef d) g).
  { intros g Hg. unfold ec. apply lookup_app_notin. rewrite Hmf. intros Hin. destruct (Hpall g Hin) as (Hn & _ & Hnp & _).
    destruct Hg as [Hg|Hg]; [exact (Hn Hg) | exact (Hnp Hg)]. }
  destruct (SyltSem.block_value n ec (fd_body d) st1) as [rb st2] eqn:Hbv.
  assert (Hintb : interesting rb /\ match rb with SyltSem.RAbrupt SyltSem.CBreak | SyltSem.RAbrupt SyltSem.CContinue => False | _ => True end).
  { destruct rb as [v|o|[| |v]].
    - split; exact I.
    - inversion Hap; subst. split; [exact Hint | exact I].
    - inversion Hap; subst. destruct Hint.
    - inversion Hap; subst. destruct Hint.
    - split; exact I. }
  destruct Hintb as [Hintb Hnab].
  assert (Hctx : ctx_ok bound (fd_lut d) [] E1 (fd_c d) (fd_c' d)).
  { constructor; [apply (fs_bound _ _ _ _ _ Hst) | intros t Ht; apply (fs_lut _ _ _ _ _ Hst); exact Ht | intros t [] |].
    intros t Ht. rewrite Ht1 by (pose proof (fs_bound _ _ _ _ _ Hst); lia). apply (fs_Efree _ _ _ _ _ Hst). exact Ht. }
  destruct (IHfb (fd_fl d) W' (fd_g d) (fd_k d) (fd_body d) 0 (fd_c d) (fd_code d) (fd_c' d) ec st1 rb st2 _ (fd_scout d) (fd_lut d) E1 stL1 []
                 Hbv (fs_lower _ _ _ _ _ Hst) (fs_frag _ _ _ _ _ Hst) (fs_ucov _ _ _ _ _ Hst) Hctx Hrel1' Hintb)
    as (b & l' & Hs & Hpost).
  assert (Hb : b = fbody u d) by (unfold fbody; apply (Emits_block_fun u _ _ _ l'); apply Hs).
  pose proof Hs as (_ & _ & _ & Hnl). subst b.
  assert (Hbl' : bind_locals (c_env (mkClosure (fd_Ef d) (map fmt_var (fd_params d)) (fbody u d)))
                             (c_params (mkClosure (fd_Ef d) (map fmt_var (fd_params d)) (fbody u d))) lvs stL = (E1, stL1)) by exact Hbl.
  destruct rb as [v|o|[| |v]]; [| |destruct Hnab|destruct Hnab|].
  3: { (* an early return *)
    inversion Hap; subst r st'. clear Hap.
    destruct Hpost as (E' & stL' & lv & Hx & Hvl & Hrel2 & Hnc2).
    assert (Hback : SimDefs.rel pv sv bound u fl W sc e st2 E stL' /\ call_frame bound E stL stL').
    { apply (caller_back d sc e st E stL _ ec E1 st2 stL' Hrel Hd Hvis Hrel2).
      - intros g Hg. apply in_or_app. right. exact Hg.
      - exact Hlkf.
      - intros g Hg. apply Hu1. intros Hin. destruct (Hpall g Hin) as (Hn & _). exact (Hn Hg).
      - lia. }
    destruct Hback as [Hrelc Hcf].
    exists [lv], stL'. splits; [| exact Hvl | exact Hrelc | exact Hcf].
    eapply (Call_closure (fd_fid d) _ lvs stL E1 stL1 E' [lv] stL' HcloL Hbl').
    cbn [c_body]. apply ExecBlock_of_ExecS; [exact Hx | exact Hnl | intros []]. }
  - (* the body ends: back in the caller *)
    inversion Hap; subst r st'. clear Hap.
    destruct Hpost as (E' & sg & stL' & sc2 & e2 & Hx & Hsg & Hrel2 & Hse & Hinc2 & Hk & Hnc2).
    assert (Hback : SimDefs.rel pv sv bound u fl W sc e st2 E stL' /\ call_frame bound E stL stL').
    { apply (caller_back d sc e st E stL sc2 e2 E' st2 stL' Hrel Hd Hvis Hrel2).
      - intros g Hg. apply Hinc2. apply in_or_app. right. exact Hg.
      - intros g Hg. rewrite <- (Hlkf g Hg). apply Hse. destruct Hg as [Hg|Hg]; [left; apply in_or_app; right; exact Hg | right; left; exact Hg].
      - intros g Hg. rewrite (Hk g (in_or_app _ _ _ (or_intror Hg))). apply Hu1. intros Hin. destruct (Hpall g Hin) as (Hn & _). exact (Hn Hg).
      - lia. }
    destruct Hback as [Hrelc Hcf].
    destruct Hsg as [[-> ->]|(lv & -> & Hvl)].
    + exists [], stL'. splits; [|constructor | exact Hrelc | exact Hcf].
      eapply (Call_closure_normal (fd_fid d) _ lvs stL E1 stL1 E' stL' HcloL Hbl').
      cbn [c_body]. apply ExecBlock_of_ExecS; [exact Hx | exact Hnl | intros []].
    + exists [lv], stL'. splits; [| exact Hvl | exact Hrelc | exact Hcf].
      eapply (Call_closure (fd_fid d) _ lvs stL E1 stL1 E' [lv] stL' HcloL Hbl').
      cbn [c_body]. apply ExecBlock_of_ExecS; [exact Hx | exact Hnl | intros []].
  - inversion Hap; subst r st'. clear Hap.
    destruct Hpost as (ev & stL' & Hx & Htr). exists ev, stL'. split; [|exact Htr].
    eapply (Call_closure_err (fd_fid d) _ lvs stL E1 stL1 ev stL' HcloL Hbl').
    cbn [c_body]. apply ExecBlock_of_ExecS; [exact Hx | exact Hnl | intros []].
Qed.

End Call.

(* ------------------------------------------------------------------ all simulations together *)

Section All.
Variable pv : N.
Variable sv : N.
Variable bound : N.
Variable u : counts.

Definition P_all_at (n : nat) (fl : list (N * nat)) (W : world) : Prop :=
  P_eval pv sv bound u fl W n /\ P_exec pv sv bound u fl W n /\ P_execs pv sv bound u fl W n /\
  P_bv pv sv bound u fl W n /\ P_fb pv sv bound u fl W n /\ P_apply pv sv bound u fl W n.

Lemma P_apply_zero fl W : P_apply pv sv bound u fl W O.
Proof.
  intros d avs lvs sc e st E stL r st' _ _ _ _ Hap Hint. cbn in Hap. inversion Hap; subst. destruct Hint.
Qed.

(* by induction on the fuel of the reference interpreter, for every set of callable functions and every world:
   a call runs the body of the callee, in the world of the callee, with less fuel *)
Theorem P_all n : forall fl W, P_all_at n fl W.
Proof.
  induction n as [|n IH]; intros fl W.
  - split; [apply P_eval_zero|]. split; [apply P_stmt_zero|]. split; [apply P_stmt_zero|].
    split; [apply P_bv_zero|]. split; [apply P_fb_zero | apply P_apply_zero].
  - destruct (IH fl W) as (IHe & IHs & IHss & IHb & IHf & IHa).
    split; [apply P_eval_succ; assumption|]. split; [apply P_exec_succ; assumption|].
    split; [apply P_execs_succ; assumption|]. split; [apply P_bv_succ; assumption|].
    split; [apply P_fb_succ; assumption|].
    apply P_apply_succ. intros fl' W'. apply (IH fl' W').
Qed.

End All.
