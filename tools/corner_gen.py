"""Lexical corner cases for C06: programs the compiler accepts whose emitted Lua is at risk of not loading:
field names that are Lua keywords, string literals with every byte but the double quote, extreme numeric
literals, every expression form as an unused statement, statements after ret/break, long function bodies."""

LUA_ONLY_KEYWORDS = ["elseif", "for", "function", "goto", "local", "repeat", "return", "then", "until", "while"]
HEADER = "print: fn *X -> void : external\n"


def keyword_field(kw):
    return (HEADER + "B :: blob { %s: int, ok: int }\nstart :: fn do\n  b := B { %s: 1, ok: 2 }\n  b.%s = b.%s + b.ok\n  b.%s += 1\n"
            "  print(b.%s)\nend\n" % (kw, kw, kw, kw, kw, kw))


def string_prog(s):
    assert '"' not in s
    return HEADER + 'start :: fn do\n  x := "%s"\n  print(x)\n  print(x == "%s")\nend\n' % (s, s)


def number_prog(lit):
    return HEADER + "start :: fn do\n  x := %s\n  print(x)\n  y := (%s, %s)\n  print(y)\nend\n" % (lit, lit, lit)


UNUSED = ["1", "1.5", "\"s\"", "true", "nil", "x", "x + 1", "x - 1", "x * 2", "x / 2", "-x", "not b", "b and b", "b or b",
          "x == 1", "x != 1", "x < 1", "x <= 1", "x > 1", "x >= 1", "(x, 1)", "[x, 2]", "(x, 1)[0]", "f(x)", "f' x",
          "x -> f()", "if b do 1 else 2 end", "if b do 1 end", "P { q: x }", "p.q", "E.A x", "E.B",
          "case e do A v -> v end else 0 end end", "fn a: int -> int do a end", "(x)", "x <=> x", "b and (x == 1 or b)"]


def unused_prog(exprs):
    body = "".join("  %s\n" % e for e in exprs)
    return (HEADER + "P :: blob { q: int }\nE :: enum A int, B end\nf :: fn a: int -> int do a end\n"
            "start :: fn do\n  x := 1\n  b := true\n  p := P { q: 1 }\n  e := E.A 1\n%s  print(x)\nend\n" % body)


def after_ret_prog(kind):
    if kind == 0:
        return HEADER + "g :: fn -> int do\n  ret 1\n  ret 2\nend\nstart :: fn do\n  print(g())\nend\n"
    if kind == 1:
        return HEADER + "g :: fn n: int -> int do\n  if n > 0 do\n    ret 1\n    print(n)\n  end\n  2\nend\nstart :: fn do\n  print(g(1))\nend\n"
    if kind == 2:
        return HEADER + "start :: fn do\n  i := 0\n  loop i < 3 do\n    i += 1\n    break\n    print(i)\n  end\n  print(i)\nend\n"
    return HEADER + "start :: fn do\n  i := 0\n  loop i < 3 do\n    i += 1\n    continue\n    print(i)\n  end\n  print(i)\n  ret\n  print(i)\nend\n"


def long_body(n):
    return HEADER + "start :: fn do\n" + "".join("  v%d := %d + %d\n" % (i, i, i) for i in range(n)) + "  print(v0)\nend\n"


def many_globals(n):
    return HEADER + "".join("g%d :: fn -> int do %d end\n" % (i, i) for i in range(n)) + "start :: fn do\n  print(g0())\nend\n"


CONST_ARITH = ["0.0 / 0.0", "-(0.0 / 0.0)", "1.0 / 0.0", "-1.0 / 0.0", "0.0 - 1.0 / 0.0", "-(1.0 / 0.0)", "(1.0 / 0.0) - (1.0 / 0.0)",
               "(1.0 / 0.0) * 0.0", "-0.0", "0.0 * -1.0", "-9223372036854775807 - 1", "9223372036854775807 + 1", "-(-9223372036854775807 - 1)",
               "9223372036854775807 * 2", "0.1 + 0.2", "1e308 * 10.0", "-1e308 * 10.0", "1e-320 / 1e10", "7 / 2", "-7 / 2", "1 / 3", "2 * 3 + 4 * 5",
               "1.5 * 2.0 - 3.0", "(1 + 2) * (3 - 4) / 5", "1.0 / 3.0 * 3.0", "100000000000000000000.0 * 10.0", "1e15 + 0.5", "1e16 + 1.0"]


def cases(r, tier):
    out = []
    for kw in LUA_ONLY_KEYWORDS:
        out.append(("keyword-field", keyword_field(kw)))
    # every other place where a SOURCE identifier is written into the Lua text verbatim: externals (read as globals)
    for kw in LUA_ONLY_KEYWORDS:
        out.append(("keyword-external", "%s: fn int -> int : external\nprint: fn *X -> void : external\nstart :: fn do\n  print(%s(1))\nend\n" % (kw, kw)))
    # identifiers outside ASCII (a lexer error today): wherever the compiler accepts one, every place where a source name
    # is written into the Lua text verbatim -- field names, externals -- must still give a chunk that loads (Lua names
    # are ASCII only); variables, parameters and functions are renamed and variants are strings
    for nm in ["\u03c1", "\u03c0r", "\u0394t", "\u03bb1", "\u00f6", "caf\u00e9", "\u5c71", "x\u0301", "\u0436"]:
        out.append(("nonascii-name", keyword_field(nm)))
        out.append(("nonascii-name", "%s: fn int -> int : external\nprint: fn *X -> void : external\nstart :: fn do\n  print(%s(1))\nend\n" % (nm, nm)))
        out.append(("nonascii-name", HEADER + "E :: enum\n  %s int,\n  Other,\nend\nstart :: fn do\n  %s := 3\n  f :: fn %s: int -> int do %s + 1 end\n  print(f(%s))\n  e := E.%s 1\n  print(e)\nend\n"
                    % (nm.capitalize() if nm[0].isascii() else nm, nm, nm + "p", nm + "p", nm, nm.capitalize() if nm[0].isascii() else nm)))
    # strings: each single byte 1..255 except '"' (0x22) where the result is valid UTF-8, plus mixtures
    singles = [chr(b) for b in range(1, 128) if b != 0x22] + ["ö", "€", "😀", "\\n", "\\q", "\\", "a\\", "\\\\", "\\\"".replace('"', "'"),
                                                               "line1\nline2", "tab\there", "cr\rhere", "\\u{41}", "\\x41", "\\065", "%d %s", "]]", "--", "[[", "\\z"]
    for s in singles:
        out.append(("string", string_prog(s)))
    # every control character directly followed by digits (decimal escapes absorb following digits),
    # by a backslash, and at the end of the literal
    for b in list(range(1, 32)) + [127]:
        for tail in ["7", "99", "0", "\\", "a"]:
            out.append(("string", string_prog(chr(b) + tail)))
    pool = [chr(b) for b in range(1, 32)] + ["a", "\\", "n", "\n", "'", "%", "ö", " ", "q", "0", "7", "9", "x", "\t", "]", "-", "u", "{", "}", "z", "\r"]
    for _ in range(120 if tier == "quick" else 3000):
        s = "".join(r.choice(pool) for _ in range(r.randint(1, 12)))
        out.append(("string", string_prog(s)))
    for lit in ["0", "9223372036854775807", "1e999", "1e308", "1e-999", "0.1", "1.", ".5", "123456789012345678", "1e16", "1e15",
                "0.000001", "100000000000000000000.0", "1e+5", "2e-3", "00012", "1.0"]:
        out.append(("number", number_prog(lit)))
    # arithmetic on number literals only (what a compiler may evaluate itself): the results at the edges of the number
    # types -- not-a-number, both infinities, negative zero, the smallest and largest int, float rounding
    for e in CONST_ARITH:
        out.append(("const-arith", "print: fn *X -> void : external\nstart :: fn do\n  c := %s\n  print(c)\n  print(c == c)\n  print(%s)\nend\n" % (e, e)))
    for e in UNUSED:
        out.append(("unused", unused_prog([e])))
    for _ in range(30 if tier == "quick" else 400):
        out.append(("unused", unused_prog([r.choice(UNUSED) for _ in range(r.randint(2, 6))])))
    for k in range(4):
        out.append(("after-ret", after_ret_prog(k)))
    # every statement form as DEAD code after ret / break / continue, alone and combined: function literals and closures,
    # blocks, ifs, loops, case, definitions, assignments, calls (a Lua `return`/`break` must end its block: whatever the
    # emitter does about code after it has to keep every construct balanced)
    dead = ["sum := 0", "add := fn x: int do\n    sum2 = sum2 + x\n  end", "inner :: fn -> int do\n    ret 5\n  end", "do\n    print(1)\n  end",
            "if n > 0 do\n    print(2)\n  else do\n    print(3)\n  end", "loop n > 0 do\n    break\n  end", "print(n)", "sum2 = n",
            "k :: fn -> fn -> int do\n    fn -> int do ret 1 end\n  end", "case e do\n    A v -> print(v) end\n    else print(0) end\n  end", "ret 9", "n"]
    term = ["ret 0", "ret n", "if n > 5 do\n    ret 1\n  else do\n    ret 2\n  end"]
    combos = [[d] for d in dead] + [[r.choice(dead) for _ in range(r.randint(2, 4))] for _ in range(10 if tier == "quick" else 120)]
    for ds in combos:
        t = r.choice(term)
        body = "".join("  %s\n" % d for d in ds)
        out.append(("after-ret-forms", HEADER + "E :: enum A int, B end\nsum2 := 0\ng :: fn n: int, e: E -> int do\n  %s\n%s  7\nend\nstart :: fn do\n  print(g(1, E.A 2))\n  print(g(9, E.B))\nend\n" % (t, body)))
        out.append(("after-break-forms", HEADER + "E :: enum A int, B end\nsum2 := 0\nstart :: fn do\n  n := 3\n  e := E.A 1\n  loop n > 0 do\n    n -= 1\n    %s\n%s  end\n  print(n)\nend\n"
                    % (r.choice(["break", "continue"]), "".join("    %s\n" % d.replace("\n  ", "\n    ") for d in ds if not d.startswith("ret")))))
    for n in ([50, 150, 190, 210, 400] if tier == "quick" else [50, 150, 190, 199, 200, 201, 210, 400, 1000]):
        out.append(("long-body", long_body(n)))
    for n in ([100, 190, 210] if tier == "quick" else [100, 190, 198, 199, 200, 210, 400]):
        out.append(("many-globals", many_globals(n)))
    # nesting of the EMITTED text: operator chains (inlined into one nested Lua expression) and if/elif chains (nested
    # else-if blocks) around the Lua parsers' limit of 200 levels
    for n in ([50, 150, 190, 197, 205, 400] if tier == "quick" else [50, 150, 190, 195, 197, 198, 199, 200, 201, 205, 400, 2000]):
        out.append(("long-sum", HEADER + "start :: fn do\n  x :: %s\n  print(x)\nend\n" % " + ".join(["1"] * n)))
        out.append(("long-concat", HEADER + "start :: fn do\n  x :: %s\n  print(x)\nend\n" % " + ".join(['"a"'] * n)))
    for n in ([50, 150, 190, 205] if tier == "quick" else [50, 150, 190, 194, 195, 196, 200, 205, 400]):
        out.append(("elif-chain", HEADER + "start :: fn do\n  v := 3\n  if v == 0 do\n    print(0)\n%s  else do\n    print(v)\n  end\nend\n"
                    % "".join("  elif v == %d do\n    print(%d)\n" % (i, i) for i in range(1, n))))
    # minus signs: a Lua `--` starts a comment, so every way of putting a minus in front of something that may itself
    # print with a leading minus (negative literals after any folding, nested negations, subtraction of a negation)
    atoms = ["1", "0", "5", "2.5", "x"]

    def minus_exprs(d):
        if d == 0:
            return atoms
        sub = minus_exprs(d - 1)
        pick = sub if len(sub) <= 12 else [sub[i] for i in sorted(r.sample(range(len(sub)), 12))]
        res = list(atoms)
        for a in pick:
            res += ["-%s" % a, "-(%s)" % a, "- -%s" % a, "-(-%s)" % a]
            for b in pick[:6]:
                res += ["%s - %s" % (a, b), "(%s - %s)" % (a, b), "%s - -%s" % (a, b), "-(%s - %s)" % (a, b), "-(%s * (%s - %s))" % (a, b, a),
                        "%s + -(%s - %s)" % (a, b, a)]
        return res
    ms = minus_exprs(2)
    if tier == "quick" and len(ms) > 400:
        ms = [ms[i] for i in sorted(r.sample(range(len(ms)), 400))] + ["-(2 - 5)", "-(3 * (1 - 2))", "x + -(2 - 5)", "10 - - -3", "-(-1)", "- -1"]
    for i in range(0, len(ms), 8):
        body = "".join("  m%d := %s\n  print(m%d)\n" % (k, e, k) for k, e in enumerate(ms[i:i + 8]))
        out.append(("minus", HEADER + "start :: fn do\n  x := 3\n" + body + "end\n"))
    return out
