#!/usr/bin/env python3
"""Run Lua source in the extracted LuaCore model (there is no Lua interpreter in the sandbox).

    run_lua(sources, fuel=...) -> list of dict(final, msg, trace)
        final in {"done", "error", "fuel", "unsupported", "loaderr", "crash"}; msg is the error / reason
        text ("" for done/fuel); trace is the list of printed lines (bytes decoded as latin-1 so
        that every byte survives).
    lua_wf(sources) -> list of None | reason      (None = LuaJIT would load the chunk)

Command line:  lua_run.py [--wf] [--fuel N] FILE.lua ...
"""
import os
import sys

sys.path.insert(0, os.path.dirname(os.path.abspath(__file__)))
import vlib

DEFAULT_FUEL = 400000
_EXE = None


def build():
    """Build (cached) the extracted driver; returns its path."""
    global _EXE
    if _EXE:
        return _EXE
    ok, out = vlib.coq_make(["Lua/LuaCore.vo", "Lua/LuaWf.vo"])
    if not ok:
        raise RuntimeError("coq build of Lua/* failed:\n" + out[-3000:])
    ok, exe, out = vlib.build_ocaml("lua", "ExtractLua.v", "lua_driver.ml", "luamodel")
    if not ok:
        raise RuntimeError("extraction/ocaml build failed:\n" + out[-3000:])
    _EXE = exe
    return exe


def _model(cases):
    exe = build()
    # the interpreter recurses deeply (fuel bounds the depth): lift the stack limit
    wrapper = ["-c", 'ulimit -s unlimited 2>/dev/null || ulimit -s 4000000 2>/dev/null; OCAMLRUNPARAM=s=4M,o=400 exec "$0" "$@"', exe]
    return vlib.model("/bin/sh", wrapper, cases)


def _txt(h):
    return vlib.unhex(h).decode("latin-1")


def _src_bytes(s):
    return s if isinstance(s, bytes) else s.encode("utf-8")


def run_lua(sources, fuel=DEFAULT_FUEL):
    cases = ["run\t%d\t%s" % (fuel, vlib.hexs(_src_bytes(s))) for s in sources]
    out = []
    for line in _model(cases):
        f = line.split(" ")
        if f[0] != "RUN" or len(f) < 3:
            out.append({"final": "crash", "msg": line, "trace": []})
            continue
        fin = f[1]
        msg = ""
        if ":" in fin:
            fin, h = fin.split(":", 1)
            msg = _txt(h)
        out.append({"final": fin, "msg": msg, "trace": [_txt(h) for h in f[3:3 + int(f[2])]]})
    return out


def lua_wf(sources):
    cases = ["wf\t0\t%s" % vlib.hexs(_src_bytes(s)) for s in sources]
    out = []
    for line in _model(cases):
        if line == "WF ok":
            out.append(None)
        elif line.startswith("WF bad:"):
            out.append(_txt(line[len("WF bad:"):]))
        else:
            out.append("crash: " + line)
    return out


def main(argv):
    fuel = DEFAULT_FUEL
    wf = False
    files = []
    i = 0
    while i < len(argv):
        if argv[i] == "--fuel":
            fuel = int(argv[i + 1])
            i += 2
        elif argv[i] == "--wf":
            wf = True
            i += 1
        else:
            files.append(argv[i])
            i += 1
    srcs = [open(f, "rb").read() for f in files]
    if wf:
        for f, r in zip(files, lua_wf(srcs)):
            print("%s: %s" % (f, "ok" if r is None else "BAD: " + r))
    else:
        for f, r in zip(files, run_lua(srcs, fuel)):
            print("== %s: %s %s" % (f, r["final"], r["msg"]))
            for l in r["trace"]:
                print(l)


if __name__ == "__main__":
    main(sys.argv[1:])
