(* What an instantiation (`fn copy`, `fn inner_copy`) does to the components of the copied type.
   copy_shape (TcInv) says that the copy has the shape of the original.  Here: the components of the copy are the
   copies of the components, position by position, and a component whose type is a leaf (int, float, bool, str,
   void, nil) is copied to a component of that very type -- the fact behind "a monomorphic annotation is still
   there in every instance".
   The proof follows the memo table of inner_copy: an entry whose call has returned is finished (`done`), the
   entries of the calls still on the stack are listed in `D`; a finished node is never touched again because every
   call only writes to the node it created itself (frame). *)
From Coq Require Import String List NArith ZArith PArith Bool Lia FMapPositive.
From Sylt Require Import Syntax.Resolved Types.TyGraph Types.Tc Types.TcInv.
Import ListNotations.
Local Open Scope positive_scope.
Local Open Scope tc_scope.

Lemma lk_frame s s' i n : wf s -> frame s s' -> lk s i = Some n -> lk s' i = Some n.
Proof. intros [W1 _] [_ F] H. rewrite F; [assumption|eauto]. Qed.

Lemma rep_frame s s' i r : wf s -> frame s s' -> rep s i = Some r -> rep s' i = Some r.
Proof.
  intros W F H. unfold rep in *. destruct (lk s i) as [n|] eqn:E; [|discriminate].
  rewrite (lk_frame _ _ _ _ W F E). assumption.
Qed.

Lemma head_frame s s' i h : wf s -> frame s s' -> head s i = Some h -> head s' i = Some h.
Proof.
  intros W F H. unfold head in *. destruct (lk s i) as [n|] eqn:E; [|discriminate].
  rewrite (lk_frame _ _ _ _ W F E). destruct W as [W1 W2]. destruct (W2 _ _ E) as (r & Hr & _).
  rewrite (lk_frame _ _ _ _ (conj W1 W2) F Hr). rewrite Hr in H. assumption.
Qed.

Lemma copy_lookup_cons o n m k :
  copy_lookup k ((o, n) :: m) = if Pos.eqb o k then Some n else copy_lookup k m.
Proof. reflexivity. Qed.

Section CopyInst.
  Variable s0 : st.              (* the state in which the instantiation started *)
  Hypothesis W0 : wf s0.

  (* the copy `n` of the class `o` is finished: its own root, and of the leaf type that `o` had *)
  Definition done (o n : tyid) (s : st) : Prop :=
    forall t, head s0 o = Some t -> is_unknown t = false ->
              exists nd, lk s n = Some nd /\ same_shape t (nty nd) = true /\ nrep nd = n.

  Definition memo_ok (m : copymap) (D : list tyid) (s : st) : Prop :=
    forall o n, copy_lookup o m = Some n -> In o D \/ done o n s.

  Definition memo_le (m m' : copymap) : Prop := forall o n, copy_lookup o m = Some n -> copy_lookup o m' = Some n.

  Lemma memo_le_refl m : memo_le m m.
  Proof. intros o n H. exact H. Qed.

  Lemma memo_le_trans m1 m2 m3 : memo_le m1 m2 -> memo_le m2 m3 -> memo_le m1 m3.
  Proof. intros A B o n H. auto. Qed.

  Lemma done_frame o n s s' : wf s -> frame s s' -> done o n s -> done o n s'.
  Proof.
    intros W F H t Ht Rt. destruct (H t Ht Rt) as (nd & L & X). exists nd. split; [|assumption].
    eapply lk_frame; eassumption.
  Qed.

  Lemma memo_ok_frame m D s s' : wf s -> frame s s' -> memo_ok m D s -> memo_ok m D s'.
  Proof. intros W F H o n L. destruct (H o n L) as [I|Dn]; [left; assumption|right; eapply done_frame; eassumption]. Qed.

  (* a write to an unfinished node (its type is still Unknown) leaves the finished ones alone *)
  Lemma memo_ok_write m D s s' new nd0 :
    lk s new = Some nd0 -> nty nd0 = HUnknown -> (forall i, i <> new -> lk s' i = lk s i) ->
    memo_ok m D s -> memo_ok m D s'.
  Proof.
    intros Ln Un O H o n L. destruct (H o n L) as [I|Dn]; [left; assumption|right].
    intros t Ht Rt. destruct (Dn t Ht Rt) as (nd & Ld & Tn & Rn). exists nd. split; [|auto].
    rewrite O; [assumption|]. intros ->. rewrite Ln in Ld. injection Ld as <-. rewrite Un in Tn.
    pose proof (same_shape_known _ _ Tn Rt) as X. discriminate X.
  Qed.

  Definition copy_post (a : tyid) (m : copymap) (D : list tyid) (s : st) (r : tyid) (m' : copymap) (s' : st) : Prop :=
    wf s' /\ frame s s' /\ memo_ok m' D s' /\ memo_le m m' /\
    exists ra, rep s' a = Some ra /\ copy_lookup ra m' = Some r.

  Definition copy_spec (R : grec) : Prop :=
    forall a m D s r m' s',
      wf s -> frame s0 s -> memo_ok m D s -> g_copy R a m s = Ok ((r, m'), s') -> copy_post a m D s r m' s'.

  Section Step.
    Variable R : grec.
    Hypothesis P : gpres R.
    Hypothesis C : copy_spec R.

    Lemma copy_constr_spec c m D s c' m' s' :
      wf s -> frame s0 s -> memo_ok m D s -> copy_constr R c m s = Ok ((c', m'), s') ->
      wf s' /\ frame s s' /\ memo_ok m' D s' /\ memo_le m m'.
    Proof.
      intros W F MO H.
      assert (T : forall (k : tyid -> constr) x,
                 (r <- g_copy R x m ;; ret (k (fst r), snd r)) s = Ok ((c', m'), s') ->
                 wf s' /\ frame s s' /\ memo_ok m' D s' /\ memo_le m m').
      { intros k x Hk. apply bind_inv in Hk as ([r mr] & s1 & H1 & Hk). injection Hk as _ <- <-.
        destruct (C _ _ _ _ _ _ _ W F MO H1) as (X1 & X2 & X3 & X4 & _). auto. }
      assert (N : ret (c, m) s = Ok ((c', m'), s') -> wf s' /\ frame s s' /\ memo_ok m' D s' /\ memo_le m m').
      { intros Hr. injection Hr as _ <- <-. split; [assumption|]. split; [apply frame_refl|]. split; [assumption|apply memo_le_refl]. }
      unfold copy_constr in H. destruct c; try (eapply T; exact H); try (apply N; exact H).
      destruct t; [exact (T (fun t0 => CVariant v (Some t0)) _ H)|injection H as _ <- <-; split; [assumption|]; split; [apply frame_refl|]; split; [assumption|apply memo_le_refl]].
    Qed.

    Lemma copy_constrs_spec : forall cs acc m D s acc' m' s',
      wf s -> frame s0 s -> memo_ok m D s ->
      foldM (fun (a : list constr * copymap) c => r <- copy_constr R c (snd a) ;; ret (cinsert (fst r) (fst a), snd r))
            cs (acc, m) s = Ok ((acc', m'), s') ->
      wf s' /\ frame s s' /\ memo_ok m' D s' /\ memo_le m m'.
    Proof.
      induction cs as [|c cs IH]; intros acc m D s acc' m' s' W F MO H; cbn [foldM] in H.
      - injection H as _ <- <-. split; [assumption|]. split; [apply frame_refl|]. split; [assumption|apply memo_le_refl].
      - apply bind_inv in H as ([acc1 m1] & s1 & H1 & H).
        apply bind_inv in H1 as ([c1 mc] & s1' & Hc & H1). injection H1 as _ <- <-. cbn [snd] in Hc.
        destruct (copy_constr_spec _ _ _ _ _ _ _ W F MO Hc) as (W1 & F1 & MO1 & L1).
        destruct (IH _ _ _ _ _ _ _ W1 (frame_trans _ _ _ F F1) MO1 H) as (W2 & F2 & MO2 & L2).
        split; [assumption|]. split; [eapply frame_trans; eassumption|]. split; [assumption|eapply memo_le_trans; eassumption].
    Qed.

    Lemma copy_list_spec : forall l m D s l' m' s',
      wf s -> frame s0 s -> memo_ok m D s -> copy_list R l m s = Ok ((l', m'), s') ->
      wf s' /\ frame s s' /\ memo_ok m' D s' /\ memo_le m m' /\
      (forall n x, nth_error l n = Some x ->
                   exists x' rx, nth_error l' n = Some x' /\ rep s' x = Some rx /\ copy_lookup rx m' = Some x').
    Proof.
      induction l as [|x xs IH]; intros m D s l' m' s' W F MO H; cbn [copy_list] in H.
      - injection H as <- <- <-. split; [assumption|]. split; [apply frame_refl|]. split; [assumption|].
        split; [apply memo_le_refl|]. intros [|n] y Hy; discriminate.
      - apply bind_inv in H as ([r m1] & s1 & H1 & H). cbn [snd fst] in H.
        apply bind_inv in H as ([rs m2] & s2 & H2 & H). injection H as <- <- <-. cbn [fst snd].
        destruct (C _ _ _ _ _ _ _ W F MO H1) as (W1 & F1 & MO1 & L1 & (ra & Ra & La)).
        destruct (IH _ _ _ _ _ _ W1 (frame_trans _ _ _ F F1) MO1 H2) as (W2 & F2 & MO2 & L2 & K2).
        split; [assumption|]. split; [eapply frame_trans; eassumption|]. split; [assumption|].
        split; [eapply memo_le_trans; eassumption|].
        intros [|n] y Hy; cbn [nth_error] in Hy |- *.
        + injection Hy as <-. exists r, ra. split; [reflexivity|]. split; [exact (rep_frame _ _ _ _ W1 F2 Ra)|now apply L2].
        + now apply K2.
    Qed.

    Lemma copy_fields_spec : forall l m D s l' m' s',
      wf s -> frame s0 s -> memo_ok m D s -> copy_fields R l m s = Ok ((l', m'), s') ->
      wf s' /\ frame s s' /\ memo_ok m' D s' /\ memo_le m m' /\
      (forall k v, flookup k l = Some v ->
                   exists v' rx, flookup k l' = Some v' /\ rep s' (snd v) = Some rx /\ copy_lookup rx m' = Some (snd v')).
    Proof.
      induction l as [|[k0 [sp0 x]] xs IH]; intros m D s l' m' s' W F MO H; cbn [copy_fields] in H.
      - injection H as <- <- <-. split; [assumption|]. split; [apply frame_refl|]. split; [assumption|].
        split; [apply memo_le_refl|]. intros k v Hv; discriminate.
      - apply bind_inv in H as ([r m1] & s1 & H1 & H). cbn [snd fst] in H.
        apply bind_inv in H as ([rs m2] & s2 & H2 & H). injection H as <- <- <-. cbn [fst snd].
        destruct (C _ _ _ _ _ _ _ W F MO H1) as (W1 & F1 & MO1 & L1 & (ra & Ra & La)).
        destruct (IH _ _ _ _ _ _ W1 (frame_trans _ _ _ F F1) MO1 H2) as (W2 & F2 & MO2 & L2 & K2).
        split; [assumption|]. split; [eapply frame_trans; eassumption|]. split; [assumption|].
        split; [eapply memo_le_trans; eassumption|].
        intros k v Hv. cbn [flookup] in Hv |- *. destruct (String.eqb k k0).
        + injection Hv as <-. cbn [snd]. exists (sp0, r), ra. split; [reflexivity|]. split; [exact (rep_frame _ _ _ _ W1 F2 Ra)|now apply L2].
        + now apply K2.
    Qed.

    (* the components of the copied type are the memoised copies of the components *)
    Definition kids_copied (t t' : tyh) (m' : copymap) (s' : st) : Prop :=
      forall x c, kid t x = Some c ->
                  exists c' rc, kid t' x = Some c' /\ rep s' c = Some rc /\ copy_lookup rc m' = Some c'.

    Lemma copy_ty_spec t m D s t' m' s' :
      wf s -> frame s0 s -> memo_ok m D s -> copy_ty R t m s = Ok ((t', m'), s') ->
      wf s' /\ frame s s' /\ memo_ok m' D s' /\ memo_le m m' /\ kids_copied t t' m' s' /\ (rigid t = true -> t' = t).
    Proof.
      intros W F MO H. unfold copy_ty in H.
      assert (N : ret (t, m) s = Ok ((t', m'), s') -> (forall x, kid t x = None) ->
                  wf s' /\ frame s s' /\ memo_ok m' D s' /\ memo_le m m' /\ kids_copied t t' m' s' /\ (rigid t = true -> t' = t)).
      { intros Hr Hk. injection Hr as <- <- <-. split; [assumption|]. split; [apply frame_refl|]. split; [assumption|].
        split; [apply memo_le_refl|]. split; [|reflexivity]. intros x c K. rewrite Hk in K. discriminate. }
      destruct t; try (apply N; [exact H|intros []; reflexivity]).
      - (* tuple *)
        apply bind_inv in H as ([l' ml] & s1 & H1 & H). injection H as <- <- <-. cbn [fst snd].
        destruct (copy_list_spec _ _ _ _ _ _ _ W F MO H1) as (W1 & F1 & MO1 & L1 & K1).
        repeat (split; [assumption|]). split; [|discriminate].
        intros x c K. destruct x; try discriminate K. cbn [kid] in K |- *. now apply K1.
      - (* list *)
        apply bind_inv in H as ([r mr] & s1 & H1 & H). injection H as <- <- <-. cbn [fst snd].
        destruct (C _ _ _ _ _ _ _ W F MO H1) as (W1 & F1 & MO1 & L1 & (ra & Ra & La)).
        repeat (split; [assumption|]). split; [|discriminate].
        intros x c K. destruct x; try discriminate K. cbn [kid] in K |- *. injection K as <-. eauto.
      - (* function *)
        apply bind_inv in H as ([l' ml] & s1 & H1 & H). cbn [fst snd] in H.
        apply bind_inv in H as ([rr mr] & s2 & H2 & H). injection H as <- <- <-. cbn [fst snd].
        destruct (copy_list_spec _ _ _ _ _ _ _ W F MO H1) as (W1 & F1 & MO1 & L1 & K1).
        destruct (C _ _ _ _ _ _ _ W1 (frame_trans _ _ _ F F1) MO1 H2) as (W2 & F2 & MO2 & L2 & (ra & Ra & La)).
        split; [assumption|]. split; [eapply frame_trans; eassumption|]. split; [assumption|].
        split; [eapply memo_le_trans; eassumption|]. split; [|discriminate].
        intros x c K. destruct x; try discriminate K; cbn [kid] in K |- *.
        + destruct (K1 _ _ K) as (x' & rx & A1 & A2 & A3). exists x', rx. split; [assumption|].
          split; [exact (rep_frame _ _ _ _ W1 F2 A2)|now apply L2].
        + injection K as <-. eauto.
      - (* blob *)
        apply bind_inv in H as ([f' mf] & s1 & H1 & H). cbn [fst snd] in H.
        apply bind_inv in H as ([a' ma] & s2 & H2 & H). injection H as <- <- <-. cbn [fst snd].
        destruct (copy_fields_spec _ _ _ _ _ _ _ W F MO H1) as (W1 & F1 & MO1 & L1 & K1).
        destruct (copy_list_spec _ _ _ _ _ _ _ W1 (frame_trans _ _ _ F F1) MO1 H2) as (W2 & F2 & MO2 & L2 & _).
        split; [assumption|]. split; [eapply frame_trans; eassumption|]. split; [assumption|].
        split; [eapply memo_le_trans; eassumption|]. split; [|discriminate].
        intros x c K. destruct x; try discriminate K; cbn [kid] in K |- *.
        destruct (flookup k fields) as [v|] eqn:Ev; [|discriminate]. injection K as <-.
        destruct (K1 _ _ Ev) as (v' & rx & A1 & A2 & A3). rewrite A1. cbn [option_map]. exists (snd v'), rx.
        split; [reflexivity|]. split; [exact (rep_frame _ _ _ _ W1 F2 A2)|now apply L2].
      - (* extern blob: no components are tracked *)
        apply bind_inv in H as ([f' mf] & s1 & H1 & H). cbn [fst snd] in H.
        apply bind_inv in H as ([a' ma] & s2 & H2 & H). injection H as <- <- <-. cbn [fst snd].
        destruct (copy_fields_spec _ _ _ _ _ _ _ W F MO H1) as (W1 & F1 & MO1 & L1 & K1).
        destruct (copy_list_spec _ _ _ _ _ _ _ W1 (frame_trans _ _ _ F F1) MO1 H2) as (W2 & F2 & MO2 & L2 & _).
        split; [assumption|]. split; [eapply frame_trans; eassumption|]. split; [assumption|].
        split; [eapply memo_le_trans; eassumption|]. split; [|discriminate].
        intros x c K. destruct x; discriminate K.
      - (* enum *)
        apply bind_inv in H as ([f' mf] & s1 & H1 & H). cbn [fst snd] in H.
        apply bind_inv in H as ([a' ma] & s2 & H2 & H). injection H as <- <- <-. cbn [fst snd].
        destruct (copy_fields_spec _ _ _ _ _ _ _ W F MO H1) as (W1 & F1 & MO1 & L1 & K1).
        destruct (copy_list_spec _ _ _ _ _ _ _ W1 (frame_trans _ _ _ F F1) MO1 H2) as (W2 & F2 & MO2 & L2 & _).
        split; [assumption|]. split; [eapply frame_trans; eassumption|]. split; [assumption|].
        split; [eapply memo_le_trans; eassumption|]. split; [|discriminate].
        intros x c K. destruct x; try discriminate K; cbn [kid] in K |- *.
        destruct (flookup k variants) as [v|] eqn:Ev; [|discriminate]. injection K as <-.
        destruct (K1 _ _ Ev) as (v' & rx & A1 & A2 & A3). rewrite A1. cbn [option_map]. exists (snd v'), rx.
        split; [reflexivity|]. split; [exact (rep_frame _ _ _ _ W1 F2 A2)|now apply L2].
    Qed.

    (* one call of inner_copy, with what it leaves in the new node *)
    Lemma copy_body_spec a m D s r m' s' :
      wf s -> frame s0 s -> memo_ok m D s -> copy_body R a m s = Ok ((r, m'), s') ->
      copy_post a m D s r m' s' /\
      (forall ro, rep s a = Some ro -> copy_lookup ro m = None ->
                  exists t t' nd, head s ro = Some t /\ lk s' r = Some nd /\ nty nd = t' /\ nrep nd = r /\
                                  kids_copied t t' m' s' /\ (rigid t = true -> t' = t) /\
                                  memo_ok m' (ro :: D) s').
    Proof.
      intros W F MO H.
      destruct (framed_copy_body R P a m s _ _ W H) as [Wf Ff].
      unfold copy_body in H.
      apply bind_inv in H as (ro & s_ & Hro & H). apply find_inv in Hro as [-> Hro].
      destruct (copy_lookup ro m) as [r0|] eqn:Lk.
      { injection H as <- <- <-. split.
        - split; [assumption|]. split; [apply frame_refl|]. split; [assumption|]. split; [apply memo_le_refl|eauto].
        - intros ro' Hr' Hn. rewrite Hro in Hr'. injection Hr' as <-. congruence. }
      apply bind_inv in H as (new & s1 & H1 & H). rewrite push_type_eq in H1. injection H1 as <- <-.
      destruct (framed_push HUnknown s _ _ W (push_type_eq _ _)) as [W1 F1].
      pose proof (lk_push_new HUnknown s) as N1.
      set (new := next s) in *. set (s1 := push_st HUnknown s) in *.
      assert (MO1 : memo_ok ((ro, new) :: m) (ro :: D) s1).
      { intros o k L. rewrite copy_lookup_cons in L. destruct (Pos.eqb_spec ro o) as [->|Ne].
        - left. now left.
        - destruct (MO _ _ L) as [I|Dn]; [left; now right|right; exact (done_frame _ _ _ _ W F1 Dn)]. }
      apply bind_inv in H as (tb & s1b & Htb & H). apply find_type_inv in Htb as [-> Htb].
      destruct (is_basic tb) eqn:Bb.
      { (* a basic type (since 8ab9717): the new node gets it; no constraint, no component is copied *)
        apply bind_inv in H as (ub & sb & Hb & H). unfold set_type in Hb.
        destruct (update_self new (fun n => mkNode tb (nrep n) (nsize n) (ncons n)) _ _ _ _ (fun _ => eq_refl) W1 N1 eq_refl Hb)
          as (Wb & Nxb & Ob & Nb).
        injection H as <- <- <-.
        assert (MOb : memo_ok ((ro, new) :: m) (ro :: D) sb)
          by (eapply (memo_ok_write _ _ s1 sb new); [exact N1|reflexivity|exact Ob|exact MO1]).
        assert (Hs : head s ro = Some tb).
        { destruct (root_of _ _ _ W Hro) as (nro & Lro & Ero).
          assert (L1 : lk s1 ro = Some nro) by exact (lk_frame _ _ _ _ W F1 Lro).
          unfold head in Htb |- *. rewrite L1, Ero, L1 in Htb. rewrite Lro, Ero, Lro. assumption. }
        assert (Lnew : copy_lookup ro ((ro, new) :: m) = Some new) by (rewrite copy_lookup_cons, Pos.eqb_refl; reflexivity).
        split.
        - split; [assumption|]. split; [assumption|]. split.
          + intros o k L. destruct (MOb _ _ L) as [[<-|I]|Dn]; [|left; assumption|right; assumption].
            right. rewrite copy_lookup_cons, Pos.eqb_refl in L. injection L as <-. intros t0 Ht0 Rt0.
            assert (tb = t0) by (pose proof (head_frame _ _ _ _ W0 F Ht0) as X; rewrite Hs in X; now injection X).
            subst t0. eexists. split; [exact Nb|]. split; [apply same_shape_refl|reflexivity].
          + split; [intros o k L; rewrite copy_lookup_cons; destruct (Pos.eqb_spec ro o) as [->|]; [congruence|assumption]|].
            exists ro. split; [exact (rep_frame _ _ _ _ W Ff Hro)|exact Lnew].
        - intros ro' Hr' _. rewrite Hro in Hr'. injection Hr' as <-.
          exists tb, tb, (mkNode tb new 1%N []). split; [assumption|]. split; [exact Nb|]. split; [reflexivity|]. split; [reflexivity|].
          split; [|split; [reflexivity|exact MOb]].
          intros x c K. destruct tb; try discriminate Bb; destruct x; discriminate K. }
      apply bind_inv in H as (n & s1' & Hn & H). apply find_node_inv in Hn as [-> _].
      apply bind_inv in H as ([cs m2] & s2 & Hf & H).
      destruct (copy_constrs_spec _ _ _ _ _ _ _ _ W1 (frame_trans _ _ _ F F1) MO1 Hf) as (W2 & F2 & MO2 & L2).
      assert (N2 : lk s2 new = Some (mkNode HUnknown new 1%N [])) by exact (lk_frame _ _ _ _ W1 F2 N1).
      apply bind_inv in H as (u3 & s3 & H3 & H). unfold set_cons in H3.
      destruct (update_self new (fun n => mkNode (nty n) (nrep n) (nsize n) cs) _ _ _ _ (fun _ => eq_refl) W2 N2 eq_refl H3)
        as (W3 & Nx3 & O3 & N3).
      assert (MO3 : memo_ok m2 (ro :: D) s3) by (eapply (memo_ok_write _ _ s2 s3 new); [exact N2|reflexivity|exact O3|exact MO2]).
      assert (F02 : frame s0 s2) by (eapply frame_trans; [exact F|]; eapply frame_trans; [exact F1|exact F2]).
      assert (F03 : frame s0 s3).
      { destruct F02 as [Fa Fb]. destruct F as [Fc _]. split; [rewrite Nx3; exact Fa|].
        intros i Hi. rewrite O3; [now apply Fb|]. intros ->. unfold new in Hi. lia. }
      apply bind_inv in H as (t & s3' & Ht & H). apply find_type_inv in Ht as [-> Ht].
      apply bind_inv in H as ([t' m3] & s4 & H4 & H).
      destruct (copy_ty_spec _ _ _ _ _ _ _ W3 F03 MO3 H4) as (W4 & F4 & MO4 & L4 & K4 & R4).
      assert (N4 : lk s4 new = Some (mkNode HUnknown new 1%N cs)) by exact (lk_frame _ _ _ _ W3 F4 N3).
      apply bind_inv in H as (u5 & s5 & H5 & H). unfold set_type in H5.
      destruct (update_self new (fun n => mkNode t' (nrep n) (nsize n) (ncons n)) _ _ _ _ (fun _ => eq_refl) W4 N4 eq_refl H5)
        as (W5 & Nx5 & O5 & N5).
      injection H as <- <- <-.
      assert (MO5 : memo_ok m3 (ro :: D) s5) by (eapply (memo_ok_write _ _ s4 s5 new); [exact N4|reflexivity|exact O5|exact MO4]).
      assert (Lnew : copy_lookup ro m3 = Some new).
      { apply L4, L2. rewrite copy_lookup_cons, Pos.eqb_refl. reflexivity. }
      (* the type that was copied is the type `ro` had all along *)
      assert (Hs : head s ro = Some t).
      { destruct (head_of_rep _ _ _ W Hro) as [_ Rro]. destruct (root_of _ _ _ W Hro) as (nro & Lro & Ero).
        assert (L3 : lk s3 ro = Some nro).
        { rewrite O3; [|intros ->; destruct W as [Wa _]; specialize (Wa _ _ Lro); unfold new in Wa; lia].
          eapply lk_frame; [exact W1|exact F2|]. exact (lk_frame _ _ _ _ W F1 Lro). }
        unfold head in Ht |- *. rewrite L3, Ero, L3 in Ht. rewrite Lro, Ero, Lro. assumption. }
      assert (Rep5 : forall c rc, rep s4 c = Some rc -> rep s5 c = Some rc).
      { intros c rc Hc. unfold rep in *. destruct (Pos.eq_dec c new) as [->|Ne].
        - rewrite N4 in Hc. rewrite N5. assumption.
        - rewrite O5; assumption. }
      split.
      - split; [assumption|]. split; [assumption|]. split.
        + (* the entry of this call is finished now *)
          intros o k L. destruct (MO5 _ _ L) as [[<-|I]|Dn]; [|left; assumption|right; assumption].
          right. rewrite Lnew in L. injection L as <-. intros t0 Ht0 Rt0.
          assert (t = t0).
          { pose proof (head_frame _ _ _ _ W0 F Ht0) as X. rewrite Hs in X. now injection X. }
          subst t0. eexists. split; [exact N5|]. split; [exact (proj1 (copy_ty_like _ _ _ _ _ _ _ H4))|reflexivity].
        + split; [intros o k L; apply L4, L2; rewrite copy_lookup_cons; destruct (Pos.eqb_spec ro o) as [->|]; [congruence|assumption]|].
          exists ro. split; [exact (rep_frame _ _ _ _ W Ff Hro)|exact Lnew].
      - intros ro' Hr' _. rewrite Hro in Hr'. injection Hr' as <-.
        exists t, t', (mkNode t' new 1%N cs). split; [assumption|]. split; [exact N5|]. split; [reflexivity|]. split; [reflexivity|].
        split; [|split; [exact R4|exact MO5]].
        intros x c K. destruct (K4 _ _ K) as (c' & rc & A1 & A2 & A3). exists c', rc.
        split; [assumption|]. split; [now apply Rep5|assumption].
    Qed.

    Lemma copy_spec_step : copy_spec (gstep R).
    Proof.
      intros a m D s r m' s' W F MO H. cbn [gstep g_copy] in H.
      exact (proj1 (copy_body_spec _ _ _ _ _ _ _ W F MO H)).
    Qed.
  End Step.

  Lemma copy_spec_gfix : forall g, copy_spec (gfix g).
  Proof.
    induction g as [|g IH]; cbn [gfix].
    - intros a m D s r m' s' _ _ _ H. discriminate.
    - apply copy_spec_step; [apply gfix_pres|assumption].
  Qed.
End CopyInst.

(* fn copy: every component of the instance is the copy of the component at the same position; a component whose type
   is known has a type of the same shape in the instance (a leaf: that very type) *)
Theorem copy_known_kids g a s r s' h x c t :
  wf s -> copy (gfix g) a s = Ok (r, s') ->
  head s a = Some h -> kid h x = Some c -> head s c = Some t -> is_unknown t = false ->
  exists h' c' t', head s' r = Some h' /\ kid h' x = Some c' /\ head s' c' = Some t' /\ same_shape t t' = true.
Proof.
  intros W H Hh K Hc Rt. unfold copy in H. apply bind_inv in H as ([r0 m'] & s1 & H1 & H). injection H as <- <-.
  destruct g as [|g]; [discriminate|]. cbn [gfix gstep g_copy] in H1.
  assert (MO : memo_ok s [] [] s) by (intros o n L; discriminate).
  destruct (copy_body_spec s W (gfix g) (gfix_pres g) (copy_spec_gfix s W g) a [] [] s _ _ _ W (frame_refl s) MO H1)
    as [(_ & _ & _ & _ & ra & Rra & Lra) X].
  destruct (copy_body_shape (gfix g) (gfix_pres g) a s _ _ _ W H1) as (h0 & h0' & Hh0 & Hh0' & CL).
  rewrite Hh in Hh0. injection Hh0 as <-.
  destruct (rep s a) as [ro|] eqn:Ra.
  2:{ unfold copy_body in H1. apply bind_inv in H1 as (ro & s_ & Hro & _). apply find_inv in Hro as [_ Hro]. congruence. }
  destruct (X ro eq_refl eq_refl) as (t0 & t' & nd & Ht0 & Lr & Tn & Rn & Kc & _ & MO').
  destruct (head_of_rep _ _ _ W Ra) as [Hro _]. rewrite Hh in Hro. rewrite Hro in Ht0. injection Ht0 as <-.
  destruct (Kc _ _ K) as (c' & rc & K' & Rc & Lc).
  assert (Hr : head s1 r0 = Some t') by (unfold head; rewrite Lr, Rn, Lr; cbn [option_map]; rewrite Tn; reflexivity).
  rewrite Hr in Hh0'. injection Hh0' as <-.
  (* the copy of the component: finished, or the class that is being copied itself (a recursive type) *)
  destruct (framed_copy_body (gfix g) (gfix_pres g) a [] s _ _ W H1) as [W1 F1].
  assert (Rc0 : rep s c = Some rc).
  { unfold head in Hc. unfold rep in *. destruct (lk s c) as [nc|] eqn:Ec; [|discriminate].
    rewrite (lk_frame _ _ _ _ W F1 Ec) in Rc. assumption. }
  destruct (head_of_rep _ _ _ W Rc0) as [Hrc _]. rewrite Hc in Hrc.
  destruct (MO' _ _ Lc) as [[E|[]]|Dn].
  - subst rc. rewrite Hro in Hrc. injection Hrc as ->.
    rewrite (rep_frame _ _ _ _ W F1 Ra) in Rra. injection Rra as <-. rewrite Lc in Lra. injection Lra as ->.
    exists t', r0, t'. split; [assumption|]. split; [assumption|]. split; [assumption|exact (proj1 CL)].
  - destruct (Dn _ Hrc Rt) as (ndc & Lc' & Tc & Rc'). exists t', c', (nty ndc). split; [assumption|]. split; [assumption|].
    split; [|exact Tc]. unfold head. rewrite Lc', Rc', Lc'. reflexivity.
Qed.

(* a component whose type is a leaf has that very type in the instance *)
Theorem copy_leaf_kids g a s r s' h x c t :
  wf s -> copy (gfix g) a s = Ok (r, s') ->
  head s a = Some h -> kid h x = Some c -> head s c = Some t -> rigid t = true ->
  exists h' c', head s' r = Some h' /\ kid h' x = Some c' /\ head s' c' = Some t.
Proof.
  intros W H Hh K Hc Rt.
  destruct (copy_known_kids g a s r s' h x c t W H Hh K Hc (rigid_known _ Rt)) as (h' & c' & t' & A & B & C & D).
  exists h', c'. split; [assumption|]. split; [assumption|]. rewrite C. f_equal. exact (rigid_shape _ _ Rt D).
Qed.
