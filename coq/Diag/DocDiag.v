(* The code that decides which file and line a diagnostic carries, as reviewed BY HAND.  Props/C15.v
   proves (vm_compute) that the text tools/gens/gen_diag.py extracts from /repo on this run equals the
   text below, so an edit to any of these items breaks the obligation `C15_diag_table`; the oracle is then
   run and the models in Diag/*.v have to be reviewed again.

   How the reviewed items are used by the models:

   Span::zero, Context::peek/span/token       Diag/SyntaxErr.v `cspan`, `token`: the current token's span; when curr is
                                              past the end, spans.last() -- the span of the LAST token of the file
                                              (reviewed again after /repo b18ca25) -- and Span::zero(file_id) (all
                                              fields 0) only for a file without any token.
   Context::skip                              Diag/SyntaxErr.v `skip`: n non-comment tokens, then comments and
                                              (when skip_newlines) newlines.
   syntax_error!/raise_syntax_error!/expect!  Diag/SyntaxErr.v: the error carries ctx.file and ctx.span() of the
                                              context it is raised with.
   find_conflict_markers                      Diag/Conflict.v: source.lines().enumerate(), line i+1 for every line
                                              that starts_with("<<<<<<<"); columns 1..8; the file_id of the file.
   tree                                       Diag/FileIds.v `run`/`visit`: Vec::pop work list, file_id = visited.len()
                                              BEFORE the insert, unreadable files and files with conflict markers are
                                              numbered but give no module, module() returns its use_files also when the
                                              parse failed; with bundle_std the preamble is pushed first (popped last)
                                              and `basics_index` = position of the preamble in `modules`.
   push_skip_newlines, head of statement      Diag/SyntaxErr.v `statement_span`: a Statement's span is ctx.span() taken
                                              after push_skip_newlines(false) (= skip(0) with the flag cleared), i.e.
                                              the span of the statement's first token.
   outer_statement                            Diag/SyntaxErr.v `outer_statement_check`: the error carries stmt.span and
                                              ctx.file; the returned context is ctx.skip(1) of the context after the
                                              statement (reviewed again after /repo 953bea1; before, the span was that of
                                              the token AFTER the statement).
   the `A Name collision` arm                 not modelled in Coq (oracle only): when the colliding import comes from a
                                              Lib (the std preamble that tree() appends to every user module) and the
                                              older definition is in a File, the error is raised at the older (user)
                                              span and the import becomes the help note (/repo 6e4bbe6).
   the `Name collision` arm of a plain `use`  likewise (oracle only, planter duplicate-global-vs-std with the names set,
                                              dict, list, math): a `use` line of the std preamble colliding with a user
                                              definition is reported at the user's definition (/repo 2646957); for two
                                              user-written lines the error stays at the `use` statement (Resolve/ErrorSites.v).
   extract_namespaces, file_from_namespace,   Diag/FileIds.v `namespace_to_file`: module.file_id -> path, reversed;
   span_file (resolver, type checker),        every CompileError/TypeError takes its file from span.file_id through
   error!, resolution_error!, type_error!     that map and its line from the span passed to the macro.
*)
From Coq Require Import String List Bool.
Import ListNotations.
Local Open Scope string_scope.

Definition doc_diag_items : list (string * string * string) := [
  ("sylt-tokenizer/src/tokenizer.rs", "fn zero",
   "fn zero(file_id: usize) -> Self { Self { file_id, line_start: 0, line_end: 0, col_start: 0, col_end: 0, } }");
  ("sylt-parser/src/parser.rs", "fn span",
   "fn span(&self) -> Span { self.peek().1 }");
  ("sylt-parser/src/parser.rs", "fn peek",
   "fn peek(&self) -> (&Token, Span) { let token = self.tokens.get(self.curr).unwrap_or(&T::EOF); let zero_span = Span::zero(self.file_id); let span = self .spans .get(self.curr) .or(self.spans.last()) .unwrap_or(&zero_span) .clone(); (token, span) }");
  ("sylt-parser/src/parser.rs", "fn token",
   "fn token(&self) -> &T { &self.peek().0 }");
  ("sylt-parser/src/parser.rs", "fn skip",
   "fn skip(&self, n: usize) -> Self { let mut new = *self; let mut skipped = 0; while skipped < n { if !matches!(new.token(), T::Comment(_)) { skipped += 1; } new.curr += 1; } loop { match new.token() { T::Comment(_) => new.curr += 1, T::Newline if self.skip_newlines => new.curr += 1, _ => break, } } new }");
  ("sylt-parser/src/parser.rs", "fn push_skip_newlines",
   "fn push_skip_newlines(&self, skip_newlines: bool) -> (Self, bool) { let mut new = *self; new.skip_newlines = skip_newlines; (new.skip(0), self.skip_newlines) }");
  ("sylt-parser/src/parser.rs", "macro syntax_error",
   "macro_rules! syntax_error { ($ctx:expr, $( $msg:expr ),* ) => { { let msg = format!($( $msg ),*).into(); Error::SyntaxError { file: $ctx.file.clone(), span: $ctx.span(), message: msg, } } }; }");
  ("sylt-parser/src/parser.rs", "macro raise_syntax_error",
   "macro_rules! raise_syntax_error { ($ctx:expr, $( $msg:expr ),* ) => { return Err(($ctx.skip(1), vec![syntax_error!($ctx, $( $msg ),*)])) }; }");
  ("sylt-parser/src/parser.rs", "macro expect",
   "macro_rules! expect { ($ctx:expr, $( $token:pat )|+ , $( $msg:expr ),+ ) => { { if !matches!($ctx.token(), $( $token )|* ) { raise_syntax_error!($ctx, $( $msg ),*); } $ctx.skip(1) } }; ($ctx:expr, $( $token:pat )|+ ) => { expect!($ctx, $( $token )|*, concat!(""Expected "", stringify!($( $token )|*))) }; }");
  ("sylt-parser/src/parser.rs", "fn find_conflict_markers",
   "fn find_conflict_markers(file: &FileOrLib, file_id: usize, source: &str) -> Vec<Error> { let mut errs = Vec::new(); for (i, line) in source.lines().enumerate() { let conflict_marker = ""<<<<<<<""; if line.starts_with(conflict_marker) { errs.push(Error::GitConflictError { file: file.clone(), span: Span { line_start: i + 1, line_end: i + 1, col_start: 1, col_end: conflict_marker.len() + 1, file_id, }, }); } } errs }");
  ("sylt-parser/src/parser.rs", "fn tree",
   "fn tree<F>(path: &Path, reader: F, bundle_std: bool) -> Result<AST, Vec<Error>> where F: Fn(&Path) -> Result<String, Error>, { let mut visited = HashSet::new(); let mut to_visit = Vec::new(); let root = path.parent().unwrap(); if bundle_std { to_visit.push(FileOrLib::Lib(""preamble"")); } to_visit.push(FileOrLib::File(PathBuf::from(path))); let mut modules = Vec::new(); let mut errors = Vec::new(); while let Some(include) = to_visit.pop() { if visited.contains(&include) { continue; } let file_id = visited.len(); visited.insert(include.clone()); let source = match &include { FileOrLib::Lib(name) => library_source(name).unwrap().to_string(), FileOrLib::File(file) => match reader(file) { Ok(source) => source, Err(err) => { errors.push(err); continue; } }, }; let mut conflict_errors = find_conflict_markers(&include, file_id, &source); if !conflict_errors.is_empty() { errors.append(&mut conflict_errors); continue; } let tokens = string_to_tokens(file_id, &source); let (mut next, result) = module(&include, file_id, &root, &tokens); match result { Ok(module) => modules.push((include.clone(), module)), Err(mut errs) => errors.append(&mut errs), } to_visit.append(&mut next); } if bundle_std { let basics_index = modules .iter() .position(|(f, _)| *f == FileOrLib::Lib(""preamble"")) .expect(""Error in the preamble code""); let tokens = string_to_tokens(basics_index, library_source(""preamble"").unwrap()); let (_, std) = module(&FileOrLib::Lib(""basics""), basics_index, &root, &tokens); let std = std?; modules = modules .into_iter() .map(|(file, mut module)| { match file { FileOrLib::File(_) => { module.statements.append(&mut std.statements.clone()); } FileOrLib::Lib(_) => {} }; (file, module) }) .collect(); } if errors.is_empty() { Ok(AST { modules }) } else { let mut seen = HashSet::new(); let errors = errors .into_iter() .filter(|err| match err { Error::SyntaxError { span, file, .. } => seen.insert((span.clone(), file.clone())), _ => true, }) .collect(); Err(errors) } }");
  ("sylt-parser/src/statement.rs", "head statement",
   "fn statement<'t>(ctx: Context<'t>) -> ParseResult<'t, Statement> { use StatementKind::*; let (ctx, skip_newlines) = ctx.push_skip_newlines(false); let mut comments = ctx.comments_since_last_statement(); let ctx = ctx.push_last_statement_location(); let span = ctx.span();");
  ("sylt-parser/src/statement.rs", "fn outer_statement",
   "fn outer_statement<'t>(ctx: Context<'t>) -> ParseResult<Statement> { let (ctx, stmt) = statement(ctx)?; use StatementKind::*; match stmt.kind { #[rustfmt::skip] Blob { .. } | Enum { .. } | Definition { .. } | ExternalDefinition { .. } | Use { .. } | FromUse { .. } | EmptyStatement => Ok((ctx, stmt)), _ => Err(( ctx.skip(1), vec![Error::SyntaxError { file: ctx.file.clone(), span: stmt.span, message: ""Not a valid outer statement"".into(), }], )), } }");
  ("sylt-compiler/src/compiler.rs", "macro error",
   "macro_rules! error { ($compiler:expr, $span:expr, $( $msg:expr ),+ ) => { if !$compiler.panic { $compiler.panic = true; let msg = format!($( $msg ),*).into(); let err = Error::CompileError { file: $compiler.file_from_namespace($span.file_id).clone(), span: $span, message: Some(msg), helpers: Vec::new(), }; $compiler.errors.push(err); } }; }");
  ("sylt-compiler/src/compiler.rs", "fn file_from_namespace",
   "fn file_from_namespace(&self, namespace: usize) -> &FileOrLib { self.namespace_id_to_file.get(&namespace).unwrap() }");
  ("sylt-compiler/src/compiler.rs", "fn extract_namespaces",
   "fn extract_namespaces(&mut self, tree: &AST) { let mut include_to_namespace = HashMap::new(); for (path, module) in tree.modules.iter() { if include_to_namespace .insert(path.clone(), module.file_id) .is_some() { unreachable!(""File was read twice!?""); } } self.namespace_id_to_file = include_to_namespace .iter() .map(|(a, b): (&FileOrLib, &usize)| (*b, (*a).clone())) .collect(); }");
  ("sylt-compiler/src/name_resolution.rs", "macro resolution_error",
   "macro_rules! resolution_error { ($self:expr, $span:expr, $( $msg:expr ),* ) => { { let message = format!($( $msg ),*); Error::CompileError { file: $self.span_file(&$span), span: $span.clone(), message: Some(message), helpers: Vec::new(), } } }; }");
  ("sylt-compiler/src/name_resolution.rs", "fn span_file",
   "fn span_file(&self, span: &Span) -> FileOrLib { self.namespace_to_file[&span.file_id].clone() }");
  ("sylt-compiler/src/name_resolution.rs", "block A Name collision - duplicate definitions of",
   "Entry::Occupied(occ) if occ.get() != &to_insert => { let span = match occ.get() { Name::Name(r) => self.variables[*r].definition, Name::Namespace(_, span) => *span, }; let (at, other, note) = if matches!( self.span_file(&var.span), FileOrLib::Lib(_) ) && matches!(self.span_file(&span), FileOrLib::File(_)) { (span, var.span, ""It collides with this import of the standard library"") } else { (var.span, span, ""First definition is here"") }; let err = resolution_error!( self, at, ""A Name collision - duplicate definitions of {:?}"", var.name ); errs.push(self.add_help(err, other, note.into())); }");
  ("sylt-compiler/src/typechecker.rs", "macro type_error",
   "macro_rules! type_error { ($self:expr, $span:expr, $kind:expr, $( $msg:expr ),+ ) => { Error::TypeError { kind: $kind, file: $self.span_file(&$span), span: $span, message: Some(format!($( $msg ),*)), helpers: Vec::new(), } }; ($self:expr, $span:expr, $kind:expr) => { Error::TypeError { kind: $kind, file: $self.span_file(&$span), span: $span, message: None, helpers: Vec::new(), } }; }");
  ("sylt-compiler/src/typechecker.rs", "fn span_file",
   "fn span_file(&self, span: &Span) -> FileOrLib { self.namespace_to_file[&span.file_id].clone() }")
].

Fixpoint items_eqb (a b : list (string * string * string)) : bool :=
  match a, b with
  | [], [] => true
  | (a1, a2, a3) :: a', (b1, b2, b3) :: b' =>
      String.eqb a1 b1 && String.eqb a2 b2 && String.eqb a3 b3 && items_eqb a' b'
  | _, _ => false
  end.
