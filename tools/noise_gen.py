"""G-noise: token soup, truncations/splices/mutations of real programs, multi-error programs,
multi-file projects with missing/conflicting/cyclic imports.  Used by C07 and C16."""
import glob
import os
import re

import vlib

_BASE = None


def base_programs():
    """(path, source) of every .sy under /repo/tests and /repo/std"""
    global _BASE
    if _BASE is None:
        out = []
        for f in sorted(glob.glob(os.path.join(vlib.REPO, "tests", "**", "*.sy"), recursive=True)):
            try:
                out.append((f, open(f, encoding="utf-8").read()))
            except UnicodeDecodeError:
                pass
        _BASE = out
    return _BASE


TOKENS = ["(", ")", "[", "]", "{", "}", "do", "end", "if", "else", "elif", "loop", "break", "continue", "ret", "fn",
          "pu", "->", "'", ",", ".", ":", "::", ":=", "=", "==", "!=", "<=>", "<!>", "+", "-", "*", "/", "+=", "<", ">",
          "and", "or", "not", "case", "blob", "enum", "use", "from", "as", "external", "\n", "\n", " ", "x", "y", "A",
          "Bb", "self", "1", "2.5", "\"s\"", "\"a\nb\"", "nil", "true", "int", "str", "float", "bool", "void", "*", "*T",
          "#", "!", "?", "|", "<<<<<<<", "//c\n", "ö", "$", "start", "start :: fn do\n", "end\n"]


def tokens_of(src):
    return re.findall(r"\s+|\w+|\"[^\"]*\"|//[^\n]*|<=>|<!>|::|:=|->|==|!=|<=|>=|\+=|-=|\*=|/=|.", src, re.S)


SNIPPETS = ["%(T)s :: blob { q: int }", "%(T)s :: enum Qq end", "%(v)s: fn -> void : external", "%(v)s :: 1",
            "%(v)s := %(v)s", "%(v)s = %(v)s", "%(v)s.q = 1", "%(v)s[0] = 1", "%(T)s.q = 1", "%(v)s()", "%(T)s { q: 1 }",
            "use %(v)s", "from %(v)s use %(v)s", "break", "continue", "ret", "ret %(v)s", "<!>", "%(v)s -> %(v)s()",
            "case %(v)s do else end end", "loop do end", "if %(v)s do end", "%(T)s.Qq", "-%(v)s", "not %(v)s",
            "%(v)s <=> %(v)s", "do %(T)s :: blob {} end"]


def plant(r, src):
    """insert a statement built from the program's own identifiers at a random line"""
    lines = src.split("\n")
    caps = sorted(set(re.findall(r"\b[A-Z]\w*", src))) or ["A"]
    lows = sorted(set(re.findall(r"\b[a-z_]\w*", src)) - {"do", "end", "fn", "if", "else", "loop", "ret", "use"}) or ["x"]
    i = r.randint(0, len(lines))
    ind = re.match(r"\s*", lines[min(i, len(lines) - 1)]).group(0) if lines else ""
    stmt = r.choice(SNIPPETS) % {"T": r.choice(caps), "v": r.choice(lows)}
    return "\n".join(lines[:i] + [ind + stmt] + lines[i:])


def mutate(r, src):
    if r.random() < 0.25:
        return plant(r, src)
    toks = tokens_of(src)
    if not toks:
        return src
    k = r.random()
    if k < 0.15:                      # truncate
        n = r.randint(0, len(toks))
        return "".join(toks[:n])
    if k < 0.30:                      # splice with another program
        other = tokens_of(r.choice(base_programs())[1])
        a = r.randint(0, len(toks))
        b = r.randint(0, len(other))
        return "".join(toks[:a] + other[b:])
    n_edits = r.randint(1, 4)
    for _ in range(n_edits):
        i = r.randrange(len(toks)) if toks else 0
        e = r.random()
        if e < 0.3 and toks:
            del toks[i]
        elif e < 0.55:
            toks.insert(i, r.choice(TOKENS))
        elif e < 0.75 and toks:
            toks[i] = r.choice(TOKENS)
        elif e < 0.85 and toks:
            toks.insert(i, toks[i])
        elif toks:
            j = r.randrange(len(toks))
            toks[i], toks[j] = toks[j], toks[i]
    return "".join(toks)


def soup(r):
    return "".join(r.choice(TOKENS) + r.choice(["", " ", " "]) for _ in range(r.randint(1, 60)))


def multi_error(r):
    """programs with several independent errors"""
    names = ["X", "Yy", "Zed", "W", "Q9", "Unknown", "Nope"]
    kind = r.randrange(9)
    n = r.randint(2, 5)
    pick = r.sample(names, n)
    if kind == 0:
        body = "A :: blob { %s }\nstart :: fn do end\n" % ", ".join("f%d: %s" % (i, t) for i, t in enumerate(pick))
    elif kind == 1:
        body = "A :: enum %s end\nstart :: fn do end\n" % ", ".join("V%d %s" % (i, t) for i, t in enumerate(pick))
    elif kind == 2:
        body = "A :: blob { %s }\nstart :: fn do end\n" % ", ".join("f%d: *%s" % (i, t) for i, t in enumerate(pick))
    elif kind == 3:
        body = "A :: enum %s end\nstart :: fn do end\n" % ", ".join("V%d *%s" % (i, t) for i, t in enumerate(pick))
    elif kind == 4:
        body = "start :: fn do\n%send\n" % "".join("  v%d := %s\n" % (i, t.lower() + "_undefined") for i, t in enumerate(pick))
    elif kind == 5:
        body = "".join("g%d :: 1\ng%d :: 2\n" % (i, i) for i in range(n)) + "start :: fn do end\n"
    elif kind == 6:
        body = "".join("use missing%d\n" % i for i in range(n)) + "start :: fn do end\n"
    elif kind == 7:
        body = ("A :: blob { a: int, b: int, c: int, d: int }\nstart :: fn do\n  x := A { %s }\nend\n"
                % ", ".join("%s: 1" % f for f in r.sample(["a", "b", "q", "r", "s", "t"], n)))
    else:
        body = ("E :: enum Aa, Bb, Cc, Dd, Ee end\nstart :: fn do\n  x := E.Aa\n  case x do\n%s  end\nend\n"
                % "".join("    %s -> 1\n" % v for v in r.sample(["Aa", "Bb", "Xx", "Yy", "Zz"], n)))
    return {"/main.sy": body}


def selfref(r):
    """programs that ask the type checker for a type that contains itself (through tuples, lists, functions, blobs,
    enums) and then use an operator on it: every walk over a type has to terminate (a cyclic tuple type used to
    overflow the native stack)"""
    embed = r.choice(["(y, 1)", "(y,)", "[y]", "(1, (y, 2))", "[(y, 1)]", "([y], 1)", "fn -> do y end", "(fn a do a end)(y)",
                      "(q, 1)", "[q]", "B { n: y }", "E.W y", "(y, y)"])
    use = r.choice(["z := y + y", "z := y < y", "z := y == y", "z := -y", "z := y * y", "z := (y, y) <= (y, y)", "print(y)",
                    "z := y[0]", "z := y - (y, 1)", "z := y / 2", "y += y", "z := [y, y]", "z := y.n", "case y do W v -> v end else y end end"])
    src = ("print: fn *X -> void : external\nB :: blob { n: * }\nE :: enum W *, N end\n"
           "f :: fn x, p do\n  y := x\n  q := p\n  q = %s\n  y = %s\n  %s\nend\nstart :: fn do\n%send\n"
           % (r.choice(["(y, 2)", "[y]", "p", "(q,)"]), embed, use, r.choice(["", "  f(1, 2)\n", "  f((1, 2), [3])\n"])))
    if r.random() < 0.4:
        # a structure that CONTAINS a parameter of still unknown type combined with that parameter itself: constraint
        # solving must not keep refining the unknown into deeper and deeper tuples
        wrap = r.choice(["(b, 1)", "((b, 1), 2)", "(1, (2, b))", "(b, b)", "(b, 1.0)", "([b], 1)", "((b,),)"])
        op = r.choice(["a + b", "a - b", "a * b", "a / b", "b + a", "a / 2.0", "c := a / 2.0\n  [b, c]", "a < b", "a == b", "-a + b",
                       "c := a + b\n  c + a", "b = a"])
        src = ("g :: fn b do\n  a := %s\n  %s\nend\nstart :: fn do\n%send\n" % (wrap, op, r.choice(["", "  g(1)\n", "  g((1, 2))\n"])))
    return {"/main.sy": src}


def nesting(r, lo=20, hi=120):
    """deep but reasonable nesting (well below any stack limit): the compiler must answer within the watchdog limit
    (the type checker used to double its work with every block level)"""
    d = r.randint(lo, hi)
    k = r.randrange(9)
    pad = lambda i: "  " * (i + 1)
    if k == 0:
        body = "".join(pad(i) + "if true do\n" for i in range(d)) + pad(d) + "x := 1\n" + "".join(pad(d - 1 - i) + "end\n" for i in range(d))
    elif k == 1:
        body = "".join(pad(i) + "do\n" for i in range(d)) + pad(d) + "1\n" + "".join(pad(d - 1 - i) + "end\n" for i in range(d))
    elif k == 2:
        body = "".join(pad(i) + "loop false do\n" for i in range(d)) + pad(d) + "break\n" + "".join(pad(d - 1 - i) + "end\n" for i in range(d))
    elif k == 3:
        body = "  x := " + "(" * d + "1" + ")" * d + "\n"
    elif k == 4:
        body = "  x := " + " + ".join(["1"] * (d * 10)) + "\n"
    elif k == 5:
        body = "  x := " + "-" * d + "1\n"
    elif k == 6:
        body = "  x := " + "[" * d + "1" + "]" * d + "\n"
    elif k == 7:
        body = "  x := " + "".join("(1, " for _ in range(d)) + "2" + ")" * d + "\n"
    else:
        body = ("  x := " + "".join("if true do " for _ in range(d)) + "1" + "".join(" else 2 end" for _ in range(d)) + "\n")
    idf = "idf :: fn v do v end\n"
    if r.random() < 0.3:
        body += "  y := " + "idf(" * min(d, 60) + "1" + ")" * min(d, 60) + "\n"
    return {"/main.sy": idf + "start :: fn do\n" + body + "end\n"}


def multi_file(r):
    """small projects with missing / conflicting / cyclic imports"""
    n = r.randint(2, 4)
    files = {}
    names = ["a", "b", "c", "d"][:n]
    for i, nm in enumerate(names):
        lines = []
        for other in names:
            if other != nm and r.random() < 0.6:
                style = r.randrange(4)
                if style == 0:
                    lines.append("use %s" % other)
                elif style == 1:
                    lines.append("use %s as %s" % (other, r.choice(["q", "w", other, nm])))
                elif style == 2:
                    lines.append("from %s use v_%s" % (other, r.choice(names)))
                else:
                    lines.append("from %s use (v_%s as %s)" % (other, other, r.choice(["z", "v_" + nm])))
        if r.random() < 0.3:
            lines.append("use nonexistent_%d" % i)
        lines.append("v_%s :: %d" % (nm, i))
        if r.random() < 0.3:
            lines.append("v_%s :: %d" % (nm, i + 10))
        files["/%s.sy" % nm] = "\n".join(lines) + "\n"
        # modules that define nothing at all
        if r.random() < 0.15:
            files["/%s.sy" % nm] = r.choice(["", "\n", "// TODO\n", "   \n\n", "// a\n// b\n"])
    main = ["use %s" % nm for nm in names if r.random() < 0.8]
    body = r.choice(["x := 1"] + ["x := %s.v_%s" % (nm, nm) for nm in names]
                    + ["%s.missing_%d" % (nm, i) for i, nm in enumerate(names)]
                    + ["x := %s.missing()" % nm for nm in names]
                    + ["x: %s.Missing = 1" % nm for nm in names]
                    + ["x := %s.Missing { a: 1 }" % nm for nm in names]
                    + ["x := %s.%s.v_%s" % (a, b, b) for a in names for b in names if a != b][:4])
    main.append("start :: fn do\n  %s\nend" % body)
    files["/main.sy"] = "\n".join(main) + "\n"
    return files


def case_line(files, main="/main.sy", flags="nostd,render"):
    return "%s\t%s\t%s" % (flags, main, "\t".join("%s=%s" % (p, vlib.hexs(s)) for p, s in files.items()))


NONASCII = ["ä", "ö", "å", "é", "ü", "ß", "°", "€", "山", "田", "太", "郎", "😀", "🎮", "٣", "ñ", "Ω", "\u00a0", "\u200b", "\u0301"]


def decorate(r, src):
    """make the text AROUND errors hard to render: very long lines, multi-byte characters at every offset (comments,
    string literals, trailing comments on code lines), tabs, CR LF, no final newline -- every error of the compile
    is rendered by the harness, so the slicing / underlining code of the diagnostics runs on these lines"""
    lines = src.split("\n")

    def junk(lo, hi):
        n = r.randint(lo, hi)
        return "".join(r.choice(NONASCII) if r.random() < 0.45 else r.choice("abcdefghij klmnop,.;:") for _ in range(n))

    k = r.randint(1, 4)
    for _ in range(k):
        i = r.randrange(len(lines) + 1)
        what = r.random()
        if what < 0.35:
            lines.insert(i, "// " + junk(60, 260))
        elif what < 0.6 and i < len(lines):
            lines[i] = lines[i] + " // " + junk(40, 240)
        elif what < 0.8:
            lines.insert(i, "zq%d :: \"%s\" + \"%s\"" % (r.randint(0, 99), junk(50, 200).replace('"', ""), junk(5, 80).replace('"', "")))
        elif what < 0.9 and i < len(lines):
            lines[i] = "\t" * r.randint(1, 30) + lines[i]
        elif i < len(lines):
            lines[i] = " " * r.randint(80, 200) + lines[i]
    out = "\n".join(lines)
    z = r.random()
    if z < 0.1:
        out = out.replace("\n", "\r\n")
    elif z < 0.2:
        out = out.rstrip("\n")
    return out


def stream(r, n, std_ratio=0.1):
    """n compile cases (list of (class, files, flags))"""
    out = []
    for c, files, flags in _stream(r, n, std_ratio):
        if c in ("mutant", "multi-error", "multi-file") and r.random() < 0.3:
            files = {p: (decorate(r, s) if r.random() < 0.8 else s) for p, s in files.items()}
            c = c + "+decorated"
            flags += ",disk"      # files really exist: rendering an error shows (slices, underlines) the source lines
        elif r.random() < 0.25:
            flags += ",disk"
        out.append((c, files, flags))
    return out


def _stream(r, n, std_ratio=0.1):
    out = []
    base = base_programs()
    for _ in range(n):
        k = r.random()
        flags = "std,render" if r.random() < std_ratio else "nostd,render"
        if k < 0.45:
            f, s = r.choice(base)
            out.append(("mutant", {"/main.sy": mutate(r, s)}, flags))
        elif k < 0.55:
            out.append(("soup", {"/main.sy": soup(r)}, flags))
        elif k < 0.72:
            out.append(("multi-error", multi_error(r), flags))
        elif k < 0.74:
            out.append(("self-reference", selfref(r), flags))
        elif k < 0.75:
            out.append(("nesting", nesting(r), flags))
        elif k < 0.9:
            out.append(("multi-file", multi_file(r), flags))
        else:
            f, s = r.choice(base)
            out.append(("valid", {"/main.sy": s}, flags))
    return out
