// S-expression rendering of the public parse tree (spans omitted unless SPANS=1), used by the
// parser correspondence (C13/C14) and by the searches.
use sylt_common::{FileOrLib, Type as RT};
use sylt_parser::expression::{ComparisonKind, ExpressionKind as EK};
use sylt_parser::statement::{NameIdentifier, StatementKind as SK};
use sylt_parser::{
    Assignable, AssignableKind as AK, Context, Expression, Op, Statement, Type, TypeAssignable,
    TypeAssignableKind as TAK, TypeKind as TK, VarKind,
};

fn hex(s: &[u8]) -> String {
    if s.is_empty() {
        return "-".to_string();
    }
    let mut o = String::with_capacity(s.len() * 2);
    for b in s {
        o.push_str(&format!("{:02x}", b));
    }
    o
}

pub struct P {
    pub spans: bool,
    /// full mode (subcommand `treef`): spans are `@file_id:line_start:line_end:col_start:col_end`,
    /// if-branches carry their span, functions carry their name (hex)
    pub full: bool,
}

impl P {
    fn sp(&self, s: &sylt_parser::Span) -> String {
        if self.full {
            format!("@{}:{}:{}:{}:{}", s.file_id, s.line_start, s.line_end, s.col_start, s.col_end)
        } else if self.spans {
            format!("@{}:{}:{}", s.line_start, s.col_start, s.col_end)
        } else {
            String::new()
        }
    }

    /// identifier: `name` or, in span mode, `name@line:cs:ce`
    fn id(&self, i: &sylt_parser::Identifier) -> String {
        format!("{}{}", i.name, self.sp(&i.span))
    }

    pub fn ta(&self, t: &TypeAssignable) -> String {
        let sp = self.sp(&t.span);
        match &t.kind {
            TAK::Read(i) => format!("(tread{} {})", sp, self.id(i)),
            TAK::Access(a, i) => format!("(taccess{} {} {})", sp, self.ta(a), self.id(i)),
        }
    }

    pub fn ty(&self, t: &Type) -> String {
        if self.spans || self.full {
            return format!("(ty{} {})", self.sp(&t.span), self.ty_inner(t));
        }
        self.ty_inner(t)
    }

    fn ty_inner(&self, t: &Type) -> String {
        match &t.kind {
            TK::Implied => "implied".into(),
            TK::Resolved(r) => format!(
                "(res {})",
                match r {
                    RT::Void => "void",
                    RT::Nil => "nil",
                    RT::Int => "int",
                    RT::Float => "float",
                    RT::Bool => "bool",
                    RT::String => "str",
                    RT::Unknown => "unknown",
                    _ => "other",
                }
            ),
            TK::UserDefined(a, args) => {
                let mut s = format!("(user {}", self.ta(a));
                for x in args {
                    s.push(' ');
                    s.push_str(&self.ty(x));
                }
                s.push(')');
                s
            }
            TK::Fn { constraints, params, ret, is_pure } => {
                let mut s = format!("(fnty {} (", if *is_pure { "pure" } else { "impure" });
                let mut first = true;
                for (v, cs) in constraints.iter() {
                    if !first {
                        s.push(' ');
                    }
                    first = false;
                    s.push_str(&format!("(cons {}", v));
                    for c in cs {
                        s.push_str(&format!(" ({}", c.name.name));
                        for a in c.args.iter() {
                            s.push(' ');
                            s.push_str(&a.name);
                        }
                        s.push(')');
                    }
                    s.push(')');
                }
                s.push_str(") (");
                s.push_str(&params.iter().map(|p| self.ty(p)).collect::<Vec<_>>().join(" "));
                s.push_str(") ");
                s.push_str(&self.ty(ret));
                s.push(')');
                s
            }
            TK::Tuple(ts) => format!(
                "(tuplety{})",
                ts.iter().map(|p| format!(" {}", self.ty(p))).collect::<String>()
            ),
            TK::List(t) => format!("(listty {})", self.ty(t)),
            TK::Generic(n) => format!("(generic {})", n),
            TK::Grouping(t) => format!("(group {})", self.ty(t)),
        }
    }

    pub fn ass(&self, a: &Assignable) -> String {
        let sp = self.sp(&a.span);
        match &a.kind {
            AK::Read(i) => format!("(read{} {})", sp, self.id(i)),
            AK::Variant { enum_ass, variant, value } => format!(
                "(variant{} {} {} {})",
                sp,
                self.ass(enum_ass),
                self.id(variant),
                self.expr(value)
            ),
            AK::Call(f, args) => format!(
                "(call{} {}{})",
                sp,
                self.ass(f),
                args.iter().map(|x| format!(" {}", self.expr(x))).collect::<String>()
            ),
            AK::ArrowCall(e, f, args) => format!(
                "(arrow{} {} {}{})",
                sp,
                self.expr(e),
                self.ass(f),
                args.iter().map(|x| format!(" {}", self.expr(x))).collect::<String>()
            ),
            AK::Access(a, i) => format!("(access{} {} {})", sp, self.ass(a), self.id(i)),
            AK::Index(a, e) => format!("(index{} {} {})", sp, self.ass(a), self.expr(e)),
            AK::Expression(e) => format!("(aexpr{} {})", sp, self.expr(e)),
        }
    }

    fn body(&self, b: &[Statement]) -> String {
        b.iter().map(|s| format!(" {}", self.stmt(s))).collect::<String>()
    }

    pub fn expr(&self, e: &Expression) -> String {
        let sp = self.sp(&e.span);
        match &e.kind {
            EK::Get(a) => format!("(get{} {})", sp, self.ass(a)),
            EK::Add(a, b) => format!("(add{} {} {})", sp, self.expr(a), self.expr(b)),
            EK::Sub(a, b) => format!("(sub{} {} {})", sp, self.expr(a), self.expr(b)),
            EK::Mul(a, b) => format!("(mul{} {} {})", sp, self.expr(a), self.expr(b)),
            EK::Div(a, b) => format!("(div{} {} {})", sp, self.expr(a), self.expr(b)),
            EK::Neg(a) => format!("(neg{} {})", sp, self.expr(a)),
            EK::Comparison(a, k, b) => format!(
                "(cmp{} {} {} {})",
                sp,
                match k {
                    ComparisonKind::Equals => "eq",
                    ComparisonKind::NotEquals => "ne",
                    ComparisonKind::Greater => "gt",
                    ComparisonKind::GreaterEqual => "ge",
                    ComparisonKind::Less => "lt",
                    ComparisonKind::LessEqual => "le",
                },
                self.expr(a),
                self.expr(b)
            ),
            EK::AssertEq(a, b) => format!("(assert{} {} {})", sp, self.expr(a), self.expr(b)),
            EK::And(a, b) => format!("(and{} {} {})", sp, self.expr(a), self.expr(b)),
            EK::Or(a, b) => format!("(or{} {} {})", sp, self.expr(a), self.expr(b)),
            EK::Not(a) => format!("(not{} {})", sp, self.expr(a)),
            EK::Parenthesis(a) => format!("(paren{} {})", sp, self.expr(a)),
            EK::If(branches) => {
                let mut s = format!("(if{}", sp);
                for b in branches {
                    s.push_str(&format!(
                        " (br{} {}{})",
                        if self.full { self.sp(&b.span) } else { String::new() },
                        match &b.condition {
                            Some(c) => self.expr(c),
                            None => "_".into(),
                        },
                        self.body(&b.body)
                    ));
                }
                s.push(')');
                s
            }
            EK::Case { to_match, branches, fall_through } => {
                let mut s = format!("(case{} {}", sp, self.expr(to_match));
                for b in branches {
                    s.push_str(&format!(
                        " (arm {} {}{})",
                        self.id(&b.pattern),
                        match &b.variable {
                            Some(v) => self.id(v),
                            None => "_".into(),
                        },
                        self.body(&b.body)
                    ));
                }
                match fall_through {
                    Some(b) => s.push_str(&format!(" (else{})", self.body(b))),
                    None => s.push_str(" _"),
                }
                s.push(')');
                s
            }
            EK::Function { name, params, ret, body, pure } => {
                let mut s = format!(
                    "(fn{} {}{} (",
                    sp,
                    if *pure { "pure" } else { "impure" },
                    if self.full { format!(" {}", hex(name.as_bytes())) } else { String::new() }
                );
                s.push_str(
                    &params
                        .iter()
                        .map(|(i, t)| format!("(p {} {})", self.id(i), self.ty(t)))
                        .collect::<Vec<_>>()
                        .join(" "),
                );
                s.push_str(&format!(") {}{})", self.ty(ret), self.body(body)));
                s
            }
            EK::Blob { blob, fields } => {
                let mut s = format!("(blob{} {}", sp, self.ta(blob));
                for (n, e) in fields {
                    s.push_str(&format!(" (f {} {})", n, self.expr(e)));
                }
                s.push(')');
                s
            }
            EK::Tuple(es) => format!(
                "(tuple{}{})",
                sp,
                es.iter().map(|x| format!(" {}", self.expr(x))).collect::<String>()
            ),
            EK::List(es) => format!(
                "(list{}{})",
                sp,
                es.iter().map(|x| format!(" {}", self.expr(x))).collect::<String>()
            ),
            EK::Float(f) => format!("(float{} {:?})", sp, f),
            EK::Int(i) => format!("(int{} {})", sp, i),
            EK::Str(s) => format!("(str{} {})", sp, hex(s.as_bytes())),
            EK::Bool(b) => format!("(bool{} {})", sp, b),
            EK::Nil => format!("(nil{})", sp),
        }
    }

    fn file(&self, f: &FileOrLib) -> String {
        match f {
            FileOrLib::File(p) => format!("file:{}", p.display()),
            FileOrLib::Lib(l) => format!("lib:{}", l),
        }
    }

    pub fn stmt(&self, s: &Statement) -> String {
        let sp = self.sp(&s.span);
        match &s.kind {
            SK::Use { path, name, file } => format!(
                "(use{} {} {} {})",
                sp,
                self.id(path),
                match name {
                    NameIdentifier::Implicit(i) => format!("(implicit {})", self.id(i)),
                    NameIdentifier::Alias(i) => format!("(alias {})", self.id(i)),
                },
                self.file(file)
            ),
            SK::FromUse { path, imports, file } => {
                let mut o = format!("(fromuse{} {}", sp, self.id(path));
                for (i, a) in imports {
                    o.push_str(&format!(
                        " (imp {} {})",
                        self.id(i),
                        match a {
                            Some(a) => self.id(a),
                            None => "_".into(),
                        }
                    ));
                }
                o.push_str(&format!(" {})", self.file(file)));
                o
            }
            SK::Blob { name, variables, fields, external } => {
                let mut fs: Vec<_> = fields.iter().collect();
                fs.sort_by(|a, b| a.0.name.cmp(&b.0.name));
                let mut o = format!(
                    "(blobdef{} {} {} ({})",
                    sp,
                    self.id(name),
                    if *external { "ext" } else { "int" },
                    variables.iter().map(|v| self.id(v)).collect::<Vec<_>>().join(" ")
                );
                for (n, t) in fs {
                    o.push_str(&format!(" (field {} {})", self.id(n), self.ty(t)));
                }
                o.push(')');
                o
            }
            SK::Enum { name, variables, variants } => {
                let mut fs: Vec<_> = variants.iter().collect();
                fs.sort_by(|a, b| a.0.name.cmp(&b.0.name));
                let mut o = format!(
                    "(enumdef{} {} ({})",
                    sp,
                    self.id(name),
                    variables.iter().map(|v| self.id(v)).collect::<Vec<_>>().join(" ")
                );
                for (n, t) in fs {
                    o.push_str(&format!(" (variant {} {})", self.id(n), self.ty(t)));
                }
                o.push(')');
                o
            }
            SK::Assignment { kind, target, value } => format!(
                "(assign{} {} {} {})",
                sp,
                match kind {
                    Op::Nop => "nop",
                    Op::Add => "add",
                    Op::Sub => "sub",
                    Op::Mul => "mul",
                    Op::Div => "div",
                },
                self.ass(target),
                self.expr(value)
            ),
            SK::Definition { ident, kind, ty, value } => format!(
                "(def{} {} {} {} {})",
                sp,
                self.id(ident),
                match kind {
                    VarKind::Const => "const",
                    VarKind::Mutable => "mut",
                },
                self.ty(ty),
                self.expr(value)
            ),
            SK::ExternalDefinition { ident, kind, ty } => format!(
                "(extdef{} {} {} {})",
                sp,
                self.id(ident),
                match kind {
                    VarKind::Const => "const",
                    VarKind::Mutable => "mut",
                },
                self.ty(ty)
            ),
            SK::Loop { condition, body } => {
                format!("(loop{} {} {})", sp, self.expr(condition), self.stmt(body))
            }
            SK::Break => format!("(break{})", sp),
            SK::Continue => format!("(continue{})", sp),
            SK::Ret { value } => format!(
                "(ret{} {})",
                sp,
                match value {
                    Some(v) => self.expr(v),
                    None => "_".into(),
                }
            ),
            SK::Block { statements } => format!("(block{}{})", sp, self.body(statements)),
            SK::StatementExpression { value } => format!("(sexpr{} {})", sp, self.expr(value)),
            SK::Unreachable => format!("(unreachable{})", sp),
            SK::EmptyStatement => format!("(empty{})", sp),
        }
    }
}

/// whole-program parse (module discovery included): one `(module <file> <file_id> stmts...)` per module
pub fn tree_dump(tree: &sylt_parser::AST, spans: bool) -> String {
    tree_dump_mode(tree, spans, false)
}

/// `full`: see `P::full`
pub fn tree_dump_mode(tree: &sylt_parser::AST, spans: bool, full: bool) -> String {
    let p = P { spans, full };
    let mut out = String::new();
    for (f, m) in tree.modules.iter() {
        out.push_str(&format!("(module {} {}", p.file(f), m.file_id));
        for s in m.statements.iter() {
            out.push(' ');
            out.push_str(&p.stmt(s));
        }
        out.push_str(") ");
    }
    out
}

fn curr_of(ctx: &Context) -> usize {
    // `curr` is private; the derived Debug output ends with "... curr: N, file: ...".
    let d = format!("{:?}", ctx);
    let key = ", curr: ";
    let mut best = None;
    let mut from = 0;
    while let Some(p) = d[from..].find(key) {
        let s = from + p + key.len();
        let e = d[s..].find(|c: char| !c.is_ascii_digit()).map(|x| s + x).unwrap_or(d.len());
        if e > s {
            if d[e..].starts_with(", file: ") {
                best = d[s..e].parse::<usize>().ok();
            }
        }
        from = s;
    }
    best.unwrap_or(usize::MAX)
}

pub fn parse_line(cmd: &str, src: &str) -> String {
    let spans_on = std::env::var("SPANS").map(|v| v == "1").unwrap_or(false);
    let p = P { spans: spans_on, full: false };
    let token_stream = sylt_tokenizer::string_to_tokens(0, src);
    let tokens: Vec<_> = token_stream.iter().map(|p| p.token.clone()).collect();
    let spans: Vec<_> = token_stream.iter().map(|p| p.span).collect();
    let path = std::path::PathBuf::from("/main.sy");
    let root = std::path::PathBuf::from("/");
    let at = FileOrLib::File(path.clone());
    let ctx = Context::new(&tokens, &spans, &at, 0, &root);
    let ntok = tokens.len();
    macro_rules! fin {
        ($r:expr, $f:expr) => {
            match $r {
                Ok((ctx, x)) => format!("OK {}/{} {}", curr_of(&ctx), ntok, $f(&x)),
                Err((ctx, errs)) => {
                    let mut o = format!("ERR {}/{}", curr_of(&ctx), ntok);
                    for e in errs.iter() {
                        if let sylt_common::Error::SyntaxError { span, .. } = e {
                            o.push_str(&format!(" {}:{}:{}", span.line_start, span.col_start, span.col_end));
                        } else {
                            o.push_str(" ?");
                        }
                    }
                    o
                }
            }
        };
    }
    match cmd {
        "expr" => fin!(sylt_parser::expression::expression(ctx), |x| p.expr(x)),
        "stmt" => fin!(sylt_parser::statement::statement(ctx), |x| p.stmt(x)),
        "outer" => fin!(sylt_parser::statement::outer_statement(ctx), |x| p.stmt(x)),
        "type" => fin!(sylt_parser::parse_type(ctx), |x| p.ty(x)),
        _ => unreachable!(),
    }
}
