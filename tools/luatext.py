"""Model-independent scans of the Lua text that lua.rs emits (one instruction per line, fixed shapes)."""
import re

VNAME = re.compile(r"\bV(\d+)\b")


def strip_strings(line):
    return re.sub(r'"(?:[^"\\]|\\.)*"', '""', line)


def free_v_names(body):
    """V-names that are read or assigned outside the scope of any `local`, parameter or `local function`
    binding them.  Returns list of (line_no, name, kind) with kind in {"assign", "read"}; top-level
    `Vn = <external>` lines (Sylt externals) are treated as declarations."""
    scopes = [set()]
    out = []

    def bound(v):
        return any(v in s for s in scopes)

    for ln, raw in enumerate(body.split("\n"), 1):
        line = strip_strings(raw).strip()
        if not line:
            continue
        m = re.match(r"local function (V\d+)\((.*)\)$", line)
        if m:
            scopes[-1].add(m.group(1))
            scopes.append(set(x.strip() for x in m.group(2).split(",") if x.strip()))
            continue
        if line == "end":
            if len(scopes) > 1:
                scopes.pop()
            continue
        if line == "else":
            scopes.pop()
            scopes.append(set())
            continue
        m = re.match(r"local (V\d+) = (.*)$", line)
        if m:
            for u in VNAME.finditer(m.group(2)):
                if not bound(u.group(0)):
                    out.append((ln, u.group(0), "read"))
            scopes[-1].add(m.group(1))
            continue
        opens = line.endswith(" then") and line.startswith("if ") or line == "while true do"
        m = re.match(r"(V\d+) = (.*)$", line)
        if m and not opens:
            tgt = m.group(1)
            if not bound(tgt):
                if len(scopes) == 1 and not VNAME.search(m.group(2)):
                    scopes[-1].add(tgt)          # top-level external: `V5 = print`
                else:
                    out.append((ln, tgt, "assign"))
            for u in VNAME.finditer(m.group(2)):
                if not bound(u.group(0)):
                    out.append((ln, u.group(0), "read"))
            continue
        for u in VNAME.finditer(line):
            if not bound(u.group(0)):
                out.append((ln, u.group(0), "read"))
        if opens:
            scopes.append(set())
    return out


KEYWORDS = {"and", "break", "do", "else", "elseif", "end", "false", "for", "function", "goto", "if", "in", "local",
            "nil", "not", "or", "repeat", "return", "then", "true", "until", "while"}


def bad_assignment_targets(body):
    """lines of the shape `<x> = ...` whose target is not a name or an index expression"""
    out = []
    for ln, raw in enumerate(body.split("\n"), 1):
        line = strip_strings(raw).strip()
        m = re.match(r"([^=~<>\s][^=~<>]*?)\s=\s(?!=)", line)
        if not m or line.startswith("local ") or line.startswith("if ") or line.startswith("return "):
            continue
        tgt = m.group(1).strip()
        if re.fullmatch(r"[A-Za-z_][A-Za-z0-9_]*", tgt) and tgt not in KEYWORDS:
            continue
        if re.fullmatch(r"[A-Za-z_][A-Za-z0-9_]*(\.[A-Za-z_][A-Za-z0-9_]*)+", tgt) and not (set(tgt.split(".")) & KEYWORDS):
            continue
        out.append((ln, raw.strip()))
    return out
