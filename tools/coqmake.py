#!/usr/bin/env python3
"""coqmake.py [targets...]  -- regenerate tables + _CoqProject, then `make` the given .vo targets (default: all)
under the shared build lock.  Use this instead of calling make/coqc by hand (parallel builds race otherwise)."""
import os
import sys
sys.path.insert(0, os.path.dirname(os.path.abspath(__file__)))
import gen_tables
import vlib
if "--no-gen" not in sys.argv:
    gen_tables.main()
targets = [a for a in sys.argv[1:] if not a.startswith("--")]
ok, out = vlib.coq_make(targets, timeout=3000)
sys.stdout.write(out[-8000:])
sys.exit(0 if ok else 1)
