-- expect-wf[jit]: bad unexpected symbol near ';'
-- expect-wf[5.3]: ok
local x = 1;
;
