#!/usr/bin/env python3
"""check.py <ID> [--tier quick|thorough]

One run = regenerate tables from /repo -> compile Props/<ID>.v (all obligations) -> hygiene and
Print Assumptions -> rebuild harness and extracted model against /repo's working tree ->
correspondence (tie) -> if anything broke: search for a failing input on the real implementation ->
VIOLATION line + replay; known findings; evidence file."""
import argparse
import importlib
import json
import os
import sys
import time
import traceback

sys.path.insert(0, os.path.dirname(os.path.abspath(__file__)))
import gen_tables  # noqa: E402
import vlib  # noqa: E402

ALLOWED_AXIOMS = ()   # target: Closed under the global context everywhere


class Ctx:
    def __init__(self, pid, tier, seed):
        self.id = pid
        self.tier = tier
        self.seed = seed
        self.broken = []      # list of dicts: what, detail
        self.notes = []
        self.t0 = time.time()

    def brk(self, what, detail=""):
        self.broken.append({"what": what, "detail": detail[-3000:] if isinstance(detail, str) else detail})
        vlib.log("BROKEN:", what, (detail[-600:] if isinstance(detail, str) else detail))


def main():
    ap = argparse.ArgumentParser()
    ap.add_argument("id")
    ap.add_argument("--tier", default=os.environ.get("VERIF_TIER", "quick"))
    ap.add_argument("--replay", default=None)
    a = ap.parse_args()
    pid = a.id.upper()
    tier = a.tier if a.tier in ("quick", "thorough") else "quick"
    try:
        seed = int(os.environ.get("VERIF_SEED", "1"))
    except ValueError:
        seed = 1
    ctx = Ctx(pid, tier, seed)
    mod = importlib.import_module("props." + pid.lower())

    if a.replay:
        return mod.replay(ctx, json.load(open(a.replay)))

    # 1. translators
    status = gen_tables.main()
    for g in getattr(mod, "GEN", []):
        st = status.get(g, "missing")
        if st != "ok":
            ctx.brk("translator:" + g, st)

    def lap(what):
        if os.environ.get("VERIF_PROFILE"):
            vlib.log("PROFILE %-12s %.1fs" % (what, time.time() - ctx.t0))
    lap("tables")
    # 2. proof obligations
    props = vlib.coq_props(pid)
    lap("props")
    n_obl = len(props["theorems"])
    n_dis = n_obl if props["ok"] else 0
    if not props["ok"]:
        detail = props["output"]
        if "model_sources_reviewed" in str(props["failed"]):
            try:
                import accept_digests
                detail = ("functions of /repo that differ from the reviewed text the model was written against "
                          "(coq/Doc/DocSrcDigest.v):\n" + "\n".join(accept_digests.diff()[:40]) + "\n" + detail[-1200:])
            except Exception:
                pass
        ctx.brk("theorem:" + str(props["failed"]), detail)
    axioms = {}
    for name, ax in props["assumptions"].items():
        bad = [x for x in ax if not any(x.startswith(al) for al in ALLOWED_AXIOMS)]
        if ax:
            axioms[name] = ax
        if bad:
            ctx.brk("assumptions:" + name, "; ".join(bad))
    hyg = vlib.hygiene()
    if hyg:
        ctx.brk("hygiene", "; ".join(hyg[:20]))
    coqchk = None
    if tier == "thorough" and props["ok"]:
        # independent re-check of the compiled property file and everything it depends on
        coqchk = vlib.coqchk(pid)
        if not coqchk["ok"]:
            ctx.brk("coqchk", coqchk["output"])

    # 3. builds against the current working tree
    ok, out = vlib.build_harness()
    lap("harness")
    if not ok:
        ctx.brk("build:harness", out)
    tie = {"ok": False, "evaluations": 0, "distinct_nontrivial": 0, "samples": [], "rule": "", "distribution": {}}
    extra = {}
    try:
        if ok:
            bok, bout = mod.build(ctx)
            lap("build")
            if not bok:
                ctx.brk("build:model", bout)
            # 4. correspondence
            if bok:
                tie = mod.tie(ctx)
                if not tie["ok"]:
                    for mm in tie.get("mismatches", [])[:3]:
                        ctx.brk("tie:" + tie.get("name", "tie"), json.dumps(mm, ensure_ascii=False))
            lap("tie")
            if hasattr(mod, "always"):
                extra = mod.always(ctx) or {}
            lap("always")
    except Exception:
        ctx.brk("check-crashed", traceback.format_exc())

    # 5. known findings (replayed on the real code)
    known_lines = []
    for kf in vlib.known_findings(pid):
        if kf.get("status") == "open":
            still = True
            try:
                still = mod.replay_known(ctx, kf)
            except Exception:
                vlib.log(traceback.format_exc())
            if still:
                known_lines.append("KNOWN-FINDING: property=%s %s" % (pid, kf["what"]))
            else:
                known_lines.append("NOTE: known finding no longer reproduces: %s" % kf["what"])
    for l in known_lines:
        print(l)

    # 6. search when something broke
    violations = 0
    exit_code = 0
    if ctx.broken:
        found = None
        search_error = None
        try:
            found = mod.search(ctx)
        except Exception:
            search_error = traceback.format_exc()
            vlib.log(search_error)
        replay = {"property": pid, "broken": ctx.broken, "seed": seed, "tier": tier}
        if search_error:
            replay["search_error"] = search_error[-1500:]
        if found:
            replay["failing_input"] = found
            path = vlib.write_replay(pid, replay)
            print("VIOLATION property=%s replay=%s" % (pid, path))
        else:
            replay["failing_input"] = None
            replay["no_longer_checks"] = [b["what"] for b in ctx.broken]
            path = vlib.write_replay(pid, replay)
            print("VIOLATION property=%s replay=%s no-failing-input-found" % (pid, path))
        violations = 1
        exit_code = 1

    # 7. evidence
    cov = {
        "obligations": max(n_obl, 1),
        "discharged": n_dis,
        "checker_cmd": "make -C /verif/coq Props/%s.vo   (coqc 8.16.1, full .vo build; Print Assumptions parsed)" % pid,
        "trusted_base": getattr(mod, "TRUSTED", []),
        "theorems": props["theorems"],
        "assumptions_reported": axioms if axioms else "Closed under the global context (all printed theorems)",
        "evaluations": tie.get("evaluations", 0),
        "distinct_nontrivial": tie.get("distinct_nontrivial", 0),
        "rule": tie.get("rule", ""),
        "samples": tie.get("samples", [])[:8] or ["<none>"],
        "input_distribution": tie.get("distribution", {}),
        "tie_ok": tie.get("ok", False),
        "broken": ctx.broken,
        "known_findings_reported": known_lines,
        "explanation": getattr(mod, "EXPLANATION", ""),
    }
    if coqchk is not None:
        cov["coqchk"] = {"cmd": coqchk["cmd"], "axioms": coqchk["axioms"], "summary": coqchk["summary"], "wall_s": coqchk["wall_s"]}
    cov.update(extra)
    level = getattr(mod, "LEVEL", "proof")
    if level == "translation_validation":
        cov["programs"] = max(tie.get("distinct_nontrivial", 0), 1)
        cov["disagreements_checked"] = len(tie.get("mismatches", []))
        if n_obl == 0:
            del cov["obligations"], cov["discharged"]
    ev = {
        "property_id": pid,
        "tier": tier,
        "seed": seed,
        "level": level,
        "coverage": cov,
        "assumptions": getattr(mod, "ASSUMPTIONS", []),
        "wall_s": round(time.time() - ctx.t0, 2),
        "violations": violations,
    }
    vlib.write_evidence(pid, ev)
    vlib.log("%s: %s in %.1fs (obligations %d/%d, tie cases %d)" % (
        pid, "VIOLATION" if violations else "ok", time.time() - ctx.t0, n_dis, n_obl, tie.get("evaluations", 0)))
    return exit_code


if __name__ == "__main__":
    sys.exit(main())
