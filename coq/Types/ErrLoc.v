(* C15 for type errors: where the spans of the type checker's errors come from.
   Every error the model of the type checker returns carries a span of the program that is being checked: a span of
   a statement, an expression, a type annotation, a parameter, a field / variant declaration, a case pattern, or the
   definition span of a variable; the only exception is "no start function" (Span::zero(0), as in the resolver).
   Some spans reach the error through the type graph (the declaration span of a blob / enum in `user_args`, the span of
   a field in the check of a field constraint): `gspans` is the invariant that every span stored in the graph is a
   span of the program.
   The second half (first_error_is_first): a statement list fails with the error of its first failing statement. *)
From Coq Require Import String List NArith ZArith PArith Bool Lia FMapPositive.
From Sylt Require Import Syntax.Resolved Types.TyGraph Types.Tc Types.TcInv.
Import ListNotations.
Local Open Scope tc_scope.

(* ------------------------------------------------------------------ the spans of the program *)

Fixpoint t_spans (t : ty) : list span :=
  match t with
  | TUser _ args sp => sp :: (fix go l := match l with [] => [] | x :: r => t_spans x ++ go r end) args
  | TImplied sp | TResolved _ sp | TGeneric _ sp => [sp]
  | TTuple ts sp => sp :: (fix go l := match l with [] => [] | x :: r => t_spans x ++ go r end) ts
  | TList t0 sp => sp :: t_spans t0
  | TFn _ params r _ sp =>
    sp :: (fix go l := match l with [] => [] | x :: q => t_spans x ++ go q end) params ++ t_spans r
  end.

Lemma t_spans_go l : (fix go l := match l with [] => [] | x :: r => t_spans x ++ go r end) l = flat_map t_spans l.
Proof. induction l as [|x l IH]; [reflexivity|]. cbn [flat_map]. now rewrite IH. Qed.

Definition param_spans (p : string * N * span * ty) : list span := let '(_, _, psp, t) := p in psp :: t_spans t.
Definition field_spans (f : string * (span * ty)) : list span := fst (snd f) :: t_spans (snd (snd f)).

Fixpoint e_spans (e : expr) : list span :=
  match e with
  | ERead _ sp | EFloat _ sp | EInt _ sp | EStr _ sp | EBool _ sp | ENil sp => [sp]
  | EVariant _ _ v sp => sp :: e_spans v
  | ECall f args sp => sp :: e_spans f ++ (fix go l := match l with [] => [] | x :: r => e_spans x ++ go r end) args
  | EBlobAccess v _ sp => sp :: e_spans v
  | EIndex v i sp => sp :: e_spans v ++ e_spans i
  | EBinOp _ a b sp => sp :: e_spans a ++ e_spans b
  | EUniOp _ a sp => sp :: e_spans a
  | EIf brs sp => sp :: (fix go l := match l with [] => [] | x :: r => b_spans x ++ go r end) brs
  | ECase m brs fall sp =>
    sp :: e_spans m ++ (fix go l := match l with [] => [] | x :: r => c_spans x ++ go r end) brs
       ++ match fall with
          | Some ft => (fix go l := match l with [] => [] | x :: r => s_spans x ++ go r end) ft
          | None => []
          end
  | EFunction _ params rty body _ sp =>
    sp :: flat_map param_spans params ++ t_spans rty
       ++ (fix go l := match l with [] => [] | x :: r => s_spans x ++ go r end) body
  | EBlob _ fields _ sp =>
    sp :: (fix go (l : list (string * expr)) := match l with [] => [] | x :: r => e_spans (snd x) ++ go r end) fields
  | ECollection _ vs sp => sp :: (fix go l := match l with [] => [] | x :: r => e_spans x ++ go r end) vs
  end
with b_spans (b : ifbranch) : list span :=
  match b with
  | IfBranch c body sp =>
    sp :: match c with Some c => e_spans c | None => [] end
       ++ (fix go l := match l with [] => [] | x :: r => s_spans x ++ go r end) body
  end
with c_spans (c : casebranch) : list span :=
  match c with
  | CaseBranch _ psp _ body sp =>
    sp :: psp :: (fix go l := match l with [] => [] | x :: r => s_spans x ++ go r end) body
  end
with s_spans (s : stmt) : list span :=
  match s with
  | SAssignment _ t v sp => sp :: e_spans t ++ e_spans v
  | SBlob _ _ sp _ fields _ | SEnum _ _ sp _ fields => sp :: flat_map field_spans fields
  | SDefinition _ _ _ t v sp => sp :: t_spans t ++ e_spans v
  | SExternalDefinition _ _ _ t sp => sp :: t_spans t
  | SLoop c body sp => sp :: e_spans c ++ (fix go l := match l with [] => [] | x :: r => s_spans x ++ go r end) body
  | SBreak sp | SContinue sp | SUnreachable sp => [sp]
  | SRet v sp => sp :: match v with Some v => e_spans v | None => [] end
  | SBlock ss sp => sp :: (fix go l := match l with [] => [] | x :: r => s_spans x ++ go r end) ss
  | SStatementExpression v sp => sp :: e_spans v
  end.

Lemma e_go l : (fix go l := match l with [] => [] | x :: r => e_spans x ++ go r end) l = flat_map e_spans l.
Proof. induction l as [|x l IH]; [reflexivity|]. cbn [flat_map]. now rewrite IH. Qed.
Lemma s_go l : (fix go l := match l with [] => [] | x :: r => s_spans x ++ go r end) l = flat_map s_spans l.
Proof. induction l as [|x l IH]; [reflexivity|]. cbn [flat_map]. now rewrite IH. Qed.
Lemma b_go l : (fix go l := match l with [] => [] | x :: r => b_spans x ++ go r end) l = flat_map b_spans l.
Proof. induction l as [|x l IH]; [reflexivity|]. cbn [flat_map]. now rewrite IH. Qed.
Lemma c_go l : (fix go l := match l with [] => [] | x :: r => c_spans x ++ go r end) l = flat_map c_spans l.
Proof. induction l as [|x l IH]; [reflexivity|]. cbn [flat_map]. now rewrite IH. Qed.
Lemma f_go (l : list (string * expr)) :
  (fix go (l : list (string * expr)) := match l with [] => [] | x :: r => e_spans (snd x) ++ go r end) l
  = flat_map (fun x => e_spans (snd x)) l.
Proof. induction l as [|x l IH]; [reflexivity|]. cbn [flat_map]. now rewrite IH. Qed.

(* all the spans of the output of name resolution: the statements and the definition spans of the variables *)
Definition spans_of (r : resolved) : list span := map v_def (r_vars r) ++ flat_map s_spans (r_stmts r).

(* ------------------------------------------------------------------ located computations *)

Section Loc.
  Variable S : span -> Prop.

  Definition fields_ok (fs : fieldmap) : Prop := Forall (fun kv => S (fst (snd kv))) fs.

  Definition hspan_ok (h : tyh) : Prop :=
    match h with
    | HBlob _ sp fs _ | HExtBlob _ sp fs _ _ | HEnum _ sp fs _ => S sp /\ fields_ok fs
    | _ => True
    end.

  (* every span stored in the type graph is a span of the program *)
  Definition gspans (s : st) : Prop := forall i n, lk s i = Some n -> hspan_ok (nty n).

  Definition errs_in (e : err) (more : list err) : Prop := S (e_span e) /\ Forall (fun x => S (e_span x)) more.

  Definition locQ {A} (Q : A -> Prop) (m : M A) : Prop :=
    forall s, gspans s ->
      match m s with
      | Ok (a, s') => gspans s' /\ Q a
      | Err e more => errs_in e more
      | _ => True
      end.

  Definition loc {A} (m : M A) : Prop := locQ (fun _ => True) m.

  Lemma locQ_ret {A} (Q : A -> Prop) a : Q a -> locQ Q (ret a).
  Proof. intros H s G. cbn. auto. Qed.

  Lemma loc_ret {A} (a : A) : loc (ret a).
  Proof. apply locQ_ret. exact I. Qed.

  Lemma locQ_fail {A} (Q : A -> Prop) k sp : S sp -> locQ Q (fail k sp).
  Proof. intros H s G. cbn. split; [exact H|constructor]. Qed.

  Lemma locQ_panic {A} (Q : A -> Prop) p : locQ Q (panic p).
  Proof. intros s G. exact I. Qed.

  Lemma locQ_oof {A} (Q : A -> Prop) : locQ Q out_of_fuel.
  Proof. intros s G. exact I. Qed.

  Lemma locQ_weaken {A} (Q Q' : A -> Prop) m : (forall a, Q a -> Q' a) -> locQ Q m -> locQ Q' m.
  Proof. intros H L s G. specialize (L s G). destruct (m s) as [[a s']| | |]; auto. destruct L; auto. Qed.

  Lemma locQ_loc {A} (Q : A -> Prop) m : locQ Q m -> loc m.
  Proof. apply locQ_weaken. auto. Qed.

  Lemma locQ_bind {A B} (Q : A -> Prop) (Q' : B -> Prop) (m : M A) (k : A -> M B) :
    locQ Q m -> (forall a, Q a -> locQ Q' (k a)) -> locQ Q' (bind m k).
  Proof.
    intros Lm Lk s G. unfold bind. specialize (Lm s G). destruct (m s) as [[a s']| | |]; auto.
    destruct Lm as [G' Qa]. exact (Lk a Qa s' G').
  Qed.

  Lemma loc_bind {A B} (Q' : B -> Prop) (m : M A) (k : A -> M B) :
    loc m -> (forall a, locQ Q' (k a)) -> locQ Q' (bind m k).
  Proof. intros Lm Lk. apply (locQ_bind (fun _ => True)); auto. Qed.

  Lemma loc_iterM_in {A} (f : A -> M unit) l : (forall x, In x l -> loc (f x)) -> loc (iterM f l).
  Proof.
    induction l as [|x l IH]; intros H; cbn [iterM]; [apply loc_ret|].
    apply loc_bind; [apply H; now left|intros _]. apply IH. intros y Hy. apply H. now right.
  Qed.

  Lemma loc_iterM {A} (f : A -> M unit) l : (forall x, loc (f x)) -> loc (iterM f l).
  Proof. intros H. apply loc_iterM_in. auto. Qed.

  Lemma locQ_mapM_in {A B} (Q : B -> Prop) (f : A -> M B) l :
    (forall x, In x l -> locQ Q (f x)) -> locQ (Forall Q) (mapM f l).
  Proof.
    induction l as [|x l IH]; intros H; cbn [mapM]; [apply locQ_ret; constructor|].
    apply (locQ_bind Q); [apply H; now left|intros y Qy].
    apply (locQ_bind (Forall Q)); [apply IH; intros z Hz; apply H; now right|intros ys Qys].
    apply locQ_ret. now constructor.
  Qed.

  Lemma loc_mapM_in {A B} (f : A -> M B) l : (forall x, In x l -> loc (f x)) -> loc (mapM f l).
  Proof. intros H. eapply locQ_loc. apply (locQ_mapM_in (fun _ => True)). exact H. Qed.

  Lemma locQ_foldM_in {A B} (Q : B -> Prop) (f : B -> A -> M B) l :
    (forall b x, In x l -> Q b -> locQ Q (f b x)) -> forall b, Q b -> locQ Q (foldM f l b).
  Proof.
    induction l as [|x l IH]; intros H b Qb; cbn [foldM]; [now apply locQ_ret|].
    apply (locQ_bind Q); [apply H; [now left|assumption]|intros b' Qb'].
    apply IH; [|assumption]. intros b0 y Hy. apply H. now right.
  Qed.

  Lemma loc_foldM_in {A B} (f : B -> A -> M B) l : (forall b x, In x l -> loc (f b x)) -> forall b, loc (foldM f l b).
  Proof. intros H b. apply (locQ_foldM_in (fun _ => True)); [|exact I]. intros b0 x Hx _. now apply H. Qed.

  Lemma loc_iter2 (f : tyid -> tyid -> M unit) : (forall x y, loc (f x y)) -> forall xs ys, loc (iter2 f xs ys).
  Proof.
    intros H. induction xs as [|x xs IH]; intros [|y ys]; cbn [iter2]; try apply loc_ret.
    apply loc_bind; [apply H|intros _; apply IH].
  Qed.

  (* ---- primitives *)
  Lemma locQ_get_node i : locQ (fun n => hspan_ok (nty n)) (get_node i).
  Proof.
    intros s G. unfold get_node. fold (lk s i). destruct (lk s i) as [n|] eqn:E; [|exact I]. split; [assumption|]. eauto.
  Qed.

  Lemma loc_find a : loc (find a).
  Proof. unfold find. apply (locQ_bind (fun n => hspan_ok (nty n))); [apply locQ_get_node|intros; apply loc_ret]. Qed.

  Lemma locQ_find_node a : locQ (fun n => hspan_ok (nty n)) (find_node a).
  Proof. unfold find_node. apply loc_bind; [apply loc_find|intros; apply locQ_get_node]. Qed.

  Lemma locQ_find_type a : locQ hspan_ok (find_type a).
  Proof.
    unfold find_type. apply (locQ_bind (fun n => hspan_ok (nty n))); [apply locQ_find_node|intros n H]. now apply locQ_ret.
  Qed.

  Lemma gspans_add i n s s' :
    gspans s -> hspan_ok (nty n) -> (forall j, lk s' j = if Pos.eqb j i then Some n else lk s j) -> gspans s'.
  Proof.
    intros G H L j m Hj. rewrite L in Hj. destruct (Pos.eqb j i); [injection Hj as <-; exact H|eauto].
  Qed.

  Lemma loc_put_node i n : hspan_ok (nty n) -> loc (put_node i n).
  Proof.
    intros H s G. rewrite put_node_eq. split; [|exact I]. apply (gspans_add i n s); [assumption|assumption|].
    intros j. destruct (Pos.eqb_spec j i) as [->|N]; [apply lk_put_same|now apply lk_put_other].
  Qed.

  Lemma loc_push_type t : hspan_ok t -> loc (push_type t).
  Proof.
    intros H s G. rewrite push_type_eq. split; [|exact I].
    apply (gspans_add (next s) (mkNode t (next s) 1%N []) s); [assumption|exact H|].
    intros j. destruct (Pos.eqb_spec j (next s)) as [->|N]; [apply lk_push_new|now apply lk_push_old].
  Qed.

  Lemma loc_set_type a t : hspan_ok t -> loc (set_type a t).
  Proof.
    intros H. unfold set_type. apply loc_bind; [apply loc_find|intros r].
    apply (locQ_bind (fun n => hspan_ok (nty n))); [apply locQ_get_node|intros n Hn]. apply loc_put_node. exact H.
  Qed.

  Lemma loc_set_cons a cs : loc (set_cons a cs).
  Proof.
    unfold set_cons. apply loc_bind; [apply loc_find|intros r].
    apply (locQ_bind (fun n => hspan_ok (nty n))); [apply locQ_get_node|intros n Hn]. apply loc_put_node. exact Hn.
  Qed.

  Lemma loc_add_constraint a c : loc (add_constraint a c).
  Proof.
    unfold add_constraint. apply loc_bind; [apply loc_find|intros r].
    apply (locQ_bind (fun n => hspan_ok (nty n))); [apply locQ_get_node|intros n Hn]. apply loc_put_node. exact Hn.
  Qed.

  Lemma loc_is_void a : loc (is_void a).
  Proof. unfold is_void. apply (locQ_bind hspan_ok); [apply locQ_find_type|intros; apply loc_ret]. Qed.

  Lemma loc_union a b : loc (union a b).
  Proof.
    intros s G. unfold union, bind.
    pose proof (loc_find a s G) as La. destruct (find a s) as [[ra s1]| | |] eqn:Ea; auto.
    apply find_inv in Ea as [-> Ea].
    pose proof (loc_find b s G) as Lb. destruct (find b s) as [[rb s2]| | |] eqn:Eb; auto.
    apply find_inv in Eb as [-> Eb].
    destruct (Pos.eqb ra rb); [cbn; auto|].
    pose proof (locQ_get_node ra s G) as Lna. destruct (get_node ra s) as [[na s3]| | |] eqn:Ena; auto.
    apply get_node_inv in Ena as [-> Ena]. destruct Lna as [_ Hna].
    pose proof (locQ_get_node rb s G) as Lnb. destruct (get_node rb s) as [[nb s4]| | |] eqn:Enb; auto.
    apply get_node_inv in Enb as [-> Enb]. destruct Lnb as [_ Hnb].
    destruct (N.ltb (nsize na) (nsize nb)).
    - change (gspans (union_st rb ra nb na s) /\ True). split; [|exact I].
      intros j m Hj. rewrite lk_union in Hj. destruct (Pos.eqb j rb); [injection Hj as <-; exact Hnb|].
      destruct (lk s j) as [x|] eqn:Ex; [|discriminate]. injection Hj as <-. rewrite nty_moved. eauto.
    - change (gspans (union_st ra rb na nb s) /\ True). split; [|exact I].
      intros j m Hj. rewrite lk_union in Hj. destruct (Pos.eqb j ra); [injection Hj as <-; exact Hna|].
      destruct (lk s j) as [x|] eqn:Ex; [|discriminate]. injection Hj as <-. rewrite nty_moved. eauto.
  Qed.

  Lemma flookup_fields_ok fs k sp t : fields_ok fs -> flookup k fs = Some (sp, t) -> S sp.
  Proof.
    unfold fields_ok. induction fs as [|[k' [sp' t']] fs IH]; intros H L; [discriminate|]. cbn [flookup] in L.
    inversion H; subst. destruct (String.eqb k k'); [injection L as <- _; assumption|auto].
  Qed.

  Lemma fields_ok_finsert k sp t fs : S sp -> fields_ok fs -> fields_ok (finsert k (sp, t) fs).
  Proof.
    unfold fields_ok. intros H. induction fs as [|[k' v'] fs IH]; intros F; cbn [finsert].
    - constructor; [exact H|constructor].
    - inversion F; subst. destruct (String.compare k k'); repeat (constructor; auto).
  Qed.

  (* ---- the graph-level functions *)
  Record gloc (R : grec) : Prop := mkGL {
    gl_unify : forall sp a b seen, S sp -> loc (g_unify R sp a b seen);
    gl_check : forall sp a, S sp -> loc (g_check R sp a);
    gl_arith : forall k sp a b, S sp -> loc (g_arith R k sp a b);
    gl_div : forall sp a b, S sp -> loc (g_div R sp a b);
    gl_divres : forall sp a b, S sp -> loc (g_divres R sp a b);
    gl_copy : forall a m, loc (g_copy R a m);
    gl_neg : forall sp a, S sp -> loc (g_neg R sp a);
    gl_inside : forall sp u todo seen, S sp -> loc (g_inside R sp u todo seen)
  }.

  Section GStep.
    Variable R : grec.
    Hypothesis P : gloc R.

    Lemma loc_unify sp a b : S sp -> loc (unify R sp a b).
    Proof. intros H. unfold unify. apply loc_bind; [now apply (gl_unify R P)|intros; apply loc_ret]. Qed.

    Lemma loc_unify_option sp a b : S sp -> loc (unify_option R sp a b).
    Proof.
      intros H. unfold unify_option. destruct a, b; try apply loc_ret.
      apply loc_bind; [now apply loc_unify|intros; apply loc_ret].
    Qed.

    Lemma loc_unify2 sp : S sp -> forall xs ys seen, loc (unify2 R sp xs ys seen).
    Proof.
      intros H. induction xs as [|x xs IH]; intros [|y ys] seen; cbn [unify2]; try apply loc_ret.
      apply loc_bind; [now apply (gl_unify R P)|intros r; apply IH].
    Qed.

    Lemma loc_unify_fields sp missing a_fields : S sp -> forall b_fields seen, loc (unify_fields R sp missing a_fields b_fields seen).
    Proof.
      intros H. induction b_fields as [|[k [bsp b_ty]] rest IH]; intros seen; cbn [unify_fields]; [apply loc_ret|].
      destruct (flookup k a_fields) as [[asp a_ty]|]; [|now apply locQ_fail].
      apply loc_bind; [now apply (gl_unify R P)|intros r; apply IH].
    Qed.

    Lemma loc_inside_body sp u todo seen : S sp -> loc (inside_body R sp u todo seen).
    Proof.
      intros H. unfold inside_body. destruct todo as [|ty todo]; [apply loc_ret|].
      apply loc_bind; [apply loc_find|intros r].
      destruct (existsb (Pos.eqb r) seen); [now apply (gl_inside R P)|].
      apply (locQ_bind hspan_ok); [apply locQ_find_type|intros h _].
      destruct h; try (now apply (gl_inside R P)).
      apply loc_bind; [apply loc_mapM_in; intros; apply loc_find|intros reps].
      match goal with |- context [if ?c then _ else _] => destruct c end; [now apply locQ_fail|now apply (gl_inside R P)].
    Qed.

    Lemma loc_check_not_inside sp u ty : S sp -> loc (check_not_inside R sp u ty).
    Proof. intros H. unfold check_not_inside. apply loc_bind; [apply loc_find|intros r; now apply (gl_inside R P)]. Qed.

    Lemma loc_unify_body sp a b seen : S sp -> loc (unify_body R sp a b seen).
    Proof.
      intros H. unfold unify_body. apply loc_bind; [apply loc_find|intros ra]. apply loc_bind; [apply loc_find|intros rb].
      destruct (Pos.eqb ra rb || seen_mem ra rb seen); [apply loc_ret|].
      apply (locQ_bind hspan_ok); [apply locQ_find_type|intros ta Ha].
      apply (locQ_bind hspan_ok); [apply locQ_find_type|intros tb Hb].
      apply loc_bind; [|intros seen'; apply loc_bind; [apply loc_union|intros _];
                        apply loc_bind; [now apply (gl_check R P)|intros _; apply loc_ret]].
      assert (U1 : loc (check_not_inside R sp rb ra ;;; set_type rb ta ;;; ret ((rb, ra) :: (ra, rb) :: seen)))
        by (apply loc_bind; [now apply loc_check_not_inside|intros _]; apply loc_bind; [now apply loc_set_type|intros _; apply loc_ret]).
      assert (U2 : loc (check_not_inside R sp ra rb ;;; set_type ra tb ;;; ret ((rb, ra) :: (ra, rb) :: seen)))
        by (apply loc_bind; [now apply loc_check_not_inside|intros _]; apply loc_bind; [now apply loc_set_type|intros _; apply loc_ret]).
      destruct ta, tb; try exact U1; try exact U2; try apply loc_ret; try (now apply locQ_fail).
      - destruct (negb (Nat.eqb (length ts) (length ts0))); [now apply locQ_fail|now apply loc_unify2].
      - apply loc_bind; [now apply (gl_unify R P)|intros; apply loc_ret].
      - destruct (negb (purity_compatible p p0)); [now apply locQ_fail|].
        destruct (negb (Nat.eqb (length params) (length params0))); [now apply locQ_fail|].
        apply loc_bind; [now apply loc_unify2|intros seen1]. apply loc_bind; [now apply (gl_unify R P)|intros; apply loc_ret].
      - destruct (existsb (fun kv => negb (fmem (fst kv) fields0)) fields); [now apply locQ_fail|now apply loc_unify_fields].
      - destruct (N.eqb id id0); [now apply loc_unify2|now apply locQ_fail].
      - destruct (existsb (fun kv => negb (fmem (fst kv) variants0)) variants); [now apply locQ_fail|now apply loc_unify_fields].
    Qed.

    Lemma loc_arith_body k sp a b : S sp -> loc (arith_body R k sp a b).
    Proof.
      intros H. unfold arith_body.
      apply (locQ_bind hspan_ok); [apply locQ_find_type|intros ta _]. apply (locQ_bind hspan_ok); [apply locQ_find_type|intros tb _].
      destruct (is_unknown ta || is_unknown tb); [apply loc_bind; [apply loc_add_constraint|intros; apply loc_add_constraint]|].
      destruct (arith_base_ok k ta tb); [apply loc_ret|].
      destruct ta; try (now apply locQ_fail). destruct tb; try (now apply locQ_fail).
      destruct (Nat.eqb (length ts) (length ts0)); [|now apply locQ_fail].
      apply loc_iter2. intros; now apply (gl_arith R P).
    Qed.

    Lemma loc_div_body sp a b : S sp -> loc (div_body R sp a b).
    Proof.
      intros H. unfold div_body.
      apply (locQ_bind hspan_ok); [apply locQ_find_type|intros ta _]. apply (locQ_bind hspan_ok); [apply locQ_find_type|intros tb _].
      destruct (is_unknown ta || is_unknown tb); [apply loc_bind; [apply loc_add_constraint|intros; apply loc_add_constraint]|].
      destruct (is_num ta && is_num tb); [apply loc_ret|].
      destruct ta; try (now apply locQ_fail).
      destruct (is_num tb); [apply loc_iterM; intros; now apply (gl_div R P)|].
      destruct tb; try (now apply locQ_fail).
      destruct (Nat.eqb (length ts) (length ts0)); [|now apply locQ_fail].
      apply loc_iter2. intros; now apply (gl_div R P).
    Qed.

    Lemma loc_divres_body sp a b : S sp -> loc (divres_body R sp a b).
    Proof.
      intros H. unfold divres_body.
      apply (locQ_bind hspan_ok); [apply locQ_find_type|intros ta _]. apply (locQ_bind hspan_ok); [apply locQ_find_type|intros tb _].
      destruct (is_num ta && match tb with HFloat => true | _ => false end); [apply loc_ret|].
      destruct (is_unknown ta); [apply loc_ret|].
      destruct (is_num ta).
      { apply loc_bind; [now apply loc_push_type|intros fl]. apply loc_bind; [now apply loc_unify|intros; apply loc_ret]. }
      destruct ta; try (now apply locQ_fail). destruct tb; try (now apply locQ_fail).
      - apply loc_bind; [now apply loc_check_not_inside|intros _].
        apply loc_bind; [apply loc_mapM_in; intros; now apply loc_push_type|intros tys].
        apply loc_bind; [now apply loc_push_type|intros tup]. apply loc_bind; [now apply loc_unify|intros _].
        now apply (gl_divres R P).
      - destruct (Nat.eqb (length ts) (length ts0)); [|now apply locQ_fail].
        apply loc_iter2. intros; now apply (gl_divres R P).
    Qed.

    Lemma loc_neg_body sp a : S sp -> loc (neg_body R sp a).
    Proof.
      intros H. unfold neg_body. apply (locQ_bind hspan_ok); [apply locQ_find_type|intros t _].
      destruct t; try (now apply locQ_fail); try apply loc_ret; try apply loc_add_constraint.
      apply loc_iterM. intros; now apply (gl_neg R P).
    Qed.

    Lemma loc_constant_index sp a i r : S sp -> loc (constant_index R sp a i r).
    Proof.
      intros H. unfold constant_index. apply (locQ_bind hspan_ok); [apply locQ_find_type|intros t _].
      destruct t; try (now apply locQ_fail); try apply loc_ret.
      destruct (if Z.ltb i 0 then None else nth_error ts (Z.to_nat i)); [|now apply locQ_fail].
      apply loc_bind; [now apply loc_unify|intros; apply loc_ret].
    Qed.

    Lemma loc_check_one sp a c : S sp -> loc (check_one R sp a c).
    Proof.
      intros H. unfold check_one.
      destruct c; try (now apply (gl_arith R P)); try (now apply (gl_div R P)); try (now apply (gl_divres R P));
        try (now apply (gl_neg R P)); try (now apply loc_constant_index);
        try (apply loc_bind; [now apply loc_unify|intros; first [apply loc_ret|now apply (gl_arith R P)]]).
      - (* CField *)
        apply (locQ_bind hspan_ok); [apply locQ_find_type|intros h0 Ht].
        destruct h0; try (now apply locQ_fail); try apply loc_ret.
        + destruct (flookup f fields) as [[fsp actual]|] eqn:E; [|now apply locQ_fail].
          apply loc_bind; [apply loc_unify; eapply flookup_fields_ok; [exact (proj2 Ht)|exact E]|intros; apply loc_ret].
        + destruct (flookup f fields) as [[fsp actual]|] eqn:E; [|now apply locQ_fail].
          apply loc_bind; [apply loc_unify; eapply flookup_fields_ok; [exact (proj2 Ht)|exact E]|intros; apply loc_ret].
      - (* CNum *)
        apply (locQ_bind hspan_ok); [apply locQ_find_type|intros h0 _]. destruct h0; try (now apply locQ_fail); apply loc_ret.
      - (* CEnum *)
        apply (locQ_bind hspan_ok); [apply locQ_find_type|intros h0 _]. destruct h0; try (now apply locQ_fail); apply loc_ret.
      - (* CVariant *)
        apply (locQ_bind hspan_ok); [apply locQ_find_type|intros t0 _]. destruct t0; try (now apply locQ_fail); try apply loc_ret.
        destruct (flookup v variants) as [[vsp va]|]; [|now apply locQ_fail].
        destruct t; [|apply loc_ret]. apply loc_bind; [now apply loc_unify|intros; apply loc_ret].
      - (* CTotalEnum *)
        apply (locQ_bind hspan_ok); [apply locQ_find_type|intros h0 _]. destruct h0; try (now apply locQ_fail); try apply loc_ret.
        destruct (existsb (fun v => negb (fmem v variants)) vs); [now apply locQ_fail|].
        destruct (existsb (fun kv => negb (smem (fst kv) vs)) variants); [now apply locQ_fail|apply loc_ret].
      - (* CVariable *)
        apply (locQ_bind hspan_ok); [apply locQ_find_type|intros h0 _]. destruct h0; try (now apply locQ_fail); apply loc_ret.
    Qed.

    Lemma loc_check_body sp a : S sp -> loc (check_body R sp a).
    Proof.
      intros H. unfold check_body. apply (locQ_bind (fun n => hspan_ok (nty n))); [apply locQ_find_node|intros n _].
      apply loc_iterM. intros; now apply loc_check_one.
    Qed.

    (* ---- copies keep the spans *)
    Lemma loc_copy_constr c m : loc (copy_constr R c m).
    Proof.
      unfold copy_constr. destruct c; try apply loc_ret;
        try (apply loc_bind; [apply (gl_copy R P)|intros; apply loc_ret]).
      destruct t; [|apply loc_ret]. apply loc_bind; [apply (gl_copy R P)|intros; apply loc_ret].
    Qed.

    Lemma loc_copy_list : forall l m, loc (copy_list R l m).
    Proof.
      induction l as [|x xs IH]; intros m; cbn [copy_list]; [apply loc_ret|].
      apply loc_bind; [apply (gl_copy R P)|intros r]. apply loc_bind; [apply IH|intros; apply loc_ret].
    Qed.

    Lemma locQ_copy_fields : forall l m, fields_ok l -> locQ (fun r => fields_ok (fst r)) (copy_fields R l m).
    Proof.
      induction l as [|[k [sp x]] xs IH]; intros m F; cbn [copy_fields]; [apply locQ_ret; constructor|].
      inversion F; subst.
      apply loc_bind; [apply (gl_copy R P)|intros r].
      apply (locQ_bind (fun r => fields_ok (fst r))); [now apply IH|intros rs Hrs]. apply locQ_ret. cbn [fst]. constructor; assumption.
    Qed.

    Lemma locQ_copy_ty t m : hspan_ok t -> locQ (fun r => hspan_ok (fst r)) (copy_ty R t m).
    Proof.
      intros H. unfold copy_ty. destruct t; try (apply locQ_ret; exact I).
      - apply loc_bind; [apply loc_copy_list|intros; apply locQ_ret; exact I].
      - apply loc_bind; [apply (gl_copy R P)|intros; apply locQ_ret; exact I].
      - apply loc_bind; [apply loc_copy_list|intros]. apply loc_bind; [apply (gl_copy R P)|intros; apply locQ_ret; exact I].
      - destruct H as [H1 H2]. apply (locQ_bind (fun r => fields_ok (fst r))); [now apply locQ_copy_fields|intros rf Hrf].
        apply loc_bind; [apply loc_copy_list|intros; apply locQ_ret]. cbn [fst hspan_ok]. auto.
      - destruct H as [H1 H2]. apply (locQ_bind (fun r => fields_ok (fst r))); [now apply locQ_copy_fields|intros rf Hrf].
        apply loc_bind; [apply loc_copy_list|intros; apply locQ_ret]. cbn [fst hspan_ok]. auto.
      - destruct H as [H1 H2]. apply (locQ_bind (fun r => fields_ok (fst r))); [now apply locQ_copy_fields|intros rf Hrf].
        apply loc_bind; [apply loc_copy_list|intros; apply locQ_ret]. cbn [fst hspan_ok]. auto.
    Qed.

    Lemma loc_copy_body old m : loc (copy_body R old m).
    Proof.
      unfold copy_body. apply loc_bind; [apply loc_find|intros ro].
      destruct (copy_lookup ro m); [apply loc_ret|].
      apply loc_bind; [now apply loc_push_type|intros new].
      apply (locQ_bind hspan_ok); [apply locQ_find_type|intros tb Htb].
      destruct (is_basic tb); [apply loc_bind; [now apply loc_set_type|intros _; apply loc_ret]|].
      apply (locQ_bind (fun n => hspan_ok (nty n))); [apply locQ_find_node|intros n _].
      apply loc_bind.
      { apply loc_foldM_in. intros b c _. apply loc_bind; [apply loc_copy_constr|intros; apply loc_ret]. }
      intros [cs m2]. apply loc_bind; [apply loc_set_cons|intros _].
      apply (locQ_bind hspan_ok); [apply locQ_find_type|intros t Ht].
      apply (locQ_bind (fun r => hspan_ok (fst r))); [now apply locQ_copy_ty|intros [t' m3] Ht'].
      apply loc_bind; [now apply loc_set_type|intros _; apply loc_ret].
    Qed.

    Lemma gloc_step : gloc (gstep R).
    Proof.
      constructor; cbn [gstep g_unify g_check g_arith g_div g_divres g_copy g_neg g_inside]; intros.
      - now apply loc_unify_body.
      - now apply loc_check_body.
      - now apply loc_arith_body.
      - now apply loc_div_body.
      - now apply loc_divres_body.
      - apply loc_copy_body.
      - now apply loc_neg_body.
      - now apply loc_inside_body.
    Qed.
  End GStep.

  Theorem gfix_loc : forall g, gloc (gfix g).
  Proof.
    induction g as [|g IH]; cbn [gfix].
    - constructor; intros; apply locQ_oof.
    - now apply gloc_step.
  Qed.
End Loc.

(* ------------------------------------------------------------------ the syntax-level functions *)

Lemma expr_span_in e : In (expr_span e) (e_spans e).
Proof. destruct e; cbn; auto. Qed.
Lemma stmt_span_in s : In (stmt_span s) (s_spans s).
Proof. destruct s; cbn; auto. Qed.
Lemma ty_span_in t : In (ty_span t) (t_spans t).
Proof. destruct t; cbn; auto. Qed.

Lemma Forall_flat_in {A} (S : span -> Prop) (f : A -> list span) l x :
  Forall S (flat_map f l) -> In x l -> Forall S (f x).
Proof. intros H Hin. rewrite Forall_flat_map in H. rewrite Forall_forall in H. now apply H. Qed.

Section ALoc.
  Variable S : span -> Prop.
  Variable kinds : PositiveMap.t varkind.
  Variable G : grec.
  Hypothesis PG : gloc S G.

  Record aloc (R : arec) : Prop := mkAL {
    al_expr : forall e ctx, Forall S (e_spans e) -> loc S (r_expr R e ctx);
    al_stmt : forall s ctx, Forall S (s_spans s) -> loc S (r_stmt R s ctx);
    al_type : forall t m, Forall S (t_spans t) -> loc S (r_type R t m)
  }.

  Lemma S_expr_span e : Forall S (e_spans e) -> S (expr_span e).
  Proof. intros H. rewrite Forall_forall in H. apply H, expr_span_in. Qed.
  Lemma S_stmt_span s : Forall S (s_spans s) -> S (stmt_span s).
  Proof. intros H. rewrite Forall_forall in H. apply H, stmt_span_in. Qed.
  Lemma S_ty_span t : Forall S (t_spans t) -> S (ty_span t).
  Proof. intros H. rewrite Forall_forall in H. apply H, ty_span_in. Qed.

  Lemma loc_var_ty v : loc S (var_ty kinds v).
  Proof. unfold var_ty. destruct (PositiveMap.find _ kinds); [apply loc_ret|apply locQ_panic]. Qed.
  Lemma loc_var_kind v : loc S (var_kind kinds v).
  Proof. unfold var_kind. destruct (PositiveMap.find _ kinds); [apply loc_ret|apply locQ_panic]. Qed.
  Lemma loc_is_type_name v : loc S (is_type_name v).
  Proof. intros s Gs. cbn. auto. Qed.
  Lemma loc_add_type_name v : loc S (add_type_name v).
  Proof. intros s Gs. cbn. split; [|exact I]. intros i n H. exact (Gs i n H). Qed.
  Lemma loc_copy a : loc S (copy G a).
  Proof. unfold copy. apply loc_bind; [apply (gl_copy S G PG)|intros; apply loc_ret]. Qed.

  (* splitting a hypothesis about the spans of a construct into those of its parts *)
  Ltac spans H :=
    cbn [e_spans s_spans b_spans c_spans t_spans param_spans field_spans] in H;
    rewrite ?e_go, ?s_go, ?b_go, ?c_go, ?f_go, ?t_spans_go in H;
    repeat match type of H with
           | Forall _ (_ :: _) => let X := fresh "Hs" in apply Forall_cons_iff in H as [X H]
           | Forall _ (_ ++ _) => let X := fresh "Hs" in apply Forall_app in H as [X H]
           end.

  Ltac lstep R PR :=
    match goal with
    | |- locQ _ _ (ret _) => apply locQ_ret; exact I
    | |- locQ _ _ (fail _ _) => apply locQ_fail; auto using S_expr_span, S_stmt_span, S_ty_span
    | |- locQ _ _ (panic _) => apply locQ_panic
    | |- locQ _ _ out_of_fuel => apply locQ_oof
    | |- locQ _ _ (bind (find_type _) _) => apply (locQ_bind S (hspan_ok S)); [apply locQ_find_type|intros ? ?]
    | |- locQ _ _ (bind _ _) => apply loc_bind; [unfold loc|intros ?]
    | |- locQ _ _ (push_type _) => apply loc_push_type; try exact I
    | |- locQ _ _ (add_constraint _ _) => apply loc_add_constraint
    | |- locQ _ _ (find_type _) => eapply locQ_loc; apply locQ_find_type
    | |- locQ _ _ (is_void _) => apply loc_is_void
    | |- locQ _ _ (is_type_name _) => apply loc_is_type_name
    | |- locQ _ _ (add_type_name _) => apply loc_add_type_name
    | |- locQ _ _ (var_ty _ _) => apply loc_var_ty
    | |- locQ _ _ (var_kind _ _) => apply loc_var_kind
    | |- locQ _ _ (copy G _) => apply loc_copy
    | |- locQ _ _ (unify G _ _ _) => apply (loc_unify S G PG); auto using S_expr_span, S_stmt_span, S_ty_span
    | |- locQ _ _ (unify_option G _ _ _) => apply (loc_unify_option S G PG); auto using S_expr_span, S_stmt_span, S_ty_span
    | |- locQ _ _ (g_check G _ _) => apply (gl_check S G PG); auto using S_expr_span, S_stmt_span, S_ty_span
    | |- locQ _ _ (r_expr R _ _) => apply (al_expr R PR); assumption
    | |- locQ _ _ (r_stmt R _ _) => apply (al_stmt R PR); assumption
    | |- locQ _ _ (r_type R _ _) => apply (al_type R PR); assumption
    | |- locQ _ _ (match ?x with _ => _ end) => destruct x
    end.

  Section AStep.
    Variable R : arec.
    Hypothesis PR : aloc R.

    Ltac ls := unfold loc; repeat (lstep R PR).

    Lemma loc_resolve_constraint sp var c : S sp -> loc S (resolve_constraint sp var c).
    Proof. intros H. unfold resolve_constraint. ls. Qed.

    Lemma loc_resolve_types : forall l seen, Forall S (flat_map t_spans l) -> loc S (resolve_types R l seen).
    Proof.
      induction l as [|t ts IH]; intros seen H; cbn [resolve_types]; [apply loc_ret|].
      cbn [flat_map] in H. apply Forall_app in H as [H1 H2]. ls. now apply IH.
    Qed.

    Lemma loc_user_args defsp : S defsp -> forall vars sub seen,
      Forall S (flat_map t_spans vars) -> loc S (user_args G R defsp vars sub seen).
    Proof.
      intros Hd. induction vars as [|v vs IH]; intros sub seen H; cbn [user_args]; [apply loc_ret|].
      cbn [flat_map] in H. apply Forall_app in H as [H1 H2]. destruct sub; ls. now apply IH.
    Qed.

    Lemma loc_type_body t seen : Forall S (t_spans t) -> loc S (type_body kinds G R t seen).
    Proof.
      intros H. unfold type_body. destruct t; spans H.
      - (* TUser *)
        apply loc_bind; [apply loc_var_ty|intros vt]. apply loc_bind; [apply loc_copy|intros c].
        apply (locQ_bind S (hspan_ok S)); [apply locQ_find_type|intros h Hh].
        destruct h; try (apply locQ_fail; assumption); try apply loc_ret.
        all: destruct Hh as [Hsp _]; apply loc_bind; [now apply loc_user_args|intros; apply loc_ret].
      - ls.
      - destruct b; ls.
      - ls.
      - apply loc_bind; [now apply loc_resolve_types|intros fs]. ls.
      - ls.
      - apply loc_bind; [now apply loc_resolve_types|intros ps]. apply loc_bind; [now apply (al_type R PR)|intros rr].
        apply loc_bind; [|intros _; ls].
        apply loc_iterM. intros kc. destruct (gen_lookup (fst kc) (snd rr)); [|now apply locQ_fail].
        apply loc_iterM. intros c0. now apply loc_resolve_constraint.
    Qed.

    Lemma loc_resolve_type t : Forall S (t_spans t) -> loc S (resolve_type R t).
    Proof. intros H. unfold resolve_type. ls. Qed.

    Lemma loc_type_from_function params r pure :
      Forall S (flat_map param_spans params) -> Forall S (t_spans r) -> loc S (type_from_function kinds G R params r pure).
    Proof.
      intros Hp Hr. unfold type_from_function.
      apply loc_bind; [|intros [args seen]; ls].
      apply loc_foldM_in. intros acc [[[nm var] psp] pty] Hin.
      pose proof (Forall_flat_in S param_spans params _ Hp Hin) as Hs. cbn [param_spans] in Hs.
      apply Forall_cons_iff in Hs as [Hs1 Hs2]. ls.
    Qed.

    Lemma loc_can_assign sp target : S sp -> Forall S (e_spans target) -> loc S (can_assign kinds sp target).
    Proof. intros H Ht. unfold can_assign. destruct target; spans Ht; ls. Qed.

    Lemma loc_expression_block sp stmts ctx :
      S sp -> Forall S (flat_map s_spans stmts) -> loc S (expression_block G R sp stmts ctx).
    Proof.
      intros H Hs. unfold expression_block.
      apply loc_bind.
      { apply loc_foldM_in. intros acc st Hin. apply block_split_incl in Hin.
        pose proof (Forall_flat_in S s_spans stmts _ Hs Hin). ls. }
      intros r.
      destruct (block_split_cases stmts) as [(ss & v & vsp & -> & E)|E]; rewrite E; cbn [snd]; [|apply loc_ret].
      rewrite flat_map_app in Hs. apply Forall_app in Hs as [_ Hx]. cbn [flat_map] in Hx. rewrite app_nil_r in Hx.
      spans Hx. ls.
    Qed.

    Lemma loc_bin_op sp ctx a b con : S sp -> Forall S (e_spans a) -> Forall S (e_spans b) -> loc S (bin_op G R sp ctx a b con).
    Proof. intros H Ha Hb. unfold bin_op. ls. Qed.

    Lemma loc_bin_op_ret sp ctx a b con h :
      S sp -> Forall S (e_spans a) -> Forall S (e_spans b) -> hspan_ok S h -> loc S (bin_op_ret G R sp ctx a b con h).
    Proof.
      intros H Ha Hb Hh. unfold bin_op_ret. apply loc_bind; [now apply loc_bin_op|intros [r x]].
      apply loc_bind; [now apply loc_push_type|intros; apply loc_ret].
    Qed.

    Lemma loc_call_args ctx : forall args params r, Forall S (flat_map e_spans args) -> loc S (call_args G R ctx args params r).
    Proof.
      induction args as [|a args IH]; intros [|p params] r H; cbn [call_args]; try apply loc_ret.
      cbn [flat_map] in H. apply Forall_app in H as [Ha H]. ls. now apply IH.
    Qed.

    Lemma loc_value_or_ret v r : loc S (value_or_ret v r).
    Proof. unfold value_or_ret. ls. Qed.

    Lemma loc_if_branch sp ctx br : S sp -> Forall S (b_spans br) -> loc S (if_branch G R sp ctx br).
    Proof.
      intros H Hb. unfold if_branch. destruct br as [c body bsp]. spans Hb.
      apply loc_bind.
      { destruct c as [c|]; [|apply loc_ret]. ls. }
      intros cret. apply loc_bind; [now apply loc_expression_block|intros [bret bval]]. ls.
    Qed.

    Lemma loc_case_branch sp ctx m acc br : S sp -> Forall S (c_spans br) -> loc S (case_branch kinds G R sp ctx m acc br).
    Proof.
      intros H Hb. unfold case_branch. destruct acc as [[r value] names], br as [pat psp var body bsp]. spans Hb.
      apply loc_bind; [destruct var; ls|intros c]. apply loc_bind; [apply loc_add_constraint|intros _].
      apply loc_bind; [now apply (gl_check S G PG)|intros _].
      apply loc_bind; [now apply loc_expression_block|intros [bret bval]]. ls.
    Qed.

    Lemma fields_ok_given fields : Forall S (flat_map (fun x : string * expr => e_spans (snd x)) fields) ->
      locQ S (fields_ok S)
        (foldM (fun (acc : fieldmap) (fe : string * expr) =>
                  u <- push_type HUnknown ;; ret (finsert (fst fe) (expr_span (snd fe), u) acc)) fields []).
    Proof.
      intros H. apply (locQ_foldM_in S (fields_ok S)); [|constructor].
      intros acc fe Hin Hacc. pose proof (Forall_flat_in S _ fields _ H Hin) as Hs. cbn beta in Hs.
      apply loc_bind; [now apply loc_push_type|intros u]. apply locQ_ret.
      apply fields_ok_finsert; [now apply S_expr_span|assumption].
    Qed.

    Lemma loc_expr_body e ctx : Forall S (e_spans e) -> loc S (expr_body kinds G R e ctx).
    Proof.
      intros H. unfold expr_body. apply loc_bind; [|intros [er ex]; ls].
      destruct e; spans H.
      - (* ERead *) ls.
      - (* EVariant *) ls.
      - (* ECall *)
        apply loc_bind; [now apply (al_expr R PR)|intros [ret0 fn]].
        apply (locQ_bind S (hspan_ok S)); [apply locQ_find_type|intros t _].
        destruct t; try (now apply locQ_fail).
        destruct (negb (Nat.eqb (length args) (length params))); [now apply locQ_fail|].
        destruct (inside_pure ctx && negb (is_pure_p p)); [now apply locQ_fail|].
        apply loc_bind; [now apply loc_call_args|intros r]. ls.
      - (* EBlobAccess *) ls.
      - (* EIndex *) ls.
      - (* EBinOp *)
        destruct op; try apply locQ_panic;
          try (apply loc_bin_op_ret; (assumption || exact I)); try (now apply loc_bin_op); ls.
      - (* EUniOp *) destruct op; ls.
      - (* EIf *)
        apply loc_bind.
        { apply loc_mapM_in. intros br Hin. apply loc_if_branch; [assumption|]. exact (Forall_flat_in S b_spans _ _ H Hin). }
        intros tys. destruct (last_branch branches) as [[lastc lb lsp]|]; [|apply locQ_panic].
        apply loc_bind; [apply loc_foldM_in; intros; now apply (loc_unify_option S G PG)|intros r].
        destruct lastc; [ls|].
        apply loc_bind; [apply loc_foldM_in; intros; now apply (loc_unify_option S G PG)|intros value].
        apply loc_bind; [destruct (existsb if_falls branches); ls|intros value'].
        apply loc_bind; [apply loc_value_or_ret|intros; apply loc_ret].
      - (* ECase *)
        apply loc_bind; [now apply (al_expr R PR)|intros [ret0 m]].
        apply loc_bind; [apply loc_add_constraint|intros _]. apply loc_bind; [now apply (gl_check S G PG)|intros _].
        match goal with Hb : Forall S (flat_map c_spans _) |- _ => rename Hb into Hbr end. rename H into Hft.
        apply loc_bind.
        { apply loc_foldM_in. intros acc br Hin. apply loc_case_branch; [assumption|]. exact (Forall_flat_in S c_spans _ _ Hbr Hin). }
        intros [[r value] names].
        apply loc_bind.
        { destruct fall_through as [ft|].
          - rewrite s_go in Hft. apply loc_bind; [now apply loc_expression_block|intros [fret f]]. ls.
          - ls. }
        intros [r' value'].
        apply loc_bind; [match goal with |- context [if ?c then _ else _] => destruct c end; ls|intros value''].
        apply loc_bind; [apply loc_value_or_ret|intros; apply loc_ret].
      - (* EFunction *)
        match goal with X : Forall S (flat_map param_spans _) |- _ => rename X into Hp end.
        match goal with X : Forall S (t_spans _) |- _ => rename X into Hr end. rename H into Hb.
        apply loc_bind; [now apply loc_type_from_function|intros [f_ty ret_ty]].
        apply loc_bind; [now apply loc_expression_block|intros [actual_ret implicit_ret]].
        apply loc_bind; [destruct (is_void_ty ret); ls|intros actual].
        apply loc_bind; [now apply (loc_unify_option S G PG)|intros _].
        apply loc_bind; [destruct actual; [apply loc_is_void|apply loc_ret]|intros isv].
        destruct (isv && negb (is_void_ty ret)); [apply locQ_fail; now apply S_ty_span|].
        apply loc_bind; [now apply (loc_unify_option S G PG)|intros; apply loc_ret].
      - (* EBlob *)
        apply loc_bind; [apply loc_var_ty|intros bt]. apply loc_bind; [apply loc_copy|intros blob_ty].
        apply (locQ_bind S (hspan_ok S)); [apply locQ_find_type|intros t Ht].
        destruct t; try (now apply locQ_fail).
        apply (locQ_bind S (fields_ok S)); [now apply fields_ok_given|intros given Hg].
        match goal with |- context [match ?l ++ ?r with _ => _ end] =>
          assert (He : Forall (fun x => S (e_span x)) (l ++ r)) end.
        { apply Forall_app. split.
          - apply Forall_forall. intros x Hx. apply in_map_iff in Hx as (kv & <- & _). exact Hs.
          - apply Forall_forall. intros x Hx. apply in_map_iff in Hx as (kv & <- & Hkv). apply filter_In in Hkv as [Hkv _].
            unfold fields_ok in Hg. rewrite Forall_forall in Hg. exact (Hg _ Hkv). }
        match goal with |- context [match ?l ++ ?r with _ => _ end] => destruct (l ++ r) as [|e1 more] end.
        + apply loc_bind; [apply loc_push_type; cbn [hspan_ok]; auto|intros given_blob].
          apply loc_bind; [apply loc_var_ty|intros self_ty]. apply loc_bind; [now apply (loc_unify S G PG)|intros _].
          apply loc_bind.
          { apply loc_foldM_in. intros acc fe Hin. pose proof (Forall_flat_in S _ fields _ H Hin) as Hfe. cbn beta in Hfe.
            apply loc_bind; [now apply (al_expr R PR)|intros [iret ety]].
            apply loc_bind; [now apply (loc_unify_option S G PG)|intros acc'].
            destruct (flookup (fst fe) given) as [[gsp ft]|]; [|apply locQ_panic].
            apply loc_bind; [apply (loc_unify S G PG); now apply S_expr_span|intros; apply loc_ret]. }
          intros ret0. apply loc_bind; [now apply (loc_unify S G PG)|intros; apply loc_ret].
        + intros s0 Gs0. cbn. inversion He; subst. split; assumption.
      - (* ECollection *)
        destruct c.
        + apply loc_bind.
          { apply loc_foldM_in. intros acc v Hin. pose proof (Forall_flat_in S e_spans _ _ H Hin). ls. }
          intros [ret0 tys]. ls.
        + apply loc_bind; [now apply loc_push_type|intros inner].
          apply loc_bind.
          { apply loc_foldM_in. intros acc v Hin. pose proof (Forall_flat_in S e_spans _ _ H Hin). ls. }
          intros ret0. ls.
      - ls.
      - ls.
      - ls.
      - ls.
      - ls.
    Qed.

    Lemma loc_definition var kind t value sp ctx :
      S sp -> Forall S (t_spans t) -> Forall S (e_spans value) -> loc S (definition kinds G R var kind t value sp ctx).
    Proof.
      intros H Ht Hv. unfold definition. destruct (inside_pure ctx && negb (immutable kind)); [now apply locQ_fail|].
      apply loc_bind; [apply loc_var_ty|intros vt].
      apply loc_bind.
      { destruct value; try apply loc_ret. spans Hv.
        match goal with X : Forall S (flat_map param_spans _) |- _ => rename X into Hp end.
        match goal with X : Forall S (t_spans ret) |- _ => rename X into Hr end.
        apply loc_bind; [now apply loc_type_from_function|intros [f_ty x]]. ls. }
      intros _. apply loc_bind; [now apply loc_resolve_type|intros dt]. ls.
    Qed.

    Lemma loc_stmt_body s ctx : Forall S (s_spans s) -> loc S (stmt_body kinds G R s ctx).
    Proof.
      intros H. unfold stmt_body. destruct s; spans H.
      - (* assignment *)
        apply loc_bind; [now apply loc_can_assign|intros _]. destruct (inside_pure ctx); [now apply locQ_fail|].
        apply loc_bind; [now apply (al_expr R PR)|intros [e_ret e_ty]].
        apply loc_bind; [now apply (al_expr R PR)|intros [t_ret t_ty]].
        apply loc_bind; [destruct op; ls|intros _]. apply loc_bind; [destruct op; ls|intros _]. ls.
      - now apply locQ_fail.
      - now apply locQ_fail.
      - now apply loc_definition.
      - now apply locQ_fail.
      - (* loop *)
        apply loc_bind; [now apply (al_expr R PR)|intros [r c]]. apply loc_bind; [now apply loc_push_type|intros bo].
        apply loc_bind; [now apply (loc_unify S G PG)|intros _].
        apply loc_bind; [now apply loc_expression_block|intros [br bv]]. ls.
      - ls.
      - ls.
      - destruct value; ls.
      - apply loc_bind; [now apply loc_expression_block|intros [r v]]. ls.
      - ls.
      - ls.
    Qed.

    Lemma aloc_step : aloc (astep kinds G R).
    Proof.
      constructor; cbn [astep r_expr r_stmt r_type]; intros.
      - now apply loc_expr_body.
      - now apply loc_stmt_body.
      - now apply loc_type_body.
    Qed.
  End AStep.

  Theorem afix_loc : forall f, aloc (afix kinds G f).
  Proof.
    induction f as [|f IH]; cbn [afix].
    - constructor; intros; apply locQ_oof.
    - now apply aloc_step.
  Qed.
End ALoc.

(* ------------------------------------------------------------------ the top level *)

Lemma pos_insert_In' x l y : In y (pos_insert x l) <-> x = y \/ In y l.
Proof.
  induction l as [|z l IH]; cbn [pos_insert In]; [tauto|].
  destruct (pos_le z x); cbn [In]; rewrite ?IH; tauto.
Qed.

Lemma source_order_In' l y : In y (source_order l) <-> In y l.
Proof.
  unfold source_order. assert (G : forall acc, In y (fold_left (fun a x => pos_insert x a) l acc) <-> In y l \/ In y acc).
  { induction l as [|x l IH]; intros acc; cbn [fold_left In]; [tauto|]. rewrite IH, pos_insert_In'. tauto. }
  rewrite G. cbn [In]. tauto.
Qed.

Section TopLoc.
  Variable S : span -> Prop.
  Variable kinds : PositiveMap.t varkind.
  Variable G : grec.
  Hypothesis PG : gloc S G.
  Variable R : arec.
  Hypothesis PR : aloc S R.

  Lemma loc_decl_params vars : loc S (decl_params vars).
  Proof.
    unfold decl_params. apply loc_foldM_in. intros b x _. apply loc_bind; [now apply loc_push_type|intros; apply loc_ret].
  Qed.

  Lemma locQ_decl_fields n fields seen :
    (forall f, In f fields -> Forall S (field_spans f)) -> locQ S (fields_ok S) (decl_fields R n fields seen).
  Proof.
    intros H. unfold decl_fields.
    apply (locQ_bind S (fun r : fieldmap * genmap => fields_ok S (fst r))); [|intros r Hr; now apply locQ_ret].
    apply (locQ_foldM_in S (fun r : fieldmap * genmap => fields_ok S (fst r))); [|constructor].
    intros acc [k [ksp t]] Hin Hacc. specialize (H _ Hin). cbn [field_spans fst snd] in H. apply Forall_cons_iff in H as [H1 H2].
    apply loc_bind; [now apply (al_type S R PR)|intros rt].
    destruct (negb (Nat.eqb n (length (snd rt)))); [now apply locQ_fail|]. apply locQ_ret. cbn [fst].
    now apply fields_ok_finsert.
  Qed.

  Lemma loc_outer_statement s ctx : Forall S (s_spans s) -> loc S (outer_statement kinds G R s ctx).
  Proof.
    intros H. unfold outer_statement. destruct s; try apply locQ_panic; cbn [s_spans] in H.
    - (* blob *)
      apply Forall_cons_iff in H as [Hsp H].
      apply loc_bind; [apply loc_add_type_name|intros _]. apply loc_bind; [apply loc_var_ty|intros bt].
      apply loc_bind; [apply loc_decl_params|intros [tp seen]].
      apply (locQ_bind S (fields_ok S)).
      { apply locQ_decl_fields. intros f Hf. apply (proj1 (source_order_In' _ _)) in Hf. exact (Forall_flat_in S field_spans _ _ H Hf). }
      intros res Hres. apply loc_bind; [apply loc_push_type; destruct external; cbn [hspan_ok]; auto|intros t].
      apply loc_bind; [now apply (loc_unify S G PG)|intros; apply loc_ret].
    - (* enum *)
      apply Forall_cons_iff in H as [Hsp H].
      apply loc_bind; [apply loc_add_type_name|intros _]. apply loc_bind; [apply loc_var_ty|intros bt].
      apply loc_bind; [apply loc_decl_params|intros [tp seen]].
      apply (locQ_bind S (fields_ok S)).
      { apply locQ_decl_fields. intros f Hf. apply (proj1 (source_order_In' _ _)) in Hf. exact (Forall_flat_in S field_spans _ _ H Hf). }
      intros res Hres. apply loc_bind; [apply loc_push_type; cbn [hspan_ok]; auto|intros t].
      apply loc_bind; [now apply (loc_unify S G PG)|intros; apply loc_ret].
    - (* definition *)
      apply Forall_cons_iff in H as [Hsp H]. apply Forall_app in H as [Ht Hv].
      apply loc_bind; [now apply (loc_definition S kinds G PG R PR)|intros; apply loc_ret].
    - (* external definition *)
      apply Forall_cons_iff in H as [Hsp H].
      apply loc_bind; [now apply (loc_resolve_type S R PR)|intros dt]. apply loc_bind; [apply loc_var_ty|intros vt].
      apply loc_bind; [now apply (loc_unify S G PG)|intros; apply loc_ret].
  Qed.
End TopLoc.

Lemma gspans_empty S : gspans S empty_st.
Proof. intros i n H. unfold lk, empty_st in H. cbn [nodes] in H. rewrite PositiveMap.gempty in H. discriminate. Qed.

Lemma loc_init_vars S n : loc S (init_vars n).
Proof. induction n; cbn [init_vars]; [apply loc_ret|]. apply loc_bind; [now apply loc_push_type|intros; assumption]. Qed.

Lemma find_start_In vars v : find_start vars = Some v -> In v vars.
Proof. unfold find_start. intros H. apply find_some in H. tauto. Qed.

(* Every error of the type checker carries a span of the resolved program (spans_of: the spans of all statements,
   expressions, type annotations, parameters, field / variant declarations and case patterns, and the definition
   spans of the variables), except "no start function", which is reported at Span::zero(0). *)
Theorem typecheck_errors_located fuel r e more :
  typecheck fuel r = Err e more ->
  Forall (fun x => In (e_span x) (spans_of r) \/ (e_kind x = KExotic /\ e_span x = span_zero 0)) (e :: more).
Proof.
  unfold typecheck. set (S := fun sp => In sp (spans_of r)).
  set (kinds := kinds_of (r_vars r) 1 (PositiveMap.empty varkind)).
  pose proof (gfix_loc S fuel) as PG. pose proof (afix_loc S kinds (gfix fuel) PG fuel) as PA.
  assert (Hst : forall st, In st (r_stmts r) -> Forall S (s_spans st)).
  { intros st Hin. apply Forall_forall. intros sp Hsp. unfold S, spans_of. apply in_or_app. right.
    apply in_flat_map. eauto. }
  assert (L1 : loc S (init_vars (length (r_vars r)) ;;; iterM (fun s => outer_statement kinds (gfix fuel) (afix kinds (gfix fuel) fuel) s ctx_new) (check_order (r_stmts r)))).
  { apply loc_bind; [apply loc_init_vars|intros _]. apply loc_iterM_in. intros st Hin.
    apply (loc_outer_statement S kinds (gfix fuel) PG _ PA). apply Hst.
    unfold check_order in Hin. apply in_app_or in Hin as [Hin|Hin]; [exact (proj1 (type_decl_order_In _ _ Hin))|exact Hin]. }
  unfold bind at 1. specialize (L1 empty_st (gspans_empty S)). unfold bind at 1 in L1.
  destruct (init_vars (length (r_vars r)) empty_st) as [[u0 s0]| | |]; try discriminate.
  - rewrite solve_order. unfold bind at 1.
    destruct (iterM (fun s => outer_statement kinds (gfix fuel) (afix kinds (gfix fuel) fuel) s ctx_new) (check_order (r_stmts r)) s0)
      as [[u1 s1]| | |] eqn:Eit; try discriminate.
    + destruct L1 as [G1 _].
      destruct (find_start (r_vars r)) as [v|] eqn:Efs.
      * assert (Lf : loc S (void <- push_type HVoid ;; start <- push_type (HFn [] void PUndefined) ;;
                            t <- var_ty kinds (v_id v) ;;
                            or_else_err (unify (gfix fuel) (v_def v) t start ;;; ret tt) KMismatch (v_def v))).
        { assert (Sv : S (v_def v)).
          { unfold S, spans_of. apply in_or_app. left. apply in_map. now apply find_start_In. }
          apply loc_bind; [now apply loc_push_type|intros vd]. apply loc_bind; [now apply loc_push_type|intros stt].
          apply loc_bind; [apply loc_var_ty|intros t].
          intros sx Gx. unfold or_else_err.
          pose proof (loc_bind S (fun _ => True) (unify (gfix fuel) (v_def v) t stt) (fun _ => ret tt)
                        (loc_unify S (gfix fuel) PG _ _ _ Sv) (fun _ => loc_ret S tt) sx Gx) as Lu.
          destruct ((unify (gfix fuel) (v_def v) t stt ;;; ret tt) sx) as [[a sy]| | |]; auto.
          cbn. split; [exact Sv|constructor]. }
        specialize (Lf s1 G1).
        match goal with |- match ?m with _ => _ end = _ -> _ => destruct m as [[a sy]| | |] end; try discriminate.
        intros Hx. injection Hx as <- <-. destruct Lf as [L1' L2']. constructor; [left; exact L1'|].
        eapply Forall_impl; [|exact L2']. intros x Hx. left. exact Hx.
      * cbn. intros Hx. injection Hx as <- <-. constructor; [right; split; reflexivity|constructor].
    + intros Hx. injection Hx as <- <-. destruct L1 as [L1' L2']. constructor; [left; exact L1'|].
      eapply Forall_impl; [|exact L2']. intros x Hx. left. exact Hx.
  - intros Hx. injection Hx as <- <-. destruct L1 as [L1' L2']. constructor; [left; exact L1'|].
    eapply Forall_impl; [|exact L2']. intros x Hx. left. exact Hx.
Qed.

(* ------------------------------------------------------------------ the first error *)

(* a statement list fails with the error of its first failing statement: the statements before it have been checked
   in order, nothing after it is looked at *)
Lemma iterM_first_error {A} (f : A -> M unit) l1 x l2 s u s1 e more :
  iterM f l1 s = Ok (u, s1) -> f x s1 = Err e more -> iterM f (l1 ++ x :: l2) s = Err e more.
Proof.
  revert s. induction l1 as [|y l1 IH]; intros s H Hx; cbn [app iterM] in *.
  - injection H as _ <-. unfold bind. rewrite Hx. reflexivity.
  - unfold bind in *. destruct (f y s) as [[a s']| | |]; try discriminate. now apply IH.
Qed.

Lemma iterM_error_is_first {A} (f : A -> M unit) l s e more :
  iterM f l s = Err e more ->
  exists l1 x l2 u s1, l = l1 ++ x :: l2 /\ iterM f l1 s = Ok (u, s1) /\ f x s1 = Err e more.
Proof.
  revert s. induction l as [|y l IH]; intros s H; cbn [iterM] in H; [discriminate|].
  unfold bind in H. destruct (f y s) as [[a s']| | |] eqn:Ey; try discriminate.
  - destruct (IH _ H) as (l1 & x & l2 & u & s1 & -> & H1 & H2).
    exists (y :: l1), x, l2, u, s1. split; [reflexivity|]. split; [|assumption]. cbn [iterM]. unfold bind. rewrite Ey. exact H1.
  - injection H as <- <-. exists [], y, l, tt, s. auto.
Qed.

Lemma foldM_first_error {A B} (f : B -> A -> M B) l1 x l2 b s b1 s1 e more :
  foldM f l1 b s = Ok (b1, s1) -> f b1 x s1 = Err e more -> foldM f (l1 ++ x :: l2) b s = Err e more.
Proof.
  revert b s. induction l1 as [|y l1 IH]; intros b s H Hx; cbn [app foldM] in *.
  - injection H as <- <-. unfold bind. rewrite Hx. reflexivity.
  - unfold bind in *. destruct (f b y s) as [[a s']| | |]; try discriminate. now apply IH.
Qed.

(* the top level: the type checker reports the error of the first top-level statement (in the order name resolution
   and dependency ordering left them in) whose check fails *)
Theorem typecheck_first_error fuel vars stmts l1 st l2 u s1 e more :
  let kinds := kinds_of vars 1 (PositiveMap.empty varkind) in
  let outer := fun s => outer_statement kinds (gfix fuel) (afix kinds (gfix fuel) fuel) s ctx_new in
  check_order stmts = l1 ++ st :: l2 ->
  (init_vars (length vars) ;;; iterM outer l1) empty_st = Ok (u, s1) ->
  outer st s1 = Err e more ->
  typecheck fuel (mkResolved vars stmts) = Err e more.
Proof.
  intros kinds outer Ho H Hx. unfold typecheck. cbn [r_vars r_stmts]. fold kinds.
  unfold bind at 1. unfold bind at 1 in H.
  destruct (init_vars (length vars) empty_st) as [[u0 s0]| | |]; try discriminate.
  rewrite solve_order. fold outer. rewrite Ho.
  unfold bind at 1. rewrite (iterM_first_error outer l1 st l2 s0 u s1 e more H Hx). reflexivity.
Qed.

Theorem typecheck_error_is_first fuel vars stmts e more :
  let kinds := kinds_of vars 1 (PositiveMap.empty varkind) in
  let outer := fun s => outer_statement kinds (gfix fuel) (afix kinds (gfix fuel) fuel) s ctx_new in
  typecheck fuel (mkResolved vars stmts) = Err e more ->
  (exists l1 st l2 u s1, check_order stmts = l1 ++ st :: l2 /\
      (init_vars (length vars) ;;; iterM outer l1) empty_st = Ok (u, s1) /\ outer st s1 = Err e more) \/
  (exists u s1, (init_vars (length vars) ;;; iterM outer (check_order stmts)) empty_st = Ok (u, s1)).
Proof.
  intros kinds outer H. unfold typecheck in H. cbn [r_vars r_stmts] in H. fold kinds in H.
  unfold bind at 1 in H.
  destruct (init_vars (length vars) empty_st) as [[u0 s0]| | |] eqn:Ei; try discriminate.
  - rewrite solve_order in H. fold outer in H.
    unfold bind at 1 in H. destruct (iterM outer (check_order stmts) s0) as [[u1 s1]| | |] eqn:Eit; try discriminate.
    + right. exists u1, s1. unfold bind. rewrite Ei. exact Eit.
    + injection H as <- <-. left. destruct (iterM_error_is_first outer (check_order stmts) s0 _ _ Eit) as (l1 & x & l2 & u & s1 & Eo & H1 & H2).
      exists l1, x, l2, u, s1. split; [exact Eo|]. split; [|assumption]. unfold bind. rewrite Ei. exact H1.
  - exfalso. clear H. revert Ei. generalize (length vars). intros n. generalize empty_st.
    induction n as [|n IH]; intros s0 Ei; cbn [init_vars] in Ei; [discriminate|].
    unfold bind in Ei. rewrite push_type_eq in Ei. eapply IH; exact Ei.
Qed.
