(* Driver for the extracted backend model (IR lowering + usage counting + Lua text generation).
   Case line:  <require: hex or ->  TAB  <resolved S-expression (tools/resolved_io.py)>
   Output:     OK <hex of the Lua text after the preamble> | PANIC <hex site> | FUEL | READFAIL <msg> *)
open Backmodel

let rec int_of_pos = function XH -> 1 | XO p -> 2 * int_of_pos p | XI p -> 2 * int_of_pos p + 1
let int_of_n = function N0 -> 0 | Npos p -> int_of_pos p
let rec nat_of_int n = if n = 0 then O else S (nat_of_int (n - 1))
let string_of_chars (l : char list) = String.of_seq (List.to_seq l)
let hex_of_string s =
  if s = "" then "-" else begin
    let b = Buffer.create (2 * String.length s) in
    String.iter (fun c -> Buffer.add_string b (Printf.sprintf "%02x" (Char.code c))) s;
    Buffer.contents b end

let () =
  let fuel = nat_of_int 20000 in
  let ic = open_in Sys.argv.(1) in
  (try
    while true do
      let line = input_line ic in
      (try
        let tab = String.index line '\t' in
        let req = String.sub line 0 tab in
        let rest = String.sub line (tab + 1) (String.length line - tab - 1) in
        let req = if req = "-" then None else Some (Rast_reader.rr_chars (Rast_reader.rr_unhex req)) in
        let r = Rast_reader.read_resolved rest in
        (match backend fuel req r with
         | Ok s ->
             let sc = (match lower fuel r with
                       | Ok ops -> if ir_scoped ops then "SCOPED" else
                           (match first_unscoped ([[]]) ops N0 with
                            | Some (n, _) -> "UNSCOPED:" ^ string_of_int (int_of_n n)
                            | None -> "UNSCOPED:end")
                       | _ -> "?") in
             let rs = if rs_resolved fuel r then "RSOK" else "RSBAD" in
             print_endline ("OK " ^ hex_of_string (string_of_chars s) ^ " " ^ sc ^ " " ^ rs)
         | Panic s -> print_endline ("PANIC " ^ hex_of_string (string_of_chars s))
         | OutOfFuel -> print_endline "FUEL")
      with Failure m -> print_endline ("READFAIL " ^ m) | Not_found -> print_endline "READFAIL no-tab")
    done
  with End_of_file -> ());
  close_in ic
