"""C06 -- every accepted program yields loadable Lua."""
import collections
import os

import corner_gen
import lua_run
import lua_scan
import prog_gen
import resolved_io
import rustdebug
import vlib
from props import c10

GEN = ["GenSrcDigest"]
TRUSTED = [
    "Coq 8.16.1 kernel; no axioms",
    "coq/Back/IR.v + Back/Emit.v as the model of intermediate.rs + lua.rs (byte-exact tie each run, fed with the real resolver output through the phases hook)",
    "coq/Lua/LuaWf.v (lua_wf, dialect Lua 5.3) as the definition of 'the Lua interpreter loads this chunk': it cannot be compared with a real interpreter in this sandbox (validated on a hand-written corpus and on the repo's own accepted tests)",
    "extraction (ExtrOcamlBasic + ExtrOcamlString only), ocaml/back_driver.ml, ocaml/lua_driver.ml, tools/lua_run.py",
]
ASSUMPTIONS = ["reference dialect is Lua 5.3 (what the repo's CI runs); LuaJIT-only restrictions (break must be last in its block, 60 upvalues) are reported as notes only"]
EXPLANATION = ("Theorems on the emitter model (string literals are escaped so that the Lua lexer reads back the same bytes; field names that are "
               "Lua keywords are emitted in bracket form; blocks are balanced and assignment targets are real locals -- with C10_lower_scoped) + "
               "byte-exact tie + lua_wf of the REAL emitted text on generated programs, the repo's tests and lexical corner cases.")

_m = {}


def build(ctx):
    ok, out = c10.build(ctx)
    if not ok:
        return ok, out
    try:
        lua_run.build()
    except Exception as e:
        return False, str(e)
    return True, ""


def gen_cases(ctx):
    r = vlib.rng(ctx.seed, "c06")
    out = []
    for cls, src in corner_gen.cases(r, ctx.tier):
        out.append((cls, src, "nostd\t/main.sy\t/main.sy=%s" % vlib.hexs(src)))
    for i in range(150 if ctx.tier == "quick" else 3000):
        src = prog_gen.program(vlib.rng(ctx.seed, "c06-%d" % i), 3)
        out.append(("gen", src, "nostd\t/main.sy\t/main.sy=%s" % vlib.hexs(src)))
    return out + c10.test_programs()


_KIND = {"Loop": "L", "Break": "B", "Else": "X", "End": "E", "If": "I", "Function": "F"}


def ir_kinds(ir_dump):
    """the phases hook's `{:?}` dump of the real Vec<IR> -> the instruction kinds the control-flow checker looks at"""
    out = []
    for op in rustdebug.parse(ir_dump):
        name = op if isinstance(op, str) else op["_"]
        if name in ("Label", "Goto"):
            lab = op["args"][0]
            n = lab["args"][0] if isinstance(lab, dict) else lab
            out.append(("l" if name == "Label" else "g") + str(int(n)))
        else:
            out.append(_KIND.get(name, "."))
    return " ".join(out)


def control_flow(ctx, cases, rows):
    """C06_control_flow_ok on every accepted program of the tie: the hypothesis loops_ok on the real resolver's output,
    the conclusion ir_cf_ok on the model's IR (both by the extracted code inside the back driver) and ir_cf_ok of the
    extracted checker on the instruction kinds of the REAL IR dump (phases hook)."""
    st = {"evaluated": 0, "loops_ok_false": 0, "ir_cf_ok_false_model_ir": 0, "real_ir_evaluated": 0, "ir_cf_ok_false_real_ir": 0,
          "real_ir_unreadable": 0, "programs_with_loops": 0, "programs_with_goto": 0}
    ph = getattr(ctx, "last_phases", None) or []
    cf_lines, cf_idx = [], []
    for i, m, body, ok_pre in rows:
        parts = m.split(" ")
        src = cases[i][1][:300].replace("\n", "\\n")
        if parts[0] == "OK" and len(parts) >= 6:
            st["evaluated"] += 1
            if parts[5] != "LOOPSOK":
                st["loops_ok_false"] += 1
                if st["loops_ok_false"] <= 3:
                    # the hypothesis of C06_control_flow_ok fails on a program the real compiler accepts: the theorem says nothing here
                    ctx.brk("hypothesis:loops_ok", "accepted by the real compiler with a break/continue outside a loop body of its function: " + src)
            if parts[4] != "CFOK":
                st["ir_cf_ok_false_model_ir"] += 1
                if st["ir_cf_ok_false_model_ir"] <= 3:
                    ctx.brk("model:ir_cf_ok", "%s (IR instruction index) on the model's IR: %s" % (parts[4], src))
        if i < len(ph):
            d, tail = resolved_io.parse_phases_line(ph[i])
            if "ir" in d:
                try:
                    cf_lines.append("@cf\t" + ir_kinds(d["ir"]))
                    cf_idx.append(i)
                except Exception:
                    st["real_ir_unreadable"] += 1
    if cf_lines:
        for i, line, v in zip(cf_idx, cf_lines, vlib.model(c10._m["exe"], [], cf_lines)):
            st["real_ir_evaluated"] += 1
            st["programs_with_loops"] += 1 if " L " in " " + line.split("\t")[1] + " " else 0
            st["programs_with_goto"] += 1 if " g" in " " + line.split("\t")[1] else 0
            if v != "CFOK":
                st["ir_cf_ok_false_real_ir"] += 1
                if st["ir_cf_ok_false_real_ir"] <= 3:
                    ctx.brk("oracle:ir_cf_ok(real IR)", "%s on the real compiler's IR (break outside a loop / goto without a visible label / "
                            "misplaced or duplicate label / unbalanced): %s" % (v, cases[i][1][:300].replace("\n", "\\n")))
    if st["real_ir_unreadable"]:
        ctx.brk("tie:real-ir-dump", "%d IR dumps of the phases hook could not be read" % st["real_ir_unreadable"])
    return st


def classify(reason):
    """known-finding classes (see known_findings.jsonl)"""
    if reason and "more than 200 local" in reason:
        return "c06:too-many-locals"
    if reason and ("more than 200 C levels" in reason or "too many syntax levels" in reason):
        return "c06:too-many-syntax-levels"
    return None


_allowed = {}


def _base_allowed():
    """names of the runtime preamble and of the bundled standard library sources"""
    if "base" not in _allowed:
        pre = open(os.path.join(vlib.REPO, "sylt-compiler", "src", "preamble.lua"), encoding="utf-8").read()
        names = lua_scan.names_of_text(pre)
        std = set()
        d = os.path.join(vlib.REPO, "std")
        for f in sorted(os.listdir(d)):
            if f.endswith(".sy") or f.endswith(".lua"):
                std |= lua_scan.names_of_text(open(os.path.join(d, f), encoding="utf-8").read())
        _allowed["base"] = names
        _allowed["std"] = std
    return _allowed["base"], _allowed["std"]


def undefined_reason(text, case):
    """a chunk that loads may still mention a name nothing defines (it would read nil): every name of the chunk's body is a
    Lua keyword / standard global, compiler-made (V<n>, L<n>), a name of the preamble, or an identifier of the sources"""
    base, std = _base_allowed()
    pre, body = lua_run.split_preamble(text)
    cls, src, line = case
    allowed = set(base)
    fields = line.split("\t")
    if fields[0].startswith("std") or cls == "test":
        allowed |= std
    for f in fields[2:]:
        if "=" in f:
            try:
                allowed |= lua_scan.names_of_text(vlib.unhex(f.split("=", 1)[1]).decode("utf-8", "replace"))
            except Exception:
                pass
    allowed |= lua_scan.names_of_text(src if cls != "test" else "")
    bad = lua_scan.undefined_names(body, allowed)
    return ("the chunk mentions a name that nothing defines: " + ", ".join(bad[:5])) if bad else None


def tie(ctx):
    cases = gen_cases(ctx)
    c10._m.update(_m)
    rows, real = c10.run(ctx, cases)
    mism = []
    dist = collections.Counter()
    texts = []
    for i, m, body, ok_pre in rows:
        cls = cases[i][0]
        dist[cls] += 1
        parts = m.split(" ")
        mtext = vlib.unhex(parts[1]).decode("utf-8", "replace") if parts[0] == "OK" else None
        if mtext != body or not ok_pre:
            if len(mism) < 10:
                a = body.split("\n")
                b = (mtext or "").split("\n")
                k = next((j for j, (x, y) in enumerate(zip(a, b)) if x != y), min(len(a), len(b)))
                mism.append({"class": cls, "program": cases[i][1][:2000], "line": k + 1, "real": a[k] if k < len(a) else "<eof>",
                             "model": (b[k] if k < len(b) else "<eof>") if mtext is not None else m[:100]})
        texts.append((i, vlib.unhex(real[i][3:]).decode("utf-8", "replace")))
    reasons = lua_run.lua_wf([t for _, t in texts], dialect="5.3")
    reasons = [why or undefined_reason(t, cases[i]) for (i, t), why in zip(texts, reasons)]
    jit = lua_run.lua_wf([t for _, t in texts], dialect="jit") if ctx.tier == "thorough" else [None] * len(texts)
    bad, known = [], collections.Counter()
    for (i, t), why in zip(texts, reasons):
        if why is None:
            continue
        k = classify(why)
        if k:
            known[k] += 1
        else:
            bad.append((i, why))
    ctx.c06 = {"cases": cases, "bad": bad, "known": known}
    for i, why in bad[:4]:
        ctx.brk("oracle:lua_wf", "%s: %s" % (why, cases[i][1][:300].replace("\n", "\\n")))
    dist["accepted"] = len(rows)
    cf = control_flow(ctx, cases, rows)
    outcome = collections.Counter(r.split(" ")[0] for r in real)
    samples = [{"class": cases[i][0], "program": cases[i][1][:300], "lua_wf": reasons[j] or "ok"} for j, (i, _) in enumerate(texts[:3])]
    return {"name": "lua-text", "ok": not mism, "mismatches": mism, "evaluations": len(cases), "distinct_nontrivial": len(set(t for _, t in texts)),
            "rule": "lexical corner cases (Lua-keyword field names, strings with every byte but the double quote, extreme numbers, every "
                    "expression form unused, statements after ret/break/continue, long bodies, many globals) + generated typed programs + "
                    "every program under /repo/tests; non-trivial = accepted by the real compiler; distinct by emitted text",
            "samples": samples or ["<none>"],
            "distribution": {"classes": dict(dist), "real_outcomes": dict(outcome), "not_loadable": len(bad),
                             "known_finding_hits": dict(known), "control_flow": cf,
                             "luajit_only_rejections": sum(1 for a, b in zip(reasons, jit) if a is None and b is not None)}}


def search(ctx):
    st = getattr(ctx, "c06", None)
    if not st or not st["bad"]:
        return None
    gens = [x for x in st["bad"] if st["cases"][x[0]][0] != "test"]
    i, why = min(gens or st["bad"], key=lambda x: len(st["cases"][x[0]][1]))
    cls, src, line = st["cases"][i]
    if cls != "test":
        lines = src.rstrip("\n").split("\n")
        small = vlib.shrink_seq(lines, lambda cands: not_loadable(["\n".join(c) + "\n" for c in cands]), max_rounds=40)
        src = "\n".join(small) + "\n"
        line = "nostd\t/main.sy\t/main.sy=%s" % vlib.hexs(src)
    real = vlib.harness("compile", [line], timeout_s=60)[0]
    text = vlib.unhex(real[3:]).decode("utf-8", "replace") if real.startswith("OK ") else ""
    why2 = (lua_run.lua_wf([text])[0] or undefined_reason(text, (cls, src if cls != "test" else "", line))) if text else None
    pre, body = lua_run.split_preamble(text) if text else ("", "")
    return {"program": src if cls != "test" else "file " + src, "class": cls, "what": "the compiler accepts the program but the emitted chunk "
            "does not load: " + str(why2 or why), "lua_body": body[:3000], "case_line": line if cls != "test" else None,
            "programs_affected": len(st["bad"])}


def not_loadable(srcs):
    lines = ["nostd\t/main.sy\t/main.sy=%s" % vlib.hexs(s) for s in srcs]
    real = vlib.harness("compile", lines, timeout_s=60)
    idx = [i for i, r in enumerate(real) if r.startswith("OK ")]
    texts = [vlib.unhex(real[i][3:]).decode("utf-8", "replace") for i in idx]
    res = lua_run.lua_wf(texts)
    res = [w or undefined_reason(t, ("gen", srcs[i], lines[i])) for i, t, w in zip(idx, texts, res)]
    out = [False] * len(srcs)
    for i, w in zip(idx, res):
        out[i] = w is not None and classify(w) is None
    return out


def replay_known(ctx, kf):
    w = kf.get("witness", {})
    if "source" not in w:
        return False
    line = "nostd\t/main.sy\t/main.sy=%s" % vlib.hexs(w["source"])
    real = vlib.harness("compile", [line], timeout_s=120)[0]
    if not real.startswith("OK "):
        return False
    why = lua_run.lua_wf([vlib.unhex(real[3:]).decode("utf-8", "replace")])[0]
    return why is not None and classify(why) in kf.get("classifiers", [])


def replay(ctx, rep):
    fi = rep.get("failing_input") or {}
    if not fi or not fi.get("case_line"):
        print("nothing to replay")
        return 0
    vlib.build_harness()
    build(ctx)
    r = not_loadable([fi["program"]])[0]
    print("not loadable:", r)
    return 1 if r else 0
