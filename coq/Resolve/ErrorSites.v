(* Where the resolver can report an error: for every construct of a program, the pairs
   (kind of error, span it is reported at).  `err_sites ast` is the computable list of all of them;
   Resolve/ErrorProofs.v proves that every error `resolve` returns is one of these pairs, or the
   "no start function" error at Span::zero(0).

     identifier `x` in an expression / as a type name ......... NothingMatched, NamespaceFound  at the identifier
     `a.x` (namespace member) .................................. NothingMatched, NamespaceFound  at the whole access
     `E.V e` where E is not a plain name ...................... VariantNotRead                  at the whole variant
     `a.b.T` in a type: a component that is a variable / unknown VariableNotType, NoType        at that component
                        the last component ................... NoType, NamespaceNotType          at that component
     blob / enum / external definition, global definition:
        the defined name is looked up again ................... NothingMatched, NamespaceFound  at the STATEMENT
     a second definition of a name in a file .................. CollisionDef                    at the LATER statement
     `use p [as n]`: the file has no namespace ................ NoNamespace                     at the name n
                     n is already defined differently ......... CollisionUse                    at the statement
                        (a `use` line that tree() appended from the std preamble: at the user's definition, /repo 2646957;
                         the model runs on user-written modules only)
     `from p use x [as y]`: the file has no namespace .......... NoNamespace                     at the statement
                            x is not in the namespace ......... CannotFind                      at x
                            y (or x) already defined .......... CollisionFrom                   at y (or x)
   Definitions only. *)
From Coq Require Import String List NArith ZArith Bool.
From Sylt Require Import Syntax.Resolved Resolve.PAst Resolve.Resolver.
Import ListNotations.

Definition site := (ekind * span)%type.

Definition scat {A} (f : A -> list site) : list A -> list site :=
  fix go (l : list A) : list site := match l with [] => [] | x :: xs => f x ++ go xs end.

Definition lookup_sites (sp : span) : list site := [(ENamespaceFound, sp); (ENothingMatched, sp)].

Fixpoint sites_tns (t : ptassign) : list site :=
  match t with
  | TARead i _ => [(EVariableNotType, i_span i); (ENoType, i_span i)]
  | TAAccess nl i _ => sites_tns nl ++ [(EVariableNotType, i_span i); (ENoType, i_span i)]
  end.

Definition sites_ta (t : ptassign) : list site :=
  match t with
  | TARead i _ => lookup_sites (i_span i)
  | TAAccess nl i _ => sites_tns nl ++ [(ENoType, i_span i); (ENamespaceNotType, i_span i)]
  end.

Fixpoint sites_ty (t : pty) : list site :=
  match t with
  | PTUser ta args _ => sites_ta ta ++ scat sites_ty args
  | PTFn _ ps r _ _ => scat sites_ty ps ++ sites_ty r
  | PTTuple ts _ => scat sites_ty ts
  | PTList t' _ | PTGrouping t' _ => sites_ty t'
  | _ => []
  end.

Fixpoint sites_e (x : pexpr) : list site :=
  match x with
  | PGet a _ => sites_a a
  | PAdd a b _ | PSub a b _ | PMul a b _ | PDiv a b _ | PComparison a _ b _ | PAssertEq a b _
  | PAnd a b _ | POr a b _ => sites_e a ++ sites_e b
  | PNeg a _ | PNot a _ | PParenthesis a _ => sites_e a
  | PIf brs _ =>
      scat (fun b => match b with PIfBranch c body _ =>
              (match c with Some c => sites_e c | None => [] end) ++ scat sites_s body end) brs
  | PCase tm brs ft _ =>
      sites_e tm
      ++ scat (fun b => match b with PCaseBranch _ _ body => scat sites_s body end) brs
      ++ (match ft with Some b => scat sites_s b | None => [] end)
  | PFunction _ params rt body _ _ => scat (fun p => sites_ty (snd p)) params ++ sites_ty rt ++ scat sites_s body
  | PBlob blob fields _ => sites_ta blob ++ scat (fun f => sites_e (snd f)) fields
  | PTuple vs _ | PList vs _ => scat sites_e vs
  | _ => []
  end
with sites_a (a : passign) : list site :=
  match a with
  | ARead i _ => lookup_sites (i_span i)
  | AVariant x _ v sp => sites_a x ++ (EVariantNotRead, sp) :: sites_e v
  | ACall f args _ => sites_a f ++ scat sites_e args
  | AArrowCall x f args _ => sites_e x ++ sites_a f ++ scat sites_e args
  | AAccess x _ sp => lookup_sites sp ++ sites_a x
  | AIndex x i _ => sites_a x ++ sites_e i
  | AExpression e _ => sites_e e
  end
with sites_s (s : pstmt) : list site :=
  match s with
  | PBlobDef _ _ fields _ sp => lookup_sites sp ++ scat (fun f => sites_ty (snd f)) fields
  | PEnumDef _ _ variants sp => lookup_sites sp ++ scat (fun f => sites_ty (snd f)) variants
  | PExternalDefinition _ _ t sp => lookup_sites sp ++ sites_ty t
  | PDefinition _ _ t v sp => lookup_sites sp ++ sites_e v ++ sites_ty t
  | PAssignment _ t v _ => sites_e v ++ sites_a t
  | PLoop c b _ => sites_e c ++ sites_s b
  | PRet (Some v) _ => sites_e v
  | PBlock ss _ => scat sites_s ss
  | PStatementExpression v _ => sites_e v
  | _ => []
  end.

(* the two namespace passes (top-level statements only) *)
Definition sites_pass (s : pstmt) : list site :=
  (match defined_ident s with Some _ => [(ECollisionDef, pstmt_span s)] | None => [] end)
  ++ match s with
     | PUse _ nm _ sp => [(ENoNamespace, i_span (usename_ident nm)); (ECollisionUse, sp)]
     | PFromUse _ imps _ sp =>
         (ENoNamespace, sp)
         :: scat (fun p => [(ECannotFind, i_span (fst p));
                            (ECollisionFrom, i_span (match snd p with Some a => a | None => fst p end))]) imps
     | _ => []
     end.

Definition err_sites (ast : past) : list site :=
  scat (fun m => scat (fun s => sites_pass s ++ sites_s s) (m_stmts m)) ast.

(* every span at which a resolver error can be reported *)
Definition spans_of (ast : past) : list span := map snd (err_sites ast).
