(* C07 for the type checker: the model's Panic sites are unreachable on the output of name resolution.
   The sites: `self.types[id]` (PTypeIndex) and `self.variables[var]` (PVarIndex) out of bounds, `unreachable!()` for
   an index that is not an integer literal (PIndexNotInt), for BinOp::Nop (PBinOpNop), for an outer statement that is
   not a declaration (POuterStmt), `branches.last().unwrap()` of an `if` without branches (PIfNoBranch), and the field
   map lookup in a blob instantiation (PFieldIndex).
   - PVarIndex, PIndexNotInt, PBinOpNop, PIfNoBranch, POuterStmt are excluded by a computable condition on the resolved
     program (`input_ok`): every variable id is an index of the variable table; the shapes the parser / resolver only
     produce.
   - PFieldIndex never fires: the looked-up keys are the keys the map was built from.
   - PTypeIndex needs an invariant of the type graph: every type id stored in a node (its representative, the
     components of its type, the ids in its constraints) is the id of a node (`closed`), and the ids below `next` are
     exactly the nodes (`dense`); every id the checker holds is then the id of a node. *)
From Coq Require Import String List NArith ZArith PArith Bool Lia FMapPositive.
From Sylt Require Import Syntax.Resolved Types.TyGraph Types.Tc Types.TcInv.
Import ListNotations.
Local Open Scope positive_scope.
Local Open Scope tc_scope.

(* ------------------------------------------------------------------ the ids stored in the graph *)

Definition field_ids (fs : fieldmap) : list tyid := map (fun kv => snd (snd kv)) fs.

Definition tyh_ids (h : tyh) : list tyid :=
  match h with
  | HTuple ts => ts
  | HList t => [t]
  | HFn ps r _ => r :: ps
  | HBlob _ _ fs args | HEnum _ _ fs args | HExtBlob _ _ fs args _ => field_ids fs ++ args
  | _ => []
  end.

Definition constr_ids (c : constr) : list tyid :=
  match c with
  | CAdd x | CSub x | CMul x | CDivTop x | CDivBot x | CDivRes x | CEqu x | CCmp x | CCmpEqu x
  | CConstIdx _ x | CField _ x | CVariant _ (Some x) => [x]
  | _ => []
  end.

Definition below (n : positive) (l : list tyid) : Prop := Forall (fun j => j < n) l.

Definition node_ok (n : positive) (nd : node) : Prop :=
  below n (tyh_ids (nty nd)) /\ below n (flat_map constr_ids (ncons nd)) /\ nrep nd < n.

Definition dense (s : st) : Prop := forall i, i < next s -> exists n, lk s i = Some n.
Definition closed (s : st) : Prop := forall i n, lk s i = Some n -> node_ok (next s) n.
Definition ginv (s : st) : Prop := dense s /\ closed s.

Lemma below_mono n n' l : n <= n' -> below n l -> below n' l.
Proof. intros H. apply Forall_impl. intros; lia. Qed.

Lemma node_ok_mono n n' nd : n <= n' -> node_ok n nd -> node_ok n' nd.
Proof. intros H (A & B & C). repeat split; try (eapply below_mono; eassumption). lia. Qed.

Lemma below_app n l l' : below n (l ++ l') <-> below n l /\ below n l'.
Proof. apply Forall_app. Qed.

Lemma cinsert_incl c l x : In x (cinsert c l) -> x = c \/ In x l.
Proof.
  induction l as [|d l IH]; cbn [cinsert]; [intros [->|[]]; auto|].
  destruct (constr_compare c d); cbn [In]; intuition.
Qed.

Lemma below_cinsert n c l : below n (constr_ids c) -> below n (flat_map constr_ids l) -> below n (flat_map constr_ids (cinsert c l)).
Proof.
  intros Hc Hl. unfold below in *. rewrite Forall_forall in *. intros j Hj. apply in_flat_map in Hj as (x & Hx & Hjx).
  apply cinsert_incl in Hx as [->|Hx]; [auto|]. apply Hl. apply in_flat_map. eauto.
Qed.

(* ------------------------------------------------------------------ computations that do not panic *)

Section NP.
  (* a precondition on the bound `next s`, a postcondition on the result and the new bound; both monotone in the bound *)
  Definition np {A} (P : positive -> Prop) (Q : A -> positive -> Prop) (m : M A) : Prop :=
    forall s, ginv s -> P (next s) ->
      match m s with
      | Ok (a, s') => ginv s' /\ next s <= next s' /\ Q a (next s')
      | Panic _ => False
      | _ => True
      end.

  Definition mono (P : positive -> Prop) : Prop := forall n n', n <= n' -> P n -> P n'.

  Lemma np_ret {A} (P : positive -> Prop) (Q : A -> positive -> Prop) a : (forall n, P n -> Q a n) -> np P Q (ret a).
  Proof. intros H s G Hp. cbn. split; [assumption|]. split; [lia|auto]. Qed.

  Lemma np_fail {A} P (Q : A -> positive -> Prop) k sp : np P Q (fail k sp).
  Proof. intros s G Hp. exact I. Qed.

  Lemma np_fail_many {A} P (Q : A -> positive -> Prop) e more : np P Q (fail_many e more).
  Proof. intros s G Hp. exact I. Qed.

  Lemma np_oof {A} P (Q : A -> positive -> Prop) : np P Q out_of_fuel.
  Proof. intros s G Hp. exact I. Qed.

  Lemma np_pre {A} (P P' : positive -> Prop) (Q : A -> positive -> Prop) m : (forall n, P' n -> P n) -> np P Q m -> np P' Q m.
  Proof. intros H L s G Hp. exact (L s G (H _ Hp)). Qed.

  Lemma np_post {A} (P : positive -> Prop) (Q Q' : A -> positive -> Prop) m : (forall a n, Q a n -> Q' a n) -> np P Q m -> np P Q' m.
  Proof. intros H L s G Hp. specialize (L s G Hp). destruct (m s) as [[a s']| | |]; auto. destruct L as (X & Y & Z). auto. Qed.

  Lemma np_bind {A B} (P : positive -> Prop) (Q : A -> positive -> Prop) (Q' : B -> positive -> Prop) (m : M A) (k : A -> M B) :
    mono P -> np P Q m -> (forall a, np (fun n => P n /\ Q a n) Q' (k a)) -> np P Q' (bind m k).
  Proof.
    intros MP Lm Lk s G Hp. unfold bind. specialize (Lm s G Hp). destruct (m s) as [[a s']| | |]; auto.
    destruct Lm as (G' & Hn & Qa). specialize (Lk a s' G' (conj (MP _ _ Hn Hp) Qa)).
    destruct (k a s') as [[b s'']| | |]; auto. destruct Lk as (X & Y & Z). split; [assumption|]. split; [lia|assumption].
  Qed.

  Lemma np_iterM_in {A} (P : positive -> Prop) (f : A -> M unit) l :
    mono P -> (forall x, In x l -> np P (fun _ _ => True) (f x)) -> np P (fun _ _ => True) (iterM f l).
  Proof.
    intros MP. induction l as [|x l IH]; intros H; cbn [iterM]; [apply np_ret; auto|].
    apply (np_bind P (fun _ _ => True)); [assumption|apply H; now left|intros _].
    eapply np_pre; [|apply IH; intros y Hy; apply H; now right]. intros n [Hn _]. exact Hn.
  Qed.

  Lemma np_mapM_in {A B} (P : positive -> Prop) (Q : B -> positive -> Prop) (f : A -> M B) l :
    mono P -> (forall b, mono (Q b)) -> (forall x, In x l -> np P Q (f x)) ->
    np P (fun ys n => Forall (fun y => Q y n) ys) (mapM f l).
  Proof.
    intros MP MQ. induction l as [|x l IH]; intros H; cbn [mapM]; [apply np_ret; intros; constructor|].
    apply (np_bind P Q); [assumption|apply H; now left|intros y].
    apply (np_bind _ (fun ys n => Forall (fun y0 => Q y0 n) ys)).
    - intros n n' Hn [X Y]. split; [eapply MP; eassumption|eapply MQ; eassumption].
    - eapply np_pre; [|apply IH; intros z Hz; apply H; now right]. intros n [Hn _]. exact Hn.
    - intros ys. apply np_ret. intros n [[_ Qy] Qys]. constructor; assumption.
  Qed.

  Lemma np_foldM_in {A B} (P : positive -> Prop) (Q : B -> positive -> Prop) (f : B -> A -> M B) l :
    mono P -> (forall b, mono (Q b)) ->
    (forall b x, In x l -> np (fun n => P n /\ Q b n) Q (f b x)) ->
    forall b, np (fun n => P n /\ Q b n) Q (foldM f l b).
  Proof.
    intros MP MQ. induction l as [|x l IH]; intros H b; cbn [foldM]; [apply np_ret; intros n [_ X]; exact X|].
    apply (np_bind _ Q).
    - intros n n' Hn [X Y]. split; [eapply MP; eassumption|eapply MQ; eassumption].
    - apply H. now left.
    - intros b'. eapply np_pre; [|apply IH; intros b0 y Hy; apply H; now right]. intros n [[X _] Y]. auto.
  Qed.

  (* ---- primitives *)
  Lemma np_get_node i : np (fun n => i < n) (fun nd n => node_ok n nd) (get_node i).
  Proof.
    intros s [D C] Hi. unfold get_node. fold (lk s i). destruct (D i Hi) as [n Hn]. rewrite Hn.
    split; [split; assumption|]. split; [lia|]. exact (C _ _ Hn).
  Qed.

  Lemma np_find a : np (fun n => a < n) (fun r n => r < n) (find a).
  Proof.
    unfold find. apply (np_bind _ (fun nd n => node_ok n nd)); [intros n n' H X; lia|apply np_get_node|intros nd].
    apply np_ret. intros n [_ (_ & _ & X)]. exact X.
  Qed.

  Lemma np_find_node a : np (fun n => a < n) (fun nd n => node_ok n nd) (find_node a).
  Proof.
    unfold find_node. apply (np_bind _ (fun r n => r < n)); [intros n n' H X; lia|apply np_find|intros r].
    eapply np_pre; [|apply np_get_node]. intros n [_ X]. exact X.
  Qed.

  Lemma np_find_type a : np (fun n => a < n) (fun h n => below n (tyh_ids h)) (find_type a).
  Proof.
    unfold find_type. apply (np_bind _ (fun nd n => node_ok n nd)); [intros n n' H X; lia|apply np_find_node|intros nd].
    apply np_ret. intros n [_ (X & _)]. exact X.
  Qed.

  Lemma ginv_put i nd s :
    ginv s -> i < next s -> node_ok (next s) nd -> ginv (put_st i nd s).
  Proof.
    intros [D C] Hi Hn. split.
    - intros j Hj. cbn [put_st next] in Hj. destruct (Pos.eq_dec j i) as [->|N]; [rewrite lk_put_same; eauto|].
      rewrite lk_put_other by assumption. now apply D.
    - intros j m Hj. cbn [put_st next]. destruct (Pos.eq_dec j i) as [->|N].
      + rewrite lk_put_same in Hj. injection Hj as <-. exact Hn.
      + rewrite lk_put_other in Hj by assumption. exact (C _ _ Hj).
  Qed.

  Lemma np_put_node i nd : np (fun n => i < n /\ node_ok n nd) (fun _ _ => True) (put_node i nd).
  Proof.
    intros s G [Hi Hn]. rewrite put_node_eq. split; [now apply ginv_put|]. cbn [put_st next]. split; [lia|exact I].
  Qed.

  Lemma np_push_type t : np (fun n => below n (tyh_ids t)) (fun i n => i < n) (push_type t).
  Proof.
    intros s [D C] Ht. rewrite push_type_eq. cbn [push_st next]. split; [|split; lia]. split.
    - intros j Hj. cbn [push_st next] in Hj. destruct (Pos.eq_dec j (next s)) as [->|N]; [rewrite lk_push_new; eauto|].
      rewrite lk_push_old by assumption. apply D. lia.
    - intros j m Hj. cbn [push_st next]. destruct (Pos.eq_dec j (next s)) as [->|N].
      + rewrite lk_push_new in Hj. injection Hj as <-. repeat split; cbn [nty ncons nrep flat_map].
        * eapply below_mono; [|exact Ht]. lia.
        * constructor.
        * lia.
      + rewrite lk_push_old in Hj by assumption. eapply node_ok_mono; [|exact (C _ _ Hj)]. lia.
  Qed.

  Lemma np_update a (f : node -> node) (P : positive -> Prop) :
    mono P -> (forall n nd, P n -> node_ok n nd -> node_ok n (f nd)) ->
    np (fun n => a < n /\ P n) (fun _ _ => True) (r <- find a ;; n <- get_node r ;; put_node r (f n)).
  Proof.
    intros MP Hf. apply (np_bind _ (fun r n => r < n)).
    - intros n n' H [X Y]. split; [lia|eapply MP; eassumption].
    - eapply np_pre; [|apply np_find]. intros n [X _]. exact X.
    - intros r. apply (np_bind _ (fun nd n => node_ok n nd)).
      + intros n n' H [[X Y] Z]. repeat split; try lia. eapply MP; eassumption.
      + eapply np_pre; [|apply np_get_node]. intros n [_ X]. exact X.
      + intros nd. eapply np_pre; [|apply np_put_node]. intros n [[[_ Pn] Hr] Hnd]. split; [exact Hr|]. now apply Hf.
  Qed.

  Lemma np_set_type a t : np (fun n => a < n /\ below n (tyh_ids t)) (fun _ _ => True) (set_type a t).
  Proof.
    unfold set_type. apply (np_update a (fun n => mkNode t (nrep n) (nsize n) (ncons n)) (fun n => below n (tyh_ids t))).
    - intros n n' H. now apply below_mono.
    - intros n nd Ht (A & B & C). repeat split; assumption.
  Qed.

  Lemma np_set_cons a cs : np (fun n => a < n /\ below n (flat_map constr_ids cs)) (fun _ _ => True) (set_cons a cs).
  Proof.
    unfold set_cons. apply (np_update a (fun n => mkNode (nty n) (nrep n) (nsize n) cs) (fun n => below n (flat_map constr_ids cs))).
    - intros n n' H. now apply below_mono.
    - intros n nd Ht (A & B & C). repeat split; assumption.
  Qed.

  Lemma np_add_constraint a c : np (fun n => a < n /\ below n (constr_ids c)) (fun _ _ => True) (add_constraint a c).
  Proof.
    unfold add_constraint.
    apply (np_update a (fun n => mkNode (nty n) (nrep n) (nsize n) (cinsert c (ncons n))) (fun n => below n (constr_ids c))).
    - intros n n' H. now apply below_mono.
    - intros n nd Ht (A & B & C). repeat split; try assumption. cbn [ncons]. now apply below_cinsert.
  Qed.

  Lemma np_is_void a : np (fun n => a < n) (fun _ _ => True) (is_void a).
  Proof.
    unfold is_void. apply (np_bind _ (fun h n => below n (tyh_ids h))); [intros n n' H X; lia|apply np_find_type|intros h].
    apply np_ret. auto.
  Qed.

  Lemma fold_cinsert_below n : forall l acc,
    below n (flat_map constr_ids l) -> below n (flat_map constr_ids acc) ->
    below n (flat_map constr_ids (fold_left (fun a c => cinsert c a) l acc)).
  Proof.
    induction l as [|c l IH]; intros acc Hl Ha; cbn [fold_left]; [exact Ha|].
    cbn [flat_map] in Hl. apply below_app in Hl as [Hc Hl]. apply IH; [exact Hl|now apply below_cinsert].
  Qed.

  Lemma np_union a b : np (fun n => a < n /\ b < n) (fun _ _ => True) (union a b).
  Proof.
    intros s G [Ha Hb]. unfold union, bind.
    pose proof (np_find a s G Ha) as La. destruct (find a s) as [[ra s1]| | |] eqn:Ea; auto.
    apply find_inv in Ea as [-> Ea]. destruct La as (_ & _ & Hra).
    pose proof (np_find b s G Hb) as Lb. destruct (find b s) as [[rb s2]| | |] eqn:Eb; auto.
    apply find_inv in Eb as [-> Eb]. destruct Lb as (_ & _ & Hrb).
    destruct (Pos.eqb ra rb); [cbn; split; [assumption|split; [lia|exact I]]|].
    pose proof (np_get_node ra s G Hra) as Lna. destruct (get_node ra s) as [[na s3]| | |] eqn:Ena; auto.
    apply get_node_inv in Ena as [-> Ena]. destruct Lna as (_ & _ & Hna).
    pose proof (np_get_node rb s G Hrb) as Lnb. destruct (get_node rb s) as [[nb s4]| | |] eqn:Enb; auto.
    apply get_node_inv in Enb as [-> Enb]. destruct Lnb as (_ & _ & Hnb).
    destruct G as [D C].
    assert (K : forall big small nbig nsmall, big < next s -> node_ok (next s) nbig -> node_ok (next s) nsmall ->
                  ginv (union_st big small nbig nsmall s) /\ next s <= next (union_st big small nbig nsmall s) /\ True).
    { intros big small nbig nsmall Hbig (A1 & A2 & A3) (B1 & B2 & B3). split; [|cbn [union_st next]; split; [lia|exact I]]. split.
      - intros j Hj. cbn [union_st next] in Hj. rewrite lk_union. destruct (Pos.eqb j big); [eauto|].
        destruct (D j Hj) as [x ->]. cbn. eauto.
      - intros j m Hj. cbn [union_st next]. rewrite lk_union in Hj. destruct (Pos.eqb j big).
        + injection Hj as <-. repeat split; cbn [nty ncons nrep]; try assumption. now apply fold_cinsert_below.
        + destruct (lk s j) as [x|] eqn:Ex; [|discriminate]. injection Hj as <-.
          destruct (C _ _ Ex) as (X1 & X2 & X3). unfold moved. destruct (Pos.eqb (nrep x) small); repeat split; assumption. }
    destruct (N.ltb (nsize na) (nsize nb)).
    - exact (K rb ra nb na Hrb Hnb Hna).
    - exact (K ra rb na nb Hra Hna Hnb).
  Qed.
End NP.

(* ------------------------------------------------------------------ the graph-level functions *)

Definition obelow (n : positive) (o : option tyid) : Prop := match o with Some x => x < n | None => True end.

Ltac dcmp := repeat match goal with H : _ /\ _ |- _ => destruct H | H : True |- _ => clear H end.

Ltac sidec :=
  intros; dcmp; cbn [fst snd tyh_ids constr_ids flat_map app field_ids map obelow] in *; unfold below in *;
  repeat match goal with
         | H : Forall _ (_ ++ _) |- _ => apply Forall_app in H; destruct H
         | H : Forall _ (_ :: _) |- _ => apply Forall_cons_iff in H; destruct H
         end;
  repeat match goal with
         | |- _ /\ _ => split
         | |- Forall _ (_ ++ _) => apply Forall_app; split
         | |- Forall _ (_ :: _) => constructor
         | |- Forall _ [] => constructor
         end;
  try lia; try assumption; try exact I; try (eapply Forall_impl; [|eassumption]; intros; lia).

Ltac monoc := let n := fresh "n" in let n' := fresh "n'" in let H := fresh "Hn" in
  intros n n' H ?; cbn [obelow] in *; dcmp; repeat split; try lia; try assumption; try exact I;
  try (eapply below_mono; eassumption); try (eapply Forall_impl; [|eassumption]; intros; dcmp; repeat split; lia).

Definition memo_below (n : positive) (m : copymap) : Prop := Forall (fun p => snd p < n) m.

Lemma memo_below_mono n n' m : n <= n' -> memo_below n m -> memo_below n' m.
Proof. intros H. apply Forall_impl. intros; lia. Qed.

Lemma copy_lookup_below n m a r : memo_below n m -> copy_lookup a m = Some r -> r < n.
Proof.
  induction m as [|[k v] m IH]; intros H L; [discriminate|]. cbn [copy_lookup] in L. inversion H; subst.
  destruct (Pos.eqb k a); [injection L as <-; assumption|auto].
Qed.

Record gnp (R : grec) : Prop := mkGN {
  gn_unify : forall sp a b seen, np (fun n => a < n /\ b < n) (fun r n => fst r < n) (g_unify R sp a b seen);
  gn_check : forall sp a, np (fun n => a < n) (fun _ _ => True) (g_check R sp a);
  gn_arith : forall k sp a b, np (fun n => a < n /\ b < n) (fun _ _ => True) (g_arith R k sp a b);
  gn_div : forall sp a b, np (fun n => a < n /\ b < n) (fun _ _ => True) (g_div R sp a b);
  gn_divres : forall sp a b, np (fun n => a < n /\ b < n) (fun _ _ => True) (g_divres R sp a b);
  gn_copy : forall a m, np (fun n => a < n /\ memo_below n m) (fun r n => fst r < n /\ memo_below n (snd r)) (g_copy R a m);
  gn_neg : forall sp a, np (fun n => a < n) (fun _ _ => True) (g_neg R sp a);
  gn_inside : forall sp u todo seen, np (fun n => below n todo) (fun _ _ => True) (g_inside R sp u todo seen)
}.

Section GN.
  Variable R : grec.
  Hypothesis P : gnp R.

  Lemma np_unify sp a b : np (fun n => a < n /\ b < n) (fun r n => r < n) (unify R sp a b).
  Proof.
    unfold unify. apply (np_bind _ (fun r n => fst r < n)); [monoc|apply (gn_unify R P)|intros r]. apply np_ret. sidec.
  Qed.

  Lemma np_unify_option sp a b : np (fun n => obelow n a /\ obelow n b) (fun r n => obelow n r) (unify_option R sp a b).
  Proof.
    unfold unify_option. destruct a as [a|], b as [b|]; try (apply np_ret; cbn; sidec).
    apply (np_bind _ (fun r n => r < n)); [monoc|eapply np_pre; [|apply np_unify]; cbn; sidec|intros r]. apply np_ret. cbn. sidec.
  Qed.

  Lemma np_unify2 sp : forall xs ys seen, np (fun n => below n xs /\ below n ys) (fun _ _ => True) (unify2 R sp xs ys seen).
  Proof.
    induction xs as [|x xs IH]; intros [|y ys] seen; cbn [unify2]; try (apply np_ret; auto).
    apply (np_bind _ (fun r n => fst r < n)); [monoc|eapply np_pre; [|apply (gn_unify R P)]; sidec|intros r].
    eapply np_pre; [|apply IH]. sidec.
  Qed.

  Lemma np_unify_fields sp missing a_fields : forall b_fields seen,
    np (fun n => below n (field_ids a_fields) /\ below n (field_ids b_fields)) (fun _ _ => True)
       (unify_fields R sp missing a_fields b_fields seen).
  Proof.
    induction b_fields as [|[k [bsp b_ty]] rest IH]; intros seen; cbn [unify_fields]; [apply np_ret; auto|].
    destruct (flookup k a_fields) as [[asp a_ty]|] eqn:E; [|apply np_fail].
    assert (Ha : forall n, below n (field_ids a_fields) -> a_ty < n).
    { intros n Hn. unfold below, field_ids in Hn. rewrite Forall_forall in Hn. apply Hn.
      clear - E. induction a_fields as [|[k' [s' t']] l IHl]; [discriminate|]. cbn [flookup map] in *.
      destruct (String.eqb k k'); [injection E as _ <-; now left|right; auto]. }
    apply (np_bind _ (fun r n => fst r < n)); [monoc|eapply np_pre; [|apply (gn_unify R P)]|intros r].
    - intros n [X Y]. split; [now apply Ha|]. cbn [field_ids map snd] in Y. inversion Y; assumption.
    - eapply np_pre; [|apply IH]. intros n [[X Y] _]. split; [assumption|]. cbn [field_ids map] in Y. inversion Y; assumption.
  Qed.

  Lemma np_inside_body sp u todo seen : np (fun n => below n todo) (fun _ _ => True) (inside_body R sp u todo seen).
  Proof.
    unfold inside_body. destruct todo as [|ty todo]; [apply np_ret; auto|].
    apply (np_bind _ (fun r n => r < n)); [monoc|eapply np_pre; [|apply np_find]; sidec|intros r].
    destruct (existsb (Pos.eqb r) seen); [eapply np_pre; [|apply (gn_inside R P)]; sidec|].
    apply (np_bind _ (fun h n => below n (tyh_ids h))); [monoc|eapply np_pre; [|apply np_find_type]; sidec|intros h].
    destruct h; try (eapply np_pre; [|apply (gn_inside R P)]; sidec).
    apply (np_bind _ (fun _ _ => True)).
    - monoc.
    - eapply np_pre; [|eapply np_post; [|apply (np_mapM_in (fun n => below n (rev ts ++ todo)) (fun r n => r < n))]].
      + sidec. apply Forall_rev. assumption.
      + auto.
      + monoc.
      + intros b; monoc.
      + intros x Hx. eapply np_pre; [|apply np_find]. intros n Hn. unfold below in Hn. rewrite Forall_forall in Hn. now apply Hn.
    - intros reps. match goal with |- context [if ?c then _ else _] => destruct c end; [apply np_fail|].
      eapply np_pre; [|apply (gn_inside R P)]. sidec. apply Forall_rev. assumption.
  Qed.
  Lemma np_check_not_inside sp u ty : np (fun n => u < n /\ ty < n) (fun _ _ => True) (check_not_inside R sp u ty).
  Proof.
    unfold check_not_inside. apply (np_bind _ (fun r n => r < n)); [monoc|eapply np_pre; [|apply np_find]; sidec|intros r].
    eapply np_pre; [|apply (gn_inside R P)]. sidec.
  Qed.

  Ltac bnd Q := apply (np_bind _ Q); [monoc| |intros ?].

  Lemma np_unify_body sp a b seen : np (fun n => a < n /\ b < n) (fun r n => fst r < n) (unify_body R sp a b seen).
  Proof.
    unfold unify_body.
    apply (np_bind _ (fun r n => r < n)); [monoc|eapply np_pre; [|apply np_find]; sidec|intros ra].
    apply (np_bind _ (fun r n => r < n)); [monoc|eapply np_pre; [|apply np_find]; sidec|intros rb].
    destruct (Pos.eqb ra rb || seen_mem ra rb seen); [apply np_ret; sidec|].
    apply (np_bind _ (fun h n => below n (tyh_ids h))); [monoc|eapply np_pre; [|apply np_find_type]; sidec|intros ta].
    apply (np_bind _ (fun h n => below n (tyh_ids h))); [monoc|eapply np_pre; [|apply np_find_type]; sidec|intros tb].
    set (PP := fun n : positive => ((((a < n /\ b < n) /\ ra < n) /\ rb < n) /\ below n (tyh_ids ta)) /\ below n (tyh_ids tb)).
    assert (MPP : mono PP) by (unfold PP; monoc).
    apply (np_bind PP (fun _ _ => True)); [exact MPP| |intros seen'].
    2:{ apply (np_bind _ (fun _ _ => True)); [monoc; apply MPP with (n := n); assumption
                                              |eapply np_pre; [|apply np_union]; unfold PP; sidec|intros _].
        apply (np_bind _ (fun _ _ => True)); [monoc; apply MPP with (n := n); assumption
                                              |eapply np_pre; [|apply (gn_check R P)]; unfold PP; sidec|intros _].
        apply np_ret. unfold PP. sidec. }
    assert (U1 : np PP (fun _ _ => True) (check_not_inside R sp rb ra ;;; set_type rb ta ;;; ret ((rb, ra) :: (ra, rb) :: seen))).
    { apply (np_bind _ (fun _ _ => True)); [exact MPP|eapply np_pre; [|apply np_check_not_inside]; unfold PP; sidec|intros _].
      apply (np_bind _ (fun _ _ => True)); [monoc; apply MPP with (n := n); assumption
                                            |eapply np_pre; [|apply np_set_type]; unfold PP; sidec|intros _].
      apply np_ret. auto. }
    assert (U2 : np PP (fun _ _ => True) (check_not_inside R sp ra rb ;;; set_type ra tb ;;; ret ((rb, ra) :: (ra, rb) :: seen))).
    { apply (np_bind _ (fun _ _ => True)); [exact MPP|eapply np_pre; [|apply np_check_not_inside]; unfold PP; sidec|intros _].
      apply (np_bind _ (fun _ _ => True)); [monoc; apply MPP with (n := n); assumption
                                            |eapply np_pre; [|apply np_set_type]; unfold PP; sidec|intros _].
      apply np_ret. auto. }
    destruct ta, tb; try exact U1; try exact U2; try (apply np_ret; auto); try apply np_fail.
    - destruct (negb (Nat.eqb (length ts) (length ts0))); [apply np_fail|]. eapply np_pre; [|apply np_unify2]. unfold PP. sidec.
    - apply (np_bind _ (fun r n => fst r < n)); [exact MPP|eapply np_pre; [|apply (gn_unify R P)]; unfold PP; sidec|intros r0].
      apply np_ret. auto.
    - destruct (negb (purity_compatible p p0)); [apply np_fail|].
      destruct (negb (Nat.eqb (length params) (length params0))); [apply np_fail|].
      apply (np_bind _ (fun _ _ => True)); [exact MPP|eapply np_pre; [|apply np_unify2]; unfold PP; sidec|intros seen1].
      apply (np_bind _ (fun r n => fst r < n)); [monoc; apply MPP with (n := n); assumption
                                                 |eapply np_pre; [|apply (gn_unify R P)]; unfold PP; sidec|intros r0].
      apply np_ret. auto.
    - destruct (existsb (fun kv => negb (fmem (fst kv) fields0)) fields); [apply np_fail|].
      eapply np_pre; [|apply np_unify_fields]. unfold PP. sidec.
    - destruct (N.eqb id id0); [|apply np_fail]. eapply np_pre; [|apply np_unify2]. unfold PP. sidec.
    - destruct (existsb (fun kv => negb (fmem (fst kv) variants0)) variants); [apply np_fail|].
      eapply np_pre; [|apply np_unify_fields]. unfold PP. sidec.
  Qed.

  Lemma np_iter2 (f : tyid -> tyid -> M unit) :
    (forall x y, np (fun n => x < n /\ y < n) (fun _ _ => True) (f x y)) ->
    forall xs ys, np (fun n => below n xs /\ below n ys) (fun _ _ => True) (iter2 f xs ys).
  Proof.
    intros H. induction xs as [|x xs IH]; intros [|y ys]; cbn [iter2]; try (apply np_ret; auto).
    apply (np_bind _ (fun _ _ => True)); [monoc|eapply np_pre; [|apply H]; sidec|intros _].
    eapply np_pre; [|apply IH]. sidec.
  Qed.

  Lemma np_arith_body k sp a b : np (fun n => a < n /\ b < n) (fun _ _ => True) (arith_body R k sp a b).
  Proof.
    unfold arith_body.
    apply (np_bind _ (fun h n => below n (tyh_ids h))); [monoc|eapply np_pre; [|apply np_find_type]; sidec|intros ta].
    apply (np_bind _ (fun h n => below n (tyh_ids h))); [monoc|eapply np_pre; [|apply np_find_type]; sidec|intros tb].
    destruct (is_unknown ta || is_unknown tb).
    { apply (np_bind _ (fun _ _ => True)); [monoc|eapply np_pre; [|apply np_add_constraint]; destruct k; cbn [arith_constr]; sidec|intros _].
      eapply np_pre; [|apply np_add_constraint]. destruct k; cbn [arith_constr]; sidec. }
    destruct (arith_base_ok k ta tb); [apply np_ret; auto|].
    destruct ta; try apply np_fail. destruct tb; try apply np_fail.
    destruct (Nat.eqb (length ts) (length ts0)); [|apply np_fail].
    eapply np_pre; [|apply np_iter2; intros; apply (gn_arith R P)]. sidec.
  Qed.

  Lemma np_div_body sp a b : np (fun n => a < n /\ b < n) (fun _ _ => True) (div_body R sp a b).
  Proof.
    unfold div_body.
    apply (np_bind _ (fun h n => below n (tyh_ids h))); [monoc|eapply np_pre; [|apply np_find_type]; sidec|intros ta].
    apply (np_bind _ (fun h n => below n (tyh_ids h))); [monoc|eapply np_pre; [|apply np_find_type]; sidec|intros tb].
    destruct (is_unknown ta || is_unknown tb).
    { apply (np_bind _ (fun _ _ => True)); [monoc|eapply np_pre; [|apply np_add_constraint]; sidec|intros _].
      eapply np_pre; [|apply np_add_constraint]. sidec. }
    destruct (is_num ta && is_num tb); [apply np_ret; auto|].
    destruct ta; try apply np_fail.
    destruct (is_num tb).
    { eapply np_pre; [|apply (np_iterM_in (fun n => below n ts /\ b < n))]; [sidec|monoc|].
      intros x Hx. eapply np_pre; [|apply (gn_div R P)]. intros n [Hn Hb]. split; [|exact Hb].
      unfold below in Hn. rewrite Forall_forall in Hn. now apply Hn. }
    destruct tb; try apply np_fail.
    destruct (Nat.eqb (length ts) (length ts0)); [|apply np_fail].
    eapply np_pre; [|apply np_iter2; intros; apply (gn_div R P)]. sidec.
  Qed.

  Lemma np_divres_body sp a b : np (fun n => a < n /\ b < n) (fun _ _ => True) (divres_body R sp a b).
  Proof.
    unfold divres_body.
    apply (np_bind _ (fun h n => below n (tyh_ids h))); [monoc|eapply np_pre; [|apply np_find_type]; sidec|intros ta].
    apply (np_bind _ (fun h n => below n (tyh_ids h))); [monoc|eapply np_pre; [|apply np_find_type]; sidec|intros tb].
    destruct (is_num ta && match tb with HFloat => true | _ => false end); [apply np_ret; auto|].
    destruct (is_unknown ta); [apply np_ret; auto|].
    destruct (is_num ta).
    { apply (np_bind _ (fun i n => i < n)); [monoc|eapply np_pre; [|apply np_push_type]; sidec|intros fl].
      apply (np_bind _ (fun _ _ => True)); [monoc|eapply np_post; [|eapply np_pre; [|apply np_unify]]; [auto|sidec]|intros _].
      apply np_ret. auto. }
    destruct ta; try apply np_fail. destruct tb; try apply np_fail.
    - apply (np_bind _ (fun _ _ => True)); [monoc|eapply np_pre; [|apply np_check_not_inside]; sidec|intros _].
      apply (np_bind _ (fun ys n => Forall (fun y => y < n) ys)); [monoc| |intros tys].
      { eapply np_pre; [|apply (np_mapM_in (fun _ => True) (fun i n => i < n))].
        - intros; exact I.
        - intros n n' _ _; exact I.
        - intros b0; monoc.
        - intros x _. eapply np_pre; [|apply np_push_type]. sidec. }
      apply (np_bind _ (fun i n => i < n)); [monoc|eapply np_pre; [|apply np_push_type]; sidec|intros tup].
      apply (np_bind _ (fun _ _ => True)); [monoc|eapply np_post; [|eapply np_pre; [|apply np_unify]]; [auto|sidec]|intros _].
      eapply np_pre; [|apply (gn_divres R P)]. sidec.
    - destruct (Nat.eqb (length ts) (length ts0)); [|apply np_fail].
      eapply np_pre; [|apply np_iter2; intros; apply (gn_divres R P)]. sidec.
  Qed.

  Lemma np_neg_body sp a : np (fun n => a < n) (fun _ _ => True) (neg_body R sp a).
  Proof.
    unfold neg_body.
    apply (np_bind _ (fun h n => below n (tyh_ids h))); [monoc|apply np_find_type|intros t].
    destruct t; try apply np_fail; try (apply np_ret; auto).
    - eapply np_pre; [|apply np_add_constraint]. sidec.
    - eapply np_pre; [|apply (np_iterM_in (fun n => below n ts))]; [sidec|monoc|].
      intros x Hx. eapply np_pre; [|apply (gn_neg R P)]. intros n Hn. unfold below in Hn. rewrite Forall_forall in Hn. now apply Hn.
  Qed.

  Lemma nth_below n l i x : below n l -> nth_error l i = Some x -> x < n.
  Proof. intros H E. unfold below in H. rewrite Forall_forall in H. apply H. eapply nth_error_In; eassumption. Qed.

  Lemma np_constant_index sp a i r : np (fun n => a < n /\ r < n) (fun _ _ => True) (constant_index R sp a i r).
  Proof.
    unfold constant_index.
    apply (np_bind _ (fun h n => below n (tyh_ids h))); [monoc|eapply np_pre; [|apply np_find_type]; sidec|intros t].
    destruct t; try apply np_fail; try (apply np_ret; auto).
    destruct (if Z.ltb i 0 then None else nth_error ts (Z.to_nat i)) as [y|] eqn:E; [|apply np_fail].
    apply (np_bind _ (fun _ _ => True)); [monoc| |intros _; apply np_ret; auto].
    eapply np_post; [|eapply np_pre; [|apply np_unify]]; [auto|].
    intros n [[_ Hr] Ht]. split; [|exact Hr]. destruct (Z.ltb i 0); [discriminate|]. eapply nth_below; [exact Ht|exact E].
  Qed.

  Lemma flookup_below n fs k sp t : below n (field_ids fs) -> flookup k fs = Some (sp, t) -> t < n.
  Proof.
    intros H E. unfold below, field_ids in H. rewrite Forall_forall in H. apply H.
    clear - E. induction fs as [|[k' [s' t']] l IHl]; [discriminate|]. cbn [flookup map] in *.
    destruct (String.eqb k k'); [injection E as _ <-; now left|right; auto].
  Qed.

  Lemma np_check_one sp a c : np (fun n => a < n /\ below n (constr_ids c)) (fun _ _ => True) (check_one R sp a c).
  Proof.
    unfold check_one.
    destruct c; try (eapply np_pre; [|apply (gn_arith R P)]; sidec); try (eapply np_pre; [|apply (gn_div R P)]; sidec);
      try (eapply np_pre; [|apply (gn_divres R P)]; sidec); try (eapply np_pre; [|apply (gn_neg R P)]; sidec);
      try (eapply np_pre; [|apply np_constant_index]; sidec).
    - (* CEqu *)
      apply (np_bind _ (fun _ _ => True)); [monoc|eapply np_post; [|eapply np_pre; [|apply np_unify]]; [auto|sidec]|intros _].
      apply np_ret. auto.
    - (* CCmpEqu *)
      apply (np_bind _ (fun _ _ => True)); [monoc|eapply np_post; [|eapply np_pre; [|apply np_unify]]; [auto|sidec]|intros _].
      eapply np_pre; [|apply (gn_arith R P)]. sidec.
    - (* CField *)
      apply (np_bind _ (fun h n => below n (tyh_ids h))); [monoc|eapply np_pre; [|apply np_find_type]; sidec|intros h].
      destruct h; try apply np_fail; try (apply np_ret; auto).
      + destruct (flookup f fields) as [[fsp actual]|] eqn:E; [|apply np_fail].
        apply (np_bind _ (fun _ _ => True)); [monoc| |intros _; apply np_ret; auto].
        eapply np_post; [|eapply np_pre; [|apply np_unify]]; [auto|].
        intros n [[_ Ht] Hh]. cbn [constr_ids] in Ht. inversion Ht; subst. split; [assumption|].
        cbn [tyh_ids] in Hh. apply below_app in Hh as [Hf _]. eapply flookup_below; eassumption.
      + destruct (flookup f fields) as [[fsp actual]|] eqn:E; [|apply np_fail].
        apply (np_bind _ (fun _ _ => True)); [monoc| |intros _; apply np_ret; auto].
        eapply np_post; [|eapply np_pre; [|apply np_unify]]; [auto|].
        intros n [[_ Ht] Hh]. cbn [constr_ids] in Ht. inversion Ht; subst. split; [assumption|].
        cbn [tyh_ids] in Hh. apply below_app in Hh as [Hf _]. eapply flookup_below; eassumption.
    - (* CNum *)
      apply (np_bind _ (fun h n => below n (tyh_ids h))); [monoc|eapply np_pre; [|apply np_find_type]; sidec|intros h].
      destruct h; try apply np_fail; apply np_ret; auto.
    - (* CEnum *)
      apply (np_bind _ (fun h n => below n (tyh_ids h))); [monoc|eapply np_pre; [|apply np_find_type]; sidec|intros h].
      destruct h; try apply np_fail; apply np_ret; auto.
    - (* CVariant *)
      apply (np_bind _ (fun h n => below n (tyh_ids h))); [monoc|eapply np_pre; [|apply np_find_type]; sidec|intros h].
      destruct h; try apply np_fail; try (apply np_ret; auto).
      destruct (flookup v variants) as [[vsp va]|] eqn:E; [|apply np_fail].
      destruct t as [vb|]; [|apply np_ret; auto].
      apply (np_bind _ (fun _ _ => True)); [monoc| |intros _; apply np_ret; auto].
      eapply np_post; [|eapply np_pre; [|apply np_unify]]; [auto|].
      intros n [[_ Ht] Hh]. cbn [constr_ids] in Ht. inversion Ht; subst. split; [|assumption].
      cbn [tyh_ids] in Hh. apply below_app in Hh as [Hf _]. eapply flookup_below; eassumption.
    - (* CTotalEnum *)
      apply (np_bind _ (fun h n => below n (tyh_ids h))); [monoc|eapply np_pre; [|apply np_find_type]; sidec|intros h].
      destruct h; try apply np_fail; try (apply np_ret; auto).
      destruct (existsb (fun v => negb (fmem v variants)) vs); [apply np_fail|].
      destruct (existsb (fun kv => negb (smem (fst kv) vs)) variants); [apply np_fail|apply np_ret; auto].
    - (* CVariable *)
      apply (np_bind _ (fun h n => below n (tyh_ids h))); [monoc|eapply np_pre; [|apply np_find_type]; sidec|intros h].
      destruct h; try apply np_fail; apply np_ret; auto.
  Qed.

  Lemma np_check_body sp a : np (fun n => a < n) (fun _ _ => True) (check_body R sp a).
  Proof.
    unfold check_body.
    apply (np_bind _ (fun nd n => node_ok n nd)); [monoc|apply np_find_node|intros nd].
    eapply np_pre; [|apply (np_iterM_in (fun n => a < n /\ below n (flat_map constr_ids (ncons nd))))].
    - intros n [Ha (_ & Hc & _)]. auto.
    - monoc.
    - intros c Hc. eapply np_pre; [|apply np_check_one]. intros n [Ha Hn]. split; [assumption|].
      unfold below in *. rewrite Forall_forall in *. intros j Hj. apply Hn. apply in_flat_map. eauto.
  Qed.
End GN.

Section GNCopy.
  Variable R : grec.
  Hypothesis P : gnp R.

  Lemma np_copy_constr c m :
    np (fun n => below n (constr_ids c) /\ memo_below n m)
       (fun r n => below n (constr_ids (fst r)) /\ memo_below n (snd r)) (copy_constr R c m).
  Proof.
    assert (T : forall (k : tyid -> constr) x, (forall y, constr_ids (k y) = [y]) ->
               np (fun n => x < n /\ memo_below n m) (fun r n => below n (constr_ids (fst r)) /\ memo_below n (snd r))
                  (r <- g_copy R x m ;; ret (k (fst r), snd r))).
    { intros k x Hk. apply (np_bind _ (fun r n => fst r < n /\ memo_below n (snd r)));
        [intros n n' Hn [X Y]; split; [lia|eapply memo_below_mono; eassumption]|apply (gn_copy R P)|intros r].
      apply np_ret. intros n [_ [X Y]]. cbn [fst snd]. rewrite Hk. split; [constructor; [assumption|constructor]|assumption]. }
    unfold copy_constr.
    destruct c; try (eapply np_pre; [|apply T; reflexivity]; intros n [X Y]; inversion X; auto);
      try (apply np_ret; intros n [X Y]; auto).
    destruct t; [|apply np_ret; intros n [X Y]; auto].
    eapply np_pre; [|apply (T (fun t0 => CVariant v (Some t0))); reflexivity]. intros n [X Y]. inversion X; auto.
  Qed.

  Lemma np_copy_list : forall l m,
    np (fun n => below n l /\ memo_below n m) (fun r n => below n (fst r) /\ memo_below n (snd r)) (copy_list R l m).
  Proof.
    induction l as [|x xs IH]; intros m; cbn [copy_list]; [apply np_ret; intros n [X Y]; auto|].
    apply (np_bind _ (fun r n => fst r < n /\ memo_below n (snd r))).
    - intros n n' Hn [X Y]. split; [eapply below_mono; eassumption|eapply memo_below_mono; eassumption].
    - eapply np_pre; [|apply (gn_copy R P)]. intros n [X Y]. inversion X; auto.
    - intros r. apply (np_bind _ (fun rs n => below n (fst rs) /\ memo_below n (snd rs))).
      + intros n n' Hn [[X Y] [Z U]]. repeat split; try lia; try (eapply below_mono; eassumption); eapply memo_below_mono; eassumption.
      + eapply np_pre; [|apply IH]. intros n [[X Y] [Z U]]. inversion X; auto.
      + intros rs. apply np_ret. intros n [[_ [Z _]] [V U]]. cbn [fst snd]. split; [constructor; assumption|assumption].
  Qed.

  Lemma np_copy_fields : forall l m,
    np (fun n => below n (field_ids l) /\ memo_below n m)
       (fun r n => below n (field_ids (fst r)) /\ memo_below n (snd r)) (copy_fields R l m).
  Proof.
    induction l as [|[k [sp x]] xs IH]; intros m; cbn [copy_fields]; [apply np_ret; intros n [X Y]; auto|].
    apply (np_bind _ (fun r n => fst r < n /\ memo_below n (snd r))).
    - intros n n' Hn [X Y]. split; [eapply below_mono; eassumption|eapply memo_below_mono; eassumption].
    - eapply np_pre; [|apply (gn_copy R P)]. intros n [X Y]. cbn [field_ids map snd] in X. inversion X; auto.
    - intros r. apply (np_bind _ (fun rs n => below n (field_ids (fst rs)) /\ memo_below n (snd rs))).
      + intros n n' Hn [[X Y] [Z U]]. repeat split; try lia; try (eapply below_mono; eassumption); eapply memo_below_mono; eassumption.
      + eapply np_pre; [|apply IH]. intros n [[X Y] [Z U]]. cbn [field_ids map snd] in X. inversion X; auto.
      + intros rs. apply np_ret. intros n [[_ [Z _]] [V U]]. cbn [fst snd field_ids map]. split; [constructor; assumption|assumption].
  Qed.

  Lemma np_copy_ty t m :
    np (fun n => below n (tyh_ids t) /\ memo_below n m) (fun r n => below n (tyh_ids (fst r)) /\ memo_below n (snd r)) (copy_ty R t m).
  Proof.
    unfold copy_ty. destruct t; try (apply np_ret; intros n [X Y]; auto).
    - apply (np_bind _ (fun rs n => below n (fst rs) /\ memo_below n (snd rs)));
        [intros n n' Hn [X Y]; split; [eapply below_mono; eassumption|eapply memo_below_mono; eassumption]|apply np_copy_list|intros r].
      apply np_ret. intros n [_ X]. exact X.
    - apply (np_bind _ (fun r n => fst r < n /\ memo_below n (snd r)));
        [intros n n' Hn [X Y]; split; [eapply below_mono; eassumption|eapply memo_below_mono; eassumption]| |intros r].
      + eapply np_pre; [|apply (gn_copy R P)]. intros n [X Y]. cbn [tyh_ids] in X. inversion X; auto.
      + apply np_ret. intros n [_ [X Y]]. cbn [fst snd tyh_ids]. split; [constructor; [assumption|constructor]|assumption].
    - apply (np_bind _ (fun rs n => below n (fst rs) /\ memo_below n (snd rs)));
        [intros n n' Hn [X Y]; split; [eapply below_mono; eassumption|eapply memo_below_mono; eassumption]| |intros ra].
      + eapply np_pre; [|apply np_copy_list]. intros n [X Y]. cbn [tyh_ids] in X. inversion X; auto.
      + apply (np_bind _ (fun r n => fst r < n /\ memo_below n (snd r))).
        * intros n n' Hn [[X Y] [Z U]]. repeat split; try (eapply below_mono; eassumption); eapply memo_below_mono; eassumption.
        * eapply np_pre; [|apply (gn_copy R P)]. intros n [[X Y] [Z U]]. cbn [tyh_ids] in X. inversion X; auto.
        * intros rr. apply np_ret. intros n [[_ [Z _]] [V U]]. cbn [fst snd tyh_ids]. split; [constructor; assumption|assumption].
    - apply (np_bind _ (fun rs n => below n (field_ids (fst rs)) /\ memo_below n (snd rs)));
        [intros n n' Hn [X Y]; split; [eapply below_mono; eassumption|eapply memo_below_mono; eassumption]| |intros rf].
      + eapply np_pre; [|apply np_copy_fields]. intros n [X Y]. cbn [tyh_ids] in X. apply below_app in X as [X1 X2]. auto.
      + apply (np_bind _ (fun rs n => below n (fst rs) /\ memo_below n (snd rs))).
        * intros n n' Hn [[X Y] [Z U]]. repeat split; try (eapply below_mono; eassumption); eapply memo_below_mono; eassumption.
        * eapply np_pre; [|apply np_copy_list]. intros n [[X Y] [Z U]]. cbn [tyh_ids] in X. apply below_app in X as [X1 X2]. auto.
        * intros ra. apply np_ret. intros n [[_ [Z _]] [V U]]. cbn [fst snd tyh_ids]. split; [apply below_app; auto|assumption].
    - apply (np_bind _ (fun rs n => below n (field_ids (fst rs)) /\ memo_below n (snd rs)));
        [intros n n' Hn [X Y]; split; [eapply below_mono; eassumption|eapply memo_below_mono; eassumption]| |intros rf].
      + eapply np_pre; [|apply np_copy_fields]. intros n [X Y]. cbn [tyh_ids] in X. apply below_app in X as [X1 X2]. auto.
      + apply (np_bind _ (fun rs n => below n (fst rs) /\ memo_below n (snd rs))).
        * intros n n' Hn [[X Y] [Z U]]. repeat split; try (eapply below_mono; eassumption); eapply memo_below_mono; eassumption.
        * eapply np_pre; [|apply np_copy_list]. intros n [[X Y] [Z U]]. cbn [tyh_ids] in X. apply below_app in X as [X1 X2]. auto.
        * intros ra. apply np_ret. intros n [[_ [Z _]] [V U]]. cbn [fst snd tyh_ids]. split; [apply below_app; auto|assumption].
    - apply (np_bind _ (fun rs n => below n (field_ids (fst rs)) /\ memo_below n (snd rs)));
        [intros n n' Hn [X Y]; split; [eapply below_mono; eassumption|eapply memo_below_mono; eassumption]| |intros rf].
      + eapply np_pre; [|apply np_copy_fields]. intros n [X Y]. cbn [tyh_ids] in X. apply below_app in X as [X1 X2]. auto.
      + apply (np_bind _ (fun rs n => below n (fst rs) /\ memo_below n (snd rs))).
        * intros n n' Hn [[X Y] [Z U]]. repeat split; try (eapply below_mono; eassumption); eapply memo_below_mono; eassumption.
        * eapply np_pre; [|apply np_copy_list]. intros n [[X Y] [Z U]]. cbn [tyh_ids] in X. apply below_app in X as [X1 X2]. auto.
        * intros ra. apply np_ret. intros n [[_ [Z _]] [V U]]. cbn [fst snd tyh_ids]. split; [apply below_app; auto|assumption].
  Qed.

  Lemma np_copy_body old m :
    np (fun n => old < n /\ memo_below n m) (fun r n => fst r < n /\ memo_below n (snd r)) (copy_body R old m).
  Proof.
    unfold copy_body.
    apply (np_bind _ (fun r n => r < n)); [intros n n' Hn [X Y]; split; [lia|eapply memo_below_mono; eassumption]
                                          |eapply np_pre; [|apply np_find]; intros n [X _]; exact X|intros ro].
    destruct (copy_lookup ro m) as [r0|] eqn:L.
    { apply np_ret. intros n [[_ Y] _]. cbn [fst snd]. split; [eapply copy_lookup_below; eassumption|assumption]. }
    set (P0 := fun n : positive => (old < n /\ memo_below n m) /\ ro < n).
    assert (M0 : mono P0) by (unfold P0; intros n n' Hn [[X Y] Z]; repeat split; try lia; eapply memo_below_mono; eassumption).
    apply (np_bind P0 (fun i n => i < n)); [exact M0|eapply np_pre; [|apply np_push_type]; intros; constructor|intros new].
    set (P1 := fun n : positive => P0 n /\ new < n).
    assert (M1 : mono P1) by (unfold P1; intros n n' Hn [X Y]; split; [eapply M0; eassumption|lia]).
    apply (np_bind P1 (fun h n => below n (tyh_ids h))); [exact M1|eapply np_pre; [|apply np_find_type]; unfold P1, P0; intros n [[[_ _] X] _]; exact X|intros tb].
    destruct (is_basic tb).
    { apply (np_bind _ (fun _ _ => True)).
      - intros n n' Hn [X Y]. split; [eapply M1; eassumption|eapply below_mono; eassumption].
      - eapply np_pre; [|apply np_set_type]. unfold P1. intros n H. dcmp. auto.
      - intros _. apply np_ret. unfold P1, P0. intros n H. dcmp. cbn [fst snd]. split; [assumption|].
        constructor; [cbn [snd]; assumption|assumption]. }
    eapply np_pre; [intros n X; exact (proj1 X)|].
    apply (np_bind P1 (fun nd n => node_ok n nd)); [exact M1|eapply np_pre; [|apply np_find_node]; unfold P1, P0; intros n [[[_ _] X] _]; exact X|intros nd].
    set (P2 := fun n : positive => P1 n /\ node_ok n nd).
    assert (M2 : mono P2) by (unfold P2; intros n n' Hn [X Y]; split; [eapply M1; eassumption|eapply node_ok_mono; eassumption]).
    apply (np_bind P2 (fun (r : list constr * copymap) n => below n (flat_map constr_ids (fst r)) /\ memo_below n (snd r))); [exact M2| |intros [cs m2]].
    { eapply np_pre; [|apply (np_foldM_in P2 (fun (r : list constr * copymap) n => below n (flat_map constr_ids (fst r)) /\ memo_below n (snd r)))].
      - intros n H2. split; [exact H2|]. cbn [fst snd flat_map]. split; [constructor|]. unfold P2, P1, P0 in H2. dcmp.
        constructor; [cbn [snd]; assumption|assumption].
      - exact M2.
      - intros b n n' Hn [X Y]. split; [eapply below_mono; eassumption|eapply memo_below_mono; eassumption].
      - intros b c Hc. apply (np_bind _ (fun r n => below n (constr_ids (fst r)) /\ memo_below n (snd r))).
        + intros n n' Hn [X [Y Z]]. split; [eapply M2; eassumption|]. split; [eapply below_mono; eassumption|eapply memo_below_mono; eassumption].
        + eapply np_pre; [|apply np_copy_constr]. intros n [H2 [_ Hm]]. split; [|exact Hm].
          unfold P2 in H2. destruct H2 as [_ (_ & Hcs & _)]. unfold below in *. rewrite Forall_forall in *. intros j Hj. apply Hcs.
          apply in_flat_map. eauto.
        + intros r. apply np_ret. intros n [[_ [Hb _]] [Hr Hm]]. cbn [fst snd]. split; [now apply below_cinsert|assumption]. }
    cbn [fst snd].
    set (P3 := fun n : positive => P2 n /\ (below n (flat_map constr_ids cs) /\ memo_below n m2)).
    assert (M3 : mono P3).
    { unfold P3. intros n n' Hn [X [Y Z]]. split; [eapply M2; eassumption|]. split; [eapply below_mono; eassumption|eapply memo_below_mono; eassumption]. }
    apply (np_bind P3 (fun _ _ => True)); [exact M3|eapply np_pre; [|apply np_set_cons]; unfold P3, P2, P1; intros n H; dcmp; auto|intros _].
    apply (np_bind _ (fun h n => below n (tyh_ids h))).
    - intros n n' Hn [X _]. split; [eapply M3; eassumption|exact I].
    - eapply np_pre; [|apply np_find_type]. unfold P3, P2, P1, P0. intros n H. dcmp. assumption.
    - intros t. apply (np_bind _ (fun r n => below n (tyh_ids (fst r)) /\ memo_below n (snd r))).
      + intros n n' Hn [[X _] Y]. split; [split; [eapply M3; eassumption|exact I]|eapply below_mono; eassumption].
      + eapply np_pre; [|apply np_copy_ty]. unfold P3. intros n H. dcmp. auto.
      + intros [t' m3]. cbn [fst snd].
        apply (np_bind _ (fun _ _ => True)).
        * intros n n' Hn [[[X _] Y] [Z U]].
          split; [split; [split; [eapply M3; eassumption|exact I]|eapply below_mono; eassumption]|].
          split; [eapply below_mono; eassumption|eapply memo_below_mono; eassumption].
        * eapply np_pre; [|apply np_set_type]. unfold P3, P2, P1. intros n H. dcmp. auto.
        * intros _. apply np_ret. unfold P3, P2, P1. intros n H. dcmp. cbn [fst snd]. auto.
  Qed.

  Lemma gnp_step : gnp (gstep R).
  Proof.
    constructor; cbn [gstep g_unify g_check g_arith g_div g_divres g_copy g_neg g_inside]; intros.
    - now apply np_unify_body.
    - now apply np_check_body.
    - now apply np_arith_body.
    - now apply np_div_body.
    - now apply np_divres_body.
    - now apply np_copy_body.
    - now apply np_neg_body.
    - now apply np_inside_body.
  Qed.
End GNCopy.

Theorem gfix_np : forall g, gnp (gfix g).
Proof.
  induction g as [|g IH]; cbn [gfix].
  - constructor; intros; apply np_oof.
  - now apply gnp_step.
Qed.

(* ------------------------------------------------------------------ the condition on the resolved program *)

Section OK.
  Variable kinds : PositiveMap.t varkind.

  Definition v_ok (v : N) : bool := PositiveMap.mem (N.succ_pos v) kinds.

  Fixpoint t_ok (t : ty) : bool :=
    match t with
    | TUser r args _ => v_ok r && (fix go l := match l with [] => true | x :: q => t_ok x && go q end) args
    | TImplied _ | TResolved _ _ | TGeneric _ _ => true
    | TTuple ts _ => (fix go l := match l with [] => true | x :: q => t_ok x && go q end) ts
    | TList t0 _ => t_ok t0
    | TFn _ params r _ _ => (fix go l := match l with [] => true | x :: q => t_ok x && go q end) params && t_ok r
    end.

  Lemma t_ok_go l : (fix go l := match l with [] => true | x :: q => t_ok x && go q end) l = forallb t_ok l.
  Proof. induction l as [|x l IH]; [reflexivity|]. cbn [forallb]. now rewrite IH. Qed.

  Definition param_ok (p : string * N * span * ty) : bool := let '(_, var, _, t) := p in v_ok var && t_ok t.
  Definition field_ok (f : string * (span * ty)) : bool := t_ok (snd (snd f)).

  Fixpoint e_ok (e : expr) : bool :=
    match e with
    | ERead v _ => v_ok v
    | EVariant ev _ v _ => v_ok ev && e_ok v
    | ECall f args _ => e_ok f && (fix go l := match l with [] => true | x :: q => e_ok x && go q end) args
    | EBlobAccess v _ _ => e_ok v
    | EIndex v i _ => e_ok v && e_ok i && (match i with EInt _ _ => true | _ => false end)
    | EBinOp op a b _ => (match op with Nop => false | _ => true end) && e_ok a && e_ok b
    | EUniOp _ a _ => e_ok a
    | EIf brs _ =>
      (match brs with [] => false | _ => true end) && (fix go l := match l with [] => true | x :: q => b_ok x && go q end) brs
    | ECase m brs fall _ =>
      e_ok m && (fix go l := match l with [] => true | x :: q => c_ok x && go q end) brs
      && match fall with Some ft => (fix go l := match l with [] => true | x :: q => s_ok x && go q end) ft | None => true end
    | EFunction _ params rty body _ _ =>
      forallb param_ok params && t_ok rty && (fix go l := match l with [] => true | x :: q => s_ok x && go q end) body
    | EBlob b fields self _ =>
      v_ok b && v_ok self
      && (fix go (l : list (string * expr)) := match l with [] => true | x :: q => e_ok (snd x) && go q end) fields
    | ECollection _ vs _ => (fix go l := match l with [] => true | x :: q => e_ok x && go q end) vs
    | EFloat _ _ | EInt _ _ | EStr _ _ | EBool _ _ | ENil _ => true
    end
  with b_ok (b : ifbranch) : bool :=
    match b with
    | IfBranch c body _ =>
      (match c with Some c => e_ok c | None => true end)
      && (fix go l := match l with [] => true | x :: q => s_ok x && go q end) body
    end
  with c_ok (c : casebranch) : bool :=
    match c with
    | CaseBranch _ _ var body _ =>
      (match var with Some v => v_ok v | None => true end)
      && (fix go l := match l with [] => true | x :: q => s_ok x && go q end) body
    end
  with s_ok (s : stmt) : bool :=
    match s with
    | SAssignment _ t v _ => e_ok t && e_ok v
    | SBlob _ var _ _ fields _ | SEnum _ var _ _ fields => v_ok var && forallb field_ok fields
    | SDefinition _ var _ t v _ => v_ok var && t_ok t && e_ok v
    | SExternalDefinition _ var _ t _ => v_ok var && t_ok t
    | SLoop c body _ => e_ok c && (fix go l := match l with [] => true | x :: q => s_ok x && go q end) body
    | SBreak _ | SContinue _ | SUnreachable _ => true
    | SRet v _ => match v with Some v => e_ok v | None => true end
    | SBlock ss _ => (fix go l := match l with [] => true | x :: q => s_ok x && go q end) ss
    | SStatementExpression v _ => e_ok v
    end.

  Lemma e_ok_go l : (fix go l := match l with [] => true | x :: q => e_ok x && go q end) l = forallb e_ok l.
  Proof. induction l as [|x l IH]; [reflexivity|]. cbn [forallb]. now rewrite IH. Qed.
  Lemma s_ok_go l : (fix go l := match l with [] => true | x :: q => s_ok x && go q end) l = forallb s_ok l.
  Proof. induction l as [|x l IH]; [reflexivity|]. cbn [forallb]. now rewrite IH. Qed.
  Lemma b_ok_go l : (fix go l := match l with [] => true | x :: q => b_ok x && go q end) l = forallb b_ok l.
  Proof. induction l as [|x l IH]; [reflexivity|]. cbn [forallb]. now rewrite IH. Qed.
  Lemma c_ok_go l : (fix go l := match l with [] => true | x :: q => c_ok x && go q end) l = forallb c_ok l.
  Proof. induction l as [|x l IH]; [reflexivity|]. cbn [forallb]. now rewrite IH. Qed.
  Lemma f_ok_go (l : list (string * expr)) :
    (fix go (l : list (string * expr)) := match l with [] => true | x :: q => e_ok (snd x) && go q end) l
    = forallb (fun x => e_ok (snd x)) l.
  Proof. induction l as [|x l IH]; [reflexivity|]. cbn [forallb]. now rewrite IH. Qed.

  Lemma b_ok_eq c body sp :
    b_ok (IfBranch c body sp) = (match c with Some c => e_ok c | None => true end) && forallb s_ok body.
  Proof. cbn. now rewrite s_ok_go. Qed.
  Lemma c_ok_eq p psp var body sp :
    c_ok (CaseBranch p psp var body sp) = (match var with Some v => v_ok v | None => true end) && forallb s_ok body.
  Proof. cbn. now rewrite s_ok_go. Qed.
  Lemma e_ok_call f args sp : e_ok (ECall f args sp) = e_ok f && forallb e_ok args.
  Proof. cbn. now rewrite e_ok_go. Qed.
  Lemma e_ok_if brs sp : e_ok (EIf brs sp) = (match brs with [] => false | _ => true end) && forallb b_ok brs.
  Proof. cbn. now rewrite b_ok_go. Qed.
  Lemma e_ok_case m brs fall sp :
    e_ok (ECase m brs fall sp) = e_ok m && forallb c_ok brs && match fall with Some ft => forallb s_ok ft | None => true end.
  Proof. cbn. rewrite c_ok_go. destruct fall; [now rewrite s_ok_go|reflexivity]. Qed.
  Lemma e_ok_fn nm params rty body pure sp :
    e_ok (EFunction nm params rty body pure sp) = forallb param_ok params && t_ok rty && forallb s_ok body.
  Proof. cbn. now rewrite s_ok_go. Qed.
  Lemma e_ok_blob b fields self sp :
    e_ok (EBlob b fields self sp) = v_ok b && v_ok self && forallb (fun x => e_ok (snd x)) fields.
  Proof. cbn. now rewrite f_ok_go. Qed.
  Lemma e_ok_coll c vs sp : e_ok (ECollection c vs sp) = forallb e_ok vs.
  Proof. cbn. now rewrite e_ok_go. Qed.
  Lemma s_ok_loop c body sp : s_ok (SLoop c body sp) = e_ok c && forallb s_ok body.
  Proof. cbn. now rewrite s_ok_go. Qed.
  Lemma s_ok_block ss sp : s_ok (SBlock ss sp) = forallb s_ok ss.
  Proof. cbn. now rewrite s_ok_go. Qed.

  (* an outer statement is a declaration *)
  Definition top_ok (s : stmt) : bool :=
    s_ok s && match s with
              | SBlob _ _ _ _ _ _ | SEnum _ _ _ _ _ | SDefinition _ _ _ _ _ _ | SExternalDefinition _ _ _ _ _ => true
              | _ => false
              end.
End OK.

(* what the type checker needs of the output of name resolution: every variable id (of a read, a definition, a
   parameter, a case binding, a type name, `self`) is an index of the variable table; an index expression is an
   integer literal; no BinOp::Nop; no `if` without branches; the outer statements are declarations; the start
   variable's id is an index of the table *)
Definition input_ok (r : resolved) : bool :=
  let kinds := kinds_of (r_vars r) 1 (PositiveMap.empty varkind) in
  forallb (top_ok kinds) (r_stmts r) &&
  match find_start (r_vars r) with Some v => v_ok kinds (v_id v) | None => true end.

(* ------------------------------------------------------------------ the syntax-level functions *)

Lemma mono_true : mono (fun _ => True).
Proof. intros n n' _ _. exact I. Qed.
Lemma mono_and (P Q : positive -> Prop) : mono P -> mono Q -> mono (fun n => P n /\ Q n).
Proof. intros HP HQ n n' Hn [X Y]. split; [eapply HP|eapply HQ]; eassumption. Qed.
Lemma mono_lt x : mono (fun n => x < n).
Proof. intros n n' Hn X. lia. Qed.
Lemma mono_le x : mono (fun n => x <= n).
Proof. intros n n' Hn X. lia. Qed.
Lemma mono_obelow o : mono (fun n => obelow n o).
Proof. intros n n' Hn X. destruct o; cbn in *; [lia|exact I]. Qed.
Lemma mono_below l : mono (fun n => below n l).
Proof. intros n n' Hn X. eapply below_mono; eassumption. Qed.
Lemma mono_memo m : mono (fun n => memo_below n m).
Proof. intros n n' Hn X. eapply memo_below_mono; eassumption. Qed.

Definition gm_below (n : positive) (m : genmap) : Prop := Forall (fun p => snd p < n) m.
Lemma mono_gm m : mono (fun n => gm_below n m).
Proof. intros n n' Hn. apply Forall_impl. intros; lia. Qed.

Lemma gen_lookup_below n m k i : gm_below n m -> gen_lookup k m = Some i -> i < n.
Proof.
  induction m as [|[k' v] m IH]; intros H L; [discriminate|]. cbn [gen_lookup] in L. inversion H; subst.
  destruct (String.eqb k k'); [injection L as <-; assumption|auto].
Qed.

Ltac mn := repeat first [ apply mono_and | apply mono_lt | apply mono_le | apply mono_obelow | apply mono_below
                        | apply mono_memo | apply mono_gm | apply mono_true | assumption ].

Ltac pc := let n := fresh "n" in let H := fresh "H" in
  intros n H; dcmp; cbn [fst snd obelow] in *; dcmp; repeat split; try assumption; try lia; try exact I;
  try (constructor; fail); auto.

Section ANP.
  Variable kinds : PositiveMap.t varkind.
  Variable N0 : positive.
  Hypothesis KB : forall v, v_ok kinds v = true -> N.succ_pos v < N0.
  Variable G : grec.
  Hypothesis PG : gnp G.

  Notation PB := (fun n : positive => N0 <= n).
  Notation Qe := (fun (r : retn) (n : positive) => obelow n (fst r) /\ snd r < n).

  Record anp (R : arec) : Prop := mkAN {
    an_expr : forall e ctx, e_ok kinds e = true -> np PB Qe (r_expr R e ctx);
    an_stmt : forall s ctx, s_ok kinds s = true -> np PB (fun r n => obelow n r) (r_stmt R s ctx);
    an_type : forall t m, t_ok kinds t = true ->
                          np (fun n => N0 <= n /\ gm_below n m) (fun r n => fst r < n /\ gm_below n (snd r)) (r_type R t m)
  }.

  Lemma np_var_ty v : v_ok kinds v = true -> np PB (fun t n => t < n) (var_ty kinds v).
  Proof.
    intros H. unfold var_ty. pose proof H as H'. unfold v_ok in H'. rewrite PositiveMap.mem_find in H'.
    destruct (PositiveMap.find (N.succ_pos v) kinds); [|discriminate]. apply np_ret. intros n Hn. pose proof (KB v H). lia.
  Qed.

  Lemma np_var_kind v : v_ok kinds v = true -> np PB (fun _ _ => True) (var_kind kinds v).
  Proof.
    intros H. unfold var_kind. unfold v_ok in H. rewrite PositiveMap.mem_find in H.
    destruct (PositiveMap.find (N.succ_pos v) kinds); [|discriminate]. apply np_ret. auto.
  Qed.

  Lemma np_is_type_name v P : np P (fun _ _ => True) (is_type_name v).
  Proof. intros s Gs Hp. cbn. split; [assumption|]. split; [lia|exact I]. Qed.

  Lemma np_add_type_name v P : np P (fun _ _ => True) (add_type_name v).
  Proof.
    intros s [D C] Hp. cbn. split; [|split; [lia|exact I]]. split.
    - intros i Hi. exact (D i Hi).
    - intros i n Hi. exact (C i n Hi).
  Qed.

  Lemma np_copy a : np (fun n => a < n) (fun r n => r < n) (copy G a).
  Proof.
    unfold copy. apply (np_bind _ (fun r n => fst r < n /\ memo_below n (snd r))); [mn| |intros r].
    - eapply np_pre; [|apply (gn_copy G PG)]. intros n H. split; [exact H|constructor].
    - apply np_ret. pc.
  Qed.

  (* with a precondition that carries more *)
  Lemma np_frame {A} (P P' : positive -> Prop) (Q : A -> positive -> Prop) m :
    (forall n, P' n -> P n) -> np P Q m -> np P' Q m.
  Proof. apply np_pre. Qed.

  Section AStep.
    Variable R : arec.
    Hypothesis PR : anp R.

    Lemma np_resolve_constraint sp var c : np (fun n => var < n) (fun _ _ => True) (resolve_constraint sp var c).
    Proof.
      unfold resolve_constraint.
      destruct (String.eqb (tc_name c) "Num").
      { destruct (negb (Nat.eqb (length (tc_args c)) 0)); [apply np_fail|]. eapply np_pre; [|apply np_add_constraint]. pc. }
      destruct (String.eqb (tc_name c) "CmpEqu"); [|apply np_fail].
      destruct (negb (Nat.eqb (length (tc_args c)) 0)); [apply np_fail|]. eapply np_pre; [|apply np_add_constraint].
      intros n H. split; [exact H|]. cbn [constr_ids]. constructor; [exact H|constructor].
    Qed.

    Lemma np_resolve_types : forall l seen, forallb (t_ok kinds) l = true ->
      np (fun n => N0 <= n /\ gm_below n seen) (fun r n => below n (fst r) /\ gm_below n (snd r)) (resolve_types R l seen).
    Proof.
      induction l as [|t ts IH]; intros seen H; cbn [resolve_types]; [apply np_ret; pc|].
      cbn [forallb] in H. apply andb_true_iff in H as [H1 H2].
      apply (np_bind _ (fun r n => fst r < n /\ gm_below n (snd r))); [mn|now apply (an_type R PR)|intros r].
      apply (np_bind _ (fun rs n => below n (fst rs) /\ gm_below n (snd rs))); [mn|eapply np_pre; [|apply IH; assumption]; pc|intros rs].
      apply np_ret. intros n H. dcmp. cbn [fst snd]. split; [constructor; assumption|assumption].
    Qed.

    Lemma np_user_args defsp : forall vars sub seen, forallb (t_ok kinds) vars = true ->
      np (fun n => (N0 <= n /\ gm_below n seen) /\ below n sub) (fun r n => gm_below n r) (user_args G R defsp vars sub seen).
    Proof.
      induction vars as [|v vs IH]; intros sub seen H; cbn [user_args]; [apply np_ret; pc|].
      cbn [forallb] in H. apply andb_true_iff in H as [H1 H2]. destruct sub as [|s0 ss]; [apply np_fail|].
      apply (np_bind _ (fun r n => fst r < n /\ gm_below n (snd r))); [mn|eapply np_pre; [|now apply (an_type R PR)]; pc|intros r].
      apply (np_bind _ (fun _ _ => True)); [mn| |intros _].
      - eapply np_post; [|eapply np_pre; [|apply (np_unify G PG)]]; [auto|]. sidec.
      - eapply np_pre; [|apply IH; assumption]. sidec.
    Qed.

    Lemma np_type_body t seen : t_ok kinds t = true ->
      np (fun n => N0 <= n /\ gm_below n seen) (fun r n => fst r < n /\ gm_below n (snd r)) (type_body kinds G R t seen).
    Proof.
      intros H. unfold type_body. destruct t; cbn [t_ok] in H; rewrite ?t_ok_go in H.
      - (* TUser *)
        apply andb_true_iff in H as [Hr Ha].
        apply (np_bind _ (fun t n => t < n)); [mn|eapply np_pre; [|now apply np_var_ty]; pc|intros vt].
        apply (np_bind _ (fun t n => t < n)); [mn|eapply np_pre; [|apply np_copy]; pc|intros c].
        apply (np_bind _ (fun h n => below n (tyh_ids h))); [mn|eapply np_pre; [|apply np_find_type]; pc|intros h].
        destruct h; try apply np_fail; try (apply np_ret; pc).
        + apply (np_bind _ (fun r n => gm_below n r)); [mn| |intros seen'; apply np_ret; pc].
          eapply np_pre; [|now apply np_user_args]. intros n H. dcmp. cbn [tyh_ids] in *. apply below_app in H0 as [_ X]. auto.
        + apply (np_bind _ (fun r n => gm_below n r)); [mn| |intros seen'; apply np_ret; pc].
          eapply np_pre; [|now apply np_user_args]. intros n H. dcmp. cbn [tyh_ids] in *. apply below_app in H0 as [_ X]. auto.
        + apply (np_bind _ (fun r n => gm_below n r)); [mn| |intros seen'; apply np_ret; pc].
          eapply np_pre; [|now apply np_user_args]. intros n H. dcmp. cbn [tyh_ids] in *. apply below_app in H0 as [_ X]. auto.
      - apply (np_bind _ (fun i n => i < n)); [mn|eapply np_pre; [|apply np_push_type]; intros; constructor|intros i]. apply np_ret. pc.
      - apply (np_bind _ (fun i n => i < n)); [mn|eapply np_pre; [|apply np_push_type]; intros; destruct b; constructor|intros i].
        apply np_ret. pc.
      - destruct (gen_lookup name seen) as [i|] eqn:L.
        + apply np_ret. intros n [X Y]. cbn [fst snd]. split; [eapply gen_lookup_below; eassumption|assumption].
        + apply (np_bind _ (fun i n => i < n)); [mn|eapply np_pre; [|apply np_push_type]; intros; constructor|intros i].
          apply np_ret. intros n X. dcmp. cbn [fst snd]. split; [assumption|]. constructor; assumption.
      - apply (np_bind _ (fun r n => below n (fst r) /\ gm_below n (snd r))); [mn|now apply np_resolve_types|intros fs].
        apply (np_bind _ (fun i n => i < n)); [mn|eapply np_pre; [|apply np_push_type]; pc|intros i]. apply np_ret. pc.
      - apply (np_bind _ (fun r n => fst r < n /\ gm_below n (snd r))); [mn|now apply (an_type R PR)|intros k].
        apply (np_bind _ (fun i n => i < n)); [mn|eapply np_pre; [|apply np_push_type]; intros n X; dcmp; cbn [tyh_ids]; constructor; [assumption|constructor]|intros i].
        apply np_ret. pc.
      - apply andb_true_iff in H as [Hp Hr].
        apply (np_bind _ (fun r n => below n (fst r) /\ gm_below n (snd r))); [mn|now apply np_resolve_types|intros ps].
        apply (np_bind _ (fun r n => fst r < n /\ gm_below n (snd r))); [mn|eapply np_pre; [|now apply (an_type R PR)]; pc|intros rr].
        cbv zeta. apply (np_bind _ (fun _ _ => True)); [mn| |intros _].
        + eapply np_pre; [|apply (np_iterM_in (fun n => gm_below n (snd rr)))]; [pc|mn|].
          intros kc _. cbv beta.
          match goal with |- context [match ?o with Some _ => _ | None => _ end] => destruct o as [var|] eqn:L end; [|apply np_fail].
          eapply np_pre; [|apply (np_iterM_in (fun n => var < n))]; [intros n X; eapply gen_lookup_below; eassumption|mn|].
          intros c0 _. apply np_resolve_constraint.
        + apply (np_bind _ (fun i n => i < n)); [mn| |intros i; apply np_ret; pc].
          eapply np_pre; [|apply np_push_type]. intros n X. dcmp. cbn [tyh_ids]. constructor; assumption.
    Qed.
      Ltac nb Q lem := apply (np_bind _ Q); [mn|eapply np_pre; [|lem]; pc|intros ?].

    Lemma np_resolve_type t : t_ok kinds t = true -> np PB (fun t n => t < n) (resolve_type R t).
    Proof.
      intros H. unfold resolve_type.
      apply (np_bind _ (fun r n => fst r < n /\ gm_below n (snd r))); [mn| |intros r; apply np_ret; pc].
      eapply np_pre; [|now apply (an_type R PR)]. intros n X. split; [exact X|constructor].
    Qed.

    Lemma np_unify' sp a b (P : positive -> Prop) : (forall n, P n -> a < n /\ b < n) -> np P (fun r n => r < n) (unify G sp a b).
    Proof. intros H. eapply np_pre; [|apply (np_unify G PG)]. exact H. Qed.

    Lemma np_unify_option' sp a b (P : positive -> Prop) :
      (forall n, P n -> obelow n a /\ obelow n b) -> np P (fun r n => obelow n r) (unify_option G sp a b).
    Proof. intros H. eapply np_pre; [|apply (np_unify_option G PG)]. exact H. Qed.

    Lemma np_check' sp a (P : positive -> Prop) : (forall n, P n -> a < n) -> np P (fun _ _ => True) (g_check G sp a).
    Proof. intros H. eapply np_pre; [|apply (gn_check G PG)]. exact H. Qed.

    Lemma np_type_from_function params r pure :
      forallb (param_ok kinds) params = true -> t_ok kinds r = true ->
      np PB (fun r n => fst r < n /\ snd r < n) (type_from_function kinds G R params r pure).
    Proof.
      intros Hp Hr. unfold type_from_function.
      apply (np_bind _ (fun (acc : list tyid * genmap) n => below n (fst acc) /\ gm_below n (snd acc))); [mn| |intros [args seen]].
      - eapply np_pre; [|apply (np_foldM_in PB (fun (acc : list tyid * genmap) n => below n (fst acc) /\ gm_below n (snd acc)))].
        + intros n X. split; [exact X|]. split; constructor.
        + mn.
        + intros b; mn.
        + intros acc [[[nm var] psp] pty] Hin. rewrite forallb_forall in Hp. specialize (Hp _ Hin). cbn [param_ok] in Hp.
          apply andb_true_iff in Hp as [Hv Ht].
          apply (np_bind _ (fun t n => t < n)); [mn|eapply np_pre; [|now apply np_var_ty]; pc|intros vt].
          apply (np_bind _ (fun r n => fst r < n /\ gm_below n (snd r))); [mn|eapply np_pre; [|now apply (an_type R PR)]; pc|intros rt].
          apply (np_bind _ (fun r n => r < n)); [mn|apply np_unify'; pc|intros a].
          apply np_ret. intros n X. dcmp. cbn [fst snd]. split; [|assumption]. apply below_app. split; [assumption|].
          constructor; [assumption|constructor].
      - apply (np_bind _ (fun r n => fst r < n /\ gm_below n (snd r))); [mn|eapply np_pre; [|now apply (an_type R PR)]; pc|intros rr].
        apply (np_bind _ (fun i n => i < n)); [mn| |intros f; apply np_ret; pc].
        eapply np_pre; [|apply np_push_type]. intros n X. dcmp. cbn [tyh_ids fst]. constructor; assumption.
    Qed.

    Lemma np_can_assign sp target : e_ok kinds target = true -> np PB (fun _ _ => True) (can_assign kinds sp target).
    Proof.
      intros H. unfold can_assign. destruct target; try apply np_fail; try (apply np_ret; auto).
      cbn [e_ok] in H. apply (np_bind _ (fun _ _ => True)); [mn|now apply np_var_kind|intros k].
      destruct (immutable k); [apply np_fail|apply np_ret; auto].
    Qed.

    Notation Qb := (fun (r : option tyid * option tyid) (n : positive) => obelow n (fst r) /\ obelow n (snd r)).

    Lemma last_stmt_ok stmts v vsp : forallb (s_ok kinds) stmts = true -> last_stmt stmts = Some (SStatementExpression v vsp) -> e_ok kinds v = true.
    Proof.
      induction stmts as [|x l IH]; intros H E; [discriminate|]. cbn [forallb] in H. apply andb_true_iff in H as [Hx Hl].
      destruct l; [injection E as ->; exact Hx|exact (IH Hl E)].
    Qed.

    Lemma np_expression_block sp stmts ctx : forallb (s_ok kinds) stmts = true -> np PB Qb (expression_block G R sp stmts ctx).
    Proof.
      intros H. unfold expression_block.
      apply (np_bind _ (fun r n => obelow n r)); [mn| |intros r].
      - eapply np_pre; [|apply (np_foldM_in PB (fun r n => obelow n r))].
        + intros n X. split; [exact X|exact I].
        + mn.
        + intros b; mn.
        + intros acc st Hin. apply block_split_incl in Hin. rewrite forallb_forall in H. specialize (H _ Hin).
          apply (np_bind _ (fun r n => obelow n r)); [mn|eapply np_pre; [|now apply (an_stmt R PR)]; pc|intros sr].
          apply np_unify_option'. pc.
      - destruct (block_split_cases stmts) as [(ss & v0 & vsp & -> & E)|E]; rewrite E; cbn [snd]; [|apply np_ret; pc].
        assert (Hv : e_ok kinds v0 = true).
        { rewrite forallb_forall in H. apply (H (SStatementExpression v0 vsp)). apply in_or_app. right. now left. }
        apply (np_bind _ Qe); [mn|eapply np_pre; [|now apply (an_expr R PR)]; pc|intros [vret v]].
        apply (np_bind _ (fun r n => obelow n r)); [mn|apply np_unify_option'; pc|intros r'].
        apply np_ret. pc.
    Qed.

    Lemma np_bin_op sp ctx a b con :
      e_ok kinds a = true -> e_ok kinds b = true -> (forall y, constr_ids (con y) = [y]) -> np PB Qe (bin_op G R sp ctx a b con).
    Proof.
      intros Ha Hb Hc. unfold bin_op.
      apply (np_bind _ Qe); [mn|now apply (an_expr R PR)|intros [ar x]].
      apply (np_bind _ Qe); [mn|eapply np_pre; [|now apply (an_expr R PR)]; pc|intros [br y]].
      apply (np_bind _ (fun _ _ => True)); [mn|eapply np_pre; [|apply np_add_constraint]; intros n X; dcmp; cbn [fst snd] in *; rewrite Hc; split; [assumption|constructor; [assumption|constructor]]|intros _].
      apply (np_bind _ (fun _ _ => True)); [mn|eapply np_pre; [|apply np_add_constraint]; intros n X; dcmp; cbn [fst snd] in *; rewrite Hc; split; [assumption|constructor; [assumption|constructor]]|intros _].
      apply (np_bind _ (fun _ _ => True)); [mn|apply np_check'; pc|intros _].
      apply (np_bind _ (fun _ _ => True)); [mn|apply np_check'; pc|intros _].
      apply (np_bind _ (fun r n => obelow n r)); [mn|apply np_unify_option'; pc|intros r].
      apply np_ret. pc.
    Qed.

    Lemma np_bin_op_ret sp ctx a b con h :
      e_ok kinds a = true -> e_ok kinds b = true -> (forall y, constr_ids (con y) = [y]) -> tyh_ids h = [] ->
      np PB Qe (bin_op_ret G R sp ctx a b con h).
    Proof.
      intros Ha Hb Hc Hh. unfold bin_op_ret.
      apply (np_bind _ Qe); [mn|now apply np_bin_op|intros [r x]].
      apply (np_bind _ (fun i n => i < n)); [mn|eapply np_pre; [|apply np_push_type]; intros; rewrite Hh; constructor|intros t].
      apply np_ret. pc.
    Qed.

    Lemma np_call_args ctx : forall args params r, forallb (e_ok kinds) args = true ->
      np (fun n => (N0 <= n /\ below n params) /\ obelow n r) (fun r n => obelow n r) (call_args G R ctx args params r).
    Proof.
      induction args as [|a args IH]; intros [|p params] r H; cbn [call_args]; try (apply np_ret; pc).
      cbn [forallb] in H. apply andb_true_iff in H as [Ha H].
      apply (np_bind _ Qe); [mn|eapply np_pre; [|now apply (an_expr R PR)]; pc|intros [ar at_]].
      apply (np_bind _ (fun r n => r < n)); [mn|apply np_unify'; sidec|intros ?].
      apply (np_bind _ (fun _ _ => True)); [mn|eapply np_pre; [|apply np_add_constraint]; sidec|intros _].
      apply (np_bind _ (fun _ _ => True)); [mn|apply np_check'; sidec|intros _].
      apply (np_bind _ (fun r n => obelow n r)); [mn|apply np_unify_option'; sidec|intros r'].
      eapply np_pre; [|apply IH; assumption]. sidec.
    Qed.

    Lemma np_value_or_ret v r : np (fun n => obelow n v /\ obelow n r) (fun t n => t < n) (value_or_ret v r).
    Proof.
      unfold value_or_ret. destruct v as [v|]; [apply np_ret; pc|]. destruct r as [r|]; [apply np_ret; pc|].
      eapply np_pre; [|apply np_push_type]. intros; constructor.
    Qed.

    Lemma np_if_branch sp ctx br : b_ok kinds br = true -> np PB Qb (if_branch G R sp ctx br).
    Proof.
      intros H. unfold if_branch. destruct br as [c body bsp]. rewrite b_ok_eq in H. apply andb_true_iff in H as [Hc Hb].
      apply (np_bind _ (fun r n => obelow n r)); [mn| |intros cret].
      - destruct c as [c|]; [|apply np_ret; pc].
        apply (np_bind _ Qe); [mn|now apply (an_expr R PR)|intros [r ct]].
        apply (np_bind _ (fun i n => i < n)); [mn|eapply np_pre; [|apply np_push_type]; intros; constructor|intros bo].
        apply (np_bind _ (fun r n => r < n)); [mn|apply np_unify'; pc|intros ?]. apply np_ret. pc.
      - apply (np_bind _ Qb); [mn|eapply np_pre; [|now apply np_expression_block]; pc|intros [bret bval]].
        apply (np_bind _ (fun r n => obelow n r)); [mn|apply np_unify_option'; pc|intros r]. apply np_ret. pc.
    Qed.

    Notation Qc := (fun (acc : option tyid * option tyid * list string) (n : positive) => obelow n (fst (fst acc)) /\ obelow n (snd (fst acc))).

    Lemma np_case_branch sp ctx m acc br : c_ok kinds br = true ->
      np (fun n => (N0 <= n /\ m < n) /\ Qc acc n) Qc (case_branch kinds G R sp ctx m acc br).
    Proof.
      intros H. unfold case_branch. destruct acc as [[r value] names], br as [pat psp var body bsp].
      rewrite c_ok_eq in H. apply andb_true_iff in H as [Hv Hb].
      apply (np_bind _ (fun c n => obelow n c)); [mn| |intros c].
      - destruct var as [v|]; [|apply np_ret; pc].
        apply (np_bind _ (fun t n => t < n)); [mn|eapply np_pre; [|now apply np_var_ty]; pc|intros t]. apply np_ret. pc.
      - apply (np_bind _ (fun _ _ => True)); [mn| |intros _].
        + eapply np_pre; [|apply np_add_constraint]. intros n X. dcmp. cbn [fst snd] in *. split; [assumption|].
          destruct c; cbn [constr_ids obelow] in *; [constructor; [assumption|constructor]|constructor].
        + apply (np_bind _ (fun _ _ => True)); [mn|apply np_check'; pc|intros _].
          apply (np_bind _ Qb); [mn|eapply np_pre; [|now apply np_expression_block]; pc|intros [bret bval]].
          apply (np_bind _ (fun r n => obelow n r)); [mn|apply np_unify_option'; pc|intros value'].
          apply (np_bind _ (fun r n => obelow n r)); [mn|apply np_unify_option'; pc|intros r'].
          apply np_ret. pc.
    Qed.
      (* the keys of the field map of a blob instantiation are the keys it was built from *)
    Lemma given_keys (fields : list (string * expr)) : forall acc s given s',
      foldM (fun (acc : fieldmap) (fe : string * expr) =>
               u <- push_type HUnknown ;; ret (finsert (fst fe) (expr_span (snd fe), u) acc)) fields acc s = Ok (given, s') ->
      forall k, (fmem k acc = true \/ In k (map fst fields)) -> fmem k given = true.
    Proof.
      assert (FI : forall k k' (v : span * tyid) l, fmem k (finsert k' v l) = String.eqb k k' || fmem k l).
      { intros k k' v l. unfold fmem. induction l as [|[a b] l IH]; cbn [finsert flookup].
        - destruct (String.eqb k k'); reflexivity.
        - destruct (String.compare k' a) eqn:E; cbn [flookup].
          + apply String.compare_eq_iff in E. subst a. destruct (String.eqb k k'); reflexivity.
          + destruct (String.eqb k k'); reflexivity.
          + destruct (String.eqb k a) eqn:Ea; [destruct (String.eqb k k'); reflexivity|exact IH]. }
      induction fields as [|fe fields IH]; intros acc s given s' H k Hk; cbn [foldM] in H.
      - injection H as <- _. destruct Hk as [Hk|[]]. exact Hk.
      - apply bind_inv in H as (acc1 & s1 & H1 & H). apply bind_inv in H1 as (u & s2 & _ & H1). injection H1 as <- _.
        apply (IH _ _ _ _ H). rewrite FI. cbn [map In] in Hk. destruct Hk as [Hk|[Hk|Hk]].
        + left. rewrite Hk. apply orb_true_r.
        + left. subst k. rewrite String.eqb_refl. reflexivity.
        + right. exact Hk.
    Qed.

    Lemma last_branch_none l : last_branch l = None -> l = [].
    Proof. induction l as [|x l IH]; [reflexivity|]. destruct l; [discriminate|]. intros H. specialize (IH H). discriminate. Qed.

    Lemma np_expr_body e ctx : e_ok kinds e = true -> np PB Qe (expr_body kinds G R e ctx).
    Proof.
      intros H. unfold expr_body.
      apply (np_bind _ Qe); [mn| |intros [er ex]].
      2:{ apply (np_bind _ (fun h n => below n (tyh_ids h))); [mn|eapply np_pre; [|apply np_find_type]; pc|intros h].
          destruct h; try (apply np_ret; pc).
          apply (np_bind _ (fun r n => r < n)); [mn|eapply np_pre; [|apply np_copy]; pc|intros c]. apply np_ret. pc. }
      destruct e.
      - (* ERead *)
        cbn [e_ok] in H.
        apply (np_bind _ (fun _ _ => True)); [mn|apply np_is_type_name|intros tn]. destruct tn; [apply np_fail|].
        apply (np_bind _ (fun _ _ => True)); [mn|eapply np_pre; [|now apply np_var_kind]; pc|intros k].
        destruct (inside_pure ctx && negb (immutable k)); [apply np_fail|].
        apply (np_bind _ (fun t n => t < n)); [mn|eapply np_pre; [|now apply np_var_ty]; pc|intros t]. apply np_ret. pc.
      - (* EVariant *)
        cbn [e_ok] in H. apply andb_true_iff in H as [Hv He].
        apply (np_bind _ Qe); [mn|now apply (an_expr R PR)|intros [vret v]].
        apply (np_bind _ (fun t n => t < n)); [mn|eapply np_pre; [|now apply np_var_ty]; pc|intros et].
        apply (np_bind _ (fun t n => t < n)); [mn|eapply np_pre; [|apply np_copy]; pc|intros enum_ty].
        apply (np_bind _ (fun _ _ => True)); [mn|eapply np_pre; [|apply np_add_constraint]; sidec|intros _].
        apply (np_bind _ (fun _ _ => True)); [mn|apply np_check'; pc|intros _]. apply np_ret. pc.
      - (* ECall *)
        rewrite e_ok_call in H. apply andb_true_iff in H as [Hf Ha].
        apply (np_bind _ Qe); [mn|now apply (an_expr R PR)|intros [ret0 fn]].
        apply (np_bind _ (fun h n => below n (tyh_ids h))); [mn|eapply np_pre; [|apply np_find_type]; pc|intros t].
        destruct t; try apply np_fail.
        destruct (negb (Nat.eqb (length args) (length params))); [apply np_fail|].
        destruct (inside_pure ctx && negb (is_pure_p p)); [apply np_fail|].
        apply (np_bind _ (fun r n => obelow n r)); [mn|eapply np_pre; [|now apply np_call_args]; sidec|intros r].
        apply (np_bind _ (fun _ _ => True)); [mn|apply np_check'; sidec|intros _]. apply np_ret. sidec.
      - (* EBlobAccess *)
        cbn [e_ok] in H.
        apply (np_bind _ Qe); [mn|now apply (an_expr R PR)|intros [oret outer]].
        apply (np_bind _ (fun i n => i < n)); [mn|eapply np_pre; [|apply np_push_type]; intros; constructor|intros field_ty].
        apply (np_bind _ (fun _ _ => True)); [mn|eapply np_pre; [|apply np_add_constraint]; sidec|intros _].
        apply (np_bind _ (fun _ _ => True)); [mn|apply np_check'; pc|intros _].
        apply (np_bind _ (fun h n => below n (tyh_ids h))); [mn|eapply np_pre; [|apply np_find_type]; pc|intros t].
        apply (np_bind _ (fun r n => r < n)); [mn| |intros ft; apply np_ret; pc].
        destruct t; try (apply np_ret; pc). eapply np_pre; [|apply np_copy]. pc.
      - (* EIndex *)
        cbn [e_ok] in H. apply andb_true_iff in H as [H Hi]. apply andb_true_iff in H as [Hv Hx].
        apply (np_bind _ Qe); [mn|now apply (an_expr R PR)|intros [vret v]].
        apply (np_bind _ Qe); [mn|eapply np_pre; [|now apply (an_expr R PR)]; pc|intros [iret i]].
        apply (np_bind _ (fun i n => i < n)); [mn|eapply np_pre; [|apply np_push_type]; intros; constructor|intros int_t].
        apply (np_bind _ (fun r n => r < n)); [mn|apply np_unify'; pc|intros ?].
        apply (np_bind _ (fun i n => i < n)); [mn|eapply np_pre; [|apply np_push_type]; intros; constructor|intros ex0].
        apply (np_bind _ (fun _ _ => True)); [mn| |intros _].
        { destruct e2; try discriminate Hi. eapply np_pre; [|apply np_add_constraint]. sidec. }
        apply (np_bind _ (fun _ _ => True)); [mn|apply np_check'; pc|intros _].
        apply (np_bind _ (fun _ _ => True)); [mn|apply np_check'; pc|intros _].
        apply (np_bind _ (fun r n => obelow n r)); [mn|apply np_unify_option'; pc|intros r]. apply np_ret. pc.
      - (* EBinOp *)
        cbn [e_ok] in H. apply andb_true_iff in H as [H Hb]. apply andb_true_iff in H as [Hop Ha].
        destruct op; try discriminate Hop;
          try (apply np_bin_op_ret; auto; fail); try (apply np_bin_op; auto; fail).
        + (* Div *)
          apply (np_bind _ Qe); [mn|now apply (an_expr R PR)|intros [a_ret a]].
          apply (np_bind _ Qe); [mn|eapply np_pre; [|now apply (an_expr R PR)]; pc|intros [b_ret b]].
          apply (np_bind _ (fun _ _ => True)); [mn|eapply np_pre; [|apply np_add_constraint]; sidec|intros _].
          apply (np_bind _ (fun _ _ => True)); [mn|eapply np_pre; [|apply np_add_constraint]; sidec|intros _].
          apply (np_bind _ (fun i n => i < n)); [mn|eapply np_pre; [|apply np_push_type]; intros; constructor|intros c].
          apply (np_bind _ (fun _ _ => True)); [mn|eapply np_pre; [|apply np_add_constraint]; sidec|intros _].
          apply (np_bind _ (fun _ _ => True)); [mn|apply np_check'; pc|intros _].
          apply (np_bind _ (fun _ _ => True)); [mn|apply np_check'; pc|intros _].
          apply (np_bind _ (fun _ _ => True)); [mn|apply np_check'; pc|intros _].
          apply (np_bind _ (fun r n => obelow n r)); [mn|apply np_unify_option'; pc|intros r]. apply np_ret. pc.
        + (* And *)
          apply (np_bind _ Qe); [mn|now apply (an_expr R PR)|intros [a_ret a]].
          apply (np_bind _ Qe); [mn|eapply np_pre; [|now apply (an_expr R PR)]; pc|intros [b_ret b]].
          apply (np_bind _ (fun i n => i < n)); [mn|eapply np_pre; [|apply np_push_type]; intros; constructor|intros bo].
          apply (np_bind _ (fun r n => r < n)); [mn|apply np_unify'; pc|intros ?].
          apply (np_bind _ (fun r n => r < n)); [mn|apply np_unify'; pc|intros ?].
          apply (np_bind _ (fun r n => obelow n r)); [mn|apply np_unify_option'; pc|intros r]. apply np_ret. pc.
        + (* Or *)
          apply (np_bind _ Qe); [mn|now apply (an_expr R PR)|intros [a_ret a]].
          apply (np_bind _ Qe); [mn|eapply np_pre; [|now apply (an_expr R PR)]; pc|intros [b_ret b]].
          apply (np_bind _ (fun i n => i < n)); [mn|eapply np_pre; [|apply np_push_type]; intros; constructor|intros bo].
          apply (np_bind _ (fun r n => r < n)); [mn|apply np_unify'; pc|intros ?].
          apply (np_bind _ (fun r n => r < n)); [mn|apply np_unify'; pc|intros ?].
          apply (np_bind _ (fun r n => obelow n r)); [mn|apply np_unify_option'; pc|intros r]. apply np_ret. pc.
      - (* EUniOp *)
        cbn [e_ok] in H. destruct op.
        + apply (np_bind _ Qe); [mn|now apply (an_expr R PR)|intros [a_ret a]].
          apply (np_bind _ (fun _ _ => True)); [mn|eapply np_pre; [|apply np_add_constraint]; sidec|intros _].
          apply (np_bind _ (fun _ _ => True)); [mn|apply np_check'; pc|intros _]. apply np_ret. pc.
        + apply (np_bind _ Qe); [mn|now apply (an_expr R PR)|intros [a_ret a]].
          apply (np_bind _ (fun i n => i < n)); [mn|eapply np_pre; [|apply np_push_type]; intros; constructor|intros bo].
          apply (np_bind _ (fun r n => r < n)); [mn|apply np_unify'; pc|intros u]. apply np_ret. pc.
      - (* EIf *)
        rewrite e_ok_if in H. apply andb_true_iff in H as [Hne Hb].
        apply (np_bind _ (fun tys n => Forall (fun b => Qb b n) tys)); [mn| |intros tys].
        { apply (np_mapM_in PB Qb); [mn|intros b; mn|]. intros br Hin. rewrite forallb_forall in Hb. now apply np_if_branch, Hb. }
        destruct (last_branch branches) as [[lastc lb lsp]|] eqn:El; [|apply last_branch_none in El; subst branches; discriminate].
        assert (FR : forall sel, (forall b n, Qb b n -> obelow n (sel b)) ->
                       np (fun n => N0 <= n /\ Forall (fun b => Qb b n) tys) (fun r n => obelow n r)
                          (foldM (fun (acc : option tyid) (b : option tyid * option tyid) => unify_option G sp (sel b) acc) tys None)).
        { intros sel Hsel.
          eapply np_pre; [|apply (np_foldM_in (fun n => N0 <= n /\ Forall (fun b => Qb b n) tys) (fun r n => obelow n r))].
          - intros n X. split; [exact X|exact I].
          - apply mono_and; [mn|]. intros n n' Hn. apply Forall_impl. intros b [X Y]. split; eapply mono_obelow; eassumption.
          - intros b; mn.
          - intros acc b Hin. apply np_unify_option'. intros n [[_ Hf] Ha]. split; [|exact Ha].
            rewrite Forall_forall in Hf. apply Hsel, Hf, Hin. }
        apply (np_bind _ (fun r n => obelow n r)); [apply mono_and; [mn|]; intros n n' Hn; apply Forall_impl; intros b [X Y]; split; eapply mono_obelow; eassumption
                                                  |apply (FR fst); intros b n [X _]; exact X|intros r].
        destruct lastc.
        + apply (np_bind _ (fun i n => i < n)); [mn; try (intros n n' Hn; apply Forall_impl; intros b [X Y]; split; eapply mono_obelow; eassumption)
                                                 |eapply np_pre; [|apply np_push_type]; intros; constructor|intros v].
          apply np_ret. pc.
        + apply (np_bind _ (fun r n => obelow n r)).
          * apply mono_and; [apply mono_and; [mn|]|mn]. intros n n' Hn. apply Forall_impl. intros b [X Y]. split; eapply mono_obelow; eassumption.
          * eapply np_pre; [|apply (FR snd); intros b n [_ X]; exact X]. pc.
          * intros value.
            apply (np_bind _ (fun r n => obelow n r)).
            -- apply mono_and; [apply mono_and; [apply mono_and; [mn|]|mn]|mn]. intros n n' Hn. apply Forall_impl. intros b [X Y]. split; eapply mono_obelow; eassumption.
            -- destruct (existsb if_falls branches).
               ++ apply (np_bind _ (fun i n => i < n)); [|eapply np_pre; [|apply np_push_type]; intros; constructor|intros vd; apply np_ret; pc].
                  apply mono_and; [apply mono_and; [apply mono_and; [mn|]|mn]|mn]. intros n n' Hn. apply Forall_impl. intros b [X Y]. split; eapply mono_obelow; eassumption.
               ++ apply np_ret. pc.
            -- intros value'.
               apply (np_bind _ (fun t n => t < n)).
               ++ apply mono_and; [apply mono_and; [apply mono_and; [apply mono_and; [mn|]|mn]|mn]|mn]. intros n n' Hn. apply Forall_impl. intros b [X Y]. split; eapply mono_obelow; eassumption.
               ++ eapply np_pre; [|apply np_value_or_ret]. pc.
               ++ intros v. apply np_ret. pc.
      - (* ECase *)
        rewrite e_ok_case in H. apply andb_true_iff in H as [H Hft]. apply andb_true_iff in H as [Hm Hbr].
        apply (np_bind _ Qe); [mn|now apply (an_expr R PR)|intros [ret0 m]].
        apply (np_bind _ (fun _ _ => True)); [mn|eapply np_pre; [|apply np_add_constraint]; sidec|intros _].
        apply (np_bind _ (fun _ _ => True)); [mn|apply np_check'; pc|intros _].
        apply (np_bind _ Qc); [mn| |intros [[r value] names]].
        { eapply np_pre; [|apply (np_foldM_in (fun n => N0 <= n /\ m < n) Qc)].
          - pc.
          - mn.
          - intros b; mn.
          - intros acc br Hin. rewrite forallb_forall in Hbr. eapply np_pre; [|apply np_case_branch; now apply Hbr]. pc. }
        apply (np_bind _ Qb); [mn| |intros [r' value']].
        { destruct fall_through as [ft|].
          - apply (np_bind _ Qb); [mn|eapply np_pre; [|now apply np_expression_block]; pc|intros [fret f]].
            apply (np_bind _ (fun r n => obelow n r)); [mn|apply np_unify_option'; pc|intros r1].
            apply (np_bind _ (fun r n => obelow n r)); [mn|apply np_unify_option'; pc|intros v1]. apply np_ret. pc.
          - apply (np_bind _ (fun _ _ => True)); [mn|eapply np_pre; [|apply np_add_constraint]; sidec|intros _].
            apply (np_bind _ (fun _ _ => True)); [mn|apply np_check'; pc|intros _]. apply np_ret. pc. }
        apply (np_bind _ (fun r n => obelow n r)); [mn| |intros value''].
        { match goal with |- context [if ?c then _ else _] => destruct c end.
          - apply (np_bind _ (fun i n => i < n)); [mn|eapply np_pre; [|apply np_push_type]; intros; constructor|intros vd; apply np_ret; pc].
          - apply np_ret. pc. }
        apply (np_bind _ (fun t n => t < n)); [mn|eapply np_pre; [|apply np_value_or_ret]; pc|intros v]. apply np_ret. pc.
      - (* EFunction *)
        rewrite e_ok_fn in H. apply andb_true_iff in H as [H Hb]. apply andb_true_iff in H as [Hp Hr].
        apply (np_bind _ (fun r n => fst r < n /\ snd r < n)); [mn|now apply np_type_from_function|intros [f_ty ret_ty]].
        apply (np_bind _ Qb); [mn|eapply np_pre; [|now apply np_expression_block]; pc|intros [actual_ret implicit_ret]].
        apply (np_bind _ (fun r n => obelow n r)); [mn| |intros actual].
        { destruct (is_void_ty ret).
          - apply (np_bind _ (fun i n => i < n)); [mn|eapply np_pre; [|apply np_push_type]; intros; constructor|intros v].
            apply np_unify_option'. pc.
          - apply np_unify_option'. pc. }
        apply (np_bind _ (fun r n => obelow n r)); [mn|apply np_unify_option'; pc|intros ?].
        apply (np_bind _ (fun _ _ => True)); [mn| |intros isv].
        { destruct actual as [x|]; [eapply np_pre; [|apply np_is_void]; pc|apply np_ret; auto]. }
        destruct (isv && negb (is_void_ty ret)); [apply np_fail|].
        apply (np_bind _ (fun r n => obelow n r)); [mn|apply np_unify_option'; pc|intros ?]. apply np_ret. pc.
      - (* EBlob *)
        rewrite e_ok_blob in H. apply andb_true_iff in H as [H Hf]. apply andb_true_iff in H as [Hb Hs].
        apply (np_bind _ (fun t n => t < n)); [mn|now apply np_var_ty|intros bt].
        apply (np_bind _ (fun t n => t < n)); [mn|eapply np_pre; [|apply np_copy]; pc|intros blob_ty].
        apply (np_bind _ (fun h n => below n (tyh_ids h))); [mn|eapply np_pre; [|apply np_find_type]; pc|intros t].
        destruct t; try apply np_fail.
        match goal with |- np (fun n => _ /\ below n (tyh_ids ?h)) _ _ => set (hb := h) end.
        (* the map of the given fields: valid ids, and a key for every field *)
        assert (GV : np (fun n => ((N0 <= n /\ bt < n) /\ blob_ty < n) /\ below n (tyh_ids hb))
                        (fun given n => below n (field_ids given) /\ (forall k, In k (map fst fields) -> fmem k given = true))
                        (foldM (fun (acc : fieldmap) (fe : string * expr) =>
                                  u <- push_type HUnknown ;; ret (finsert (fst fe) (expr_span (snd fe), u) acc)) fields [])).
        { intros s0 Gs0 Hp0.
          pose proof (np_foldM_in (fun _ => True) (fun (acc : fieldmap) n => below n (field_ids acc))
                        (fun (acc : fieldmap) (fe : string * expr) =>
                           u <- push_type HUnknown ;; ret (finsert (fst fe) (expr_span (snd fe), u) acc)) fields mono_true
                        (fun b => mono_below (field_ids b))) as X.
          assert (X' : forall b x, In x fields -> np (fun n => True /\ below n (field_ids b)) (fun acc n => below n (field_ids acc))
                         (u <- push_type HUnknown ;; ret (finsert (fst x) (expr_span (snd x), u) b))).
          { intros b x _. apply (np_bind _ (fun i n => i < n)); [mn|eapply np_pre; [|apply np_push_type]; intros; constructor|intros u].
            apply np_ret. intros n [[_ Hb0] Hu]. unfold below, field_ids in *. rewrite Forall_forall in *.
            intros j Hj. apply in_map_iff in Hj as ([k' [sp' t']] & <- & Hin). cbn [snd].
            clear - Hin Hb0 Hu. induction b as [|[a [sa ta]] b IHb]; cbn [finsert] in Hin.
            - destruct Hin as [Hin|[]]. injection Hin as _ _ <-. exact Hu.
            - destruct (String.compare (fst x) a).
              + destruct Hin as [Hin|Hin]; [injection Hin as _ _ <-; exact Hu|]. apply Hb0. apply in_map_iff. exists (k', (sp', t')). split; [reflexivity|now right].
              + destruct Hin as [Hin|Hin]; [injection Hin as _ _ <-; exact Hu|]. apply Hb0. apply in_map_iff. exists (k', (sp', t')). split; [reflexivity|exact Hin].
              + destruct Hin as [Hin|Hin].
                * injection Hin as <- <- <-. apply Hb0. apply in_map_iff. exists (a, (sa, ta)). split; [reflexivity|now left].
                * apply IHb; [|exact Hin]. intros j Hj. apply Hb0. cbn [map In]. now right. }
          specialize (X X' [] s0 Gs0 (conj I (Forall_nil _))).
          match type of X with match ?mm with _ => _ end => destruct mm as [[given s1]| | |] eqn:Ef end; auto.
          destruct X as (Y1 & Y2 & Y3). split; [assumption|]. split; [assumption|]. split; [assumption|].
          intros k Hk. eapply given_keys; [exact Ef|]. now right. }
        apply (np_bind _ (fun given n => below n (field_ids given) /\ (forall k, In k (map fst fields) -> fmem k given = true)));
          [mn|exact GV|intros given].
        match goal with |- context [match ?l ++ ?r with _ => _ end] => destruct (l ++ r) as [|e1 more] end; [|apply np_fail_many].
        set (PG0 := fun n : positive => ((((N0 <= n /\ bt < n) /\ blob_ty < n) /\ below n (tyh_ids hb)) /\
                                         (below n (field_ids given) /\ (forall k, In k (map fst fields) -> fmem k given = true)))).
        assert (MG0 : mono PG0).
        { unfold PG0. apply mono_and; [mn|]. apply mono_and; [mn|]. intros n n' _ X. exact X. }
        apply (np_bind PG0 (fun i n => i < n)); [exact MG0| |intros given_blob].
        { eapply np_pre; [|apply np_push_type]. unfold PG0, hb. intros n X. dcmp. cbn [tyh_ids] in *. apply below_app. split; [assumption|].
          match goal with Y : below n (_ ++ _) |- _ => apply below_app in Y as [_ Y]; exact Y end. }
        apply (np_bind _ (fun t n => t < n)); [apply mono_and; [exact MG0|mn]|eapply np_pre; [|now apply np_var_ty]; unfold PG0; pc|intros self_ty].
        apply (np_bind _ (fun r n => r < n)); [apply mono_and; [apply mono_and; [exact MG0|mn]|mn]|apply np_unify'; pc|intros ?].
        set (PG1 := fun n : positive => (((PG0 n /\ given_blob < n) /\ self_ty < n) /\ a < n)).
        assert (MG1 : mono PG1) by (unfold PG1; apply mono_and; [apply mono_and; [apply mono_and; [exact MG0|mn]|mn]|mn]).
        apply (np_bind PG1 (fun r n => obelow n r)); [exact MG1| |intros ret0].
        { eapply np_pre; [|apply (np_foldM_in PG1 (fun (r : option tyid) n => obelow n r))].
          - intros n X. split; [exact X|exact I].
          - exact MG1.
          - intros b0; mn.
          - intros acc fe Hin. rewrite forallb_forall in Hf. specialize (Hf _ Hin).
            apply (np_bind _ Qe); [apply mono_and; [exact MG1|mn]|eapply np_pre; [|now apply (an_expr R PR)]; unfold PG1, PG0; pc|intros [iret ety]].
            apply (np_bind _ (fun r n => obelow n r)); [apply mono_and; [apply mono_and; [exact MG1|mn]|mn]|apply np_unify_option'; unfold PG1; pc|intros acc'].
            destruct (flookup (fst fe) given) as [[gsp ft]|] eqn:Eg.
            + apply (np_bind _ (fun r n => r < n)); [apply mono_and; [apply mono_and; [apply mono_and; [exact MG1|mn]|mn]|mn]| |intros ?; apply np_ret; pc].
              apply np_unify'. unfold PG1, PG0. intros n X. dcmp. cbn [fst snd] in *. split; [assumption|]. eapply flookup_below; eassumption.
            + (* unreachable: every field has a key in the map *)
              intros s0 Gs0 Hp0. exfalso. unfold PG1, PG0 in Hp0. dcmp.
              assert (Hk : fmem (fst fe) given = true) by (match goal with X : forall k, In k (map fst fields) -> _ |- _ => apply X end; apply in_map; exact Hin).
              unfold fmem in Hk. rewrite Eg in Hk. discriminate. }
        apply (np_bind _ (fun r n => r < n)); [apply mono_and; [exact MG1|mn]|apply np_unify'; unfold PG1, PG0; pc|intros u].
        apply np_ret. unfold PG1. pc.
      - (* ECollection *)
        rewrite e_ok_coll in H. destruct c.
        + apply (np_bind _ (fun (r : option tyid * list tyid) n => obelow n (fst r) /\ Forall (fun y => y < n) (snd r))); [mn| |intros [ret0 tys]].
          { eapply np_pre; [|apply (np_foldM_in (fun n => N0 <= n) (fun (r : option tyid * list tyid) n => obelow n (fst r) /\ Forall (fun y => y < n) (snd r)))].
            - intros n X. split; [exact X|]. split; [exact I|constructor].
            - mn.
            - intros b0. apply mono_and; [mn|]. intros n n' Hn. apply Forall_impl. intros; lia.
            - intros acc v Hin. rewrite forallb_forall in H. specialize (H _ Hin).
              assert (MF : mono (fun n => N0 <= n /\ (obelow n (fst acc) /\ Forall (fun y => y < n) (snd acc)))).
              { apply mono_and; [mn|]. apply mono_and; [mn|]. intros n n' Hn. apply Forall_impl. intros; lia. }
              apply (np_bind _ Qe); [exact MF|eapply np_pre; [|now apply (an_expr R PR)]; pc|intros [iret t]].
              apply (np_bind _ (fun r n => obelow n r)); [apply mono_and; [exact MF|mn]|apply np_unify_option'; pc|intros r'].
              apply np_ret. intros n X. dcmp. cbn [fst snd] in *. split; [assumption|]. apply Forall_app. split; [assumption|].
              constructor; [assumption|constructor]. }
          cbn [fst snd].
          apply (np_bind _ (fun i n => i < n)); [apply mono_and; [mn|]; apply mono_and; [mn|]; intros n n' Hn; apply Forall_impl; intros; lia
                                                |eapply np_pre; [|apply np_push_type]; pc|intros t].
          apply np_ret. pc.
        + apply (np_bind _ (fun i n => i < n)); [mn|eapply np_pre; [|apply np_push_type]; intros; constructor|intros inner].
          apply (np_bind _ (fun r n => obelow n r)); [mn| |intros ret0].
          { eapply np_pre; [|apply (np_foldM_in (fun n => N0 <= n /\ inner < n) (fun (r : option tyid) n => obelow n r))].
            - intros n X. split; [exact X|exact I].
            - mn.
            - intros b0; mn.
            - intros acc v Hin. rewrite forallb_forall in H. specialize (H _ Hin).
              apply (np_bind _ Qe); [mn|eapply np_pre; [|now apply (an_expr R PR)]; pc|intros [eret et]].
              apply (np_bind _ (fun r n => r < n)); [mn|apply np_unify'; pc|intros ?].
              apply np_unify_option'. pc. }
          apply (np_bind _ (fun i n => i < n)); [mn|eapply np_pre; [|apply np_push_type]; intros n X; dcmp; cbn [tyh_ids]; constructor; [assumption|constructor]|intros t].
          apply np_ret. pc.
      - apply (np_bind _ (fun i n => i < n)); [mn|eapply np_pre; [|apply np_push_type]; intros; constructor|intros t]. apply np_ret. pc.
      - apply (np_bind _ (fun i n => i < n)); [mn|eapply np_pre; [|apply np_push_type]; intros; constructor|intros t]. apply np_ret. pc.
      - apply (np_bind _ (fun i n => i < n)); [mn|eapply np_pre; [|apply np_push_type]; intros; constructor|intros t]. apply np_ret. pc.
      - apply (np_bind _ (fun i n => i < n)); [mn|eapply np_pre; [|apply np_push_type]; intros; constructor|intros t]. apply np_ret. pc.
      - apply (np_bind _ (fun i n => i < n)); [mn|eapply np_pre; [|apply np_push_type]; intros; constructor|intros t]. apply np_ret. pc.
    Qed.
      Lemma np_definition var kind t value sp ctx :
      v_ok kinds var = true -> t_ok kinds t = true -> e_ok kinds value = true ->
      np PB (fun r n => obelow n r) (definition kinds G R var kind t value sp ctx).
    Proof.
      intros Hv Ht He. unfold definition. destruct (inside_pure ctx && negb (immutable kind)); [apply np_fail|].
      apply (np_bind _ (fun t n => t < n)); [mn|now apply np_var_ty|intros vt].
      apply (np_bind _ (fun _ _ => True)); [mn| |intros _].
      { destruct value; try (apply np_ret; auto). rewrite e_ok_fn in He. apply andb_true_iff in He as [He Hb]. apply andb_true_iff in He as [Hp Hr].
        apply (np_bind _ (fun r n => fst r < n /\ snd r < n)); [mn|eapply np_pre; [|now apply np_type_from_function]; pc|intros [f_ty x]].
        apply (np_bind _ (fun r n => r < n)); [mn|apply np_unify'; pc|intros ?]. apply np_ret. auto. }
      apply (np_bind _ (fun t n => t < n)); [mn|eapply np_pre; [|now apply np_resolve_type]; pc|intros dt].
      apply (np_bind _ (fun _ _ => True)); [mn|eapply np_pre; [|apply np_add_constraint]; sidec|intros _].
      apply (np_bind _ (fun r n => r < n)); [mn|apply np_unify'; pc|intros ?].
      apply (np_bind _ Qe); [mn|eapply np_pre; [|now apply (an_expr R PR)]; pc|intros [value_ret value_ty]].
      apply (np_bind _ (fun r n => r < n)); [mn|apply np_unify'; pc|intros ?]. apply np_ret. pc.
    Qed.

    Lemma np_stmt_body s ctx : s_ok kinds s = true -> np PB (fun r n => obelow n r) (stmt_body kinds G R s ctx).
    Proof.
      intros H. unfold stmt_body. destruct s.
      - (* assignment *)
        cbn [s_ok] in H. apply andb_true_iff in H as [Ht Hv].
        apply (np_bind _ (fun _ _ => True)); [mn|now apply np_can_assign|intros _].
        destruct (inside_pure ctx); [apply np_fail|].
        apply (np_bind _ Qe); [mn|eapply np_pre; [|now apply (an_expr R PR)]; pc|intros [e_ret e_ty]].
        apply (np_bind _ Qe); [mn|eapply np_pre; [|now apply (an_expr R PR)]; pc|intros [t_ret t_ty]].
        apply (np_bind _ (fun _ _ => True)); [mn| |intros _].
        { destruct op; try (apply np_ret; auto);
            (apply (np_bind _ (fun _ _ => True));
             [mn|eapply np_pre; [|apply np_add_constraint]; sidec|intros _; eapply np_pre; [|apply np_add_constraint]; sidec]). }
        apply (np_bind _ (fun _ _ => True)); [mn| |intros _].
        { destruct op;
            try (apply (np_bind _ (fun r n => r < n)); [mn|apply np_unify'; pc|intros ?; apply np_check'; pc]).
          apply (np_bind _ (fun _ _ => True)); [mn|eapply np_pre; [|apply np_add_constraint]; sidec|intros _].
          apply (np_bind _ (fun _ _ => True)); [mn|eapply np_pre; [|apply np_add_constraint]; sidec|intros _].
          apply (np_bind _ (fun _ _ => True)); [mn|eapply np_pre; [|apply np_add_constraint]; sidec|intros _].
          apply (np_bind _ (fun _ _ => True)); [mn|apply np_check'; pc|intros _]. apply np_check'. pc. }
        apply np_unify_option'. pc.
      - apply np_fail.
      - apply np_fail.
      - cbn [s_ok] in H. apply andb_true_iff in H as [H He]. apply andb_true_iff in H as [Hv Ht]. now apply np_definition.
      - apply np_fail.
      - (* loop *)
        rewrite s_ok_loop in H. apply andb_true_iff in H as [Hc Hb].
        apply (np_bind _ Qe); [mn|now apply (an_expr R PR)|intros [r c]].
        apply (np_bind _ (fun i n => i < n)); [mn|eapply np_pre; [|apply np_push_type]; intros; constructor|intros bo].
        apply (np_bind _ (fun r n => r < n)); [mn|apply np_unify'; pc|intros ?].
        apply (np_bind _ Qb); [mn|eapply np_pre; [|now apply np_expression_block]; pc|intros [br bv]].
        apply np_unify_option'. pc.
      - destruct (inside_loop ctx); [apply np_ret; pc|apply np_fail].
      - destruct (inside_loop ctx); [apply np_ret; pc|apply np_fail].
      - cbn [s_ok] in H. destruct value as [v|].
        + apply (np_bind _ Qe); [mn|now apply (an_expr R PR)|intros [r v0]].
          destruct r as [r|]; [|apply np_ret; pc].
          apply (np_bind _ (fun r n => r < n)); [mn|apply np_unify'; pc|intros u]. apply np_ret. pc.
        + apply (np_bind _ (fun i n => i < n)); [mn|eapply np_pre; [|apply np_push_type]; intros; constructor|intros v]. apply np_ret. pc.
      - rewrite s_ok_block in H. apply (np_bind _ Qb); [mn|now apply np_expression_block|intros [r v]]. apply np_ret. pc.
      - cbn [s_ok] in H. apply (np_bind _ Qe); [mn|now apply (an_expr R PR)|intros [r v]]. apply np_ret. pc.
      - apply np_ret. pc.
    Qed.

    Lemma anp_step : anp (astep kinds G R).
    Proof.
      constructor; cbn [astep r_expr r_stmt r_type]; intros.
      - now apply np_expr_body.
      - now apply np_stmt_body.
      - now apply np_type_body.
    Qed.
  End AStep.

  Theorem afix_np : forall f, anp (afix kinds G f).
  Proof.
    induction f as [|f IH]; cbn [afix].
    - constructor; intros; apply np_oof.
    - now apply anp_step.
  Qed.

  (* ---- the top level *)
  Section Top.
    Variable R : arec.
    Hypothesis PR : anp R.

    Lemma np_decl_params vars : np PB (fun r n => below n (fst r) /\ gm_below n (snd r)) (decl_params vars).
    Proof.
      unfold decl_params.
      eapply np_pre; [|apply (np_foldM_in PB (fun (r : list tyid * genmap) n => below n (fst r) /\ gm_below n (snd r)))].
      - intros n X. split; [exact X|]. split; constructor.
      - mn.
      - intros b; mn.
      - intros acc v _. apply (np_bind _ (fun i n => i < n)); [mn|eapply np_pre; [|apply np_push_type]; intros; constructor|intros t].
        apply np_ret. intros n X. dcmp. cbn [fst snd]. split; [apply below_app; split; [assumption|constructor; [assumption|constructor]]|].
        match goal with Hg : gm_below n (snd acc), Ht : t < n |- _ => clear - Hg Ht; revert Hg; generalize (snd acc) end.
        intros gm. induction gm as [|[k' v'] gm IH]; intros Hg; cbn [gen_insert].
        + constructor; [cbn; assumption|constructor].
        + inversion Hg; subst. destruct (String.eqb v k'); constructor; auto. apply IH. assumption.
    Qed.

    Lemma np_decl_fields nv fields seen : forallb (field_ok kinds) fields = true ->
      np (fun n => N0 <= n /\ gm_below n seen) (fun r n => below n (field_ids r)) (decl_fields R nv fields seen).
    Proof.
      intros H. unfold decl_fields.
      apply (np_bind _ (fun (r : fieldmap * genmap) n => below n (field_ids (fst r)) /\ gm_below n (snd r))); [mn| |intros r; apply np_ret; pc].
      eapply np_pre; [|apply (np_foldM_in PB (fun (r : fieldmap * genmap) n => below n (field_ids (fst r)) /\ gm_below n (snd r)))].
      - intros n [X Y]. split; [exact X|]. split; [constructor|exact Y].
      - mn.
      - intros b; mn.
      - intros acc [k [ksp t]] Hin. rewrite forallb_forall in H. specialize (H _ Hin). cbn [field_ok snd] in H.
        apply (np_bind _ (fun r n => fst r < n /\ gm_below n (snd r))); [mn|eapply np_pre; [|now apply (an_type R PR)]; pc|intros rt].
        match goal with |- context [if ?c then _ else _] => destruct c end; [apply np_fail|]. apply np_ret. intros n X. dcmp. cbn [fst snd] in *. split; [|assumption].
        assert (Hrt : fst rt < n) by assumption. assert (Hbb : below n (field_ids (fst acc))) by assumption.
        clear - Hrt Hbb. rename Hbb into Hb. revert Hb. generalize (fst acc). intros b Hb.
        unfold below, field_ids in *. rewrite Forall_forall in *. intros j Hj. apply in_map_iff in Hj as ([k' [sp' t']] & <- & Hi). cbn [snd].
        induction b as [|[a [sa ta]] b IHb]; cbn [finsert] in Hi.
        + destruct Hi as [Hi|[]]. injection Hi as _ _ <-. assumption.
        + destruct (String.compare k a).
          * destruct Hi as [Hi|Hi]; [injection Hi as _ _ <-; assumption|]. apply Hb. apply in_map_iff. exists (k', (sp', t')). split; [reflexivity|now right].
          * destruct Hi as [Hi|Hi]; [injection Hi as _ _ <-; assumption|]. apply Hb. apply in_map_iff. exists (k', (sp', t')). split; [reflexivity|exact Hi].
          * destruct Hi as [Hi|Hi].
            -- injection Hi as <- <- <-. apply Hb. apply in_map_iff. exists (a, (sa, ta)). split; [reflexivity|now left].
            -- apply IHb; [|exact Hi]. intros j Hj. apply Hb. cbn [map In]. now right.
    Qed.

    Lemma forallb_source_order (p : string * (span * ty) -> bool) l : forallb p l = true -> forallb p (source_order l) = true.
    Proof.
      intros H. rewrite forallb_forall in *. intros x Hx. apply H.
      assert (G0 : forall l acc y, In y (fold_left (fun a x => pos_insert x a) l acc) -> In y l \/ In y acc).
      { clear. induction l as [|z l IH]; intros acc y Hy; cbn [fold_left] in Hy; [auto|].
        apply IH in Hy as [Hy|Hy]; [left; now right|].
        assert (PI : forall l0, In y (pos_insert z l0) -> y = z \/ In y l0).
        { induction l0 as [|w l0 IH0]; cbn [pos_insert In]; [intuition|]. destruct (pos_le w z); cbn [In]; intuition. }
        apply PI in Hy as [->|Hy]; [left; now left|now right]. }
      unfold source_order in Hx. apply G0 in Hx as [Hx|[]]. exact Hx.
    Qed.

    Lemma np_outer_statement s ctx : top_ok kinds s = true -> np PB (fun _ _ => True) (outer_statement kinds G R s ctx).
    Proof.
      intros H. unfold top_ok in H. apply andb_true_iff in H as [H Hd]. unfold outer_statement. destruct s; try discriminate Hd; cbn [s_ok] in H.
      - apply andb_true_iff in H as [Hv Hf].
        apply (np_bind _ (fun _ _ => True)); [mn|apply np_add_type_name|intros _].
        apply (np_bind _ (fun t n => t < n)); [mn|eapply np_pre; [|now apply np_var_ty]; pc|intros bt].
        apply (np_bind _ (fun r n => below n (fst r) /\ gm_below n (snd r))); [mn|eapply np_pre; [|apply np_decl_params]; pc|intros [tp seen]].
        apply (np_bind _ (fun r n => below n (field_ids r))); [mn|eapply np_pre; [|apply np_decl_fields; now apply forallb_source_order]; pc|intros res].
        apply (np_bind _ (fun i n => i < n)); [mn| |intros t].
        { eapply np_pre; [|apply np_push_type]. intros n X. dcmp. cbn [fst snd] in *. destruct external; cbn [tyh_ids]; apply below_app; auto. }
        apply (np_bind _ (fun r n => r < n)); [mn|apply np_unify'; pc|intros ?]. apply np_ret. auto.
      - apply andb_true_iff in H as [Hv Hf].
        apply (np_bind _ (fun _ _ => True)); [mn|apply np_add_type_name|intros _].
        apply (np_bind _ (fun t n => t < n)); [mn|eapply np_pre; [|now apply np_var_ty]; pc|intros bt].
        apply (np_bind _ (fun r n => below n (fst r) /\ gm_below n (snd r))); [mn|eapply np_pre; [|apply np_decl_params]; pc|intros [tp seen]].
        apply (np_bind _ (fun r n => below n (field_ids r))); [mn|eapply np_pre; [|apply np_decl_fields; now apply forallb_source_order]; pc|intros res].
        apply (np_bind _ (fun i n => i < n)); [mn| |intros t].
        { eapply np_pre; [|apply np_push_type]. intros n X. dcmp. cbn [fst snd tyh_ids] in *. apply below_app; auto. }
        apply (np_bind _ (fun r n => r < n)); [mn|apply np_unify'; pc|intros ?]. apply np_ret. auto.
      - apply andb_true_iff in H as [H He]. apply andb_true_iff in H as [Hv Ht].
        apply (np_bind _ (fun r n => obelow n r)); [mn|now apply np_definition|intros ?]. apply np_ret. auto.
      - apply andb_true_iff in H as [Hv Ht].
        apply (np_bind _ (fun t n => t < n)); [mn|now apply np_resolve_type|intros dt].
        apply (np_bind _ (fun t n => t < n)); [mn|eapply np_pre; [|now apply np_var_ty]; pc|intros vt].
        apply (np_bind _ (fun r n => r < n)); [mn|apply np_unify'; pc|intros ?]. apply np_ret. auto.
    Qed.
  End Top.
End ANP.

(* ------------------------------------------------------------------ the whole checker *)

Lemma ginv_empty : ginv empty_st.
Proof.
  split.
  - intros i Hi. cbn in Hi. lia.
  - intros i n H. unfold lk, empty_st in H. cbn [nodes] in H. rewrite PositiveMap.gempty in H. discriminate.
Qed.

Lemma np_init_vars n : np (fun _ => True) (fun _ _ => True) (init_vars n).
Proof.
  induction n as [|n IH]; cbn [init_vars]; [apply np_ret; auto|].
  apply (np_bind _ (fun _ _ => True)); [apply mono_true| |intros _].
  - eapply np_post; [|eapply np_pre; [|apply np_push_type]].
    + intros; exact I.
    + intros; constructor.
  - eapply np_pre; [|exact IH]. intros; exact I.
Qed.

Lemma init_vars_next : forall n s u s', init_vars n s = Ok (u, s') -> Pos.to_nat (next s') = (Pos.to_nat (next s) + n)%nat.
Proof.
  induction n as [|n IH]; intros s u s' H; cbn [init_vars] in H.
  - injection H as _ <-. lia.
  - unfold bind in H. rewrite push_type_eq in H. apply IH in H. cbn [push_st next] in H. lia.
Qed.

Lemma kinds_of_keys : forall vars i m k,
  PositiveMap.mem k (kinds_of vars i m) = true ->
  PositiveMap.mem k m = true \/ (Pos.to_nat i <= Pos.to_nat k < Pos.to_nat i + length vars)%nat.
Proof.
  induction vars as [|v vars IH]; intros i m k H; cbn [kinds_of] in H; [auto|].
  apply IH in H as [H|H].
  - rewrite PositiveMap.mem_find in H. destruct (Pos.eq_dec k i) as [->|N].
    + right. cbn [length]. lia.
    + rewrite PositiveMap.gso in H by assumption. left. rewrite PositiveMap.mem_find. exact H.
  - right. cbn [length]. lia.
Qed.

Lemma np_or_else_err {A} (P : positive -> Prop) (Q : A -> positive -> Prop) (m : M A) k sp : np P Q m -> np P Q (or_else_err m k sp).
Proof. intros L s G Hp. specialize (L s G Hp). unfold or_else_err. destruct (m s) as [[a s']| | |]; auto. Qed.

(* The type checker never panics on an input that satisfies input_ok: it answers Ok, Err (of a non-empty list: the type
   Err carries its first error) or runs out of the fuel it was given. *)
Theorem typecheck_no_panic fuel r : input_ok r = true -> forall p, typecheck fuel r <> Panic p.
Proof.
  intros Hok p. unfold input_ok in Hok. apply andb_true_iff in Hok as [Hst Hsv].
  unfold typecheck. set (kinds := kinds_of (r_vars r) 1 (PositiveMap.empty varkind)) in *.
  unfold bind at 1.
  pose proof (np_init_vars (length (r_vars r)) empty_st ginv_empty I) as L0.
  destruct (init_vars (length (r_vars r)) empty_st) as [[u0 s0]| | |] eqn:Ei; try discriminate; [|contradiction].
  destruct L0 as (G0 & _ & _).
  pose proof (init_vars_next _ _ _ _ Ei) as Hn. cbn [empty_st next] in Hn.
  set (N0 := next s0).
  assert (KB : forall v, v_ok kinds v = true -> N.succ_pos v < N0).
  { intros v Hv. unfold v_ok, kinds in Hv. apply kinds_of_keys in Hv as [Hv|Hv].
    - rewrite PositiveMap.mem_find, PositiveMap.gempty in Hv. discriminate.
    - unfold N0. lia. }
  pose proof (gfix_np fuel) as PG. pose proof (afix_np kinds N0 KB (gfix fuel) PG fuel) as PA.
  assert (L1 : np (fun n => N0 <= n) (fun _ _ => True)
                  (solve kinds (gfix fuel) (afix kinds (gfix fuel) fuel) (r_stmts r) (find_start (r_vars r)))).
  { unfold solve. apply (np_bind _ (fun _ _ => True)); [mn| |intros _].
    { apply (np_iterM_in (fun n => N0 <= n)); [mn|]. intros st Hin. rewrite forallb_forall in Hst.
      apply (np_outer_statement kinds N0 KB (gfix fuel) PG _ PA). apply Hst. exact (proj1 (type_decl_order_In _ _ Hin)). }
    apply (np_bind _ (fun _ _ => True)); [mn| |intros _].
    - eapply np_pre; [|apply (np_iterM_in (fun n => N0 <= n)); [mn|]]; [intros n [X _]; exact X|].
      intros st Hin. rewrite forallb_forall in Hst.
      apply (np_outer_statement kinds N0 KB (gfix fuel) PG _ PA). now apply Hst.
    - destruct (find_start (r_vars r)) as [v|]; [|apply np_fail].
      apply (np_bind _ (fun i n => i < n)); [mn|eapply np_pre; [|apply np_push_type]; intros; constructor|intros vd].
      apply (np_bind _ (fun i n => i < n)); [mn|eapply np_pre; [|apply np_push_type]; intros n X; dcmp; cbn [tyh_ids]; constructor; [assumption|constructor]|intros stt].
      apply (np_bind _ (fun t n => t < n)); [mn|eapply np_pre; [|now apply (np_var_ty kinds N0 KB)]; pc|intros t].
      apply np_or_else_err.
      apply (np_bind _ (fun r0 n => r0 < n)); [mn|eapply np_pre; [|apply (np_unify (gfix fuel) PG)]; pc|intros ?]. apply np_ret. auto. }
  specialize (L1 s0 G0 (Pos.le_refl _)).
  destruct (solve kinds (gfix fuel) (afix kinds (gfix fuel) fuel) (r_stmts r) (find_start (r_vars r)) s0) as [[u1 s1]| | |];
    try discriminate. contradiction.
Qed.
