(* The simulation relation between the reference interpreter (Sem/SyltSem.v) and LuaCore running the
   emitted statements (Pres/EmitAst.v), for the fragment of Pres/Frag.v.

   vrel      Sylt values  ~  Lua values
   rel       Sylt (env, state) ~ Lua (env, state): every user variable in scope is the Lua local V<id>, bound
             to a cell holding a related value; `print` is the Lua global V<pv>; traces agree; the preamble
             invariant `linv` holds
   fut F     "future" of a Lua configuration: the frozen temporaries F keep their binding and their value
   denotes   a (possibly inlined) Lua expression evaluates, without side effects other than allocating
             garbage cells, to a value related to sv -- in EVERY future of the configuration.  This is the
             invariant that makes the usage-count inlining of single-use temporaries sound: the expression
             is evaluated at its use site, later than where the Sylt program computed the value. *)
From Coq Require Import String Ascii List NArith ZArith QArith Bool Lia.
From Sylt Require Import Syntax.Resolved.
From Sylt Require Sem.Values Sem.Runtime Sem.SyltSem.
From Sylt Require Import Back.IR Back.Emit.
From Sylt Require Import Pres.EmitAst Pres.EmitRel Pres.Names Pres.LuaFuel Pres.LuaEv Pres.Preamble.
From Sylt Require Import Pres.Frag.
From Sylt Require Import Lua.LuaAst Lua.LuaMap Lua.LuaNum Lua.LuaProofs Lua.LuaCore.
Import ListNotations.
Local Open Scope N_scope.

Notation sstate := SyltSem.state.
Notation senv := SyltSem.env.
Notation sval := SyltSem.sval.
Notation SV := SyltSem.SV.

Inductive vrel : sval -> value -> Prop :=
| vr_int z : vrel (SV (Values.VInt z)) (VNum false (q_int z))
| vr_bool b : vrel (SV (Values.VBool b)) (VBool b)
| vr_nil : vrel (SV Values.VLuaNil) VNil
| vr_str s : vrel (SV (Values.VStr s)) (VStr s).

(* ------------------------------------------------------------------ Lua states and environments *)

(* st' is st plus newly allocated cells *)
Definition cells_ext (st st' : state) : Prop :=
  s_tabs st' = s_tabs st /\ s_ntab st' = s_ntab st /\ s_clos st' = s_clos st /\ s_nclo st' = s_nclo st /\
  s_out st' = s_out st /\ s_dialect st' = s_dialect st /\ (s_ncell st <= s_ncell st')%positive /\
  forall c, (c < s_ncell st)%positive -> get_cell st' c = get_cell st c.

Lemma cells_ext_refl st : cells_ext st st.
Proof. unfold cells_ext. repeat split; auto; lia. Qed.

Lemma cells_ext_trans a b c : cells_ext a b -> cells_ext b c -> cells_ext a c.
Proof.
  unfold cells_ext. intros (T1 & N1 & C1 & M1 & O1 & D1 & L1 & G1) (T2 & N2 & C2 & M2 & O2 & D2 & L2 & G2).
  repeat split; try congruence; try lia.
  intros p Hp. rewrite G2 by lia. apply G1. exact Hp.
Qed.

Lemma cells_ext_alloc st v : cells_ext st (snd (alloc_cell st v)).
Proof.
  unfold cells_ext, alloc_cell, get_cell. cbn [snd s_tabs s_ntab s_clos s_nclo s_out s_dialect s_ncell s_cells].
  repeat split; auto; try lia. intros c Hc. rewrite pget_pset_other by lia. reflexivity.
Qed.

Lemma cells_ext_linv st st' : cells_ext st st' -> linv st -> linv st'.
Proof.
  intros (T & N & C & M & O & D & L & G) H. eapply linv_frame; [exact H | exact T | exact D | | lia].
  intros id c Hc. rewrite C. exact Hc.
Qed.

Lemma cells_ext_glob st st' x v : cells_ext st st' -> glob st x v -> glob st' x v.
Proof. intros (T & _) H. eapply glob_frame; eassumption. Qed.

(* names are V<id>, pairwise bound to different cells, all allocated *)
Record wfenv (E : env) (st : state) : Prop := mkWfenv {
  wf_V : forall x p, sget x E = Some p -> exists v, x = fmt_var v;
  wf_inj : forall x y p, sget x E = Some p -> sget y E = Some p -> x = y;
  wf_alloc : forall x p, sget x E = Some p -> (p < s_ncell st)%positive
}.

Definition env_incl (E E' : env) : Prop := forall x p, sget x E = Some p -> sget x E' = Some p.

Lemma env_incl_refl E : env_incl E E. Proof. intros x p H; exact H. Qed.
Lemma env_incl_trans a b c : env_incl a b -> env_incl b c -> env_incl a c.
Proof. intros H1 H2 x p H. apply H2, H1, H. Qed.

(* every V<t> bound in E has t < c *)
Definition E_lt (E : env) (c : N) : Prop := forall t p, sget (fmt_var t) E = Some p -> t < c.

Lemma E_lt_mono E c c' : E_lt E c -> c <= c' -> E_lt E c'.
Proof. intros H Hc t p Ht. specialize (H t p Ht). lia. Qed.

Lemma wfenv_ext E st st' : wfenv E st -> (s_ncell st <= s_ncell st')%positive -> wfenv E st'.
Proof. intros [HV Hi Ha] Hl. constructor; auto. intros x p H. specialize (Ha x p H). lia. Qed.

Lemma sget_sset_var t t' (p : positive) (E : env) : t <> t' -> sget (fmt_var t) (sset (fmt_var t') p E) = sget (fmt_var t) E.
Proof. intros H. apply sget_sset_other. apply fmt_var_neq. exact H. Qed.

(* a new local V<t> in a fresh cell *)
Lemma wfenv_local E st t v :
  wfenv E st -> wfenv (sset (fmt_var t) (s_ncell st) E) (snd (alloc_cell st v)).
Proof.
  intros [HV Hi Ha]. constructor.
  - intros x p H. destruct (string_dec x (fmt_var t)) as [->|Hne]; [eauto|].
    rewrite sget_sset_other in H by exact Hne. eauto.
  - intros x y p Hx Hy.
    destruct (string_dec x (fmt_var t)) as [->|Hx']; destruct (string_dec y (fmt_var t)) as [->|Hy']; auto.
    + rewrite sget_sset_same in Hx. rewrite sget_sset_other in Hy by exact Hy'.
      inversion Hx; subst. specialize (Ha _ _ Hy). lia.
    + rewrite sget_sset_same in Hy. rewrite sget_sset_other in Hx by exact Hx'.
      inversion Hy; subst. specialize (Ha _ _ Hx). lia.
    + rewrite sget_sset_other in Hx, Hy by assumption. eauto.
  - intros x p H. cbn [alloc_cell snd s_ncell].
    destruct (string_dec x (fmt_var t)) as [->|Hne].
    + rewrite sget_sset_same in H. inversion H; subst. lia.
    + rewrite sget_sset_other in H by exact Hne. specialize (Ha _ _ H). lia.
Qed.

Lemma env_incl_local E t p c : E_lt E c -> c <= t -> env_incl E (sset (fmt_var t) p E).
Proof.
  intros Hlt Hc x q H. destruct (string_dec x (fmt_var t)) as [->|Hne].
  - specialize (Hlt _ _ H). lia.
  - rewrite sget_sset_other by exact Hne. exact H.
Qed.

Lemma E_lt_local E t p c : E_lt E c -> t < c -> E_lt (sset (fmt_var t) p E) c.
Proof.
  intros Hlt Hc t' q H. destruct (N.eq_dec t' t) as [->|Hne]; [exact Hc|].
  rewrite sget_sset_var in H by exact Hne. eauto.
Qed.

Lemma get_cell_alloc_old st v p : (p < s_ncell st)%positive -> get_cell (snd (alloc_cell st v)) p = get_cell st p.
Proof. intros H. apply (cells_ext_alloc st v). exact H. Qed.

Lemma get_cell_alloc_new st v : get_cell (snd (alloc_cell st v)) (s_ncell st) = v.
Proof. unfold alloc_cell, get_cell. cbn [snd s_cells]. rewrite pget_pset_same. reflexivity. Qed.

Lemma get_cell_set_same st p v : get_cell (set_cell st p v) p = v.
Proof. unfold set_cell, get_cell. cbn [s_cells]. rewrite pget_pset_same. reflexivity. Qed.
Lemma get_cell_set_other st p q v : q <> p -> get_cell (set_cell st p v) q = get_cell st q.
Proof. intros H. unfold set_cell, get_cell. cbn [s_cells]. rewrite pget_pset_other by exact H. reflexivity. Qed.

Lemma linv_set_cell st p v : linv st -> linv (set_cell st p v).
Proof. intros H. eapply linv_frame; [exact H | reflexivity | reflexivity | auto | cbn; lia]. Qed.
Lemma linv_alloc_cell st v : linv st -> linv (snd (alloc_cell st v)).
Proof. intros H. eapply linv_frame; [exact H | reflexivity | reflexivity | auto | cbn; lia]. Qed.
Lemma linv_emit_line st s : linv st -> linv (emit_line st s).
Proof. intros H. eapply linv_frame; [exact H | reflexivity | reflexivity | auto | cbn; lia]. Qed.

(* ------------------------------------------------------------------ futures, denotation *)

Definition fut (F : list N) (E : env) (st : state) (E2 : env) (st2 : state) : Prop :=
  forall t p, In t F -> sget (fmt_var t) E = Some p ->
              sget (fmt_var t) E2 = Some p /\ get_cell st2 p = get_cell st p.

Lemma fut_refl F E st : fut F E st E st.
Proof. intros t p _ H. auto. Qed.

Lemma fut_trans F E1 s1 E2 s2 E3 s3 : fut F E1 s1 E2 s2 -> fut F E2 s2 E3 s3 -> fut F E1 s1 E3 s3.
Proof.
  intros H1 H2 t p Ht Hp. destruct (H1 t p Ht Hp) as [Ha Hb]. destruct (H2 t p Ht Ha) as [Hc Hd].
  split; [exact Hc | congruence].
Qed.

Lemma fut_mono F F' E1 s1 E2 s2 : incl F' F -> fut F E1 s1 E2 s2 -> fut F' E1 s1 E2 s2.
Proof. intros Hi H t p Ht Hp. apply H; auto. Qed.

Lemma fut_cells_ext F E st st' : wfenv E st -> cells_ext st st' -> fut F E st E st'.
Proof.
  intros Hwf Hx t p _ Hp. split; [exact Hp|]. apply Hx. eapply wf_alloc; eassumption.
Qed.

Lemma fut_incl_cells F E st E' st' :
  env_incl E E' -> (forall x p, sget x E = Some p -> get_cell st' p = get_cell st p) -> fut F E st E' st'.
Proof. intros Hi Hc t p _ Hp. split; [apply Hi; exact Hp | eapply Hc; exact Hp]. Qed.

(* ex evaluates to exactly one value, lv, allocating at most garbage cells (both in a single-value
   position and as the last expression of a list, where a call would pass on ALL its results) *)
Definition PureEval (E : env) (st : state) (ex : expr) (lv : value) : Prop :=
  exists st', Eval E ex st (ROk lv st') /\ EvalMulti E ex st (ROk [lv] st') /\ cells_ext st st'.

Lemma PureEval_noncall E st ex lv st' :
  is_call ex = false -> Eval E ex st (ROk lv st') -> cells_ext st st' -> PureEval E st ex lv.
Proof. intros Hc H Hx. exists st'. split; [exact H | split; [apply EvalMulti_single; assumption | exact Hx]]. Qed.

Lemma PureEval_call E st f args lv st' :
  EvalCall E f args st (ROk [lv] st') -> cells_ext st st' -> PureEval E st (ECall f args) lv.
Proof.
  intros H Hx. exists st'. split; [apply (Eval_call _ _ _ _ [lv]); exact H | split; [apply EvalMulti_call; exact H | exact Hx]].
Qed.

(* the futures we quantify over: well-formed environments whose V-names are bounded, states with the
   preamble invariant *)
Definition denotes (F : list N) (E : env) (st : state) (ex : expr) (sv : sval) : Prop :=
  forall E2 st2, fut F E st E2 st2 -> wfenv E2 st2 -> linv st2 ->
                 exists lv, vrel sv lv /\ PureEval E2 st2 ex lv.

Lemma denotes_mono F F2 E st E2 st2 ex sv :
  denotes F E st ex sv -> fut F E st E2 st2 -> incl F F2 -> denotes F2 E2 st2 ex sv.
Proof.
  intros Hd Hf Hi E3 st3 Hf3 Hwf Hinv. apply Hd; auto.
  eapply fut_trans; [exact Hf|]. eapply fut_mono; eassumption.
Qed.

Lemma denotes_now F E st ex sv :
  denotes F E st ex sv -> wfenv E st -> linv st -> exists lv, vrel sv lv /\ PureEval E st ex lv.
Proof. intros H Hwf Hinv. apply H; auto. apply fut_refl. Qed.

(* a frozen temporary that is a local *)
Lemma denotes_local F E st t p sv :
  In t F -> sget (fmt_var t) E = Some p -> vrel sv (get_cell st p) -> denotes F E st (EVar (fmt_var t)) sv.
Proof.
  intros Ht Hp Hv E2 st2 Hf _ _. destruct (Hf t p Ht Hp) as [Hp2 Hc].
  exists (get_cell st p). split; [exact Hv|].
  apply (PureEval_noncall _ _ _ _ st2); [reflexivity | | apply cells_ext_refl].
  rewrite <- Hc. apply Eval_local. exact Hp2.
Qed.

Lemma PureEval_paren E st ex lv : PureEval E st ex lv -> PureEval E st (EParen ex) lv.
Proof. intros (st' & H & _ & Hx). apply (PureEval_noncall _ _ _ _ st'); [reflexivity | apply Eval_paren; exact H | exact Hx]. Qed.

Lemma denotes_paren F E st ex sv : denotes F E st ex sv -> denotes F E st (EParen ex) sv.
Proof.
  intros H E2 st2 Hf Hwf Hinv. destruct (H E2 st2 Hf Hwf Hinv) as (lv & Hv & Hp).
  exists lv. split; [exact Hv | apply PureEval_paren; exact Hp].
Qed.

(* ------------------------------------------------------------------ the main relation *)

(* ---- functions.  A closure that exists is described by a record with the static facts about its code and the
   dynamic ones (closure index / id, closure environments).  A `world` collects what the simulation knows about
   the two heaps: which Sylt cell corresponds to which Lua cell (user variables: w_R, the two cells hold related
   values at all times, whoever writes them; function names and function parameters: w_F, the two cells hold the
   two halves of one closure for ever), which closures exist (w_D), and which Lua cells have a content that cannot
   change (w_P: the temporaries of the callers, while a callee runs).  w_R, w_F and w_D only grow. ---- *)
Record fdyn := mkFdyn {
  fd_var : N; fd_params : list N; fd_pk : list kind; fd_rk : kind; fd_body : list Resolved.stmt;
  fd_sc : list N;                 (* the user variables its body sees (the scope at its definition) *)
  fd_fl : list (N * kind);         (* the functions its body can call: the visible ones and itself *)
  fd_g : nat; fd_k : nat;
  fd_code : list ir; fd_ctx : N; fd_c : N; fd_c' : N; fd_lut : alut;
  fd_cf : nat; fd_ci : nat; fd_ef : senv;            (* Sylt: cell of the name, closure index, closure environment *)
  fd_pf : positive; fd_fid : positive; fd_Ef : env   (* Lua: cell of the name, closure id, closure environment *)
}.

Record world := mkWorld {
  w_R : nat -> positive -> bool -> Prop;    (* the cells of a user variable: Sylt cell, Lua cell; flag false: the two cells
                                               of a function-valued constant while its value is computed (any content) *)
  w_F : nat -> positive -> kind -> Prop;    (* the cells of a function name, parameter or variable of a function kind: at all
                                               times they hold the two halves of one closure of that kind *)
  w_D : fdyn -> Prop;                       (* the closures that exist *)
  w_P : positive -> value -> Prop;          (* Lua cells with a fixed content *)
  w_pc : nat                                (* the Sylt cell of the external print *)
}.

Definition fnames (fl : list (N * kind)) : list N := map fst fl.

(* the kind of a closure *)
Definition dkind (d : fdyn) : kind := KF (fd_pk d) (fd_rk d).

(* a world that knows at least what another one knows; the fixed cells are the same *)
Definition wsub (W W' : world) : Prop :=
  (forall c p b, w_R W c p b -> w_R W' c p b) /\ (forall c p K, w_F W c p K -> w_F W' c p K) /\
  (forall d, w_D W d -> w_D W' d) /\ (forall p lv, w_P W p lv <-> w_P W' p lv) /\ w_pc W' = w_pc W.
Lemma wsub_refl W : wsub W W. Proof. repeat split; auto. Qed.
Lemma wsub_trans W1 W2 W3 : wsub W1 W2 -> wsub W2 W3 -> wsub W1 W3.
Proof.
  intros (A & B & C & D & F) (A' & B' & C' & D' & F'). repeat split; auto.
  - intros H. apply D', D. exact H.
  - intros H. apply D, D'. exact H.
  - congruence.
Qed.

(* the world with one more closure *)
Definition world_addD (W : world) (d : fdyn) : world :=
  mkWorld (w_R W) (w_F W) (fun d' => w_D W d' \/ d' = d) (w_P W) (w_pc W).

Lemma wsub_addD W d : wsub W (world_addD W d).
Proof. unfold wsub, world_addD. cbn. repeat split; auto. Qed.

(* closures are created in step on the two sides: the Lua id of the Sylt closure number ci *)
Definition fid_of (ci : nat) : positive := Pos.of_nat (Pos.to_nat (s_nclo st_pre) + ci).
Lemma fid_of_succ ci : fid_of (S ci) = Pos.succ (fid_of ci).
Proof.
  unfold fid_of. rewrite Nat.add_succ_r. apply Nat2Pos.inj_succ. pose proof (Pos2Nat.is_pos (s_nclo st_pre)). lia.
Qed.
Lemma fid_of_inj a b : fid_of a = fid_of b -> a = b.
Proof.
  unfold fid_of. intros H. pose proof (Pos2Nat.is_pos (s_nclo st_pre)).
  apply Nat2Pos.inj in H; lia.
Qed.

Section Rel.
Variable pv : N.       (* the id of the external print *)
Variable sv : N.       (* the id of start *)
Variable bound : N.    (* |r_vars| + 1: where the temporaries start *)
Variable u : counts.   (* the usage counts of the whole program *)

(* the facts about a closure that never change *)
Record fstatic (d : fdyn) : Prop := mkFstatic {
  fs_lower : lower_fbody (statement (fd_g d)) (expression (fd_g d)) (fd_body d) (fd_ctx d) (fd_c d) = Ok (fd_code d, fd_c' d);
  fs_frag : fbody_check (frag_stmts pv sv bound (snd (bind_scope (fd_params d) (fd_pk d) (fd_sc d) (fd_fl d))) (fd_k d)
                                    (fst (bind_scope (fd_params d) (fd_pk d) (fd_sc d) (fd_fl d))))
                        (fun fl1 sc1 e => frag_fexpr pv sv bound fl1 (fd_k d) sc1 e) (fun fl1 sc1 e => frag_expr pv sv bound fl1 (fd_k d) sc1 e) (fd_k d) (fd_body d) (fd_rk d) = true;
  fs_pk : length (fd_pk d) = length (fd_params d);
  fs_params : params_ok pv sv bound (fd_fl d) (fd_sc d) (fd_params d) = true;
  fs_scb : forall g, In g (fd_sc d) -> g < bound /\ g <> pv;
  fs_flb : forall g, In g (fnames (fd_fl d)) -> g < bound /\ g <> pv;
  fs_scfl : forall g, In g (fd_sc d) -> ~ In g (fnames (fd_fl d));
  fs_ucov : ucovers u (fd_code d);
  fs_bound : bound <= fd_c d;
  fs_lut : forall t, (fd_c d <= t < fd_c' d \/ t < bound) -> alut_get (fd_lut d) t = None;
  fs_Efree : forall t, fd_c d <= t < fd_c' d -> sget (fmt_var t) (fd_Ef d) = None;
  fs_EpvE : sget (fmt_var pv) (fd_Ef d) = None;
  fs_EV : forall x p, sget x (fd_Ef d) = Some p -> exists v, x = fmt_var v;
  fs_Einj : forall x y p, sget x (fd_Ef d) = Some p -> sget y (fd_Ef d) = Some p -> x = y
}.

(* the body of the Lua closure of a function *)
Definition fbody (d : fdyn) : block := estack u (fd_lut d) [] [] (fd_code d).

Section World.
Variable fl : list (N * kind).   (* the functions that can be called by name from the code being run *)
Variable W : world.

(* a Lua cell that is neither the cell of a user variable nor of a function name *)
Definition not_user (p : positive) : Prop := (forall c b, ~ w_R W c p b) /\ (forall c K, ~ w_F W c p K).

Record winv (sc : list N) (e : senv) (st : sstate) (E : env) (stL : state) : Prop := mkWinv {
  (* the cells of the user variables hold related values *)
  wi_R : forall c p b, w_R W c p b ->
         exists x, nth_error (SyltSem.cells st) c = Some x /\ (if b then vrel x (get_cell stL p) else True) /\ (p < s_ncell stL)%positive;
  wi_Rfun : forall c p p' b b', w_R W c p b -> w_R W c p' b' -> p = p' /\ b = b';
  wi_Rinj : forall c c' p b b', w_R W c p b -> w_R W c' p b' -> c = c';
  wi_RF : forall c p b, w_R W c p b -> (forall p' K, ~ w_F W c p' K) /\ (forall c' K, ~ w_F W c' p K);
  wi_RP : forall c p b lv, w_R W c p b -> ~ w_P W p lv;
  (* the cells of the function names hold their closures *)
  wi_F : forall c p K, w_F W c p K ->
         exists d, nth_error (SyltSem.cells st) c = Some (SyltSem.SClos (fd_ci d)) /\ get_cell stL p = VFun (fd_fid d) /\
                   (p < s_ncell stL)%positive /\ w_D W d /\ dkind d = K;
  wi_FP : forall c p K lv, w_F W c p K -> ~ w_P W p lv;
  wi_Ffun : forall c p K p' K', w_F W c p K -> w_F W c p' K' -> p = p' /\ K = K';
  (* the fixed cells *)
  wi_P : forall p lv, w_P W p lv -> get_cell stL p = lv /\ (p < s_ncell stL)%positive;
  wi_pc : nth_error (SyltSem.cells st) (w_pc W) = Some (SyltSem.SExt "print");
  (* the closures *)
  wi_D : forall d, w_D W d ->
         fstatic d /\
         nth_error (SyltSem.clos st) (fd_ci d) = Some (SyltSem.mkClos (fd_params d) (fd_body d) (fd_ef d)) /\
         pget (fd_fid d) (s_clos stL) = Some (mkClosure (fd_Ef d) (map fmt_var (fd_params d)) (fbody d)) /\
         (forall x p, sget x (fd_Ef d) = Some p -> (p < s_ncell stL)%positive) /\
         fd_fid d = fid_of (fd_ci d) /\ (fd_ci d < length (SyltSem.clos st))%nat /\
         SyltSem.lookup (fd_ef d) pv = Some (w_pc W) /\
         (forall g, In g (fd_sc d) ->
            exists c p, SyltSem.lookup (fd_ef d) g = Some c /\ sget (fmt_var g) (fd_Ef d) = Some p /\ w_R W c p true) /\
         (forall f K, In (f, K) (fd_fl d) -> K <> KP ->
            exists c p, SyltSem.lookup (fd_ef d) f = Some c /\ sget (fmt_var f) (fd_Ef d) = Some p /\ w_F W c p K) /\
         (forall t p, bound <= t -> sget (fmt_var t) (fd_Ef d) = Some p -> not_user p);
  wi_Dall : forall ci, (ci < length (SyltSem.clos st))%nat -> exists d, w_D W d /\ fd_ci d = ci;
  wi_lock : s_nclo stL = fid_of (length (SyltSem.clos st));
  (* the current scope *)
  wi_sc : forall v, In v sc -> exists c p, SyltSem.lookup e v = Some c /\ sget (fmt_var v) E = Some p /\ w_R W c p true;
  wi_scfl : forall v, In v sc -> ~ In v (fnames fl);
  wi_temps : forall t p, bound <= t -> sget (fmt_var t) E = Some p -> not_user p;
  wi_Finj : forall c c' p K K', w_F W c p K -> w_F W c' p K' -> c = c'
}.
End World.

(* ---- the relation between a configuration of the reference interpreter and one of LuaCore, in a given world ---- *)
Record rel0 (fl : list (N * kind)) (W : world) (sc : list N) (e : senv) (st : sstate) (E : env) (stL : state) : Prop := mkRel {
  r0_scb : forall v, In v sc -> v < bound /\ v <> pv;
  r0_flb : forall v, In v (fnames fl) -> v < bound /\ v <> pv;
  r0_print : SyltSem.lookup e pv = Some (w_pc W);
  r0_pvb : pv < bound;
  r0_pvE : sget (fmt_var pv) E = None;
  r0_pvG : glob stL (fmt_var pv) (VBuiltin BPrint);
  r0_wf : wfenv E stL;
  r0_trace : SyltSem.trace st = s_out stL;
  r0_linv : linv stL;
  r0_world : winv fl W sc e st E stL
}.

(* the function names in scope are bound to function cells of the world W itself: what the code at hand can name
   is known in W; the rest of the invariant holds in a world that knows at least what W knows (the worlds grow
   along a run: every definition of a user variable adds its two cells, every function definition its closure) *)
Definition fscope (fl : list (N * kind)) (W : world) (e : senv) (E : env) : Prop :=
  forall f K, In (f, K) fl -> K <> KP ->
    exists c p, SyltSem.lookup e f = Some c /\ sget (fmt_var f) E = Some p /\ w_F W c p K.

Definition rel (fl : list (N * kind)) (W : world) (sc : list N) (e : senv) (st : sstate) (E : env) (stL : state) : Prop :=
  fscope fl W e E /\ exists W', wsub W W' /\ rel0 fl W' sc e st E stL.

Lemma rel_of0 fl W sc e st E stL : fscope fl W e E -> rel0 fl W sc e st E stL -> rel fl W sc e st E stL.
Proof. intros Hf H. split; [exact Hf|]. exists W. split; [apply wsub_refl | exact H]. Qed.

(* what the relation says, whatever the world it holds in *)
Lemma r_vars fl W sc e st E stL : rel fl W sc e st E stL ->
  forall v, In v sc -> exists c x p, SyltSem.lookup e v = Some c /\ nth_error (SyltSem.cells st) c = Some x /\
                                       sget (fmt_var v) E = Some p /\ vrel x (get_cell stL p).
Proof.
  intros (_ & W' & _ & H) v Hv. destruct (wi_sc _ _ _ _ _ _ _ (r0_world _ _ _ _ _ _ _ H) v Hv) as (c & p & H1 & H2 & H3).
  destruct (wi_R _ _ _ _ _ _ _ (r0_world _ _ _ _ _ _ _ H) c p true H3) as (x & H4 & H5 & _). exists c, x, p. auto.
Qed.
Lemma r_scb fl W sc e st E stL : rel fl W sc e st E stL -> forall v, In v sc -> v < bound /\ v <> pv.
Proof. intros (_ & W' & _ & H). apply (r0_scb _ _ _ _ _ _ _ H). Qed.
Lemma r_flb fl W sc e st E stL : rel fl W sc e st E stL -> forall v, In v (fnames fl) -> v < bound /\ v <> pv.
Proof. intros (_ & W' & _ & H). apply (r0_flb _ _ _ _ _ _ _ H). Qed.
Lemma r_print fl W sc e st E stL : rel fl W sc e st E stL ->
  exists c, SyltSem.lookup e pv = Some c /\ nth_error (SyltSem.cells st) c = Some (SyltSem.SExt "print").
Proof.
  intros (_ & W' & _ & H). exists (w_pc W'). split; [apply (r0_print _ _ _ _ _ _ _ H) | apply (wi_pc _ _ _ _ _ _ _ (r0_world _ _ _ _ _ _ _ H))].
Qed.
Lemma r_pvb fl W sc e st E stL : rel fl W sc e st E stL -> pv < bound.
Proof. intros (_ & W' & _ & H). apply (r0_pvb _ _ _ _ _ _ _ H). Qed.
Lemma r_pvE fl W sc e st E stL : rel fl W sc e st E stL -> sget (fmt_var pv) E = None.
Proof. intros (_ & W' & _ & H). apply (r0_pvE _ _ _ _ _ _ _ H). Qed.
Lemma r_pvG fl W sc e st E stL : rel fl W sc e st E stL -> glob stL (fmt_var pv) (VBuiltin BPrint).
Proof. intros (_ & W' & _ & H). apply (r0_pvG _ _ _ _ _ _ _ H). Qed.
Lemma r_wf fl W sc e st E stL : rel fl W sc e st E stL -> wfenv E stL.
Proof. intros (_ & W' & _ & H). apply (r0_wf _ _ _ _ _ _ _ H). Qed.
Lemma r_trace fl W sc e st E stL : rel fl W sc e st E stL -> SyltSem.trace st = s_out stL.
Proof. intros (_ & W' & _ & H). apply (r0_trace _ _ _ _ _ _ _ H). Qed.
Lemma r_linv fl W sc e st E stL : rel fl W sc e st E stL -> linv stL.
Proof. intros (_ & W' & _ & H). apply (r0_linv _ _ _ _ _ _ _ H). Qed.
Lemma r_scfl fl W sc e st E stL : rel fl W sc e st E stL -> forall v, In v sc -> ~ In v (fnames fl).
Proof. intros (_ & W' & _ & H). apply (wi_scfl _ _ _ _ _ _ _ (r0_world _ _ _ _ _ _ _ H)). Qed.
(* the closure a function name holds; the relation also holds in the world that knows this closure *)
Lemma r_fund fl W sc e st E stL f K : rel fl W sc e st E stL -> In (f, K) fl -> K <> KP ->
  exists c p d, SyltSem.lookup e f = Some c /\ nth_error (SyltSem.cells st) c = Some (SyltSem.SClos (fd_ci d)) /\
                sget (fmt_var f) E = Some p /\ get_cell stL p = VFun (fd_fid d) /\ dkind d = K /\
                rel fl (world_addD W d) sc e st E stL.
Proof.
  intros (Hfs & W' & Hs & H) Hin HK. destruct (Hfs f K Hin HK) as (c & p & H1 & H2 & H3).
  pose proof Hs as (A & HsF & C & D & F). apply HsF in H3.
  destruct (wi_F _ _ _ _ _ _ _ (r0_world _ _ _ _ _ _ _ H) c p K H3) as (d & H6 & H7 & _ & H8 & H9).
  exists c, p, d. split; [exact H1|]. split; [exact H6|]. split; [exact H2|]. split; [exact H7|]. split; [exact H9|].
  split; [exact Hfs|]. exists W'. split; [|exact H].
  unfold wsub, world_addD. cbn. split; [exact A|]. split; [exact HsF|]. split; [intros d0 [Hd0| ->]; [apply C; exact Hd0 | exact H8]|]. split; assumption.
Qed.
(* a fixed cell keeps its content and is not the cell of a variable *)
Lemma r_fixed fl W sc e st E stL p lv : rel fl W sc e st E stL -> w_P W p lv -> get_cell stL p = lv /\ (p < s_ncell stL)%positive.
Proof. intros (_ & W' & (_ & _ & _ & HP & _) & H) Hp. apply (wi_P _ _ _ _ _ _ _ (r0_world _ _ _ _ _ _ _ H)). apply HP. exact Hp. Qed.

(* ---- the world invariant under the changes of state and environment the simulation makes ---- *)

Lemma vrel_not_ext s lv : ~ vrel (SyltSem.SExt s) lv.
Proof. intros H. inversion H. Qed.
Lemma vrel_not_clos ci lv : ~ vrel (SyltSem.SClos ci) lv.
Proof. intros H. inversion H. Qed.

(* the cell of print is not the cell of a user variable *)
Lemma winv_pc_notR fl W sc e st E stL p : winv fl W sc e st E stL -> ~ w_R W (w_pc W) p true.
Proof.
  intros Hw Hr. destruct (wi_R _ _ _ _ _ _ _ Hw _ _ _ Hr) as (x & Hx & Hv & _).
  rewrite (wi_pc _ _ _ _ _ _ _ Hw) in Hx. inversion Hx; subst. exact (vrel_not_ext _ _ Hv).
Qed.

Lemma winv_states fl W sc e st E stL st' stL' :
  winv fl W sc e st E stL ->
  (forall c, (forall p, ~ w_R W c p true) -> (c < length (SyltSem.cells st))%nat ->
             nth_error (SyltSem.cells st') c = nth_error (SyltSem.cells st) c) ->
  (forall c p, w_R W c p true -> exists x, nth_error (SyltSem.cells st') c = Some x /\ vrel x (get_cell stL' p)) ->
  SyltSem.clos st' = SyltSem.clos st ->
  (forall c p K, w_F W c p K -> get_cell stL' p = get_cell stL p) ->
  (forall p lv, w_P W p lv -> get_cell stL' p = get_cell stL p) ->
  (s_ncell stL <= s_ncell stL')%positive ->
  s_clos stL' = s_clos stL -> s_nclo stL' = s_nclo stL ->
  winv fl W sc e st' E stL'.
Proof.
  intros Hw HS HR Hc HF HP Hn Hlc Hnc.
  pose proof Hw as [H1 H2 H3 H4 H5 H6 H7 Hff H8 H9 H10 Hall Hlock H11 H13 H14 Hfi].
  assert (Hlen : forall c x, nth_error (SyltSem.cells st) c = Some x -> (c < length (SyltSem.cells st))%nat)
    by (intros c x H; apply nth_error_Some; congruence).
  constructor; auto.
  - intros c p [|] Hr.
    + destruct (HR c p Hr) as (x & Hx & Hv). destruct (H1 c p true Hr) as (_ & _ & _ & Hlt). exists x. split; [exact Hx | split; [exact Hv | lia]].
    + destruct (H1 c p false Hr) as (x & A & _ & Hlt). exists x. split; [|split; [exact I | lia]].
      rewrite HS; [exact A | | eapply Hlen; exact A]. intros p' Hr'. destruct (H2 c p p' false true Hr Hr') as [_ Hb]. discriminate Hb.
  - intros c p K Hf. destruct (H6 c p K Hf) as (d & A & B & C & D & Dk). exists d.
    split; [|split; [rewrite (HF c p K Hf); exact B | split; [lia | split; [exact D | exact Dk]]]].
    rewrite HS; [exact A | | eapply Hlen; exact A]. intros p' Hr. destruct (H4 c p' true Hr) as [Hn1 _]. exact (Hn1 p K Hf).
  - intros p lv Hp. destruct (H8 p lv Hp) as [A B]. split; [rewrite (HP p lv Hp); exact A | lia].
  - rewrite HS; [exact H9 | intros p'; apply (winv_pc_notR _ _ _ _ _ _ _ p' Hw) | eapply Hlen; exact H9].
  - intros d Hd. destruct (H10 d Hd) as (A & B & C & D & F & G & G').
    split; [exact A|]. split; [rewrite Hc; exact B|].
    split; [rewrite Hlc; exact C|]. split; [intros x p Hx; specialize (D x p Hx); lia|]. split; [exact F|].
    split; [rewrite Hc; exact G | exact G'].
  - rewrite Hc. exact Hall.
  - rewrite Hc, Hnc. exact Hlock.
Qed.

(* the same states, another scope and environments *)
Lemma winv_env fl W sc e st E stL fl' sc' e' E' :
  winv fl W sc e st E stL ->
  (forall v, In v sc' -> exists c p, SyltSem.lookup e' v = Some c /\ sget (fmt_var v) E' = Some p /\ w_R W c p true) ->
  (forall v, In v sc' -> ~ In v (fnames fl')) ->
  (forall t p, bound <= t -> sget (fmt_var t) E' = Some p -> not_user W p) ->
  winv fl' W sc' e' st E' stL.
Proof. intros [H1 H2 H3 H4 H5 H6 H7 Hff H8 H9 H10 Hall Hlock H11 H13 H14 Hfi] A C D. constructor; auto. Qed.

(* a world that knows more: what the invariant of the larger world says about the smaller one's scope *)

(* garbage cells on the Lua side *)
Lemma rel_cells_ext fl W sc e st E stL stL' : rel fl W sc e st E stL -> cells_ext stL stL' -> rel fl W sc e st E stL'.
Proof.
  intros (Hfs & W' & Hs & [Hb Hfb Hp Hpb HpE HpG Hwf Ht Hl HW]) Hx. split; [exact Hfs|]. exists W'. split; [exact Hs|]. constructor.
  - exact Hb.
  - exact Hfb.
  - exact Hp.
  - exact Hpb.
  - exact HpE.
  - eapply cells_ext_glob; eassumption.
  - eapply wfenv_ext; [exact Hwf | apply Hx].
  - destruct Hx as (_ & _ & _ & _ & Ho & _). congruence.
  - eapply cells_ext_linv; eassumption.
  - destruct Hx as (_ & _ & Hc & Hnc & _ & _ & Hn & Hg).
    apply (winv_states fl W' sc e st E stL st stL' HW).
    + intros; reflexivity.
    + intros c p Hr. destruct (wi_R _ _ _ _ _ _ _ HW c p true Hr) as (x & A & B & C). exists x. split; [exact A | rewrite Hg; assumption].
    + intros; reflexivity.
    + intros c p K Hf. apply Hg. destruct (wi_F _ _ _ _ _ _ _ HW c p K Hf) as (d & _ & _ & Hlt & _). exact Hlt.
    + intros p lv Hp'. apply Hg. apply (wi_P _ _ _ _ _ _ _ HW p lv Hp').
    + exact Hn.
    + exact Hc.
    + exact Hnc.
Qed.

(* a new temporary local *)
Lemma rel_local_temp fl W sc e st E stL t v :
  rel fl W sc e st E stL -> bound <= t ->
  rel fl W sc e st (sset (fmt_var t) (s_ncell stL) E) (snd (alloc_cell stL v)).
Proof.
  intros (Hfs & W' & Hs & [Hb Hfb Hp Hpb HpE HpG Hwf Ht Hl HW]) Hbt.
  assert (Hfl : forall f ar, In (f, ar) fl -> f < bound).
  { intros f ar Hin. destruct (Hfb f); [|assumption]. unfold fnames. change f with (fst (f, ar)). apply in_map. exact Hin. }
  split.
  { intros f ar Hin HK. destruct (Hfs f ar Hin HK) as (c & p & A & B & C). exists c, p. split; [exact A | split; [|exact C]].
    rewrite sget_sset_var; [exact B | pose proof (Hfl f ar Hin); lia]. }
  exists W'. split; [exact Hs|]. constructor.
  - exact Hb.
  - exact Hfb.
  - exact Hp.
  - exact Hpb.
  - rewrite sget_sset_var; [exact HpE | lia].
  - eapply glob_frame; [|exact HpG]. reflexivity.
  - apply wfenv_local. exact Hwf.
  - exact Ht.
  - apply linv_alloc_cell. exact Hl.
  - assert (Hw1 : winv fl W' sc e st E (snd (alloc_cell stL v))).
    { apply (winv_states fl W' sc e st E stL st (snd (alloc_cell stL v)) HW).
      - intros; reflexivity.
      - intros c p Hr. destruct (wi_R _ _ _ _ _ _ _ HW c p true Hr) as (x & A & B & C). exists x. split; [exact A | rewrite get_cell_alloc_old; assumption].
      - intros; reflexivity.
      - intros c p K Hf. apply get_cell_alloc_old. destruct (wi_F _ _ _ _ _ _ _ HW c p K Hf) as (d & _ & _ & Hlt & _). exact Hlt.
      - intros p lv Hp'. apply get_cell_alloc_old. apply (wi_P _ _ _ _ _ _ _ HW p lv Hp').
      - cbn; lia.
      - reflexivity.
      - reflexivity. }
    apply (winv_env fl W' sc e st E _ fl sc e _ Hw1).
    + intros w Hin. destruct (wi_sc _ _ _ _ _ _ _ HW w Hin) as (c & p & A & B & C). exists c, p.
      split; [exact A | split; [|exact C]]. rewrite sget_sset_var; [exact B | destruct (Hb w Hin); lia].
    + apply (wi_scfl _ _ _ _ _ _ _ HW).
    + intros t' p Hbt' Hq. destruct (N.eq_dec t' t) as [->|Hne].
      * rewrite sget_sset_same in Hq. inversion Hq; subst p. split.
        -- intros c b Hr. destruct (wi_R _ _ _ _ _ _ _ HW c _ b Hr) as (_ & _ & _ & Hlt). lia.
        -- intros c K Hf. destruct (wi_F _ _ _ _ _ _ _ HW c _ K Hf) as (d & _ & _ & Hlt & _). lia.
      * rewrite sget_sset_var in Hq by exact Hne. apply (wi_temps _ _ _ _ _ _ _ HW t' p Hbt' Hq).
Qed.

(* writing the cell of a temporary *)
Lemma rel_set_temp fl W sc e st E stL t p v :
  rel fl W sc e st E stL -> bound <= t -> sget (fmt_var t) E = Some p -> (forall lv, ~ w_P W p lv) ->
  rel fl W sc e st E (set_cell stL p v).
Proof.
  intros (Hfs & W' & Hs & [Hb Hfb Hp Hpb HpE HpG Hwf Ht Hl HW]) Hbt Htp Hnp. split; [exact Hfs|]. exists W'. split; [exact Hs|]. constructor.
  - exact Hb.
  - exact Hfb.
  - exact Hp.
  - exact Hpb.
  - exact HpE.
  - eapply glob_frame; [|exact HpG]. reflexivity.
  - eapply wfenv_ext; [exact Hwf | cbn; lia].
  - exact Ht.
  - apply linv_set_cell. exact Hl.
  - destruct (wi_temps _ _ _ _ _ _ _ HW t p Hbt Htp) as [HnR HnF].
    apply (winv_states fl W' sc e st E stL st (set_cell stL p v) HW).
    + intros; reflexivity.
    + intros c q Hr. destruct (wi_R _ _ _ _ _ _ _ HW c q true Hr) as (x & A & B & C). exists x. split; [exact A|].
      rewrite get_cell_set_other; [exact B | intros ->; exact (HnR c true Hr)].
    + intros; reflexivity.
    + intros c q d Hf. apply get_cell_set_other. intros ->. exact (HnF c d Hf).
    + intros q lv Hq. apply get_cell_set_other. intros ->. destruct Hs as (_ & _ & _ & HP & _). apply (Hnp lv). apply HP. exact Hq.
    + cbn; lia.
    + reflexivity.
    + reflexivity.
Qed.

End Rel.
