(* C03 through calls and variables.
   A top-level function whose parameters and result are annotated with leaf types (int, float, bool, str, void, nil)
   has, from its declaration on and whatever is unified with whatever in between, a function type whose
   parameter / result classes have these types (fn_sig, an extension-closed invariant: TcInv.kids_keep).  Every read
   of the function instantiates it (fn copy); the instance has the same parameter and result types
   (CopyInst.copy_leaf_kids).  So a call with an argument of another type, or with another number of arguments, is
   rejected; and the value of a call is an `atom` of the result type, so that every mismatch kind of Mismatch.v is
   rejected with calls as operands.  The same for a variable declared with a leaf type. *)
From Coq Require Import String List NArith ZArith PArith Bool Lia FMapPositive.
From Sylt Require Import Syntax.Resolved Types.TyGraph Types.Tc Types.Ctx Types.TcInv Types.Reject Types.Mismatch
  Types.CopyInst.
Import ListNotations.
Local Open Scope tc_scope.

Definition rigid_base (b : basety) : bool := rigid (base_head b).

Section Sig.
  Variable v : N.                       (* the declared variable *)
  Notation V := (N.succ_pos v).

  (* ---- a variable of a leaf type *)
  Definition var_is (b : basety) (s : st) : Prop := head s V = Some (base_head b).

  Lemma var_is_ext b s s' : rigid_base b = true -> wf s -> ext s s' -> var_is b s -> var_is b s'.
  Proof. intros R _ E H. exact (head_keep _ _ _ _ E H R). Qed.

  (* ---- a function with a monomorphic signature *)
  Variable ps : list basety.
  Variable rb : basety.

  Definition fn_sig (s : st) : Prop :=
    exists args r p, head s V = Some (HFn args r p) /\ length args = length ps /\
      (forall n a b, nth_error args n = Some a -> nth_error ps n = Some b -> head s a = Some (base_head b)) /\
      head s r = Some (base_head rb).

  Hypothesis ps_rigid : forall n b, nth_error ps n = Some b -> rigid_base b = true.
  Hypothesis rb_rigid : rigid_base rb = true.

  Lemma fn_sig_ext s s' : wf s -> ext s s' -> fn_sig s -> fn_sig s'.
  Proof.
    intros _ E (args & r & p & Hh & Hl & Ha & Hr). pose proof E as (_ & _ & _ & E4 & _).
    destruct (E4 _ _ Hh eq_refl) as (h' & Hh' & Sh). destruct h'; try discriminate Sh.
    cbn [same_shape] in Sh. apply PeanoNat.Nat.eqb_eq in Sh.
    exists params, ret, p0. split; [assumption|]. split; [lia|]. split.
    - intros n a' b Ha' Hb. destruct (nth_error_same_length params args n a' (eq_sym Sh) Ha') as [a Hna].
      apply (kid_keep s s' V (HFn args r p) (HFn params ret p0) (KArg n) a a'); try assumption; try reflexivity.
      + eapply Ha; eassumption.
      + eapply ps_rigid; eassumption.
    - apply (kid_keep s s' V (HFn args r p) (HFn params ret p0) KRes r ret); try assumption; reflexivity.
  Qed.
End Sig.

Section Calls.
  Variable kinds : PositiveMap.t varkind.
  Variable g : nat.
  Notation G := (gfix g).
  Notation afix := (afix kinds G).

  Let PG : gpres G := gfix_pres g.
  Let PA f : apres (afix f) := afix_pres kinds G PG f.

  (* ---- reading a variable of a leaf type gives its class *)
  Lemma read_var_is v b f sp ctx s r s' :
    rigid_base b = true -> wf s -> var_is v b s -> r_expr (afix f) (ERead v sp) ctx s = Ok (r, s') ->
    head s' (snd r) = Some (base_head b).
  Proof.
    intros Rb W Hv H. destruct f as [|f]; [discriminate|]. cbn [Tc.afix astep r_expr] in H. unfold expr_body in H.
    apply bind_inv in H as ([er ex] & s1 & H1 & H). cbv beta iota in H1.
    apply bind_inv in H1 as (tn & s2 & Ht & H1). apply is_type_name_inv in Ht as [-> _].
    destruct tn; [discriminate|].
    apply bind_inv in H1 as (k & s3 & Hk & H1).
    assert (s3 = s) by (unfold var_kind in Hk; destruct (PositiveMap.find _ kinds); [now injection Hk|discriminate]).
    subst s3. destruct (inside_pure ctx && negb (immutable k)); [discriminate|].
    apply bind_inv in H1 as (t & s4 & Hvt & H1). apply ShapesDecl_var_ty_inv in Hvt as [-> ->].
    injection H1 as <- <- <-.
    rewrite (bind_ok _ _ _ _ _ (find_type_ok _ _ _ Hv)) in H.
    unfold rigid_base in Rb. unfold var_is in Hv. remember (base_head b) as hb eqn:Ehb in *.
    destruct hb; try discriminate Rb; injection H as <- <-; exact Hv.
  Qed.

  Section Fn.
    Variable v : N.
    Variable ps : list basety.
    Variable rb : basety.
    Hypothesis ps_rigid : forall n b, nth_error ps n = Some b -> rigid_base b = true.
    Hypothesis rb_rigid : rigid_base rb = true.
    Notation V := (N.succ_pos v).

    (* every read of the function is an instance with the same parameter and result types *)
    Lemma read_fn f sp ctx s r s' :
      wf s -> fn_sig v ps rb s -> r_expr (afix f) (ERead v sp) ctx s = Ok (r, s') ->
      wf s' /\ ext s s' /\
      exists args r' p, head s' (snd r) = Some (HFn args r' p) /\ length args = length ps /\
        (forall n a b, nth_error args n = Some a -> nth_error ps n = Some b -> head s' a = Some (base_head b)) /\
        head s' r' = Some (base_head rb).
    Proof.
      intros W Sg H. destruct (ap_expr _ (PA f) _ _ _ _ _ W H) as [W' E']. split; [assumption|]. split; [assumption|].
      destruct Sg as (args & r0 & p & Hh & Hl & Ha & Hr).
      destruct f as [|f]; [discriminate|]. cbn [Tc.afix astep r_expr] in H. unfold expr_body in H.
      apply bind_inv in H as ([er ex] & s1 & H1 & H). cbv beta iota in H1.
      apply bind_inv in H1 as (tn & s2 & Ht & H1). apply is_type_name_inv in Ht as [-> _].
      destruct tn; [discriminate|].
      apply bind_inv in H1 as (k & s3 & Hk & H1).
      assert (s3 = s) by (unfold var_kind in Hk; destruct (PositiveMap.find _ kinds); [now injection Hk|discriminate]).
      subst s3. destruct (inside_pure ctx && negb (immutable k)); [discriminate|].
      apply bind_inv in H1 as (t & s4 & Hvt & H1). apply ShapesDecl_var_ty_inv in Hvt as [-> ->].
      injection H1 as <- <- <-.
      rewrite (bind_ok _ _ _ _ _ (find_type_ok _ _ _ Hh)) in H.
      apply bind_inv in H as (c & s5 & Hc & H). injection H as <- <-. cbn [snd].
      destruct (copy_shape _ _ _ _ _ W Hc) as (_ & _ & (h & h' & Hh0 & Hh' & [Sh _])).
      rewrite Hh in Hh0. injection Hh0 as <-. destruct h'; try discriminate Sh. cbn [same_shape] in Sh.
      apply PeanoNat.Nat.eqb_eq in Sh.
      exists params, ret, p0. split; [assumption|]. split; [lia|]. split.
      - intros n a' b Ha' Hb. destruct (nth_error_same_length params args n a' (eq_sym Sh) Ha') as [a Hna].
        destruct (copy_leaf_kids g V s c _ (HFn args r0 p) (KArg n) a (base_head b) W Hc Hh Hna (Ha _ _ _ Hna Hb)
                    (ps_rigid _ _ Hb)) as (h'' & c' & X1 & X2 & X3).
        rewrite Hh' in X1. injection X1 as <-. cbn [kid] in X2. rewrite Ha' in X2. injection X2 as <-. exact X3.
      - destruct (copy_leaf_kids g V s c _ (HFn args r0 p) KRes r0 (base_head rb) W Hc Hh eq_refl Hr rb_rigid)
          as (h'' & c' & X1 & X2 & X3).
        rewrite Hh' in X1. injection X1 as <-. cbn [kid] in X2. injection X2 as <-. exact X3.
    Qed.

    (* the arguments are checked against the parameter classes one by one *)
    Lemma call_args_bad f ctx : forall n args params r s a ta p b,
      wf s -> nth_error args n = Some a -> nth_error params n = Some p ->
      (forall s1 x s2, wf s1 -> ext s s1 -> r_expr (afix f) a ctx s1 = Ok (x, s2) -> head s2 (snd x) = Some ta) ->
      rigid ta = true -> head s p = Some (base_head b) -> rigid_base b = true -> same_shape (base_head b) ta = false ->
      notok (call_args G (afix f) ctx args params r s).
    Proof.
      induction n as [|n IH]; intros [|a0 args] [|p0 params] r s a ta p b W Ha Hp Hy Rt Hh Rb Sh; try discriminate.
      - cbn [nth_error] in Ha, Hp. injection Ha as ->. injection Hp as ->. cbn [call_args].
        apply bind_cases; [apply (ap_expr _ (PA _))|assumption|]. intros [ar at_] s1 H1 W1 E1.
        pose proof (Hy _ _ _ W (ext_refl s) H1) as Hx. cbn [snd] in Hx.
        apply bind_notok_l. apply (unify_rejects g _ p at_ s1 (base_head b) ta W1); try assumption.
        + exact (head_keep _ _ _ _ E1 Hh Rb).
        + now apply rigid_known.
        + now apply rigid_known.
      - cbn [nth_error] in Ha, Hp. cbn [call_args].
        apply bind_cases; [apply (ap_expr _ (PA _))|assumption|]. intros [ar at_] s1 H1 W1 E1.
        apply bind_cases; [apply (pres_unify G PG)|assumption|]. intros u2 s2 H2 W2 E2.
        apply bind_cases; [apply pres_add_constraint|assumption|]. intros u3 s3 H3 W3 E3.
        apply bind_cases; [apply (gp_check G PG)|assumption|]. intros u4 s4 H4 W4 E4.
        apply bind_cases; [pose proof PG; prs|assumption|]. intros r' s5 H5 W5 E5.
        assert (E05 : ext s s5) by (repeat (eapply ext_trans; [eassumption|]); apply ext_refl).
        apply (IH args params r' s5 a ta p b); try assumption.
        + intros s6 x s7 W6 E6. apply Hy; [assumption|eapply ext_trans; eassumption].
        + exact (head_keep _ _ _ _ E05 Hh Rb).
    Qed.

    (* f(.., a, ..) with an argument of another type than the annotated parameter *)
    Lemma rej_call_arg f sp1 args sp ctx s n a ta b :
      wf s -> fn_sig v ps rb s -> nth_error args n = Some a -> nth_error ps n = Some b ->
      (forall f' s1 x s2, wf s1 -> ext s s1 -> r_expr (afix f') a ctx s1 = Ok (x, s2) -> head s2 (snd x) = Some ta) ->
      rigid ta = true -> same_shape (base_head b) ta = false ->
      notok (r_expr (afix f) (ECall (ERead v sp1) args sp) ctx s).
    Proof.
      intros W Sg Ha Hb Hy Rt Sh. destruct f as [|f]; [apply notok_fuel|].
      cbn [Tc.afix astep r_expr]. unfold expr_body. apply bind_notok_l. cbv beta iota.
      apply bind_cases; [apply (ap_expr _ (PA _))|assumption|]. intros [r0 fn] s1 H1 W1 E1.
      destruct (read_fn _ _ _ _ _ _ W Sg H1) as (_ & _ & (params & r' & p & Hh & Hl & Hps & Hr)). cbn [snd] in Hh.
      rewrite (bind_ok _ _ _ _ _ (find_type_ok _ _ _ Hh)).
      destruct (negb (Nat.eqb (length args) (length params))); [apply notok_fail|].
      destruct (inside_pure ctx && negb (is_pure_p p)); [apply notok_fail|].
      apply bind_notok_l.
      assert (Hn : exists pn, nth_error params n = Some pn).
      { destruct (nth_error params n) as [pn|] eqn:En; [eauto|]. apply nth_error_None in En.
        assert (n < length ps)%nat by (apply nth_error_Some; congruence). lia. }
      destruct Hn as [pn Hpn].
      apply (call_args_bad f ctx n args params r0 s1 a ta pn b); try assumption.
      - intros s2 x s3 W2 E2. apply Hy; [assumption|eapply ext_trans; eassumption].
      - eapply Hps; eassumption.
      - eapply ps_rigid; eassumption.
    Qed.

    (* a call with another number of arguments than the function has parameters *)
    Lemma rej_call_arity f sp1 args sp ctx s :
      wf s -> fn_sig v ps rb s -> length args <> length ps ->
      notok (r_expr (afix f) (ECall (ERead v sp1) args sp) ctx s).
    Proof.
      intros W Sg Hl. destruct f as [|f]; [apply notok_fuel|].
      cbn [Tc.afix astep r_expr]. unfold expr_body. apply bind_notok_l. cbv beta iota.
      apply bind_cases; [apply (ap_expr _ (PA _))|assumption|]. intros [r0 fn] s1 H1 W1 E1.
      destruct (read_fn _ _ _ _ _ _ W Sg H1) as (_ & _ & (params & r' & p & Hh & Hl' & _)). cbn [snd] in Hh.
      rewrite (bind_ok _ _ _ _ _ (find_type_ok _ _ _ Hh)).
      destruct (Nat.eqb (length args) (length params)) eqn:El; [apply PeanoNat.Nat.eqb_eq in El; lia|]. apply notok_fail.
    Qed.

    Lemma pres_call_args' f ctx args params r : pres (call_args G (afix f) ctx args params r).
    Proof. apply pres_call_args; [exact PG|apply PA]. Qed.

    (* the value of a call has the annotated result type *)
    Lemma call_yields f sp1 args sp ctx s r s' :
      wf s -> fn_sig v ps rb s -> r_expr (afix f) (ECall (ERead v sp1) args sp) ctx s = Ok (r, s') ->
      head s' (snd r) = Some (base_head rb).
    Proof.
      intros W Sg H. destruct f as [|f]; [discriminate|]. cbn [Tc.afix astep r_expr] in H. unfold expr_body in H.
      apply bind_inv in H as ([er ex] & s1 & H1 & H). cbv beta iota in H1.
      apply bind_inv_pres0 in H1 as ([r0 fn] & s2 & Hf & W2 & E2 & H1); [|apply (ap_expr _ (PA _))|assumption].
      destruct (read_fn _ _ _ _ _ _ W Sg Hf) as (_ & _ & (params & r' & p & Hh & Hl & Hps & Hr)). cbn [snd] in Hh.
      rewrite (bind_ok _ _ _ _ _ (find_type_ok _ _ _ Hh)) in H1.
      destruct (negb (Nat.eqb (length args) (length params))); [discriminate|].
      destruct (inside_pure ctx && negb (is_pure_p p)); [discriminate|].
      apply bind_inv_pres0 in H1 as (r1 & s3 & Hca & W3 & E3 & H1); [|apply pres_call_args'|assumption].
      apply bind_inv_pres0 in H1 as (u & s4 & Hck & W4 & E4 & H1); [|apply (gp_check G PG)|assumption].
      injection H1 as <- <- <-.
      assert (Hx : head s4 r' = Some (base_head rb)).
      { eapply head_keep; [exact (ext_trans _ _ _ E3 E4)|exact Hr|exact rb_rigid]. }
      rewrite (bind_ok _ _ _ _ _ (find_type_ok _ _ _ Hx)) in H.
      pose proof rb_rigid as Rr. unfold rigid_base in Rr. remember (base_head rb) as hb eqn:Ehb in *.
      destruct hb; try discriminate Rr; injection H as <- <-; exact Hx.
    Qed.

    (* ---- atoms under the signature: literals and calls of the function *)
    Inductive call_atom : expr -> tyh -> Prop :=
    | CALit e t : lit_atom e t -> call_atom e t
    | CACall sp1 args sp : call_atom (ECall (ERead v sp1) args sp) (base_head rb).

    Lemma call_atom_rigid e t : call_atom e t -> rigid t = true.
    Proof. intros [e0 t0 [_ R]|]; [exact R|exact rb_rigid]. Qed.

    Lemma call_atom_spec e t f ctx s r s' :
      call_atom e t -> wf s -> fn_sig v ps rb s -> r_expr (afix f) e ctx s = Ok (r, s') -> head s' (snd r) = Some t.
    Proof.
      intros [e0 t0 L|sp1 args sp] W Sg H.
      - exact (lit_atom_spec kinds g _ _ _ _ _ _ _ L W I H).
      - eapply call_yields; eassumption.
    Qed.

    Lemma call_atom_not_fn e t : call_atom e t -> match e with EFunction _ _ _ _ _ _ => False | _ => True end.
    Proof. intros [e0 t0 L|]; [exact (lit_atom_not_fn _ _ L)|exact I]. Qed.

    (* the mismatches that involve the function *)
    Inductive bad_call : expr -> Prop :=
    (* f(.., a, ..): an atom of another type than the parameter *)
    | BadCallArg sp1 args sp n a ta b :
        nth_error args n = Some a -> nth_error ps n = Some b -> call_atom a ta -> same_shape (base_head b) ta = false ->
        bad_call (ECall (ERead v sp1) args sp)
    (* f(a, b) for a function of one parameter *)
    | BadCallArity sp1 args sp : length args <> length ps -> bad_call (ECall (ERead v sp1) args sp)
    (* a mismatch kind of Mismatch.v with calls of the function as operands: "a" + f(1), not f(1), x: str = f(1) .. *)
    | BadCallOperand e : bad_expr_g call_atom e -> bad_call e.

    Theorem bad_call_rejected e : bad_call e ->
      forall f ctx s, wf s /\ fn_sig v ps rb s -> notok (r_expr (afix f) e ctx s).
    Proof.
      intros B f ctx s [W Sg]. destruct B as [sp1 args sp n a ta b Ha Hb At Sh|sp1 args sp Hl|e B].
      - apply (rej_call_arg f sp1 args sp ctx s n a ta b W Sg Ha Hb); [|exact (call_atom_rigid _ _ At)|exact Sh].
        intros f' s1 x s2 W1 E1 Hx.
        exact (call_atom_spec _ _ _ _ _ _ _ At W1 (fn_sig_ext v ps rb ps_rigid rb_rigid _ _ W E1 Sg) Hx).
      - eapply rej_call_arity; eassumption.
      - apply (bad_expr_g_rejected kinds g (fn_sig v ps rb) (fn_sig_ext v ps rb ps_rigid rb_rigid) call_atom
                 call_atom_rigid call_atom_spec e B f ctx s W Sg).
    Qed.
  End Fn.

  (* ---- atoms under the declaration of a variable: literals and reads of the variable *)
  Section Var.
    Variable v : N.
    Variable b : basety.
    Hypothesis b_rigid : rigid_base b = true.

    Inductive var_atom : expr -> tyh -> Prop :=
    | VALit e t : lit_atom e t -> var_atom e t
    | VARead sp : var_atom (ERead v sp) (base_head b).

    Lemma var_atom_rigid e t : var_atom e t -> rigid t = true.
    Proof. intros [e0 t0 [_ R]|]; [exact R|exact b_rigid]. Qed.

    Lemma var_atom_spec e t f ctx s r s' :
      var_atom e t -> wf s -> var_is v b s -> r_expr (afix f) e ctx s = Ok (r, s') -> head s' (snd r) = Some t.
    Proof.
      intros [e0 t0 L|sp] W Hv H.
      - exact (lit_atom_spec kinds g _ _ _ _ _ _ _ L W I H).
      - eapply read_var_is; eassumption.
    Qed.

    Lemma var_atom_not_fn e t : var_atom e t -> match e with EFunction _ _ _ _ _ _ => False | _ => True end.
    Proof. intros [e0 t0 L|]; [exact (lit_atom_not_fn _ _ L)|exact I]. Qed.

    Theorem bad_var_use_rejected e : bad_expr_g var_atom e ->
      forall f ctx s, wf s /\ var_is v b s -> notok (r_expr (afix f) e ctx s).
    Proof.
      intros B f ctx s [W Hv].
      apply (bad_expr_g_rejected kinds g (var_is v b) (fun s s' => var_is_ext v b s s' b_rigid) var_atom
               var_atom_rigid var_atom_spec e B f ctx s W Hv).
    Qed.
  End Var.
End Calls.
