(* Consistent renaming of binders ("alpha-equivalence" of parser ASTs) with respect to the scoping
   discipline the resolver implements, and the name-erasure of resolved programs.

   Two programs p and p' are related when they are the same tree, with the same spans, and differ only
   in the names of identifiers in BINDING or REFERENCE position, consistently:

   - a context Gamma : list (name, name') is the list of the paired names of the binders currently in
     scope, innermost first.  It is threaded through the two trees exactly as the resolver threads its
     scope stack (a definition / parameter / case variable pushes a pair, leaving a block or function
     truncates; an if-branch / case arm / case else-block truncates iff the corresponding flag of
     Resolve/Resolver.v says the code does).
   - a reference x ~ x' is allowed when the first pair of Gamma that mentions x on the left, or x' on the
     right, mentions both (`ctx_var`): both refer to the same binder, no capture on either side.  When
     no pair mentions either, both refer to globals and x' = g x for the renaming g of global names.
   - `x.field`: unless the flag `access_local_first` says otherwise, the code consults the namespace table
     of the file BEFORE the scope stack (DESIGN section 7 row 20).  So either the chain is known to be a namespace path (`sure_ns`) and is renamed
     by g, or the root names of both chains are known not to be namespace names of that file
     (`is_ns fid x = false`) or the prefix is not a chain of names at all, or (undetermined) the chain is
     renamed by g AND consistently as an expression.

   Not renamed: field names, variant names, generic type names, "self", the file of a use statement.
   Definitions only. *)
From Coq Require Import String List NArith ZArith Bool.
From Sylt Require Import Syntax.Resolved Resolve.PAst Resolve.Resolver.
Import ListNotations.
Local Open Scope string_scope.

Definition ctx := list (string * string).

Section Alpha.
Variable fl : rflags.                        (* the scoping discipline *)
Variable g : string -> string.               (* renaming of global names (injective) *)
Variable is_ns : N -> string -> bool.        (* over-approximation: (file id, name) may name a namespace *)
Variable sure_ns : N -> passign -> bool.     (* under-approximation: seen from file id, the chain IS a namespace path *)

Fixpoint ctx_var (G : ctx) (x x' : string) : bool :=
  match G with
  | [] => String.eqb (g x) x'
  | (a, a') :: G' =>
      match String.eqb a x, String.eqb a' x' with
      | true, true => true
      | false, false => ctx_var G' x x'
      | _, _ => false
      end
  end.

(* identifiers in local-or-global reference position / in global position; spans are never changed *)
Definition id_ref (G : ctx) (i i' : ident) : Prop :=
  ctx_var G (i_name i) (i_name i') = true /\ i_span i = i_span i'.
Definition id_glob (i i' : ident) : Prop := g (i_name i) = i_name i' /\ i_span i = i_span i'.
Definition id_bind (i i' : ident) : Prop := i_span i = i_span i'.      (* a binder: any two names *)

(* Vec::truncate on the context *)
Definition ctx_truncate (len : nat) (G : ctx) : ctx := skipn (length G - len) G.
Definition ctx_truncate_if (b : bool) (len : nat) (G : ctx) : ctx := if b then ctx_truncate len G else G.

(* a list processed left to right, the context threaded *)
Inductive thread {X : Type} (P : ctx -> X -> X -> ctx -> Prop) : ctx -> list X -> list X -> ctx -> Prop :=
| thread_nil G : thread P G [] [] G
| thread_cons G G1 G2 x x' l l' : P G x x' G1 -> thread P G1 l l' G2 -> thread P G (x :: l) (x' :: l') G2.

(* namespace paths in types (`a.b.T`): all names global *)
Inductive alpha_tns : ptassign -> ptassign -> Prop :=
| atn_read i i' sp : id_glob i i' -> alpha_tns (TARead i sp) (TARead i' sp)
| atn_access t t' i i' sp : alpha_tns t t' -> id_glob i i' -> alpha_tns (TAAccess t i sp) (TAAccess t' i' sp).

Inductive alpha_ta (G : ctx) : ptassign -> ptassign -> Prop :=
| ata_read i i' sp : id_ref G i i' -> alpha_ta G (TARead i sp) (TARead i' sp)
| ata_access t t' i i' sp : alpha_tns t t' -> id_glob i i' -> alpha_ta G (TAAccess t i sp) (TAAccess t' i' sp).

Inductive alpha_ty (G : ctx) : pty -> pty -> Prop :=
| aty_implied sp : alpha_ty G (PTImplied sp) (PTImplied sp)
| aty_resolved b sp : alpha_ty G (PTResolved b sp) (PTResolved b sp)
| aty_user t t' args args' sp :
    alpha_ta G t t' -> Forall2 (alpha_ty G) args args' -> alpha_ty G (PTUser t args sp) (PTUser t' args' sp)
| aty_fn cs ps ps' r r' pure sp :
    Forall2 (alpha_ty G) ps ps' -> alpha_ty G r r' -> alpha_ty G (PTFn cs ps r pure sp) (PTFn cs ps' r' pure sp)
| aty_tuple ts ts' sp : Forall2 (alpha_ty G) ts ts' -> alpha_ty G (PTTuple ts sp) (PTTuple ts' sp)
| aty_list t t' sp : alpha_ty G t t' -> alpha_ty G (PTList t sp) (PTList t' sp)
| aty_generic n sp : alpha_ty G (PTGeneric n sp) (PTGeneric n sp)
| aty_grouping t t' sp : alpha_ty G t t' -> alpha_ty G (PTGrouping t sp) (PTGrouping t' sp).

(* namespace paths in expressions (`a.b` of `a.b.x`): all names global *)
Inductive alpha_ns : passign -> passign -> Prop :=
| ans_read i i' sp : id_glob i i' -> alpha_ns (ARead i sp) (ARead i' sp)
| ans_access a a' i i' sp : alpha_ns a a' -> id_glob i i' -> alpha_ns (AAccess a i sp) (AAccess a' i' sp).

(* "certainly not a namespace path when looked at from file fid" *)
Definition not_ns (fid : N) (a : passign) : Prop :=
  match chain_root a with Some x => is_ns fid x = false | None => True end.

(* is the name bound by the context, on the left / on the right *)
Fixpoint ctx_has_l (G : ctx) (x : string) : bool :=
  match G with [] => false | (a, _) :: G' => String.eqb a x || ctx_has_l G' x end.
Fixpoint ctx_has_r (G : ctx) (x : string) : bool :=
  match G with [] => false | (_, a') :: G' => String.eqb a' x || ctx_has_r G' x end.

(* the roots of both chains are declarations in scope / neither is *)
Definition roots_local (G : ctx) (a a' : passign) : Prop :=
  match chain_root a, chain_root a' with
  | Some x, Some x' => ctx_has_l G x = true /\ ctx_has_r G x' = true
  | _, _ => False
  end.
Definition roots_free (G : ctx) (a a' : passign) : Prop :=
  match chain_root a with Some x => ctx_has_l G x = false | None => True end
  /\ match chain_root a' with Some x' => ctx_has_r G x' = false | None => True end.
(* the namespace table is consulted for `a.x`: always when the code does not look at the scope stack
   first, else only when the root of the chain is not a declaration in scope *)
Definition ns_applies (G : ctx) (a a' : passign) : Prop :=
  access_local_first fl = false \/ roots_free G a a'.

Definition binexp (e : pexpr) : option (pexpr * pexpr * (pexpr -> pexpr -> pexpr)) :=
  match e with
  | PAdd a b sp => Some (a, b, fun a b => PAdd a b sp)
  | PSub a b sp => Some (a, b, fun a b => PSub a b sp)
  | PMul a b sp => Some (a, b, fun a b => PMul a b sp)
  | PDiv a b sp => Some (a, b, fun a b => PDiv a b sp)
  | PComparison a k b sp => Some (a, b, fun a b => PComparison a k b sp)
  | PAssertEq a b sp => Some (a, b, fun a b => PAssertEq a b sp)
  | PAnd a b sp => Some (a, b, fun a b => PAnd a b sp)
  | POr a b sp => Some (a, b, fun a b => POr a b sp)
  | _ => None
  end.

Inductive alpha_e : ctx -> pexpr -> pexpr -> ctx -> Prop :=
| ae_get G G1 a a' sp : alpha_a G a a' G1 -> alpha_e G (PGet a sp) (PGet a' sp) G1
| ae_add G G1 G2 a a' b b' sp : alpha_e G a a' G1 -> alpha_e G1 b b' G2 -> alpha_e G (PAdd a b sp) (PAdd a' b' sp) G2
| ae_sub G G1 G2 a a' b b' sp : alpha_e G a a' G1 -> alpha_e G1 b b' G2 -> alpha_e G (PSub a b sp) (PSub a' b' sp) G2
| ae_mul G G1 G2 a a' b b' sp : alpha_e G a a' G1 -> alpha_e G1 b b' G2 -> alpha_e G (PMul a b sp) (PMul a' b' sp) G2
| ae_div G G1 G2 a a' b b' sp : alpha_e G a a' G1 -> alpha_e G1 b b' G2 -> alpha_e G (PDiv a b sp) (PDiv a' b' sp) G2
| ae_cmp G G1 G2 a a' k b b' sp :
    alpha_e G a a' G1 -> alpha_e G1 b b' G2 -> alpha_e G (PComparison a k b sp) (PComparison a' k b' sp) G2
| ae_assert G G1 G2 a a' b b' sp :
    alpha_e G a a' G1 -> alpha_e G1 b b' G2 -> alpha_e G (PAssertEq a b sp) (PAssertEq a' b' sp) G2
| ae_and G G1 G2 a a' b b' sp : alpha_e G a a' G1 -> alpha_e G1 b b' G2 -> alpha_e G (PAnd a b sp) (PAnd a' b' sp) G2
| ae_or G G1 G2 a a' b b' sp : alpha_e G a a' G1 -> alpha_e G1 b b' G2 -> alpha_e G (POr a b sp) (POr a' b' sp) G2
| ae_neg G G1 a a' sp : alpha_e G a a' G1 -> alpha_e G (PNeg a sp) (PNeg a' sp) G1
| ae_not G G1 a a' sp : alpha_e G a a' G1 -> alpha_e G (PNot a sp) (PNot a' sp) G1
| ae_paren G G1 a a' sp : alpha_e G a a' G1 -> alpha_e G (PParenthesis a sp) (PParenthesis a' sp) G1
| ae_if G G1 brs brs' sp : thread alpha_ifb G brs brs' G1 -> alpha_e G (PIf brs sp) (PIf brs' sp) G1
| ae_case G G1 G2 G3 tm tm' brs brs' ft ft' sp :
    alpha_e G tm tm' G1 -> thread alpha_cb G1 brs brs' G2 -> alpha_ft G2 ft ft' G3 ->
    alpha_e G (PCase tm brs ft sp) (PCase tm' brs' ft' sp) G3
| ae_fun G G1 G2 nm ps ps' rt rt' body body' pure sp :
    thread alpha_param G ps ps' G1 -> alpha_ty G1 rt rt' -> thread alpha_s G1 body body' G2 ->
    alpha_e G (PFunction nm ps rt body pure sp) (PFunction nm ps' rt' body' pure sp) (ctx_truncate (length G) G2)
| ae_blob G G1 blob blob' fields fields' sp :
    alpha_ta G blob blob' -> thread alpha_fld G fields fields' G1 ->
    alpha_e G (PBlob blob fields sp) (PBlob blob' fields' sp) G1
| ae_tuple G G1 vs vs' sp : thread alpha_e G vs vs' G1 -> alpha_e G (PTuple vs sp) (PTuple vs' sp) G1
| ae_list G G1 vs vs' sp : thread alpha_e G vs vs' G1 -> alpha_e G (PList vs sp) (PList vs' sp) G1
| ae_float G r sp : alpha_e G (PFloat r sp) (PFloat r sp) G
| ae_int G z sp : alpha_e G (PInt z sp) (PInt z sp) G
| ae_str G s sp : alpha_e G (PStr s sp) (PStr s sp) G
| ae_bool G b sp : alpha_e G (PBool b sp) (PBool b sp) G
| ae_nil G sp : alpha_e G (PNil sp) (PNil sp) G

with alpha_a : ctx -> passign -> passign -> ctx -> Prop :=
| aa_read G i i' sp : id_ref G i i' -> alpha_a G (ARead i sp) (ARead i' sp) G
| aa_variant G G1 G2 ea ea' variant value value' sp :
    alpha_a G ea ea' G1 -> alpha_e G1 value value' G2 ->
    alpha_a G (AVariant ea variant value sp) (AVariant ea' variant value' sp) G2
| aa_call G G1 G2 f f' args args' sp :
    alpha_a G f f' G1 -> thread alpha_e G1 args args' G2 -> alpha_a G (ACall f args sp) (ACall f' args' sp) G2
| aa_arrow G G1 G2 G3 x x' f f' args args' sp :
    alpha_e G x x' G1 -> alpha_a G1 f f' G2 -> thread alpha_e G2 args args' G3 ->
    alpha_a G (AArrowCall x f args sp) (AArrowCall x' f' args' sp) G3
(* `n.x`, `a.b.x`: the prefix is known to be a namespace path; every name is a global name *)
| aa_access_qual G a a' i i' sp :
    ns_applies G a a' ->
    sure_ns (sp_file sp) a = true -> alpha_ns a a' -> id_glob i i' ->
    alpha_a G (AAccess a i sp) (AAccess a' i' sp) G
(* `a.x`, undetermined: the prefix is renamed as a namespace path would be, and also as an expression
   (the code decides at run time which of the two it is: it is the same decision on both sides) *)
| aa_access_ns G a a' i i' sp :
    ns_applies G a a' ->
    alpha_ns a a' -> alpha_a G a a' G -> i_name i = i_name i' -> i_span i = i_span i' ->
    g (i_name i) = i_name i' ->
    alpha_a G (AAccess a i sp) (AAccess a' i' sp) G
(* `a.field`: neither prefix can be a namespace path *)
| aa_access_field G G1 a a' i sp :
    ns_applies G a a' ->
    not_ns (sp_file sp) a -> not_ns (sp_file sp) a' -> alpha_a G a a' G1 ->
    alpha_a G (AAccess a i sp) (AAccess a' i sp) G1
(* `x.field` where x is a declaration in scope and the code looks at the scope stack first *)
| aa_access_local G G1 a a' i sp :
    access_local_first fl = true -> roots_local G a a' -> alpha_a G a a' G1 ->
    alpha_a G (AAccess a i sp) (AAccess a' i sp) G1
| aa_index G G1 G2 a a' idx idx' sp :
    alpha_a G a a' G1 -> alpha_e G1 idx idx' G2 -> alpha_a G (AIndex a idx sp) (AIndex a' idx' sp) G2
| aa_expr G G1 e e' sp : alpha_e G e e' G1 -> alpha_a G (AExpression e sp) (AExpression e' sp) G1

with alpha_ifb : ctx -> pifbranch -> pifbranch -> ctx -> Prop :=
| aifb G G1 G2 c c' body body' sp :
    alpha_oe G c c' G1 -> thread alpha_s G1 body body' G2 ->
    alpha_ifb G (PIfBranch c body sp) (PIfBranch c' body' sp) (ctx_truncate_if (if_truncates fl) (length G1) G2)

with alpha_cb : ctx -> pcasebranch -> pcasebranch -> ctx -> Prop :=
| acb_none G G2 pat body body' :
    thread alpha_s G body body' G2 ->
    alpha_cb G (PCaseBranch pat None body) (PCaseBranch pat None body')
             (ctx_truncate_if (case_truncates fl) (length G) G2)
| acb_some G G2 pat v v' body body' :
    id_bind v v' -> thread alpha_s ((i_name v, i_name v') :: G) body body' G2 ->
    alpha_cb G (PCaseBranch pat (Some v) body) (PCaseBranch pat (Some v') body')
             (ctx_truncate_if (case_truncates fl) (length G) G2)

with alpha_ft : ctx -> option (list pstmt) -> option (list pstmt) -> ctx -> Prop :=
| aft_none G : alpha_ft G None None G
| aft_some G G1 b b' :
    thread alpha_s G b b' G1 -> alpha_ft G (Some b) (Some b') (ctx_truncate_if (else_truncates fl) (length G) G1)

with alpha_oe : ctx -> option pexpr -> option pexpr -> ctx -> Prop :=
| aoe_none G : alpha_oe G None None G
| aoe_some G G1 e e' : alpha_e G e e' G1 -> alpha_oe G (Some e) (Some e') G1

with alpha_param : ctx -> ident * pty -> ident * pty -> ctx -> Prop :=
| aparam G n n' t t' :
    id_bind n n' -> alpha_ty ((i_name n, i_name n') :: G) t t' ->
    alpha_param G (n, t) (n', t') ((i_name n, i_name n') :: G)

(* a field of a blob instance: `self` is in scope iff the field is a function literal; the stack is
   restored after every field *)
with alpha_fld : ctx -> string * pexpr -> string * pexpr -> ctx -> Prop :=
| afld G G1 n e e' :
    is_function e = is_function e' ->
    alpha_e (if is_function e then ("self", "self") :: G else G) e e' G1 ->
    alpha_fld G (n, e) (n, e') (ctx_truncate (length G) G1)

with alpha_s : ctx -> pstmt -> pstmt -> ctx -> Prop :=
| as_empty G sp : alpha_s G (PEmptyStatement sp) (PEmptyStatement sp) G
| as_use G path path' nm nm' file sp :
    (match nm, nm' with
     | Implicit i, Implicit i' | Alias i, Alias i' => id_glob i i'
     | _, _ => False
     end) ->
    alpha_s G (PUse path nm file sp) (PUse path' nm' file sp) G
| as_fromuse G path path' imps imps' file sp :
    Forall2 (fun p p' => id_glob (fst p) (fst p') /\
                         match snd p, snd p' with
                         | None, None => True
                         | Some a, Some a' => id_glob a a'
                         | _, _ => False
                         end) imps imps' ->
    alpha_s G (PFromUse path imps file sp) (PFromUse path' imps' file sp) G
| as_blob G nm nm' vars fields fields' ext sp :
    id_ref G nm nm' ->
    Forall2 (fun f f' => fst f = fst f' /\ alpha_ty G (snd f) (snd f')) fields fields' ->
    alpha_s G (PBlobDef nm vars fields ext sp) (PBlobDef nm' vars fields' ext sp) G
| as_enum G nm nm' vars variants variants' sp :
    id_ref G nm nm' ->
    Forall2 (fun f f' => fst f = fst f' /\ alpha_ty G (snd f) (snd f')) variants variants' ->
    alpha_s G (PEnumDef nm vars variants sp) (PEnumDef nm' vars variants' sp) G
| as_extdef G i i' k t t' sp :
    id_ref G i i' -> alpha_ty G t t' ->
    alpha_s G (PExternalDefinition i k t sp) (PExternalDefinition i' k t' sp) G
(* a global definition (empty context): the initialiser is resolved under a marker, then the stack is
   cleared; the name is a global name *)
| as_def_global G1 i i' k t t' value value' sp :
    id_glob i i' ->
    alpha_e [(stack_begin_name (i_name i), stack_begin_name (i_name i'))] value value' G1 ->
    alpha_ty [] t t' ->
    alpha_s [] (PDefinition i k t value sp) (PDefinition i' k t' value' sp) []
(* a local function: visible in its own body *)
| as_def_fn G G1 i i' k t t' value value' sp :
    G <> [] -> is_function value = true -> is_function value' = true -> id_bind i i' ->
    alpha_e ((i_name i, i_name i') :: G) value value' G1 -> alpha_ty G1 t t' ->
    alpha_s G (PDefinition i k t value sp) (PDefinition i' k t' value' sp) G1
(* a local value: visible after its definition *)
| as_def_val G G1 i i' k t t' value value' sp :
    G <> [] -> is_function value = false -> is_function value' = false -> id_bind i i' ->
    alpha_e G value value' G1 -> alpha_ty ((i_name i, i_name i') :: G1) t t' ->
    alpha_s G (PDefinition i k t value sp) (PDefinition i' k t' value' sp) ((i_name i, i_name i') :: G1)
| as_assign G G1 G2 op target target' value value' sp :
    alpha_e G value value' G1 -> alpha_a G1 target target' G2 ->
    alpha_s G (PAssignment op target value sp) (PAssignment op target' value' sp) G2
| as_loop G G1 G2 c c' body body' sp :
    alpha_e G c c' G1 -> alpha_s G1 body body' G2 -> alpha_s G (PLoop c body sp) (PLoop c' body' sp) G2
| as_break G sp : alpha_s G (PBreak sp) (PBreak sp) G
| as_continue G sp : alpha_s G (PContinue sp) (PContinue sp) G
| as_ret G G1 v v' sp : alpha_oe G v v' G1 -> alpha_s G (PRet v sp) (PRet v' sp) G1
| as_block G G1 ss ss' sp :
    thread alpha_s G ss ss' G1 -> alpha_s G (PBlock ss sp) (PBlock ss' sp) (ctx_truncate (length G) G1)
| as_sexpr G G1 v v' sp :
    alpha_e G v v' G1 -> alpha_s G (PStatementExpression v sp) (PStatementExpression v' sp) G1
| as_unreachable G sp : alpha_s G (PUnreachable sp) (PUnreachable sp) G.

(* whole programs: the same modules; every top-level statement related in the empty context *)
Definition alpha_module (m m' : pmodule) : Prop :=
  m_file m = m_file m' /\ m_file_id m = m_file_id m' /\
  Forall2 (fun s s' => alpha_s [] s s' []) (m_stmts m) (m_stmts m').

Definition alpha_ast (p p' : past) : Prop := Forall2 alpha_module p p'.

End Alpha.

(* ---------------------------------------------------------------------------------------------- *)
(* erasure of the names that a resolved program carries for diagnostics *)

Definition erase_var (v : var) : var := mkVar (v_id v) "" (v_def v) (v_global v) (v_kind v).

Fixpoint erase_e (e : expr) : expr :=
  match e with
  | ERead v sp => ERead v sp
  | EVariant t v value sp => EVariant t v (erase_e value) sp
  | ECall f args sp => ECall (erase_e f) (map erase_e args) sp
  | EBlobAccess value f sp => EBlobAccess (erase_e value) f sp
  | EIndex value index sp => EIndex (erase_e value) (erase_e index) sp
  | EBinOp op a b sp => EBinOp op (erase_e a) (erase_e b) sp
  | EUniOp op a sp => EUniOp op (erase_e a) sp
  | EIf branches sp =>
      EIf (map (fun b => match b with
                         | IfBranch c body bsp => IfBranch (option_map erase_e c) (map erase_s body) bsp
                         end) branches) sp
  | ECase tm branches ft sp =>
      ECase (erase_e tm)
            (map (fun b => match b with
                           | CaseBranch p psp v body bsp => CaseBranch p psp v (map erase_s body) bsp
                           end) branches)
            (option_map (map erase_s) ft) sp
  | EFunction nm params rt body pure sp =>
      EFunction nm (map (fun p => match p with (_, v, psp, t) => (""%string, v, psp, t) end) params)
                rt (map erase_s body) pure sp
  | EBlob b fields sv sp => EBlob b (map (fun f => (fst f, erase_e (snd f))) fields) sv sp
  | ECollection c values sp => ECollection c (map erase_e values) sp
  | EFloat _ _ | EInt _ _ | EStr _ _ | EBool _ _ | ENil _ => e
  end
with erase_s (s : stmt) : stmt :=
  match s with
  | SAssignment op target value sp => SAssignment op (erase_e target) (erase_e value) sp
  | SBlob _ v sp vars fields ext => SBlob "" v sp vars fields ext
  | SEnum _ v sp vars variants => SEnum "" v sp vars variants
  | SDefinition _ v k t value sp => SDefinition "" v k t (erase_e value) sp
  | SExternalDefinition _ v k t sp => SExternalDefinition "" v k t sp
  | SLoop c body sp => SLoop (erase_e c) (map erase_s body) sp
  | SRet v sp => SRet (option_map erase_e v) sp
  | SBlock ss sp => SBlock (map erase_s ss) sp
  | SStatementExpression v sp => SStatementExpression (erase_e v) sp
  | SBreak _ | SContinue _ | SUnreachable _ => s
  end.

Definition erase (r : resolved) : resolved := mkResolved (map erase_var (r_vars r)) (map erase_s (r_stmts r)).
