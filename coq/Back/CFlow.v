(* Control-flow discipline of the flat IR (what C06 needs beyond balanced blocks): the emitted Lua chunk
   does not load if a `break` stands outside a loop of its function, if a `goto L` has no visible label
   `::L::`, or if a label is declared where one of the same name is visible (Lua 5.3; labels and loops
   are not visible across a `function` boundary).  The checker follows the nesting discipline of
   Back/Emit.v and Back/Scope.v: IFunction / IIf / ILoop open a construct, IElse turns an open `if` into
   its `else`, IEnd closes the innermost open construct.  Definitions only. *)
From Coq Require Import String List NArith ZArith Bool.
From Sylt Require Import Syntax.Resolved Back.IR.
Import ListNotations.
Local Open Scope N_scope.

(* ---------------------------------------------------------------- the IR side *)
(* an open construct; a loop carries the label that directly follows its ILoop (None: not labelled) *)
Inductive cframe := CFun | CIf | CElse | CLoop (lbl : option N).
Notation cstack := (list cframe).   (* innermost first *)

(* is there an open loop between here and the enclosing function boundary? *)
Fixpoint in_loop (st : cstack) : bool :=
  match st with
  | [] => false
  | CFun :: _ => false
  | CLoop _ :: _ => true
  | _ :: t => in_loop t
  end.

(* the labels of the open loops of the current function = the labels visible from here *)
Fixpoint visible_labels (st : cstack) : list N :=
  match st with
  | [] => []
  | CFun :: _ => []
  | CLoop (Some l) :: t => l :: visible_labels t
  | _ :: t => visible_labels t
  end.

Definition has_label (l : N) (ls : list N) : bool := existsb (N.eqb l) ls.

(* the open constructs, and whether the previous instruction was an ILoop (only then may a label follow) *)
Notation cstate := (cstack * bool)%type.

Definition cf_step (s : cstate) (op : ir) : option cstate :=
  let '(st, after_loop) := s in
  match op with
  | ILoop => Some (CLoop None :: st, true)
  | ILabel l =>
      if after_loop then
        match st with
        | CLoop None :: t => if has_label l (visible_labels t) then None else Some (CLoop (Some l) :: t, false)
        | _ => None
        end
      else None
  | IBreak => if in_loop st then Some (st, false) else None
  | IGoto l => if has_label l (visible_labels st) then Some (st, false) else None
  | IFunction _ _ => Some (CFun :: st, false)
  | IIf _ => Some (CIf :: st, false)
  | IElse => match st with CIf :: t => Some (CElse :: t, false) | _ => None end
  | IEnd => match st with _ :: t => Some (t, false) | [] => None end
  | _ => Some (st, false)
  end.

Fixpoint cf_run (s : cstate) (ops : list ir) : option cstate :=
  match ops with
  | [] => Some s
  | op :: ops' =>
      match cf_step s op with
      | Some s' => cf_run s' ops'
      | None => None
      end
  end.

(* a whole chunk: starts and ends with no construct open *)
Definition ir_cf_ok (ops : list ir) : bool :=
  match cf_run ([], false) ops with
  | Some ([], _) => true
  | _ => false
  end.

(* the first instruction at which the discipline breaks, for diagnostics (None: only the end is wrong) *)
Fixpoint first_cf_bad (s : cstate) (ops : list ir) (n : N) : option (N * ir) :=
  match ops with
  | [] => None
  | op :: ops' =>
      match cf_step s op with
      | Some s' => first_cf_bad s' ops' (n + 1)
      | None => Some (n, op)
      end
  end.

(* pure nesting, for statements about a segment of the code: true = a function was opened.
   nest_run [] seg = Some st: the segment closes nothing that it did not open itself; st = what it leaves open *)
Definition nest_step (st : list bool) (op : ir) : option (list bool) :=
  match op with
  | IFunction _ _ => Some (true :: st)
  | IIf _ | ILoop => Some (false :: st)
  | IEnd => match st with _ :: t => Some t | [] => None end
  | _ => Some st
  end.

Fixpoint nest_run (st : list bool) (ops : list ir) : option (list bool) :=
  match ops with
  | [] => Some st
  | op :: ops' =>
      match nest_step st op with
      | Some st' => nest_run st' ops'
      | None => None
      end
  end.

(* the segment stays inside the construct (and inside the function) it starts in *)
Definition open_segment (ops : list ir) : bool :=
  match nest_run [] ops with
  | Some st => negb (existsb (fun b : bool => b) st)
  | None => false
  end.

(* ---------------------------------------------------------------- the source side *)
(* every `break` / `continue` stands in the body of a loop of the same function: what the type checker
   enforces (typechecker.rs: TypeCtx.inside_loop is set by the BODY of a loop -- not by its condition --
   and reset by a function expression).  b = "inside a loop of the current function". *)
Fixpoint lo_expr (b : bool) (e : expr) {struct e} : bool :=
  match e with
  | EVariant _ _ value _ => lo_expr b value
  | ECall fn args _ => lo_expr b fn && forallb (lo_expr b) args
  | EBlobAccess value _ _ => lo_expr b value
  | EIndex value index _ => lo_expr b value && lo_expr b index
  | EBinOp _ x y _ => lo_expr b x && lo_expr b y
  | EUniOp _ x _ => lo_expr b x
  | EIf branches _ => forallb (lo_ifbranch b) branches
  | ECase to_match branches fall_through _ =>
      lo_expr b to_match && forallb (lo_casebranch b) branches &&
      match fall_through with Some ss => forallb (lo_stmt b) ss | None => true end
  | EFunction _ _ _ body _ _ => forallb (lo_stmt false) body
  | EBlob _ fields _ _ => forallb (fun fe : string * expr => let (_, x) := fe in lo_expr b x) fields
  | ECollection _ values _ => forallb (lo_expr b) values
  | ERead _ _ | EFloat _ _ | EInt _ _ | EStr _ _ | EBool _ _ | ENil _ => true
  end
with lo_ifbranch (b : bool) (br : ifbranch) {struct br} : bool :=
  match br with
  | IfBranch cond body _ =>
      match cond with Some c => lo_expr b c | None => true end && forallb (lo_stmt b) body
  end
with lo_casebranch (b : bool) (br : casebranch) {struct br} : bool :=
  match br with
  | CaseBranch _ _ _ body _ => forallb (lo_stmt b) body
  end
with lo_stmt (b : bool) (s : stmt) {struct s} : bool :=
  match s with
  | SAssignment _ target value _ => lo_expr b target && lo_expr b value
  | SDefinition _ _ _ _ value _ => lo_expr b value
  | SLoop condition body _ => lo_expr b condition && forallb (lo_stmt true) body
  | SBreak _ | SContinue _ => b
  | SRet (Some value) _ => lo_expr b value
  | SRet None _ => true
  | SBlock statements _ => forallb (lo_stmt b) statements
  | SStatementExpression value _ => lo_expr b value
  | SUnreachable _ | SBlob _ _ _ _ _ _ | SEnum _ _ _ _ _ | SExternalDefinition _ _ _ _ _ => true
  end.

Definition loops_ok (r : resolved) : bool := forallb (lo_stmt false) (r_stmts r).
