-- expect-wf: bad cannot assign
local function f() end
f() = 1
