(* Theorems about the driver model (Driver/DriverModel.v) for ALL flags and ALL worlds, and about the
   `require` line of the emitter model (Back/Emit.v). *)
From Coq Require Import String List NArith Bool Ascii Arith Lia.
From Sylt Require Import Driver.DriverModel Syntax.Resolved Back.IR Back.Emit.
Import ListNotations.
Local Open Scope string_scope.

(* ---------------------------------------------------------------------------------------------- *)
(* vocabulary of the statements *)

(* a file was given and help was not asked for *)
Definition compiles_something (f : flags) : Prop := f_help f = false /\ f_args f <> [].

(* the operating system lets the driver do what it tries: `lua` can be started (run mode), the output
   file can be created and the write does not fail (file mode) *)
Definition os_cooperates (f : flags) (w : world) : Prop :=
  match output_mode_of f with
  | ORun => w_lua_found w = true
  | OStdout => True
  | OFile _ => w_create w = CreateOk /\ w_write w = WroteAll
  end.

(* the compiler never returns Err(vec![]) *)
Definition errors_nonempty (w : world) : Prop := w_compile w <> CErr [].

(* the child reported no failure: this is how the code decides that execution succeeded *)
Definition execution_succeeded (f : flags) (w : world) (bytes : string) : Prop :=
  output_mode_of f = ORun -> c_stderr (w_child w bytes) = "".

Definition no_std_same_behaviour_statement
  (program : Type) (uses_std : program -> Prop)
  (compile : bool (* no_std *) -> program -> compile_outcome)
  (lua_trace : string -> list string) : Prop :=
  forall p, ~ uses_std p ->
    match compile false p, compile true p with
    | COk with_std, COk without_std => lua_trace with_std = lua_trace without_std
    | CErr _, CErr _ => True
    | _, _ => False
    end.

(* ---------------------------------------------------------------------------------------------- *)

Lemma eqb_empty : forall s, String.eqb s "" = true <-> s = "".
Proof. intros s. apply String.eqb_eq. Qed.

Section Driver.
Variable st : strings.

Ltac leaf x :=
  lazymatch x with
  | context [match _ with _ => _ end] => fail
  | context [if _ then _ else _] => fail
  | _ => idtac
  end.
Ltac crunch :=
  repeat match goal with
         | |- context [match ?x with _ => _ end] => leaf x; destruct x eqn:?; cbn [negb]
         | |- context [if ?x then _ else _] => leaf x; destruct x eqn:?; cbn [negb]
         end.

(* ---- exit status ---- *)

Theorem help_exit : forall f w, f_help f = true ->
  main st f w = mkResult 0 ("Usage: " ++ w_argv0 w ++ " [OPTIONS]" ++ nl ++ nl ++ w_usage w ++ nl) "" Untouched None.
Proof. intros f w H. unfold main. rewrite H. reflexivity. Qed.

Theorem no_file_exit : forall f w, f_help f = false -> f_args f = [] ->
  main st f w = mkResult 1 (w_usage w ++ nl) (main_err (s_no_file st)) Untouched None.
Proof. intros f w H H0. unfold main. rewrite H, H0. reflexivity. Qed.

(* exact characterisation, no hypothesis on the world *)
Theorem exit_zero_iff_full : forall f w, compiles_something f ->
  (r_status (main st f w) = 0%N <->
   (w_compile w = CErr [] /\ (output_mode_of f = ORun -> w_lua_found w = true))
   \/ exists bytes, w_compile w = COk bytes /\
        match output_mode_of f with
        | ORun => w_lua_found w = true /\ c_stderr (w_child w bytes) = ""
        | OStdout => True
        | OFile _ => w_create w = CreateOk /\ w_write w = WroteAll
        end).
Proof.
  intros f w [Hh Ha]. unfold main, run_file. rewrite Hh.
  destruct (f_args f) as [|a rest]; [congruence|].
  destruct (output_mode_of f) eqn:Hm.
  - destruct (w_lua_found w) eqn:Hl; cbn [negb].
    + destruct (w_compile w) as [bytes|es] eqn:Hc.
      * destruct (String.eqb (c_stderr (w_child w bytes)) "") eqn:He; cbn.
        -- apply eqb_empty in He. split; [intros _|reflexivity].
           right. exists bytes. auto.
        -- split; [discriminate|]. intros [[H _]|[b [H [_ H2]]]]; [discriminate|].
           inversion H; subst b. apply eqb_empty in H2. congruence.
      * destruct es as [|e es]; cbn.
        -- split; [intros _|reflexivity]. left. auto.
        -- split; [discriminate|]. intros [[H _]|[b [H _]]]; discriminate.
    + cbn. split; [discriminate|].
      intros [[_ H]|[b [_ [H _]]]]; [specialize (H eq_refl)|]; discriminate.
  - destruct (w_compile w) as [bytes|es] eqn:Hc.
    + cbn. split; [intros _|reflexivity]. right. exists bytes. auto.
    + destruct es as [|e es]; cbn.
      * split; [intros _|reflexivity]. left. split; [reflexivity|discriminate].
      * split; [discriminate|]. intros [[H _]|[b [H _]]]; discriminate.
  - destruct (w_compile w) as [bytes|es] eqn:Hc.
    + destruct (w_create w) eqn:Hcr.
      * destruct (w_write w) eqn:Hw; cbn.
        -- split; [intros _|reflexivity]. right. exists bytes. auto.
        -- split; [discriminate|]. intros [[H _]|[b [_ [_ H]]]]; discriminate.
      * cbn. split; [discriminate|]. intros [[H _]|[b [_ [H _]]]]; discriminate.
    + destruct es as [|e es]; cbn.
      * split; [intros _|reflexivity]. left. split; [reflexivity|discriminate].
      * split; [discriminate|]. intros [[H _]|[b [H _]]]; discriminate.
Qed.

(* the property's reading: status 0 exactly when compilation and (in run mode) execution succeeded *)
Theorem exit_zero_iff : forall f w,
  compiles_something f -> os_cooperates f w -> errors_nonempty w ->
  (r_status (main st f w) = 0%N <-> exists bytes, w_compile w = COk bytes /\ execution_succeeded f w bytes).
Proof.
  intros f w Hc Hos Hne. rewrite (exit_zero_iff_full f w Hc).
  unfold os_cooperates, errors_nonempty, execution_succeeded in *.
  split.
  - intros [[H _]|[bytes [H H2]]]; [congruence|]. exists bytes. split; [exact H|].
    intros Hm. rewrite Hm in H2. tauto.
  - intros [bytes [H H2]]. right. exists bytes. split; [exact H|].
    destruct (output_mode_of f); auto.
Qed.

(* every status the driver can produce *)
Theorem exit_status_range : forall f w,
  r_status (main st f w) = 0%N \/ r_status (main st f w) = 1%N \/ r_status (main st f w) = 101%N.
Proof.
  intros f w. unfold main, run_file.
  destruct (f_help f); [auto|]. destruct (f_args f); [auto|].
  crunch; cbn; auto.
Qed.

(* the panics: exactly the two expect() sites *)
Theorem panic_iff : forall f w, compiles_something f ->
  (r_status (main st f w) = 101%N <->
   (output_mode_of f = ORun /\ w_lua_found w = false) \/
   (exists p bytes e, output_mode_of f = OFile p /\ w_compile w = COk bytes /\ w_create w = CreateFails e)).
Proof.
  intros f w [Hh Ha]. unfold main, run_file. rewrite Hh.
  destruct (f_args f) as [|a rest]; [congruence|].
  destruct (output_mode_of f) eqn:Hm.
  - destruct (w_lua_found w) eqn:Hl; cbn [negb].
    + split.
      * crunch; cbn; discriminate.
      * intros [[_ H]|[p [b [e [H _]]]]]; discriminate.
    + cbn. split; auto.
  - split.
    + crunch; cbn; discriminate.
    + intros [[H _]|[p [b [e [H _]]]]]; discriminate.
  - destruct (w_compile w) as [bytes|es] eqn:Hc.
    + destruct (w_create w) eqn:Hcr.
      * split.
        -- crunch; cbn; discriminate.
        -- intros [[H _]|[p [b [e [_ [_ H]]]]]]; discriminate.
      * cbn. split; auto. intros _. right. exists path, bytes, os_error. auto.
    + split.
      * crunch; cbn; discriminate.
      * intros [[H _]|[p [b [e [_ [H _]]]]]]; discriminate.
Qed.

(* ---- errors are all printed, in order, then the summary ---- *)

(* String.concat with the empty separator is awkward to reason with: an equivalent fold *)
Fixpoint cat_lines (es : list string) : string :=
  match es with
  | [] => ""
  | e :: es' => (e ++ nl) ++ cat_lines es'
  end.

Lemma concat_empty_sep : forall l, String.concat "" l = fold_right append "" l.
Proof.
  induction l as [|x l IH]; [reflexivity|].
  cbn [String.concat fold_right]. destruct l as [|y l'].
  - cbn. induction x; cbn; congruence.
  - rewrite IH. reflexivity.
Qed.

Lemma print_errors_cat : forall es, print_errors es = cat_lines es.
Proof.
  intros es. unfold print_errors. rewrite concat_empty_sep.
  induction es as [|e es IH]; [reflexivity|]. cbn [map fold_right cat_lines]. now rewrite IH.
Qed.

Lemma append_assoc : forall a b c : string, (a ++ b) ++ c = a ++ (b ++ c).
Proof. induction a; intros; cbn; [reflexivity|now rewrite IHa]. Qed.

(* the text printed for an error list is, for each of its elements in order, the element followed by
   a newline *)
Theorem errors_in_order : forall es1 e es2,
  print_errors (es1 ++ e :: es2) = print_errors es1 ++ e ++ nl ++ print_errors es2.
Proof.
  intros es1 e es2. rewrite !print_errors_cat.
  induction es1 as [|x es1 IH]; cbn [app cat_lines].
  - now rewrite append_assoc.
  - rewrite IH. now rewrite !append_assoc.
Qed.

Theorem errors_all_printed : forall f w es,
  compiles_something f -> w_compile w = CErr es -> es <> [] ->
  (output_mode_of f = ORun -> w_lua_found w = true) ->
  let r := main st f w in
  r_status r = 1%N /\
  r_stdout r = print_errors es /\
  r_stderr r = main_err (dec (length es) ++ s_errors_suffix st) /\
  r_file r = Untouched.
Proof.
  intros f w es [Hh Ha] Hc Hne Hl. unfold main, run_file. rewrite Hh, Hc.
  destruct (f_args f) as [|a rest]; [congruence|].
  destruct es as [|e es']; [congruence|].
  destruct (output_mode_of f) eqn:Hm.
  - rewrite (Hl eq_refl). cbn. auto.
  - cbn. auto.
  - cbn. auto.
Qed.

(* run mode, the program compiled, the child wrote to stderr: one LuaError is printed after the
   child's own output *)
Theorem lua_error_printed : forall f w bytes,
  compiles_something f -> output_mode_of f = ORun -> w_lua_found w = true ->
  w_compile w = COk bytes -> c_stderr (w_child w bytes) <> "" ->
  let r := main st f w in
  let c := w_child w bytes in
  r_status r = 1%N /\
  r_stdout r = c_stdout c ++ print_errors [s_lua_error st ++ c_stderr c] /\
  r_stderr r = main_err ("1" ++ s_errors_suffix st) /\
  r_child r = Some (mkChildRun bytes true).
Proof.
  intros f w bytes [Hh Ha] Hm Hl Hc Hne. unfold main, run_file. rewrite Hh, Hm, Hl, Hc.
  destruct (f_args f) as [|a rest]; [congruence|]. cbn [negb].
  destruct (String.eqb (c_stderr (w_child w bytes)) "") eqn:He.
  - apply eqb_empty in He. congruence.
  - cbn. auto.
Qed.

(* the child receives exactly the compiled program *)
Theorem child_gets_program : forall f w bytes,
  compiles_something f -> output_mode_of f = ORun -> w_lua_found w = true -> w_compile w = COk bytes ->
  r_child (main st f w) = Some (mkChildRun bytes true).
Proof.
  intros f w bytes [Hh Ha] Hm Hl Hc. unfold main, run_file. rewrite Hh, Hm, Hl, Hc.
  destruct (f_args f) as [|a rest]; [congruence|]. cbn [negb].
  destruct (String.eqb (c_stderr (w_child w bytes)) ""); [reflexivity|].
  cbn. reflexivity.
Qed.

(* ---- -o FILE: all or nothing ---- *)

Theorem o_file_untouched_on_error : forall f w es,
  w_compile w = CErr es -> r_file (main st f w) = Untouched.
Proof.
  intros f w es Hc. unfold main, run_file. rewrite Hc.
  destruct (f_help f); [reflexivity|]. destruct (f_args f); [reflexivity|].
  crunch; cbn; reflexivity.
Qed.

Theorem file_untouched_in_other_modes : forall f w,
  (forall p, output_mode_of f <> OFile p) -> r_file (main st f w) = Untouched.
Proof.
  intros f w Hm. unfold main, run_file.
  destruct (f_help f); [reflexivity|]. destruct (f_args f); [reflexivity|].
  destruct (output_mode_of f) eqn:Hmo; [| |exfalso; eapply Hm; reflexivity]; crunch; cbn; reflexivity.
Qed.

(* the write does not fail *)
Definition write_succeeds (w : world) : Prop := forall n e, w_write w <> WriteFails n e.

Theorem o_file_all_or_nothing : forall f w,
  write_succeeds w ->
  r_file (main st f w) = Untouched \/
  (exists bytes, w_compile w = COk bytes /\ r_file (main st f w) = Holds bytes /\ r_status (main st f w) = 0%N).
Proof.
  intros f w Hf. unfold main, run_file.
  destruct (f_help f); [auto|]. destruct (f_args f); [auto|].
  destruct (output_mode_of f).
  - crunch; cbn; auto.
  - crunch; cbn; auto.
  - destruct (w_compile w) as [bytes|es].
    + destruct (w_create w); [|cbn; auto].
      destruct (w_write w) eqn:Hw.
      * cbn. right. exists bytes. auto.
      * exfalso. eapply Hf. exact Hw.
    + crunch; cbn; auto.
Qed.

(* with write_all a short write is no longer taken for success: whenever the status is 0 in -o FILE mode,
   FILE holds the complete program (for every world) *)
Theorem o_file_status_zero_complete : forall f w p,
  compiles_something f -> output_mode_of f = OFile p -> errors_nonempty w ->
  r_status (main st f w) = 0%N ->
  exists bytes, w_compile w = COk bytes /\ r_file (main st f w) = Holds bytes.
Proof.
  intros f w p [Hh Ha] Hm Hne. unfold main, run_file. rewrite Hh, Hm.
  destruct (f_args f) as [|a rest]; [congruence|].
  destruct (w_compile w) as [bytes|es] eqn:Hc.
  - destruct (w_create w); [|cbn; discriminate].
    destruct (w_write w); cbn; [|discriminate]. intros _. exists bytes. auto.
  - destruct es as [|e es]; [exfalso; apply Hne; exact Hc|]. cbn. discriminate.
Qed.

(* a FAILING write after a successful create still leaves FILE neither untouched nor complete (status 1):
   File::create has truncated it and only what was written before the error is there *)
Theorem o_file_failed_write_refuted :
  exists f w bytes, compiles_something f /\ w_compile w = COk bytes /\
    r_status (main st f w) = 1%N /\ r_file (main st f w) = Holds "a" /\ bytes = "abc".
Proof.
  exists (mkFlags (Some "out.lua") None false 0 false ["main.sy"]).
  exists (mkWorld (COk "abc") CreateOk (WriteFails 1 "ENOSPC") true (fun _ => mkChildOut "" "" 0) "" "").
  exists "abc". repeat split; try reflexivity. cbn. discriminate.
Qed.

(* ---- -o - and -o FILE carry the same bytes ---- *)

Theorem o_dash_same_bytes : forall f1 f2 w p bytes,
  compiles_something f1 -> compiles_something f2 ->
  output_mode_of f1 = OStdout -> output_mode_of f2 = OFile p ->
  w_compile w = COk bytes -> w_create w = CreateOk -> w_write w = WroteAll ->
  r_stdout (main st f1 w) = bytes /\ r_file (main st f2 w) = Holds bytes /\
  r_status (main st f1 w) = 0%N /\ r_status (main st f2 w) = 0%N /\
  r_stdout (main st f2 w) = "" /\ r_file (main st f1 w) = Untouched.
Proof.
  intros f1 f2 w p bytes [Hh1 Ha1] [Hh2 Ha2] Hm1 Hm2 Hc Hcr Hw.
  unfold main, run_file. rewrite Hh1, Hh2, Hm1, Hm2, Hc, Hcr, Hw.
  destruct (f_args f1); [congruence|]. destruct (f_args f2); [congruence|].
  cbn. repeat split.
Qed.

(* -v changes nothing *)
Theorem verbosity_irrelevant : forall f w v,
  main st (mkFlags (f_output f) (f_require f) (f_no_std f) v (f_help f) (f_args f)) w = main st f w.
Proof. intros f w v. reflexivity. Qed.

End Driver.

(* ---------------------------------------------------------------------------------------------- *)
(* --require M: over the emitter model *)

(* number of positions of s at which pat starts *)
Fixpoint occurrences (pat s : string) : nat :=
  match s with
  | EmptyString => if prefix pat "" then 1 else 0
  | String c s' => (if prefix pat s then 1 else 0) + occurrences pat s'
  end.

Lemma str_length_app : forall a b, String.length (a ++ b) = String.length a + String.length b.
Proof. induction a; intros; cbn; [reflexivity|now rewrite IHa]. Qed.

Lemma substring_0_length : forall s, substring 0 (String.length s) s = s.
Proof. induction s; cbn; [reflexivity|now rewrite IHs]. Qed.

Lemma substring_split : forall n s, n <= String.length s ->
  s = substring 0 n s ++ substring n (String.length s - n) s.
Proof.
  induction n as [|n IH]; intros s Hn.
  - rewrite Nat.sub_0_r, substring_0_length. destruct s; reflexivity.
  - destruct s as [|c s]; cbn in Hn; [lia|].
    cbn [substring String.length Nat.sub append]. f_equal. apply IH. lia.
Qed.

(* the output is preamble ++ require line ++ what is emitted without the flag *)
Theorem require_once : forall preamble req ops,
  preamble ++ emit_after_preamble req ops = preamble ++ require_line req ++ emit_after_preamble None ops.
Proof. intros. unfold emit_after_preamble. reflexivity. Qed.

Theorem require_line_none : require_line None = "".
Proof. reflexivity. Qed.

Theorem require_line_some : forall m, require_line (Some m) = "require """ ++ strip_lua_suffix m ++ """".
Proof. reflexivity. Qed.

(* `.lua` is stripped when (and only when) the argument ends with it *)
Theorem strip_lua_suffix_spec : forall m,
  (exists b, m = b ++ ".lua" /\ strip_lua_suffix m = b) \/
  ((forall b, m <> b ++ ".lua") /\ strip_lua_suffix m = m).
Proof.
  intros m. unfold strip_lua_suffix.
  destruct (N.leb 4 (N.of_nat (String.length m))) eqn:Hl; cbn [andb].
  - apply N.leb_le in Hl. assert (Hlen : 4 <= String.length m) by lia.
    destruct (String.eqb (substring (String.length m - 4) 4 m) ".lua") eqn:He.
    + left. apply String.eqb_eq in He. exists (substring 0 (String.length m - 4) m). split; [|reflexivity].
      rewrite <- He.
      pose proof (substring_split (String.length m - 4) m) as Hs.
      replace (String.length m - (String.length m - 4)) with 4 in Hs by lia.
      apply Hs. lia.
    + right. split; [|reflexivity]. intros b Hb. apply String.eqb_neq in He. apply He.
      subst m. clear. induction b as [|c b IH].
      * reflexivity.
      * cbn [append String.length]. rewrite str_length_app in *. cbn [String.length] in *.
        replace (S (String.length b + 4) - 4) with (S (String.length b)) by lia.
        replace (String.length b + 4 - 4) with (String.length b) in IH by lia.
        cbn [substring]. exact IH.
  - right. split; [|reflexivity]. intros b Hb. apply N.leb_gt in Hl. subst m.
    rewrite str_length_app in Hl. cbn in Hl. lia.
Qed.

(* the require line mentions `require` once, plus whatever the argument itself contains *)
Theorem require_line_count : forall m,
  occurrences "require" (require_line (Some m)) = 1 + occurrences "require" (strip_lua_suffix m ++ """").
Proof. intros m. rewrite require_line_some. reflexivity. Qed.

Theorem require_line_count_none : occurrences "require" (require_line None) = 0.
Proof. reflexivity. Qed.
