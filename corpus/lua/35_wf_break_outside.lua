-- expect-wf[jit]: bad no loop to break
-- expect-wf[5.3]: bad break outside a loop
print(1)
if true then break end
