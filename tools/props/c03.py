"""C03 -- type mismatches are rejected at compile time."""
import collections
import os

import typed_gen as tg
import vlib

GEN = ["GenSrcDigest"]
TRUSTED = [
    "Coq 8.16.1 kernel (coqc); vm_compute only in Examples and ..._refuted witnesses; no axioms",
    "coq/Types/Tc.v + TyGraph.v as the model of sylt-compiler/src/typechecker.rs (hand-written, follows the code "
    "function by function; eager representatives instead of parent pointers + path compression; constraint spans and "
    "message text not modelled): validated by the correspondence on every run, not verified",
    "input of the model in the correspondence: the real compiler's own resolved statements after initialization_order and "
    "the types-first sort (phases hook) -> tools/rustdebug.py + tools/resolved_io.py -> ocaml/rast_reader.ml",
    "extraction: ExtrOcamlBasic + ExtrOcamlString only; ocaml/types_driver.ml (printing)",
    "harness/src/main.rs (compile / compileb / phases print verdict, first error kind|file|line, bytes written)",
    "tools/typed_gen.py (generator of well-typed base programs and the planters; the real compiler must accept every base)",
]
ASSUMPTIONS = [
    "the statements reach the type checker (parsing, name resolution and dependency ordering succeeded); what they "
    "do before is the subject of other properties",
    "out-of-fuel of the model counts as not accepted; the driver's fuel (100000) is never exhausted on the inputs of the tie",
]
EXPLANATION = ("Theorems over the type-checker model: every mismatch kind is rejected in every state and the rejection "
               "propagates through every syntactic context (placement); nothing is emitted unless the checker returned Ok. "
               "Correspondence: extracted model vs the real type checker on the real resolved statements (verdict and first "
               "error kind/file/line). Oracle on the real compiler: every mismatch kind planted at every syntactic position "
               "of well-typed generated programs must give Err with >= 1 error and 0 bytes of Lua.")

_m = {}


def build(ctx):
    ok, exe, out = tg.build_model()
    _m["exe"] = exe
    return ok, out


# ---- inputs ------------------------------------------------------------------------------------

def bases(ctx, n, salt="base"):
    out = []
    for i in range(n):
        # programs of more than MAX_BASE_LINES lines are regenerated: the model's eager union is quadratic in the size
        # of the type graph, and the number of plants grows with the program
        for attempt in range(20):
            r = vlib.rng(ctx.seed, "%s%d%s" % (salt, i, "" if attempt == 0 else "/%d" % attempt))
            t, g = tg.gen_program(r, size=r.randint(1, 4))
            if len(tg.render(t).split("\n")) <= MAX_BASE_LINES:
                break
        out.append((t, g))
    return out


MAX_BASE_LINES = 280


def nbases(ctx):
    return 24 if ctx.tier == "quick" else 100


def render_plant(t, p):
    k, sk, sid, info, payload = p
    return tg.render(t, plant_s=(sid, payload)) if sk == "S" else tg.render(t, plant_e=(sid, payload))


def classify(kind, sk, info):
    """known classes of violations (ids of entries in known_findings.jsonl)"""
    d = tg.info_dict(info)
    kind = kind.split("@")[0]        # the same construct after a ret / break / continue
    if kind == "neg-str":
        return "C03-neg-unchecked"
    if kind in ("generic-tuple-cmp", "generic-local-tuple-add"):
        # a constraint between tuples one of whose components is a still-unknown parameter is not pushed down to
        # that component: the instantiation at the call site never sees it
        return "C03-generic-component-constraint"
    if kind == "ret-type":
        # innermost function's part of the path
        path = d.get("path", "")
        own = path.split("/closure")[-1]
        if "branchN" in own:
            return "C03-ret-in-if-without-else"
    return None


def known_ids(pid="C03"):
    return {kf.get("id"): kf for kf in vlib.known_findings(pid) if kf.get("status") == "open" and kf.get("id")}


def corpus_cases(pid):
    d = os.path.join(vlib.VERIF, "corpus", pid.lower())
    out = []
    if os.path.isdir(d):
        for f in sorted(os.listdir(d)):
            if f.endswith(".sy"):
                out.append(("corpus:" + f, tg.case_line(open(os.path.join(d, f), encoding="utf-8").read())))
    return out


def repo_test_cases():
    import resolve_gen
    return [("repo:" + n, c) for n, c in resolve_gen.repo_cases(std=True)]


def summarize_tie(name, recs, rule, extra_dist=None):
    mism = []
    dist = collections.Counter()
    kinds = collections.Counter()
    nontrivial = set()
    for r in recs:
        if not r["reached"]:
            why = r["real"][0] if r["real"] else "?"
            if str(why).startswith("model-"):
                dist["skipped: the model exceeded its per-case time limit of %.0f s (%s)" % (tg.MODEL_CASE_LIMIT, why)] += 1
            else:
                dist["not reached by the type checker (%s)" % why] += 1
            continue
        dist["reached"] += 1
        dist["real " + r["real"][0]] += 1
        if r["real"][0] == "ERR":
            kinds[r["real"][1]] += 1
        nontrivial.add(r["label"])
        if not r["agree"] and len(mism) < 10:
            mism.append({"label": r["label"], "real": list(r["real"]), "model": list(r["model"] or [])})
    nbad = sum(1 for r in recs if r["reached"] and not r["agree"])
    d = dict(dist)
    d["input_ok (hypothesis of C07_checker_no_panic) evaluated / false"] = [
        sum(1 for r in recs if r["reached"]), sum(1 for r in recs if r["reached"] and r.get("input_ok") is False)]
    d["first_error_kinds"] = dict(kinds)
    d.update(extra_dist or {})
    samples = [{"label": r["label"], "real": list(r["real"]), "model": list(r["model"])} for r in recs if r["reached"]][:6]
    return {"name": name, "ok": nbad == 0, "mismatches": mism, "evaluations": sum(1 for r in recs if r["reached"]),
            "distinct_nontrivial": len(nontrivial), "rule": rule, "samples": samples, "distribution": d,
            "mismatch_count": nbad}


def tie(ctx):
    cases = corpus_cases("C03") + repo_test_cases()
    bs = bases(ctx, nbases(ctx))
    stats = collections.Counter()
    r = vlib.rng(ctx.seed, "c03-tie")
    per = 40 if ctx.tier == "quick" else 60
    for bi, (t, g) in enumerate(bs):
        cases.append(("base%d" % bi, tg.case_line(tg.render(t))))
        for k, v in g.stats.items():
            stats[k] += v
        plants = tg.c03_plants(t)
        for p in r.sample(plants, min(per, len(plants))):
            cases.append(("plant:%d:%s:%s%d" % (bi, p[0], p[1], p[2]), tg.case_line(render_plant(t, p))))
    recs = tie_run(cases)
    return summarize_tie("typecheck", recs,
                         "corpus + all /repo/tests programs (std bundled) + generated base programs + a random sample of "
                         "planted mismatches; compared: accept/reject and kind, file, line of the first error; non-trivial = "
                         "reached the type checker; distinct by label",
                         {"constructs_in_generated_bases": dict(stats)})


def tie_run(cases):
    return tg.tie_cases(_m["exe"], cases)


# ---- oracle on the real implementation ------------------------------------------------------------

def sweep(ctx, plants_of, pid, classify_fn, nb=None, demand_type_error=False, group=8):
    """plant every offending construct at every position of every base program; compile with the real
    compiler; -> (violations [(class or None, kind, info, source, verdict)], distribution).  The base programs are
    processed in groups (the rendered plants of one group are a few hundred megabytes of case text)."""
    bs = bases(ctx, nb or nbases(ctx))
    dist = collections.Counter()
    base_res = vlib.harness("compileb", [tg.case_line(tg.render(t)) for t, _ in bs])
    good = []
    for (t, g), l in zip(bs, base_res):
        if l.startswith("OK"):
            good.append((t, g))
        else:
            dist["base rejected (generator bug)"] += 1
    sizes = [len(tg.render(t).split("\n")) for t, _ in good]
    viol = []
    kinds = collections.Counter()
    pos = collections.Counter()
    errs = collections.Counter()
    nplants = 0
    for g0 in range(0, len(good), group):
        lines, meta = [], []
        for bi in range(g0, min(g0 + group, len(good))):
            t, g = good[bi]
            for p in plants_of(t, g, vlib.rng(ctx.seed, "%s-plants%d" % (pid, bi))):
                lines.append(tg.case_line(render_plant(t, p)))
                meta.append((bi, p))
        nplants += len(lines)
        res = vlib.harness("compileb", lines)
        del lines
        for (bi, p), l in zip(meta, res):
            k, sk, sid, info, payload = p
            d = tg.info_dict(info)
            kinds[k] += 1
            pos["%s %s" % (sk, d["where"])] += 1
            pos["path depth %d" % len([x for x in d.get("path", "").split("/") if x])] += 1
            if d.get("pure") == "1":
                pos["inside pure function"] += 1
            if "/closure" in d.get("path", ""):
                pos["inside closure"] += 1
            if "/loop" in d.get("path", ""):
                pos["inside loop"] += 1
            if "/branch" in d.get("path", ""):
                pos["inside branch"] += 1
            v = tg.real_verdict(l)
            bad = None
            if k.startswith("ok:"):
                # positive control: this plant must be ACCEPTED
                if v[0] != "OK":
                    bad = "rejected (%s) although it is well typed" % (v[1] if len(v) > 1 else v[0])
                else:
                    errs["accepted (positive control)"] += 1
            elif v[0] != "ERR":
                bad = "accepted" if v[0] == "OK" else v[0]
            elif v[4] < 1 or v[1] == "EMPTY":
                bad = "Err without an error"
            elif v[5] not in (0, None):
                bad = "%d bytes of Lua written before the error" % v[5]
            elif demand_type_error and not v[1].startswith("Type:"):
                bad = "rejected, but not with a type error (%s)" % v[1]
            else:
                errs[v[1]] += 1
            if bad:
                viol.append((classify_fn(k, sk, info), k, info, render_plant(good[bi][0], p), bad))
    dist = dict(dist)
    dist.update({"base_programs": len(good), "plants": nplants,
                 "base_lines_min_avg_max": [min(sizes or [0]), sum(sizes) // max(1, len(sizes)), max(sizes or [0])]})
    if not good:
        # every base program rejected: the generator's programs are not well typed for this compiler
        viol.append((None, "base", "program", tg.render(bs[0][0]) if bs else "", "well-typed base program rejected: " + base_res[0][:120] if base_res else "no base"))
    return viol, {"oracle": dist, "kinds": dict(kinds), "positions": dict(pos), "error_kinds": dict(errs)}


def report_sweep(ctx, pid, viol, dist):
    known = known_ids(pid)
    byclass = collections.Counter(v[0] for v in viol)
    unknown = [v for v in viol if v[0] is None or v[0] not in known]
    out = {"oracle_distribution": dist,
           "oracle_violations_by_class": {str(k): n for k, n in byclass.items()},
           "oracle_unclassified_violations": len(unknown)}
    for v in unknown[:3]:
        ctx.brk("oracle:%s" % pid, "kind=%s class=%s at %s: %s\n%s" % (v[1], v[0], v[2], v[4], v[3]))
    return out, unknown


def c03_plants_of(t, g, r):
    return tg.c03_plants(t)


def multi_file_sweep(ctx):
    r = vlib.rng(ctx.seed, "c03-multi")
    fam = tg.multi_file_blob_cases(r, 24 if ctx.tier == "quick" else 200)
    res = vlib.harness("compileb", [tg.case_line(m, extra=ex) for _, m, ex, _ in fam])
    viol = []
    dist = collections.Counter()
    for (desc, m, ex, must_reject), l in zip(fam, res):
        v = tg.real_verdict(l)
        dist["%s -> %s" % (desc.split(": ")[1], v[1] if v[0] == "ERR" else v[0])] += 1
        if must_reject and v[0] != "ERR":
            viol.append((None, "multi-file:" + desc, "program", "// a.sy\n" + ex["/m/a.sy"] + "// main.sy\n" + m, "accepted"))
        if not must_reject and v[0] != "OK":
            viol.append((None, "multi-file:" + desc, "program", "// a.sy\n" + ex["/m/a.sy"] + "// main.sy\n" + m,
                         "rejected although the two blobs are identical"))
    return viol, dict(dist)


def always(ctx):
    viol, dist = sweep(ctx, c03_plants_of, "C03", classify)
    mv, mdist = multi_file_sweep(ctx)
    viol = viol + mv
    dist["multi_file"] = mdist
    ctx.c03_viol = viol
    out, _ = report_sweep(ctx, "C03", viol, dist)
    return out


def shrink_program(src, still_fails):
    """line-based delta debugging keeping the program failing"""
    lines = src.split("\n")
    small = vlib.shrink_seq(lines, lambda cands: still_fails(["\n".join(c) for c in cands]))
    return "\n".join(small)


def accepted(srcs):
    res = vlib.harness("compileb", [tg.case_line(s) for s in srcs])
    return [l.startswith("OK") for l in res]


def search(ctx):
    viol = getattr(ctx, "c03_viol", None)
    if viol is None:
        viol, _ = sweep(ctx, c03_plants_of, "C03", classify)
    known = known_ids("C03")
    unknown = [v for v in viol if v[0] is None or v[0] not in known]
    if not unknown:
        return None
    unknown.sort(key=lambda v: len(v[3]))
    cls, k, info, src, bad = unknown[0]
    payload_marker = None
    small = src
    if bad == "accepted" and not k.startswith("multi-file"):
        # shrink while the program stays accepted and still contains the planted construct
        ex, st = tg.C03_KINDS.get(k, (None, None))
        # every line of the planted construct has to stay in the program
        needles = [l.strip() for l in st] if st else ([ex] if ex else [])
        if k == "ret-type":
            needles = ["ret "]

        def still(cands):
            acc = accepted(cands)
            return [a and all(n in c for n in needles) for a, c in zip(acc, cands)]
        small = shrink_program(src, still)
    return {"source": small, "kind": k, "position": info, "what": "planted %s: %s (the property demands Err with >= 1 error "
            "and 0 bytes of Lua)" % (k, bad), "class": cls, "failing_inputs_found": len(unknown),
            "replay_cmd": "printf '%%s\\n' \"$(printf 'nostd\\t/m/main.sy\\t/m/main.sy=%s')\" > /tmp/c && %s compileb /tmp/c"
                          % (vlib.hexs(small), vlib.HARNESS_BIN)}


def replay_known(ctx, kf):
    src = (kf.get("witness") or {}).get("source")
    if not src:
        return True
    return accepted([src])[0]


def replay(ctx, rep):
    fi = rep.get("failing_input") or {}
    if not fi:
        print("nothing to replay: no failing input in this file")
        return 0
    vlib.build_harness()
    l = vlib.harness("compileb", [tg.case_line(fi["source"])])[0]
    v = tg.real_verdict(l)
    bad = v[0] != "ERR" or v[4] < 1 or v[5] not in (0, None)
    print("replay:", fi.get("what"), "->", v, "VIOLATION" if bad else "property holds")
    return 1 if bad else 0
