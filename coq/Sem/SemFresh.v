(* SemFresh: the reference semantics of the source (Sem/SyltSem.v) has the C10 discipline -- function
   activations and closures do not interfere -- for ALL programs, environments, states and fuel.

   1. store monotonicity (st_le): cells, blobs are only allocated (never freed), existing closures are
      never changed (clos st is a prefix of clos st'), the trace only grows;
   2. every execution of a definition binds the variable to the cell `length (cells st)`, which did not
      exist before the statement (definition_fresh, definitions_distinct); a closure application binds
      the parameters to pairwise distinct cells allocated by that application, initialised with copies of
      the arguments, and runs the body in  parameters ++ captured environment  -- `apply` has no access
      to the caller's environment at all (apply_closure_cases, activation_fresh);
   3. every evaluation of a function literal appends a NEW closure whose captured environment is the
      environment (variable -> cell, i.e. by reference) of that evaluation (function_literal_new_closure,
      closure_persists, function_literals_distinct);
   4. environments are lexical: a statement other than a definition returns the environment it was given
      (blocks, loops, calls inside it leak nothing), a block extends it only with cells allocated during
      the block (exec_env, exec_block_env_ext);
   5. frame: for every set R of cells/blobs/closures that is closed under reachability in the store and
      contains everything not yet allocated, execution from an environment inside R keeps R closed and
      changes no cell and no blob outside R (frames_all); instantiated with the least such set -- what is
      reachable from the environment (rcell/rblob/rclos) -- a cell that is not reachable from the
      environment of an execution (through captured environments, cells and blob fields) is not
      written by it (eval_frame, exec_frame, exec_block_frame, apply_frame).

   All by induction on the fuel over eval / block_value / exec_block / exec / apply. *)
From Coq Require Import String Ascii List NArith ZArith QArith Bool Lia.
From Sylt Require Import Syntax.Resolved Sem.Values Sem.Runtime Sem.SyltSem.
Import ListNotations.
Local Open Scope nat_scope.

(* ---- 1. the store only grows ---- *)
Record st_le (st st' : state) : Prop := mk_st_le {
  le_cells : length (cells st) <= length (cells st');
  le_blobs : length (blobs st) <= length (blobs st');
  le_clos  : exists l, clos st' = clos st ++ l;
  le_trace : exists l, trace st' = l ++ trace st }.

Lemma st_le_iff st st' :
  st_le st st' <->
  length (cells st) <= length (cells st') /\ length (blobs st) <= length (blobs st') /\
  (exists l, clos st' = clos st ++ l) /\ (exists l, trace st' = l ++ trace st).
Proof. split; [intros [A B C D]; auto|intros (A & B & C & D); constructor; assumption]. Qed.

Lemma st_le_refl st : st_le st st.
Proof. constructor; try lia; [exists []; symmetry; apply app_nil_r | exists []; reflexivity]. Qed.

Lemma st_le_trans a b c : st_le a b -> st_le b c -> st_le a c.
Proof.
  intros [H1 H2 [l3 H3] [l4 H4]] [G1 G2 [k3 G3] [k4 G4]]. constructor; try lia.
  - exists (l3 ++ k3). rewrite G3, H3. symmetry; apply app_assoc.
  - exists (k4 ++ l4). rewrite G4, H4. apply app_assoc.
Qed.

Lemma st_le_clos_nth st st' k cl :
  st_le st st' -> nth_error (clos st) k = Some cl -> nth_error (clos st') k = Some cl.
Proof.
  intros [_ _ [l H] _] Hk. rewrite H. rewrite nth_error_app1; [exact Hk|].
  apply nth_error_Some. congruence.
Qed.

Lemma st_le_clos_len st st' : st_le st st' -> length (clos st) <= length (clos st').
Proof. intros [_ _ [l H] _]. rewrite H, app_length. lia. Qed.

Lemma set_nth_length {A} n (x : A) l : length (set_nth n x l) = length l.
Proof. revert n; induction l as [|h t IH]; intros [|n]; cbn; auto. Qed.

(* `L st (m st)`: the computation m, run from st, ends in a state above st *)
Definition L {A} (st : state) (r : res A * state) : Prop := st_le st (snd r).

Lemma L_bind {A B} (m : M A) (k : A -> M B) st :
  L st (m st) -> (forall a st1, L st1 (k a st1)) -> L st (bind m k st).
Proof.
  unfold bind, L. destruct (m st) as [[a|o|c] st1]; cbn; intros H1 H2; auto.
  eapply st_le_trans; [exact H1|apply H2].
Qed.

Lemma L_refl {A} (r : res A) st : L st (r, st).
Proof. apply st_le_refl. Qed.

Lemma L_ret {A} (a : A) st : L st (ret a st). Proof. apply L_refl. Qed.
Lemma L_stop {A} o st : L st (@stop A o st). Proof. apply L_refl. Qed.
Lemma L_abrupt {A} c st : L st (@abrupt A c st). Proof. apply L_refl. Qed.
Lemma L_lift {A} w (x : Values.res A) st : L st (lift_res w x st). Proof. destruct x; apply L_refl. Qed.
Lemma L_new_cell v st : L st (new_cell v st).
Proof. constructor; cbn; try lia; [rewrite app_length; lia|exists []; symmetry; apply app_nil_r|exists []; reflexivity]. Qed.
Lemma L_write_cell c v st : L st (write_cell c v st).
Proof. constructor; cbn; try lia; [rewrite set_nth_length; lia|exists []; symmetry; apply app_nil_r|exists []; reflexivity]. Qed.
Lemma L_new_blob fs st : L st (new_blob fs st).
Proof. constructor; cbn; try lia; [rewrite app_length; lia|exists []; symmetry; apply app_nil_r|exists []; reflexivity]. Qed.
Lemma L_write_blob l fs st : L st (write_blob l fs st).
Proof. constructor; cbn; try lia; [rewrite set_nth_length; lia|exists []; symmetry; apply app_nil_r|exists []; reflexivity]. Qed.
Lemma L_new_clos c st : L st (new_clos c st).
Proof. constructor; cbn; try lia; [eexists; reflexivity|exists []; reflexivity]. Qed.
Lemma L_emit s st : L st (emit_line s st).
Proof. constructor; cbn; try lia; [exists []; symmetry; apply app_nil_r|exists [s]; reflexivity]. Qed.

Lemma L_mapM {A B} (f : A -> M B) l : (forall a st, L st (f a st)) -> forall st, L st (mapM f l st).
Proof.
  intros Hf. induction l as [|a l IH]; intros st; cbn [mapM]; [apply L_refl|].
  apply L_bind; [apply Hf|]. intros y st1. apply L_bind; [apply IH|]. intros; apply L_refl.
Qed.

Ltac lleaf :=
  match goal with
  | |- L _ (ret _ _) => apply L_refl
  | |- L _ (stop _ _) => apply L_refl
  | |- L _ (abrupt _ _) => apply L_refl
  | |- L _ (_, _) => apply L_refl
  | |- L _ (lift_res _ _ _) => apply L_lift
  | |- L _ (new_cell _ _) => apply L_new_cell
  | |- L _ (write_cell _ _ _) => apply L_write_cell
  | |- L _ (new_blob _ _) => apply L_new_blob
  | |- L _ (write_blob _ _ _ ) => apply L_write_blob
  | |- L _ (new_clos _ _) => apply L_new_clos
  | |- L _ (emit_line _ _) => apply L_emit
  | |- L _ (read_cell ?c ?st) => unfold read_cell; destruct (nth_error (cells st) c); apply L_refl
  | |- L _ (read_blob ?c ?st) => unfold read_blob; destruct (nth_error (blobs st) c); apply L_refl
  | |- L _ (get_clos ?c ?st) => unfold get_clos; destruct (nth_error (clos st) c); apply L_refl
  | |- L _ (snapshot ?v ?st) => unfold snapshot; destruct (reify 64 st v); apply L_refl
  | |- L _ (as_value _ ?v _) => destruct v; apply L_refl
  | |- L _ (truth _ ?v _) => unfold truth; destruct v as [[]| | |]; apply L_refl
  | |- L _ (binop_val ?op _ _ _) => unfold binop_val; destruct op; repeat first [apply L_lift | apply L_refl | (apply L_bind; [|intros ? ?])]
  end.

Ltac lstep :=
  first
    [ lleaf
    | apply L_bind; [|intros ? ?]
    | match goal with
      | |- L _ (match ?x with _ => _ end _) => destruct x
      | |- L _ ((if ?x then _ else _) _) => destruct x
      | |- L _ (match ?x with _ => _ end) => destruct x
      | |- L _ (if ?x then _ else _) => destruct x
      end ].

Record monos (n : nat) : Prop := mkMonos {
  m_eval : forall e x st, L st (eval n e x st);
  m_bv : forall e b st, L st (block_value n e b st);
  m_eb : forall e ss st, L st (exec_block n e ss st);
  m_exec : forall e s st, L st (exec n e s st);
  m_apply : forall fv args st, L st (apply n fv args st)
}.

Lemma monos_zero : monos O.
Proof. constructor; intros; apply L_refl. Qed.

Lemma monos_succ n : monos n -> monos (S n).
Proof.
  intros [He Hbv Heb Hex Hap]. constructor.
  - intros e x st. destruct x; cbn [eval].
    all: repeat first [ apply He | apply Hbv | apply Heb | apply Hex | apply Hap | (apply L_mapM; intros ? ?) | lstep ].
    + (* EIf *)
      revert st. induction branches as [|[[cond|] body bsp] brs IH]; intros st; [apply L_refl | |apply Hbv].
      apply L_bind; [apply He|]. intros c st1. apply L_bind; [lleaf|]. intros bc st2. destruct bc; [apply Hbv | apply IH].
    + (* ECase *)
      revert st1. induction branches as [|[pat psp var body bsp] brs IH]; intros st1; [apply Hbv|].
      destruct (String.eqb pat tag); [|apply IH].
      destruct var; [|apply Hbv]. apply L_bind; [lleaf|]. intros; apply Hbv.
  - intros e b st. cbn [block_value].
    repeat first [ apply He | apply Hbv | apply Heb | apply Hex | apply Hap | lstep ].
  - intros e ss st. cbn [exec_block].
    repeat first [ apply He | apply Hbv | apply Heb | apply Hex | apply Hap | lstep ].
  - intros e s st. destruct s; cbn [exec].
    all: repeat first [ apply He | apply Hbv | apply Heb | apply Hex | apply Hap | (apply L_mapM; intros ? ?) | lstep ].
    (* SLoop *)
    match goal with |- L st (?F n st) => assert (H : forall m st, L st (F m st)); [|apply H] end.
    intros m. induction m as [|m IH]; intros st0; [apply L_refl|].
    apply L_bind; [apply He|]. intros c st1. apply L_bind; [lleaf|]. intros bc st2. destruct bc; [|apply L_refl].
    pose proof (Heb e body st2) as Hq. destruct (exec_block n e body st2) as [[e1|o|[| |v]] st3]; try exact Hq.
    all: unfold L in *; cbn [snd] in Hq; eapply st_le_trans; [exact Hq|apply IH].
  - intros fv args st. cbn [apply]. destruct fv; try apply L_refl.
    + apply L_bind; [lleaf|]. intros cl st1. destruct (Nat.eqb (length (cl_params cl)) (length args)); [|apply L_refl].
      apply L_bind; [apply L_mapM; intros; lleaf|]. intros cs st2.
      pose proof (Hbv (combine (cl_params cl) cs ++ cl_env cl) (cl_body cl) st2) as Hq.
      destruct (block_value n (combine (cl_params cl) cs ++ cl_env cl) (cl_body cl) st2) as [[v|o|[| |v]] st3]; exact Hq.
    + repeat first [ lstep ].
Qed.

Theorem monos_all n : monos n.
Proof. induction n; [apply monos_zero | apply monos_succ; assumption]. Qed.

(* the pinned forms: whatever the result (value, stop -- out of fuel included -- or abrupt completion) *)
Theorem eval_mono fuel e x st r st' : eval fuel e x st = (r, st') -> st_le st st'.
Proof. intros H. pose proof (m_eval _ (monos_all fuel) e x st) as G. rewrite H in G. exact G. Qed.
Theorem block_value_mono fuel e b st r st' : block_value fuel e b st = (r, st') -> st_le st st'.
Proof. intros H. pose proof (m_bv _ (monos_all fuel) e b st) as G. rewrite H in G. exact G. Qed.
Theorem exec_block_mono fuel e ss st r st' : exec_block fuel e ss st = (r, st') -> st_le st st'.
Proof. intros H. pose proof (m_eb _ (monos_all fuel) e ss st) as G. rewrite H in G. exact G. Qed.
Theorem exec_mono fuel e s st r st' : exec fuel e s st = (r, st') -> st_le st st'.
Proof. intros H. pose proof (m_exec _ (monos_all fuel) e s st) as G. rewrite H in G. exact G. Qed.
Theorem apply_mono fuel fv args st r st' : apply fuel fv args st = (r, st') -> st_le st st'.
Proof. intros H. pose proof (m_apply _ (monos_all fuel) fv args st) as G. rewrite H in G. exact G. Qed.

Lemma L_run_outer fuel ss : forall e st, L st (run_outer fuel e ss st).
Proof.
  induction ss as [|s ss IH]; intros e st; cbn [run_outer]; [apply L_refl|].
  destruct s; try apply IH.
  - apply L_bind; [apply m_exec, monos_all|]. intros; apply IH.
  - apply L_bind; [lleaf|]. intros; apply IH.
Qed.
Theorem run_outer_mono fuel e ss st r st' : run_outer fuel e ss st = (r, st') -> st_le st st'.
Proof. intros H. pose proof (L_run_outer fuel ss e st) as G. rewrite H in G. exact G. Qed.

Theorem store_grows fuel :
  (forall e x st r st', eval fuel e x st = (r, st') -> st_le st st') /\
  (forall e b st r st', block_value fuel e b st = (r, st') -> st_le st st') /\
  (forall e ss st r st', exec_block fuel e ss st = (r, st') -> st_le st st') /\
  (forall e s st r st', exec fuel e s st = (r, st') -> st_le st st') /\
  (forall fv args st r st', apply fuel fv args st = (r, st') -> st_le st st') /\
  (forall e ss st r st', run_outer fuel e ss st = (r, st') -> st_le st st').
Proof.
  refine (conj _ (conj _ (conj _ (conj _ (conj _ _))))); intros.
  - eapply eval_mono; eassumption.
  - eapply block_value_mono; eassumption.
  - eapply exec_block_mono; eassumption.
  - eapply exec_mono; eassumption.
  - eapply apply_mono; eassumption.
  - eapply run_outer_mono; eassumption.
Qed.

(* ---- 2. definitions and parameters get cells that did not exist before ---- *)
Definition alloc_args (args : list sval) (st : state) : state :=
  mkState (cells st ++ args) (blobs st) (clos st) (trace st).

Lemma nth_error_set_nth_eq {A} n (x : A) l : n < length l -> nth_error (set_nth n x l) n = Some x.
Proof. revert n; induction l as [|h t IH]; intros [|n] H; cbn in *; try lia; auto. apply IH; lia. Qed.
Lemma nth_error_set_nth_neq {A} n m (x : A) l : n <> m -> nth_error (set_nth n x l) m = nth_error l m.
Proof. revert n m; induction l as [|h t IH]; intros [|n] [|m] H; cbn in *; try congruence; auto. Qed.

(* a definition that completes binds `var` to the cell number `length (cells st)`: not allocated in st,
   allocated in st'; the initialiser is evaluated with the variable already bound to that cell (so a
   function literal in it captures its own cell: recursion), and its value is what the cell holds *)
Theorem definition_fresh fuel e name var kind t value sp st e' st' :
  exec fuel e (SDefinition name var kind t value sp) st = (RVal e', st') ->
  let c := length (cells st) in
  e' = (var, c) :: e /\ lookup e' var = Some c /\
  c < length (cells st') /\ st_le st st' /\
  exists v st1, eval (pred fuel) e' value (alloc_args [SV VLuaNil] st) = (RVal v, st1) /\
                nth_error (cells st') c = Some v.
Proof.
  destruct fuel as [|f]; [discriminate|]. intros H c. cbn [exec] in H. cbn [pred].
  unfold bind in H. cbn [new_cell] in H. fold (alloc_args [SV VLuaNil] st) in H. fold c in H.
  destruct (eval f ((var, c) :: e) value (alloc_args [SV VLuaNil] st)) as [[v|o|a] st2] eqn:E; try discriminate.
  unfold write_cell, ret in H. inversion H; subst e' st'; clear H.
  pose proof (eval_mono _ _ _ _ _ _ E) as Hle.
  assert (Hc : c < length (cells st2)).
  { destruct Hle as [Hl _ _ _]. cbn [alloc_args cells] in Hl. rewrite app_length in Hl. cbn in Hl. unfold c. lia. }
  split; [reflexivity|]. split; [cbn [lookup]; rewrite N.eqb_refl; reflexivity|].
  cbn [cells]. rewrite set_nth_length. split; [exact Hc|]. split.
  - eapply st_le_trans; [apply (L_new_cell (SV VLuaNil) st)|]. eapply st_le_trans; [exact Hle|].
    apply (L_write_cell c v st2).
  - exists v, st2. split; [exact E|]. apply nth_error_set_nth_eq; exact Hc.
Qed.

(* two executions of the same definition -- in two activations, two loop iterations, whatever the
   environments and the fuel -- bind the variable to two different cells *)
Corollary definitions_distinct f1 f2 e1 e2 name var kind t value sp st1 st1' st2 st2' e1' e2' :
  exec f1 e1 (SDefinition name var kind t value sp) st1 = (RVal e1', st1') ->
  st_le st1' st2 ->
  exec f2 e2 (SDefinition name var kind t value sp) st2 = (RVal e2', st2') ->
  exists c1 c2, lookup e1' var = Some c1 /\ lookup e2' var = Some c2 /\ c1 < c2.
Proof.
  intros H1 Hle H2. apply definition_fresh in H1. apply definition_fresh in H2. cbv zeta in *.
  destruct H1 as (_ & L1 & C1 & _). destruct H2 as (_ & L2 & _).
  eexists _, _. split; [exact L1|]. split; [exact L2|]. destruct Hle as [Hl _ _ _]. lia.
Qed.

(* a call evaluates the function, then the arguments left to right, then applies: the callee gets
   VALUES (the contents of cells), never the caller's cells or environment *)
Theorem eval_call f e fn args sp st :
  eval (S f) e (ECall fn args sp) st =
  (fv <- eval f e fn ;; avs <- mapM (eval f e) args ;; apply f fv avs) st.
Proof. reflexivity. Qed.

(* ---- function application: what `apply` does with the result of the body ---- *)
Definition catch_return (r : res sval * state) : res sval * state :=
  match r with
  | (RAbrupt (CReturn v), st') => (RVal v, st')
  | (RAbrupt _, st') => (RStop (OStuck "break/continue outside a loop"), st')
  | r => r
  end.

Lemma mapM_new_cell args : forall st,
  mapM new_cell args st = (RVal (seq (length (cells st)) (length args)), alloc_args args st).
Proof.
  induction args as [|a args IH]; intros st; cbn [mapM].
  - unfold ret, alloc_args. cbn [length seq]. rewrite app_nil_r. destruct st; reflexivity.
  - unfold bind at 1. cbn [new_cell]. unfold bind. rewrite IH. unfold ret, alloc_args. cbn [cells blobs clos trace length seq].
    rewrite app_length. cbn [length]. rewrite Nat.add_1_r. rewrite <- app_assoc. reflexivity.
Qed.

(* applying a closure: the complete case analysis.  The callee's environment is built from the
   closure alone: parameters -> the cells length (cells st), length (cells st)+1, ... holding copies of
   the arguments, then the captured environment.  The caller's environment is not an input. *)
Theorem apply_closure_cases f k args st :
  apply (S f) (SClos k) args st =
  match nth_error (clos st) k with
  | None => (RStop (OStuck "dangling closure"), st)
  | Some cl =>
      if Nat.eqb (length (cl_params cl)) (length args) then
        catch_return (block_value f (combine (cl_params cl) (seq (length (cells st)) (length args)) ++ cl_env cl)
                                  (cl_body cl) (alloc_args args st))
      else (RStop (OStuck "call with the wrong number of arguments"), st)
  end.
Proof.
  cbn [apply]. unfold bind at 1. unfold get_clos. destruct (nth_error (clos st) k) as [cl|]; [|reflexivity].
  destruct (Nat.eqb (length (cl_params cl)) (length args)); [|reflexivity].
  unfold bind. rewrite mapM_new_cell. unfold catch_return.
  destruct (block_value f _ (cl_body cl) (alloc_args args st)) as [[v|o|[| |v]] st3]; reflexivity.
Qed.

Theorem activation_fresh f k cl args st :
  nth_error (clos st) k = Some cl -> length (cl_params cl) = length args ->
  exists cs st1,
    apply (S f) (SClos k) args st
      = catch_return (block_value f (combine (cl_params cl) cs ++ cl_env cl) (cl_body cl) st1) /\
    length cs = length (cl_params cl) /\ NoDup cs /\
    (forall c, In c cs -> length (cells st) <= c < length (cells st1)) /\
    (forall i c, nth_error cs i = Some c -> nth_error (cells st1) c = nth_error args i) /\
    (forall c, c < length (cells st) -> nth_error (cells st1) c = nth_error (cells st) c) /\
    blobs st1 = blobs st /\ clos st1 = clos st /\ trace st1 = trace st.
Proof.
  intros Hk Hlen. exists (seq (length (cells st)) (length args)), (alloc_args args st).
  split; [|split; [|split; [|split; [|split; [|split]]]]].
  - rewrite apply_closure_cases, Hk, Hlen, Nat.eqb_refl. reflexivity.
  - rewrite seq_length. symmetry; exact Hlen.
  - apply seq_NoDup.
  - intros c Hc. apply in_seq in Hc. cbn [alloc_args cells]. rewrite app_length. lia.
  - intros i c Hi. cbn [alloc_args cells].
    assert (Hi' : i < length args). { rewrite <- (seq_length (length args) (length (cells st))). apply nth_error_Some. congruence. }
    rewrite (nth_error_nth' _ 0) in Hi by (rewrite seq_length; exact Hi'). rewrite seq_nth in Hi by exact Hi'.
    inversion Hi; subst c. rewrite nth_error_app2 by lia. f_equal. lia.
  - intros c Hc. cbn [alloc_args cells]. apply nth_error_app1. exact Hc.
  - repeat split.
Qed.

(* ---- 3. function literals: a new closure over the cells of this evaluation's environment ---- *)
Theorem function_literal_new_closure fuel e name params rt body pure sp st v st' :
  eval fuel e (EFunction name params rt body pure sp) st = (RVal v, st') ->
  let k := length (clos st) in
  let cl := mkClos (map (fun p => snd (fst (fst p))) params) body e in
  v = SClos k /\ nth_error (clos st) k = None /\ nth_error (clos st') k = Some cl /\ cl_env cl = e /\
  clos st' = clos st ++ [cl] /\ cells st' = cells st /\ blobs st' = blobs st /\ trace st' = trace st.
Proof.
  destruct fuel as [|f]; [discriminate|]. cbn [eval]. unfold bind, new_clos, ret. intros H; inversion H; subst; clear H.
  cbn [clos cells blobs trace cl_env]. repeat split.
  - apply nth_error_None. lia.
  - rewrite nth_error_app2 by lia. rewrite Nat.sub_diag. reflexivity.
Qed.

Corollary closure_persists fuel e name params rt body pure sp st k st' st'' :
  eval fuel e (EFunction name params rt body pure sp) st = (RVal (SClos k), st') -> st_le st' st'' ->
  nth_error (clos st'') k = Some (mkClos (map (fun p => snd (fst (fst p))) params) body e).
Proof.
  intros H Hle. apply function_literal_new_closure in H. cbv zeta in H.
  destruct H as (Hk & _ & Hn & _). inversion Hk; subst k. eapply st_le_clos_nth; eassumption.
Qed.

Corollary function_literals_distinct f1 f2 e1 e2 x1 x2 st1 st1' st2 st2' k1 k2
    n1 p1 r1 b1 u1 s1 n2 p2 r2 b2 u2 s2 :
  x1 = EFunction n1 p1 r1 b1 u1 s1 -> x2 = EFunction n2 p2 r2 b2 u2 s2 ->
  eval f1 e1 x1 st1 = (RVal (SClos k1), st1') -> st_le st1' st2 ->
  eval f2 e2 x2 st2 = (RVal (SClos k2), st2') -> k1 < k2.
Proof.
  intros -> -> H1 Hle H2. apply function_literal_new_closure in H1. apply function_literal_new_closure in H2.
  cbv zeta in *. destruct H1 as (K1 & _ & _ & _ & C1 & _). destruct H2 as (K2 & _).
  inversion K1; inversion K2; subst. apply st_le_clos_len in Hle. rewrite C1, app_length in Hle. cbn in Hle. lia.
Qed.

(* ---- 4. environments are lexical ---- *)
Definition Sh {A} (P : A -> Prop) (r : res A * state) : Prop :=
  match fst r with RVal a => P a | _ => True end.
Lemma Sh_bind {A B} (P : B -> Prop) (m : M A) (k : A -> M B) st :
  (forall a st1, Sh P (k a st1)) -> Sh P (bind m k st).
Proof. unfold bind, Sh. intros H. destruct (m st) as [[a|o|c] st1]; cbn; auto. apply H. Qed.

Ltac shstep :=
  first
    [ exact I
    | exact eq_refl
    | apply Sh_bind; intros ? ?
    | match goal with
      | |- Sh _ (match ?x with _ => _ end _) => destruct x
      | |- Sh _ ((if ?x then _ else _) _) => destruct x
      | |- Sh _ (match ?x with _ => _ end) => destruct x
      | |- Sh _ (if ?x then _ else _) => destruct x
      end ].

Lemma exec_keeps_env fuel e s st :
  match s with
  | SDefinition _ _ _ _ _ _ => True
  | _ => Sh (fun e' => e' = e) (exec fuel e s st)
  end.
Proof.
  destruct fuel as [|n]; [destruct s; exact I|].
  destruct s; cbn [exec]; try exact I.
  all: repeat shstep.
  match goal with |- Sh ?P (?F n st) => assert (H : forall m st, Sh P (F m st)); [|apply H] end.
  intros m. induction m as [|m IH]; intros st0; [exact I|].
  apply Sh_bind; intros c st1. apply Sh_bind; intros bc st2. destruct bc; [|exact eq_refl].
  destruct (exec_block n e body st2) as [[e1|o|[| |v]] st3]; try exact I; try exact eq_refl; apply IH.
Qed.

(* a statement that completes normally returns the environment it was given, unless it is a
   definition, which adds exactly one binding to a fresh cell *)
Theorem exec_env fuel e s st e' st' :
  exec fuel e s st = (RVal e', st') ->
  e' = e \/
  exists name var kind t value sp,
    s = SDefinition name var kind t value sp /\ e' = (var, length (cells st)) :: e /\
    length (cells st) < length (cells st').
Proof.
  intros H. pose proof (exec_keeps_env fuel e s st) as K.
  destruct s; try (left; unfold Sh in K; rewrite H in K; exact K).
  right. apply definition_fresh in H. cbv zeta in H. destruct H as (He & _ & Hc & _).
  do 6 eexists. split; [reflexivity|]. split; assumption.
Qed.

Definition env_ext (st st' : state) (e e' : env) : Prop :=
  exists d, e' = d ++ e /\ forall x c, In (x, c) d -> length (cells st) <= c < length (cells st').

(* a block that completes normally returns its environment extended with bindings to cells allocated
   during the block; nothing below is removed, replaced or re-pointed *)
Theorem exec_block_env_ext : forall fuel e ss st e' st',
  exec_block fuel e ss st = (RVal e', st') -> env_ext st st' e e'.
Proof.
  induction fuel as [|n IH]; [discriminate|]. intros e ss st e' st'. cbn [exec_block]. destruct ss as [|s ss].
  - unfold ret; intros H; inversion H; subst. exists []. split; [reflexivity|intros ? ? []].
  - unfold bind. destruct (exec n e s st) as [[e1|o|c] st1] eqn:E; try discriminate. intros H.
    pose proof (le_cells _ _ (exec_mono _ _ _ _ _ _ E)) as M1.
    pose proof (le_cells _ _ (exec_block_mono _ _ _ _ _ _ H)) as M2.
    apply IH in H. destruct H as (d & -> & Hd).
    destruct (exec_env _ _ _ _ _ _ E) as [->|(nm & var & kd & t & value & sp & -> & -> & Hlt)].
    + exists d. split; [reflexivity|]. intros x c Hin. specialize (Hd _ _ Hin). lia.
    + exists (d ++ [(var, length (cells st))]). rewrite <- app_assoc. split; [reflexivity|].
      intros x c Hin. apply in_app_or in Hin. destruct Hin as [Hin|[Hin|[]]].
      * specialize (Hd _ _ Hin). lia.
      * inversion Hin; subst. lia.
Qed.

(* ---- 5. frame: what is not reachable from the environment is not written ---- *)
(* R = (set of cells, set of blobs, set of closures).  `frame R st`: R is closed under reachability in
   st (the value in a cell of R, the fields of a blob of R, the captured cells of a closure of R are in R)
   and contains every index that is not allocated yet.  `same_out R st st'`: cells and blobs outside R
   hold in st' what they hold in st. *)
Record rset := mkRset { rc : nat -> Prop; rb : nat -> Prop; rk : nat -> Prop }.

Definition vok (R : rset) (v : sval) : Prop :=
  match v with SRef l => rb R l | SClos k => rk R k | _ => True end.
Definition env_in (R : rset) (e : env) : Prop := forall x c, In (x, c) e -> rc R c.
Definition fields_ok (R : rset) (fs : list (string * sval)) : Prop := forall kv, In kv fs -> vok R (snd kv).

Record frame (R : rset) (st : state) : Prop := mkFrame {
  f_cells : forall c v, rc R c -> nth_error (cells st) c = Some v -> vok R v;
  f_blobs : forall l fs, rb R l -> nth_error (blobs st) l = Some fs -> fields_ok R fs;
  f_clos : forall k cl, rk R k -> nth_error (clos st) k = Some cl -> env_in R (cl_env cl);
  f_newc : forall c, length (cells st) <= c -> rc R c;
  f_newb : forall l, length (blobs st) <= l -> rb R l;
  f_newk : forall k, length (clos st) <= k -> rk R k }.

Record same_out (R : rset) (st st' : state) : Prop := mkSameOut {
  so_cells : forall c, ~ rc R c -> nth_error (cells st') c = nth_error (cells st) c;
  so_blobs : forall l, ~ rb R l -> nth_error (blobs st') l = nth_error (blobs st) l }.

Lemma same_out_refl R st : same_out R st st.
Proof. constructor; reflexivity. Qed.
Lemma same_out_trans R a b c : same_out R a b -> same_out R b c -> same_out R a c.
Proof. intros [H1 H2] [G1 G2]. constructor; intros; [rewrite G1, H1|rewrite G2, H2]; auto. Qed.

(* `F R P st (m st)`: run from a state where R is a frame, m keeps R a frame, changes nothing outside R,
   and its result -- a value satisfying P, or the value carried by a `ret` -- is inside R *)
Definition rok {A} (R : rset) (P : A -> Prop) (r : res A) : Prop :=
  match r with RVal a => P a | RAbrupt (CReturn v) => vok R v | _ => True end.

Definition F {A} (R : rset) (P : A -> Prop) (st : state) (r : res A * state) : Prop :=
  frame R st -> frame R (snd r) /\ same_out R st (snd r) /\ rok R P (fst r).

Lemma F_bind {A B} R (P : A -> Prop) (Q : B -> Prop) (m : M A) (k : A -> M B) st :
  F R P st (m st) -> (forall a st1, P a -> F R Q st1 (k a st1)) -> F R Q st (bind m k st).
Proof.
  unfold bind, F. intros H1 H2 Hfr. destruct (m st) as [[a|o|c] st1]; cbn [fst snd] in *;
    destruct (H1 Hfr) as (F1 & S1 & R1).
  - destruct (H2 a st1 R1 F1) as (F2 & S2 & R2). split; [exact F2|]. split; [|exact R2].
    eapply same_out_trans; eassumption.
  - split; [exact F1|]. split; [exact S1|exact I].
  - split; [exact F1|]. split; [exact S1|]. destruct c; exact R1.
Qed.

Lemma F_weaken {A} R (P Q : A -> Prop) st r : (forall a, P a -> Q a) -> F R P st r -> F R Q st r.
Proof.
  unfold F. intros HPQ H Hfr. destruct (H Hfr) as (F1 & S1 & R1). split; [exact F1|]. split; [exact S1|].
  destruct r as [[a|o|c] st1]; cbn in *; auto.
Qed.

Lemma F_val {A} R (P : A -> Prop) a st : P a -> F R P st (RVal a, st).
Proof. intros H Hfr. split; [exact Hfr|]. split; [apply same_out_refl|exact H]. Qed.
Lemma F_stop {A} R (P : A -> Prop) o st : F R P st (RStop o, st).
Proof. intros Hfr. split; [exact Hfr|]. split; [apply same_out_refl|exact I]. Qed.
Lemma F_abrupt {A} R (P : A -> Prop) c st :
  match c with CReturn v => vok R v | _ => True end -> F R P st (@RAbrupt A c, st).
Proof. intros H Hfr. split; [exact Hfr|]. split; [apply same_out_refl|]. destruct c; exact H. Qed.

Definition TT {A} (a : A) : Prop := True.

Lemma F_lift {A} R w (x : Values.res A) st : F R TT st (lift_res w x st).
Proof. destruct x; [apply F_val; exact I|apply F_stop|apply F_stop]. Qed.
Lemma F_truth R w v st : F R TT st (truth w v st).
Proof. unfold truth. destruct v as [[]| | |]; first [apply F_val; exact I|apply F_stop]. Qed.
Lemma F_as_value R w v st : F R TT st (as_value w v st).
Proof. destruct v; first [apply F_val; exact I|apply F_stop]. Qed.
Lemma F_snapshot R v st : F R TT st (snapshot v st).
Proof. unfold snapshot. destruct (reify 64 st v); first [apply F_val; exact I|apply F_stop]. Qed.
Lemma F_binop R op a b st : F R TT st (binop_val op a b st).
Proof.
  unfold binop_val. destruct op;
    repeat first [apply F_lift | apply F_stop | apply F_val; exact I | (eapply F_bind; [|intros ? ? ?])].
Qed.

Lemma frame_same R st st' :
  cells st' = cells st -> blobs st' = blobs st -> clos st' = clos st -> frame R st -> frame R st'.
Proof. intros H1 H2 H3 [A B C D E G]. constructor; rewrite ?H1, ?H2, ?H3; assumption. Qed.

Lemma nth_error_snoc {A} (l : list A) x n y :
  nth_error (l ++ [x]) n = Some y -> nth_error l n = Some y \/ (n = length l /\ y = x).
Proof.
  intros H. destruct (Nat.lt_ge_cases n (length l)) as [Hl|Hl].
  - rewrite nth_error_app1 in H by exact Hl. left; exact H.
  - rewrite nth_error_app2 in H by exact Hl. destruct (n - length l) as [|k] eqn:E; cbn in H.
    + inversion H; subst. right. split; [lia|reflexivity].
    + destruct k; discriminate.
Qed.

Lemma nth_error_set_nth_inv {A} n m (x y : A) l :
  nth_error (set_nth n x l) m = Some y -> (n = m /\ y = x) \/ nth_error l m = Some y.
Proof.
  revert n m; induction l as [|h t IH]; intros [|n] [|m] H; cbn in *; try discriminate; auto.
  - inversion H; auto.
  - destruct (IH _ _ H) as [[-> ->]|G]; auto.
Qed.

Lemma not_new {P : nat -> Prop} n c : (forall c, n <= c -> P c) -> ~ P c -> c < n.
Proof. intros H1 H2. destruct (Nat.lt_ge_cases c n); [assumption|]. exfalso; auto. Qed.

Lemma F_new_cell R v st : vok R v -> F R (rc R) st (new_cell v st).
Proof.
  intros Hv [A B C D E G]. cbn [new_cell fst snd]. split; [|split].
  - constructor; cbn [cells blobs clos]; auto.
    + intros c v0 Hc Hn. apply nth_error_snoc in Hn. destruct Hn as [Hn|[_ ->]]; eauto.
    + intros c Hc. rewrite app_length in Hc. apply D. lia.
  - constructor; cbn [cells blobs]; auto. intros c Hc. apply nth_error_app1. eapply not_new; eassumption.
  - cbn. apply D. lia.
Qed.

Lemma F_write_cell R c v st : rc R c -> vok R v -> F R TT st (write_cell c v st).
Proof.
  intros Hc Hv [A B C D E G]. cbn [write_cell fst snd]. split; [|split; [|exact I]].
  - constructor; cbn [cells blobs clos]; auto.
    + intros c0 v0 Hc0 Hn. apply nth_error_set_nth_inv in Hn. destruct Hn as [[_ ->]|Hn]; eauto.
    + intros c0 Hc0. rewrite set_nth_length in Hc0. auto.
  - constructor; cbn [cells blobs]; auto. intros c0 Hc0. apply nth_error_set_nth_neq. intros ->; auto.
Qed.

Lemma F_read_cell R c st : rc R c -> F R (vok R) st (read_cell c st).
Proof.
  intros Hc Hfr. unfold read_cell. destruct (nth_error (cells st) c) as [v|] eqn:E; cbn [fst snd].
  - split; [exact Hfr|]. split; [apply same_out_refl|]. eapply f_cells; eassumption.
  - split; [exact Hfr|]. split; [apply same_out_refl|exact I].
Qed.

Lemma F_new_blob R fs st : fields_ok R fs -> F R (rb R) st (new_blob fs st).
Proof.
  intros Hv [A B C D E G]. cbn [new_blob fst snd]. split; [|split].
  - constructor; cbn [cells blobs clos]; auto.
    + intros l fs0 Hl Hn. apply nth_error_snoc in Hn. destruct Hn as [Hn|[_ ->]]; eauto.
    + intros l Hl. rewrite app_length in Hl. apply E. lia.
  - constructor; cbn [cells blobs]; auto. intros l Hl. apply nth_error_app1. eapply not_new; eassumption.
  - cbn. apply E. lia.
Qed.

Lemma F_write_blob R l fs st : rb R l -> fields_ok R fs -> F R TT st (write_blob l fs st).
Proof.
  intros Hc Hv [A B C D E G]. cbn [write_blob fst snd]. split; [|split; [|exact I]].
  - constructor; cbn [cells blobs clos]; auto.
    + intros l0 fs0 Hl0 Hn. apply nth_error_set_nth_inv in Hn. destruct Hn as [[_ ->]|Hn]; eauto.
    + intros l0 Hl0. rewrite set_nth_length in Hl0. auto.
  - constructor; cbn [cells blobs]; auto. intros l0 Hl0. apply nth_error_set_nth_neq. intros ->; auto.
Qed.

Lemma F_read_blob R l st : rb R l -> F R (fields_ok R) st (read_blob l st).
Proof.
  intros Hc Hfr. unfold read_blob. destruct (nth_error (blobs st) l) as [v|] eqn:E; cbn [fst snd].
  - split; [exact Hfr|]. split; [apply same_out_refl|]. eapply f_blobs; eassumption.
  - split; [exact Hfr|]. split; [apply same_out_refl|exact I].
Qed.

Lemma F_new_clos R cl st : env_in R (cl_env cl) -> F R (rk R) st (new_clos cl st).
Proof.
  intros Hv [A B C D E G]. cbn [new_clos fst snd]. split; [|split].
  - constructor; cbn [cells blobs clos]; auto.
    + intros k cl0 Hk Hn. apply nth_error_snoc in Hn. destruct Hn as [Hn|[_ ->]]; eauto.
    + intros k Hk. rewrite app_length in Hk. apply G. lia.
  - constructor; cbn [cells blobs]; auto.
  - cbn. apply G. lia.
Qed.

Lemma F_get_clos R k st : rk R k -> F R (fun cl => env_in R (cl_env cl)) st (get_clos k st).
Proof.
  intros Hc Hfr. unfold get_clos. destruct (nth_error (clos st) k) as [v|] eqn:E; cbn [fst snd].
  - split; [exact Hfr|]. split; [apply same_out_refl|]. eapply f_clos; eassumption.
  - split; [exact Hfr|]. split; [apply same_out_refl|exact I].
Qed.

Lemma F_emit R s st : F R TT st (emit_line s st).
Proof.
  intros Hfr. cbn [emit_line fst snd]. split; [|split; [|exact I]].
  - eapply frame_same; [| | |exact Hfr]; reflexivity.
  - constructor; reflexivity.
Qed.

Lemma F_mapM {A B} R (P : B -> Prop) (f : A -> M B) l :
  (forall a st, F R P st (f a st)) -> forall st, F R (Forall P) st (mapM f l st).
Proof.
  intros Hf. induction l as [|a l IH]; intros st; cbn [mapM]; [apply F_val; constructor|].
  eapply F_bind; [apply Hf|]. intros y st1 Hy. eapply F_bind; [apply IH|]. intros ys st2 Hys.
  apply F_val. constructor; assumption.
Qed.

Lemma lookup_env_in R e v c : env_in R e -> lookup e v = Some c -> rc R c.
Proof.
  intros He. induction e as [|[k c0] e IH]; cbn [lookup]; [discriminate|].
  destruct (N.eqb k v).
  - intros H; inversion H; subst. eapply He. left; reflexivity.
  - apply IH. intros x c1 Hin. eapply He. right; exact Hin.
Qed.

Lemma env_in_cons R e x c : rc R c -> env_in R e -> env_in R ((x, c) :: e).
Proof. intros Hc He y c0 [H|H]; [inversion H; subst; exact Hc|eapply He; exact H]. Qed.

Lemma env_in_params R ps cs e : Forall (rc R) cs -> env_in R e -> env_in R (combine ps cs ++ e).
Proof.
  intros Hcs He x c Hin. apply in_app_or in Hin. destruct Hin as [Hin|Hin]; [|eapply He; exact Hin].
  apply in_combine_r in Hin. rewrite Forall_forall in Hcs. auto.
Qed.

Lemma fields_ok_find R fs (p : string * sval -> bool) kv : fields_ok R fs -> find p fs = Some kv -> vok R (snd kv).
Proof. intros H Hf. apply find_some in Hf. apply H. tauto. Qed.

Lemma fields_ok_update R fs field r :
  fields_ok R fs -> vok R r ->
  fields_ok R (map (fun kv : string * sval => if String.eqb (fst kv) field then (fst kv, r) else kv) fs).
Proof.
  intros H Hr kv Hin. apply in_map_iff in Hin. destruct Hin as (kv0 & <- & Hin).
  destruct (String.eqb (fst kv0) field); [exact Hr|apply H; exact Hin].
Qed.

Ltac fside :=
  first
    [ exact I
    | assumption
    | (eapply lookup_env_in; eassumption)
    | (apply env_in_cons; [assumption|assumption])
    | (eapply fields_ok_find; eassumption)
    | (apply fields_ok_update; assumption)
    | (apply env_in_params; assumption) ].

Ltac fleaf :=
  lazymatch goal with
  | |- F _ _ _ (ret _ _) => apply F_val; fside
  | |- F _ _ _ (stop _ _) => apply F_stop
  | |- F _ _ _ (abrupt _ _) => apply F_abrupt; fside
  | |- F _ _ _ (lift_res _ _ _) => apply F_lift
  | |- F _ _ _ (truth _ _ _) => apply F_truth
  | |- F _ _ _ (as_value _ _ _) => apply F_as_value
  | |- F _ _ _ (snapshot _ _) => apply F_snapshot
  | |- F _ _ _ (binop_val _ _ _ _) => apply F_binop
  | |- F _ _ _ (emit_line _ _) => apply F_emit
  | |- F _ _ _ (new_cell _ _) => apply F_new_cell; fside
  | |- F _ _ _ (write_cell _ _ _) => apply F_write_cell; fside
  | |- F _ _ _ (read_cell _ _) => apply F_read_cell; fside
  | |- F _ _ _ (new_blob _ _) => apply F_new_blob; fside
  | |- F _ _ _ (write_blob _ _ _) => apply F_write_blob; fside
  | |- F _ _ _ (read_blob _ _) => apply F_read_blob; fside
  | |- F _ _ _ (new_clos _ _) => apply F_new_clos; fside
  | |- F _ _ _ (get_clos _ _) => apply F_get_clos; fside
  end.

Ltac fmatch :=
  match goal with
  | |- F _ _ _ (match ?x with _ => _ end _) => tryif is_var x then destruct x else destruct x eqn:?
  | |- F _ _ _ ((if ?x then _ else _) _) => destruct x
  | |- F _ _ _ (match ?x with _ => _ end) => tryif is_var x then destruct x else destruct x eqn:?
  | |- F _ _ _ (if ?x then _ else _) => destruct x
  end.

Lemma F_mapM_Forall {A B} R (Q : A -> Prop) (P : B -> Prop) (f : A -> M B) l :
  Forall Q l -> (forall a st, Q a -> F R P st (f a st)) -> forall st, F R (Forall P) st (mapM f l st).
Proof.
  intros Hl Hf. induction Hl as [|a l Ha Hl IH]; intros st; cbn [mapM]; [apply F_val; constructor|].
  eapply F_bind; [apply Hf; exact Ha|]. intros y st1 Hy. eapply F_bind; [apply IH|]. intros ys st2 Hys.
  apply F_val. constructor; assumption.
Qed.

Ltac fih He Hbv Heb Hex Hap HmapE :=
  lazymatch goal with
  | |- F _ _ _ (eval _ _ _ _) => apply He; fside
  | |- F _ _ _ (block_value _ _ _ _) => apply Hbv; fside
  | |- F _ _ _ (exec_block _ _ _ _) => apply Heb; fside
  | |- F _ _ _ (exec _ _ _ _) => apply Hex; fside
  | |- F _ _ _ (apply _ _ _ _) => apply Hap; fside
  | |- F _ _ _ (mapM (eval _ _) _ _) => apply HmapE; fside
  end.
Ltac fgo He Hbv Heb Hex Hap HmapE :=
  repeat
    lazymatch goal with
    | |- F _ _ _ (bind _ _ _) =>
        eapply F_bind; [ first [fih He Hbv Heb Hex Hap HmapE | fleaf] | intros ? ? ? ]
    | |- F _ _ _ _ => first [ fih He Hbv Heb Hex Hap HmapE | fleaf | fmatch ]
    end.

Section Frame.
Variable R : rset.

Record frames (n : nat) : Prop := mkFrames {
  fr_eval : forall e x st, env_in R e -> F R (vok R) st (eval n e x st);
  fr_bv : forall e b st, env_in R e -> F R (vok R) st (block_value n e b st);
  fr_eb : forall e ss st, env_in R e -> F R (env_in R) st (exec_block n e ss st);
  fr_exec : forall e s st, env_in R e -> F R (env_in R) st (exec n e s st);
  fr_apply : forall fv args st, vok R fv -> Forall (vok R) args -> F R (vok R) st (apply n fv args st) }.

Lemma frames_zero : frames O.
Proof. constructor; intros; apply F_stop. Qed.

Lemma frames_succ n : frames n -> frames (S n).
Proof.
  intros [He Hbv Heb Hex Hap].
  assert (HmapE : forall e l st, env_in R e -> F R (Forall (vok R)) st (mapM (eval n e) l st)).
  { intros e l st Hin. apply F_mapM. intros; apply He; exact Hin. }
  constructor.
  - intros e x st Hin. destruct x; cbn [eval].
    all: fgo He Hbv Heb Hex Hap HmapE.
    + (* EIf *)
      revert st. induction branches as [|[[cond|] body bsp] brs IH]; intros st; [apply F_val; exact I| |apply Hbv; exact Hin].
      eapply F_bind; [apply He; exact Hin|]. intros c st1 Hc. eapply F_bind; [apply F_truth|]. intros bc st2 _.
      destruct bc; [apply Hbv; exact Hin|apply IH].
    + (* ECase *)
      revert st1. induction branches as [|[pat psp var body bsp] brs IH]; intros st1; [apply Hbv; exact Hin|].
      destruct (String.eqb pat tag); [|apply IH].
      destruct var; [|apply Hbv; exact Hin].
      eapply F_bind; [apply F_new_cell; exact I|]. intros c0 st2 Hc0. apply Hbv. fside.
    + (* EBlob *)
      eapply F_bind.
      { apply F_mapM with (P := fun kv : string * sval => vok R (snd kv)). intros fe st2.
        eapply F_bind; [apply He; fside|]. intros v st3 Hv. apply F_val. exact Hv. }
      intros fvs st2 Hf. assert (Hf' : fields_ok R fvs) by (rewrite Forall_forall in Hf; exact Hf).
      fgo He Hbv Heb Hex Hap HmapE.
    + (* ECollection *)
      eapply F_bind; [apply F_mapM with (P := TT); intros; apply F_as_value|]. intros xs st2 _. apply F_val. exact I.
  - intros e b st Hin. cbn [block_value]. fgo He Hbv Heb Hex Hap HmapE.
  - intros e ss st Hin. cbn [exec_block]. fgo He Hbv Heb Hex Hap HmapE.
  - intros e s st Hin. destruct s; cbn [exec].
    all: fgo He Hbv Heb Hex Hap HmapE.
    + (* variable assignment *)
      eapply F_bind with (P := vok R); [destruct op; fgo He Hbv Heb Hex Hap HmapE|].
      intros r st2 Hr. fgo He Hbv Heb Hex Hap HmapE.
    + (* field assignment *)
      eapply F_bind with (P := vok R); [destruct op; fgo He Hbv Heb Hex Hap HmapE|].
      intros r st3 Hr. fgo He Hbv Heb Hex Hap HmapE.
    + (* SLoop *)
      match goal with |- F R ?P st (?G n st) => assert (H : forall m st, F R P st (G m st)); [|apply H] end.
      intros m. induction m as [|m IH]; intros st0; [apply F_stop|].
      eapply F_bind; [apply He; exact Hin|]. intros c st1 Hc. eapply F_bind; [apply F_truth|]. intros bc st2 _.
      destruct bc; [|apply F_val; exact Hin].
      pose proof (Heb e body st2 Hin) as Hq. specialize (IH).
      destruct (exec_block n e body st2) as [[e1|o|[| |v]] st3].
      * intros Hfr; destruct (Hq Hfr) as (Q1 & Q2 & Q3); cbn [fst snd] in *.
        destruct (IH st3 Q1) as (I1 & I2 & I3). split; [exact I1|]. split; [eapply same_out_trans; eassumption|exact I3].
      * exact Hq.
      * intros Hfr; destruct (Hq Hfr) as (Q1 & Q2 & Q3). split; [exact Q1|]. split; [exact Q2|exact Hin].
      * intros Hfr; destruct (Hq Hfr) as (Q1 & Q2 & Q3); cbn [fst snd] in *.
        destruct (IH st3 Q1) as (I1 & I2 & I3). split; [exact I1|]. split; [eapply same_out_trans; eassumption|exact I3].
      * exact Hq.
  - intros fv args st Hfv Hargs. cbn [apply]. destruct fv; try apply F_stop.
    + eapply F_bind; [apply F_get_clos; exact Hfv|]. intros cl st1 Hcl.
      destruct (Nat.eqb (length (cl_params cl)) (length args)); [|apply F_stop].
      eapply F_bind.
      { apply F_mapM_Forall with (Q := vok R); [exact Hargs|]. intros a st2 Ha. apply F_new_cell. exact Ha. }
      intros cs st2 Hcs.
      pose proof (Hbv (combine (cl_params cl) cs ++ cl_env cl) (cl_body cl) st2 (env_in_params _ _ _ _ Hcs Hcl)) as Hq.
      destruct (block_value n (combine (cl_params cl) cs ++ cl_env cl) (cl_body cl) st2) as [[v|o|[| |v]] st3]; try exact Hq.
      all: intros Hfr; destruct (Hq Hfr) as (Q1 & Q2 & Q3); split; [exact Q1|]; split; [exact Q2|]; first [exact I|exact Q3].
    + fgo He Hbv Heb Hex Hap HmapE.
Qed.
End Frame.

Theorem frames_all R n : frames R n.
Proof. induction n; [apply frames_zero|apply frames_succ; assumption]. Qed.

(* the least frame: what is reachable from an environment e and root values vs in st, plus what is
   not allocated yet *)
Section Reach.
Variables (st : state) (e : env) (vs : list sval).

Inductive rcell : nat -> Prop :=
| rc_env x c : In (x, c) e -> rcell c
| rc_new c : length (cells st) <= c -> rcell c
| rc_clos k cl x c : rclos k -> nth_error (clos st) k = Some cl -> In (x, c) (cl_env cl) -> rcell c
with rblob : nat -> Prop :=
| rb_root l : In (SRef l) vs -> rblob l
| rb_new l : length (blobs st) <= l -> rblob l
| rb_cell c l : rcell c -> nth_error (cells st) c = Some (SRef l) -> rblob l
| rb_blob l0 fs kv l : rblob l0 -> nth_error (blobs st) l0 = Some fs -> In kv fs -> snd kv = SRef l -> rblob l
with rclos : nat -> Prop :=
| rk_root k : In (SClos k) vs -> rclos k
| rk_new k : length (clos st) <= k -> rclos k
| rk_cell c k : rcell c -> nth_error (cells st) c = Some (SClos k) -> rclos k
| rk_blob l0 fs kv k : rblob l0 -> nth_error (blobs st) l0 = Some fs -> In kv fs -> snd kv = SClos k -> rclos k.

Definition reach : rset := mkRset rcell rblob rclos.

Lemma unreachable_allocated c : ~ rcell c -> c < length (cells st).
Proof. intros H. destruct (Nat.lt_ge_cases c (length (cells st))); [assumption|]. exfalso; apply H, rc_new; assumption. Qed.

Lemma reach_frame : frame reach st.
Proof.
  constructor; cbn [reach rc rb rk].
  - intros c v Hc Hn. destruct v; cbn; auto; [eapply rb_cell|eapply rk_cell]; eassumption.
  - intros l fs Hl Hn kv Hin. destruct kv as [k v] eqn:E. destruct v; cbn; auto;
      [eapply rb_blob|eapply rk_blob]; try eassumption; reflexivity.
  - intros k cl Hk Hn x c Hin. eapply rc_clos; eassumption.
  - apply rc_new.
  - apply rb_new.
  - apply rk_new.
Qed.
Lemma reach_env : env_in reach e.
Proof. intros x c Hin. eapply rc_env; exact Hin. Qed.
Lemma reach_roots : Forall (vok reach) vs.
Proof. apply Forall_forall. intros v Hin. destruct v; cbn; auto; [apply rb_root|apply rk_root]; exact Hin. Qed.
End Reach.

Theorem eval_frame_gen R fuel e x st r st' :
  frame R st -> env_in R e -> eval fuel e x st = (r, st') ->
  frame R st' /\ same_out R st st' /\ rok R (vok R) r.
Proof. intros Hf He H. pose proof (fr_eval _ _ (frames_all R fuel) e x st He Hf) as G. rewrite H in G. exact G. Qed.
Theorem exec_frame_gen R fuel e s st r st' :
  frame R st -> env_in R e -> exec fuel e s st = (r, st') ->
  frame R st' /\ same_out R st st' /\ rok R (env_in R) r.
Proof. intros Hf He H. pose proof (fr_exec _ _ (frames_all R fuel) e s st He Hf) as G. rewrite H in G. exact G. Qed.
Theorem exec_block_frame_gen R fuel e ss st r st' :
  frame R st -> env_in R e -> exec_block fuel e ss st = (r, st') ->
  frame R st' /\ same_out R st st' /\ rok R (env_in R) r.
Proof. intros Hf He H. pose proof (fr_eb _ _ (frames_all R fuel) e ss st He Hf) as G. rewrite H in G. exact G. Qed.
Theorem block_value_frame_gen R fuel e b st r st' :
  frame R st -> env_in R e -> block_value fuel e b st = (r, st') ->
  frame R st' /\ same_out R st st' /\ rok R (vok R) r.
Proof. intros Hf He H. pose proof (fr_bv _ _ (frames_all R fuel) e b st He Hf) as G. rewrite H in G. exact G. Qed.
Theorem apply_frame_gen R fuel fv args st r st' :
  frame R st -> vok R fv -> Forall (vok R) args -> apply fuel fv args st = (r, st') ->
  frame R st' /\ same_out R st st' /\ rok R (vok R) r.
Proof. intros Hf Hv Ha H. pose proof (fr_apply _ _ (frames_all R fuel) fv args st Hv Ha Hf) as G. rewrite H in G. exact G. Qed.

(* the frame theorems for the least such set: a cell (blob) that exists in st and is not reachable from
   the environment of the execution holds the same value afterwards.  (rcell/rblob contain every index
   that is not allocated in st, so `~ rcell st e [] c` implies c < length (cells st).)  For `apply` the
   roots are the function value and the arguments: a callee cannot write a local of its caller -- or of
   any other activation -- unless a closure or blob it was given reaches that cell. *)
Theorem eval_frame fuel e x st r st' :
  eval fuel e x st = (r, st') ->
  (forall c, ~ rcell st e [] c -> nth_error (cells st') c = nth_error (cells st) c) /\
  (forall l, ~ rblob st e [] l -> nth_error (blobs st') l = nth_error (blobs st) l).
Proof.
  intros H. destruct (eval_frame_gen (reach st e []) _ _ _ _ _ _ (reach_frame _ _ _) (reach_env _ _ _) H) as (_ & [A B] & _).
  split; assumption.
Qed.
Theorem exec_frame fuel e s st r st' :
  exec fuel e s st = (r, st') ->
  (forall c, ~ rcell st e [] c -> nth_error (cells st') c = nth_error (cells st) c) /\
  (forall l, ~ rblob st e [] l -> nth_error (blobs st') l = nth_error (blobs st) l).
Proof.
  intros H. destruct (exec_frame_gen (reach st e []) _ _ _ _ _ _ (reach_frame _ _ _) (reach_env _ _ _) H) as (_ & [A B] & _).
  split; assumption.
Qed.
Theorem exec_block_frame fuel e ss st r st' :
  exec_block fuel e ss st = (r, st') ->
  (forall c, ~ rcell st e [] c -> nth_error (cells st') c = nth_error (cells st) c) /\
  (forall l, ~ rblob st e [] l -> nth_error (blobs st') l = nth_error (blobs st) l).
Proof.
  intros H. destruct (exec_block_frame_gen (reach st e []) _ _ _ _ _ _ (reach_frame _ _ _) (reach_env _ _ _) H) as (_ & [A B] & _).
  split; assumption.
Qed.
Theorem apply_frame fuel fv args st r st' :
  apply fuel fv args st = (r, st') ->
  (forall c, ~ rcell st [] (fv :: args) c -> nth_error (cells st') c = nth_error (cells st) c) /\
  (forall l, ~ rblob st [] (fv :: args) l -> nth_error (blobs st') l = nth_error (blobs st) l).
Proof.
  intros H. pose proof (reach_roots st [] (fv :: args)) as Hr. inversion Hr; subst.
  destruct (apply_frame_gen (reach st [] (fv :: args)) _ _ _ _ _ _ (reach_frame _ _ _) H2 H3 H) as (_ & [A B] & _).
  split; assumption.
Qed.

(* ---- the whole program: `run` is `run_state` with the final store forgotten ---- *)
Definition run_state (fuel : nat) (r : resolved) : res sval * state :=
  (e <- run_outer fuel [] (r_stmts r) ;;
   match find_start (r_vars r) with
   | None => stop (OStuck "no start")
   | Some s =>
       match lookup e s with
       | None => stop (OStuck "no start")
       | Some c => fv <- read_cell c ;; apply fuel fv []
       end
   end) (mkState [] [] [] []).

Lemma run_run_state fuel r :
  run fuel r = match run_state fuel r with
               | (RVal _, st) => mkRun (rev (trace st)) ODone
               | (RStop o, st) => mkRun (rev (trace st)) o
               | (RAbrupt _, st) => mkRun (rev (trace st)) (OStuck "ret/break/continue at top level")
               end.
Proof. reflexivity. Qed.
