(* fn dependency::type_declaration_order (/repo 58eff66): the type declarations (blobs and enums) of a program, each after
   the declarations it mentions, as far as there is such an order -- declarations that mention each other in a circle
   stay in source order.  A depth-first search over the mentions (in ascending order of the variables: a BTreeSet),
   started at every declaration in source order; a declaration is marked when it is entered and pushed when it is left.
   ty_dependency is the one of Dep/Deps.v. *)
From Coq Require Import String List NArith ZArith Bool Lia.
From Sylt Require Import Syntax.Resolved.
From Sylt Require Dep.Deps.
Import ListNotations.

(* Statement::Blob { var, .. } | Statement::Enum { var, .. } => Some(var) *)
Definition decl_var (s : stmt) : option N :=
  match s with SBlob _ v _ _ _ _ | SEnum _ v _ _ _ => Some v | _ => None end.

(* fn mentioned: the union of ty_dependency over the types of the fields / variants *)
Definition mentioned (s : stmt) : Deps.nset :=
  match s with
  | SBlob _ _ _ _ fields _ => Deps.unions (fun f : string * (span * ty) => Deps.ty_dependency (snd (snd f))) fields
  | SEnum _ _ _ _ variants => Deps.unions (fun f : string * (span * ty) => Deps.ty_dependency (snd (snd f))) variants
  | _ => []
  end.

(* in_source_order *)
Fixpoint decls_of (stmts : list stmt) : list (N * stmt) :=
  match stmts with
  | [] => []
  | s :: r => match decl_var s with Some v => (v, s) :: decls_of r | None => decls_of r end
  end.

(* declarations.get(&var): the map is collected from in_source_order, a later entry of the same variable replaces an
   earlier one (the resolver gives every declaration its own variable) *)
Definition decl_of (v : N) (l : list (N * stmt)) : option stmt :=
  fold_left (fun acc p => if N.eqb (fst p) v then Some (snd p) else acc) l None.

Definition dstate := (list N * list stmt)%type.       (* visited, ordered *)

(* fn visit; the recursion is as deep as a path of declarations that are not yet marked: fuel *)
Fixpoint visit (fuel : nat) (decls : list (N * stmt)) (var : N) (st : dstate) : dstate :=
  match fuel with
  | O => st
  | S f =>
    match decl_of var decls with
    | None => st
    | Some d =>
      if existsb (N.eqb var) (fst st) then st else
      let st2 := fold_left (fun st0 o => visit f decls o st0) (mentioned d) (var :: fst st, snd st) in
      (fst st2, snd st2 ++ [d])
    end
  end.

Definition type_decl_order (stmts : list stmt) : list stmt :=
  let decls := decls_of stmts in
  snd (fold_left (fun st p => visit (S (length decls)) decls (fst p) st) decls ([], [])).

(* ------------------------------------------------------------------ what is in the order *)
Lemma decls_of_In stmts v d : In (v, d) (decls_of stmts) <-> In d stmts /\ decl_var d = Some v.
Proof.
  induction stmts as [|s r IH]; cbn [decls_of In]; [tauto|].
  destruct (decl_var s) as [w|] eqn:E; cbn [In]; rewrite IH; split.
  - intros [H|H]; [injection H as <- <-; auto|tauto].
  - intros [[->|H] Hv]; [left; congruence|right; auto].
  - intros [H Hv]; auto.
  - intros [[->|H] Hv]; [congruence|auto].
Qed.

Lemma decl_of_spec v l :
  match decl_of v l with
  | Some d => In (v, d) l
  | None => forall d, ~ In (v, d) l
  end.
Proof.
  unfold decl_of.
  assert (X : forall (l0 : list (N * stmt)) (acc : option stmt),
             match fold_left (fun (acc : option stmt) (p : N * stmt) => if N.eqb (fst p) v then Some (snd p) else acc) l0 acc with
             | Some d => In (v, d) l0 \/ acc = Some d
             | None => acc = None /\ forall d, ~ In (v, d) l0
             end).
  { induction l0 as [|[w d0] l0 IH]; intros acc; cbn [fold_left fst snd].
    - destruct acc; [now right|split; [reflexivity|intros d []]].
    - specialize (IH (if N.eqb w v then Some d0 else acc)).
      destruct (fold_left _ l0 _) as [d|].
      + destruct IH as [H|H]; [left; now right|]. destruct (N.eqb_spec w v) as [->|N]; [injection H as ->; left; now left|now right].
      + destruct IH as [H1 H2]. destruct (N.eqb_spec w v) as [->|N]; [discriminate|]. split; [exact H1|].
        intros d [E|H]; [injection E as -> _; congruence|exact (H2 d H)]. }
  specialize (X l None). destruct (fold_left _ l None) as [d|].
  - destruct X as [H|H]; [exact H|discriminate].
  - exact (proj2 X).
Qed.

Section Order.
  Variable stmts : list stmt.
  Let decls := decls_of stmts.

  Definition is_decl_of_program (d : stmt) : Prop := In d stmts /\ decl_var d <> None.

  Lemma decl_of_program v d : decl_of v decls = Some d -> In d stmts /\ decl_var d = Some v.
  Proof. intros H. pose proof (decl_of_spec v decls) as X. rewrite H in X. now apply decls_of_In. Qed.

  (* every marked variable is being visited (pending) or its declaration has been pushed *)
  Definition marked_ok (P : list N) (st : dstate) : Prop :=
    forall v, In v (fst st) -> In v P \/ exists d, decl_of v decls = Some d /\ In d (snd st).
  Definition pushed_ok (st : dstate) : Prop := forall d, In d (snd st) -> In d stmts /\ decl_var d <> None.

  Lemma visit_spec : forall fuel var P st,
    marked_ok P st -> pushed_ok st ->
    let st' := visit fuel decls var st in
    marked_ok P st' /\ pushed_ok st' /\ incl (fst st) (fst st') /\ incl (snd st) (snd st') /\
    (fuel <> O -> decl_of var decls <> None -> In var (fst st')).
  Proof.
    induction fuel as [|f IH]; intros var P st M Q; cbn [visit].
    - split; [exact M|]. split; [exact Q|]. split; [apply incl_refl|]. split; [apply incl_refl|]. intros X; contradiction.
    - destruct (decl_of var decls) as [d|] eqn:Ed.
      2:{ split; [exact M|]. split; [exact Q|]. split; [apply incl_refl|]. split; [apply incl_refl|]. intros _ X; contradiction. }
      destruct (existsb (N.eqb var) (fst st)) eqn:Ev.
      { split; [exact M|]. split; [exact Q|]. split; [apply incl_refl|]. split; [apply incl_refl|].
        intros _ _. apply existsb_exists in Ev as (x & Hx & E). apply N.eqb_eq in E. now subst. }
      set (st1 := (var :: fst st, snd st)).
      assert (L : forall l st0, marked_ok (var :: P) st0 -> pushed_ok st0 -> In var (fst st0) ->
                  let st2 := fold_left (fun st0 o => visit f decls o st0) l st0 in
                  marked_ok (var :: P) st2 /\ pushed_ok st2 /\ incl (fst st0) (fst st2) /\ incl (snd st0) (snd st2)).
      { induction l as [|o l IHl]; intros st0 M0 Q0 I0; cbn [fold_left].
        - split; [exact M0|]. split; [exact Q0|]. split; apply incl_refl.
        - destruct (IH o (var :: P) st0 M0 Q0) as (M1 & Q1 & I1 & J1 & _).
          destruct (IHl _ M1 Q1 (I1 _ I0)) as (M2 & Q2 & I2 & J2).
          split; [exact M2|]. split; [exact Q2|]. split; eapply incl_tran; eassumption. }
      destruct (L (mentioned d) st1) as (M2 & Q2 & I2 & J2).
      { intros v [<-|Hv]; [left; now left|]. destruct (M v Hv) as [H|H]; [left; now right|now right]. }
      { exact Q. }
      { now left. }
      set (st2 := fold_left (fun st0 o => visit f decls o st0) (mentioned d) st1) in *.
      cbn [fst snd]. split; [|split; [|split; [|split]]].
      + intros v Hv. destruct (M2 v Hv) as [[<-|H]|(d' & Hd' & Hin)].
        * right. exists d. split; [exact Ed|]. apply in_or_app. right. now left.
        * now left.
        * right. exists d'. split; [exact Hd'|]. apply in_or_app. now left.
      + intros d' Hd'. apply in_app_or in Hd' as [H|[<-|[]]]; [now apply Q2|].
        destruct (decl_of_program _ _ Ed) as [H1 H2]. split; [exact H1|congruence].
      + intros v Hv. apply I2. now right.
      + intros d' Hd'. apply in_or_app. left. now apply J2.
      + intros _ _. apply I2. now left.
  Qed.

  (* every element of the order is a type declaration of the program *)
  Theorem type_decl_order_sound d : In d (type_decl_order stmts) -> In d stmts /\ decl_var d <> None.
  Proof.
    unfold type_decl_order. fold decls.
    assert (X : forall (l : list (N * stmt)) st, marked_ok [] st -> pushed_ok st ->
                pushed_ok (fold_left (fun st (p : N * stmt) => visit (S (length decls)) decls (fst p) st) l st)).
    { induction l as [|p l IH]; intros st M Q; cbn [fold_left]; [exact Q|].
      destruct (visit_spec (S (length decls)) (fst p) [] st M Q) as (M1 & Q1 & _). now apply IH. }
    apply X; [intros v []|intros d' []].
  Qed.

  (* the variable of every type declaration of the program has a declaration in the order *)
  Theorem type_decl_order_covers d v :
    In d stmts -> decl_var d = Some v -> exists d', In d' (type_decl_order stmts) /\ decl_var d' = Some v.
  Proof.
    intros Hin Hv. unfold type_decl_order. fold decls.
    assert (Hd : In (v, d) decls) by (apply decls_of_In; auto).
    assert (X : forall (l : list (N * stmt)) st, marked_ok [] st -> pushed_ok st -> (In (v, d) l \/ In v (fst st)) ->
                let st' := fold_left (fun st (p : N * stmt) => visit (S (length decls)) decls (fst p) st) l st in
                marked_ok [] st' /\ In v (fst st')).
    { induction l as [|p l IH]; intros st M Q H; cbn [fold_left].
      - split; [exact M|]. destruct H as [[]|H]; exact H.
      - destruct (visit_spec (S (length decls)) (fst p) [] st M Q) as (M1 & Q1 & I1 & _ & V1).
        apply IH; [exact M1|exact Q1|]. destruct H as [[->|H]|H]; [|now left|right; now apply I1].
        right. apply V1; [discriminate|]. cbn [fst]. pose proof (decl_of_spec v decls) as S.
        destruct (decl_of v decls); [discriminate|]. exfalso. exact (S d Hd). }
    destruct (X decls ([], [])) as [M V]; [intros x []|intros x []|now left|].
    destruct (M v V) as [[]|(d' & Hd' & Hi)]. exists d'. split; [exact Hi|]. exact (proj2 (decl_of_program _ _ Hd')).
  Qed.

  Theorem type_decl_order_no_decl : (forall d, In d stmts -> decl_var d = None) -> type_decl_order stmts = [].
  Proof.
    intros H. unfold type_decl_order. fold decls.
    assert (E : decls = []).
    { unfold decls. clear decls. induction stmts as [|s r IH]; [reflexivity|]. cbn [decls_of].
      rewrite (H s (or_introl eq_refl)). apply IH. intros d Hd. apply H. now right. }
    rewrite E. reflexivity.
  Qed.
End Order.
