(* Every place where the crates read something that is not a function of the sources, as reviewed BY HAND
   (regenerated from /repo on every run by tools/gens/gen_hashsites.py `environment_sites`; Props/C16.v proves the
   regenerated list equal to this one).  Classes:
     DriverArguments : the command line of the `sylt` command -- an input of the property, not an environment effect
     ProfilingOnly   : behind #[cfg(feature = "timed")] of sylt-macro (off in every build of the checks and of the
                       repository's default features): times are printed by --timing dumps, never reach a verdict,
                       a message or the emitted Lua
   A clock read, environment variable, directory listing, process identity, random state, address or process-wide
   mutable state that reaches the compiler's RESULT has no class here: such a site cannot be accepted by editing
   this table without a new class and a proof obligation for it. *)
From Coq Require Import String List.
Import ListNotations.
Local Open Scope string_scope.

Inductive env_class := DriverArguments | ProfilingOnly.

Record env_site := mkEnv { e_file : string; e_fn : string; e_what : string; e_stmt : string; e_class : env_class }.

Definition doc_env_sites : list env_site := [
  mkEnv "sylt/src/main.rs" "main" "arguments"
    "let args = Args::parse_args_default_or_exit();"
    DriverArguments;
  mkEnv "sylt-macro/src/macro.rs" "timed_init" "clock"
    "type Instant = ::std::time::Instant;"
    ProfilingOnly;
  mkEnv "sylt-macro/src/macro.rs" "timed_init" "clock"
    "pub t0: Instant, pub calls: Vec<( &'static str, Instant, Instant, Vec<(&'static str, &'static str)>, )>, }"
    ProfilingOnly;
  mkEnv "sylt-macro/src/macro.rs" "timed_init" "clock"
    "Instant, Instant, Vec<(&'static str, &'static str)>, )"
    ProfilingOnly;
  mkEnv "sylt-macro/src/macro.rs" "timed_init" "clock"
    "Instant, Vec<(&'static str, &'static str)>, )"
    ProfilingOnly;
  mkEnv "sylt-macro/src/macro.rs" "timed_init" "clock"
    "pub(crate) struct Handle(pub &'static str, pub Instant, pub Vec<(&'static str, &'static str)>);"
    ProfilingOnly;
  mkEnv "sylt-macro/src/macro.rs" "drop" "clock"
    "let end = Instant::now();"
    ProfilingOnly;
  mkEnv "sylt-macro/src/macro.rs" "drop" "process-state"
    "thread_local! { pub static STATE: Mutex<(State)> = Mutex::new(State { t0: Instant::now(), calls: Vec::new(), } ) } }"
    ProfilingOnly;
  mkEnv "sylt-macro/src/macro.rs" "drop" "clock"
    "t0: Instant::now(), calls: Vec::new(), }"
    ProfilingOnly;
  mkEnv "sylt-macro/src/macro.rs" "timed" "clock"
    "let start = ::std::time::Instant::now();"
    ProfilingOnly;
  mkEnv "sylt-macro/src/macro.rs" "timed" "clock"
    "let end = ::std::time::Instant::now();"
    ProfilingOnly;
  mkEnv "sylt-macro/src/macro.rs" "timed_handle" "clock"
    "crate::__timed::Handle(#name, ::std::time::Instant::now(), vec![#(#args),*]) }"
    ProfilingOnly
].

Definition env_site_eqb (d : env_site) (g : string * string * string * string) : bool :=
  let '(f, fn, w, st) := g in
  (String.eqb (e_file d) f && String.eqb (e_fn d) fn && String.eqb (e_what d) w && String.eqb (e_stmt d) st)%bool.

Fixpoint env_sites_eqb (ds : list env_site) (gs : list (string * string * string * string)) : bool :=
  match ds, gs with
  | [], [] => true
  | d :: ds', g :: gs' => (env_site_eqb d g && env_sites_eqb ds' gs')%bool
  | _, _ => false
  end.

(* no reviewed site belongs to the compiler proper: every one is the driver's argument parsing or feature-gated
   profiling code of the macro crate *)
Definition env_site_harmless (d : env_site) : bool :=
  match e_class d with
  | DriverArguments => String.eqb (e_file d) "sylt/src/main.rs"
  | ProfilingOnly => String.eqb (e_file d) "sylt-macro/src/macro.rs"
  end.
