(* fn dependency::type_declaration_order (/repo 58eff66): the type declarations (blobs and enums) of a program, each after
   the declarations it mentions, as far as there is such an order -- declarations that mention each other in a circle
   stay in source order.  A depth-first search over the mentions (in ascending order of the variables: a BTreeSet),
   started at every declaration in source order; a declaration is marked when it is entered and pushed when it is left.
   ty_dependency is the one of Dep/Deps.v. *)
From Coq Require Import String List NArith ZArith Bool Lia.
From Sylt Require Import Syntax.Resolved.
From Sylt Require Dep.Deps.
Import ListNotations.

(* Statement::Blob { var, .. } | Statement::Enum { var, .. } => Some(var) *)
Definition decl_var (s : stmt) : option N :=
  match s with SBlob _ v _ _ _ _ | SEnum _ v _ _ _ => Some v | _ => None end.

(* fn mentioned: the union of ty_dependency over the types of the fields / variants *)
Definition mentioned (s : stmt) : Deps.nset :=
  match s with
  | SBlob _ _ _ _ fields _ => Deps.unions (fun f : string * (span * ty) => Deps.ty_dependency (snd (snd f))) fields
  | SEnum _ _ _ _ variants => Deps.unions (fun f : string * (span * ty) => Deps.ty_dependency (snd (snd f))) variants
  | _ => []
  end.

(* in_source_order *)
Fixpoint decls_of (stmts : list stmt) : list (N * stmt) :=
  match stmts with
  | [] => []
  | s :: r => match decl_var s with Some v => (v, s) :: decls_of r | None => decls_of r end
  end.

(* declarations.get(&var): the map is collected from in_source_order, a later entry of the same variable replaces an
   earlier one (the resolver gives every declaration its own variable) *)
Definition decl_of (v : N) (l : list (N * stmt)) : option stmt :=
  fold_left (fun acc p => if N.eqb (fst p) v then Some (snd p) else acc) l None.

Definition dstate := (list N * list stmt)%type.       (* visited, ordered *)

(* fn visit; the recursion is as deep as a path of declarations that are not yet marked: fuel *)
Fixpoint visit (fuel : nat) (decls : list (N * stmt)) (var : N) (st : dstate) : dstate :=
  match fuel with
  | O => st
  | S f =>
    match decl_of var decls with
    | None => st
    | Some d =>
      if existsb (N.eqb var) (fst st) then st else
      let st2 := fold_left (fun st0 o => visit f decls o st0) (mentioned d) (var :: fst st, snd st) in
      (fst st2, snd st2 ++ [d])
    end
  end.

Definition type_decl_order (stmts : list stmt) : list stmt :=
  let decls := decls_of stmts in
  snd (fold_left (fun st p => visit (S (length decls)) decls (fst p) st) decls ([], [])).

(* ------------------------------------------------------------------ what is in the order *)
Lemma decls_of_In stmts v d : In (v, d) (decls_of stmts) <-> In d stmts /\ decl_var d = Some v.
Proof.
  induction stmts as [|s r IH]; cbn [decls_of In]; [tauto|].
  destruct (decl_var s) as [w|] eqn:E; cbn [In]; rewrite IH; split.
  - intros [H|H]; [injection H as <- <-; auto|tauto].
  - intros [[->|H] Hv]; [left; congruence|right; auto].
  - intros [H Hv]; auto.
  - intros [[->|H] Hv]; [congruence|auto].
Qed.

Lemma decl_of_spec v l :
  match decl_of v l with
  | Some d => In (v, d) l
  | None => forall d, ~ In (v, d) l
  end.
Proof.
  unfold decl_of.
  assert (X : forall (l0 : list (N * stmt)) (acc : option stmt),
             match fold_left (fun (acc : option stmt) (p : N * stmt) => if N.eqb (fst p) v then Some (snd p) else acc) l0 acc with
             | Some d => In (v, d) l0 \/ acc = Some d
             | None => acc = None /\ forall d, ~ In (v, d) l0
             end).
  { induction l0 as [|[w d0] l0 IH]; intros acc; cbn [fold_left fst snd].
    - destruct acc; [now right|split; [reflexivity|intros d []]].
    - specialize (IH (if N.eqb w v then Some d0 else acc)).
      destruct (fold_left _ l0 _) as [d|].
      + destruct IH as [H|H]; [left; now right|]. destruct (N.eqb_spec w v) as [->|N]; [injection H as ->; left; now left|now right].
      + destruct IH as [H1 H2]. destruct (N.eqb_spec w v) as [->|N]; [discriminate|]. split; [exact H1|].
        intros d [E|H]; [injection E as -> _; congruence|exact (H2 d H)]. }
  specialize (X l None). destruct (fold_left _ l None) as [d|].
  - destruct X as [H|H]; [exact H|discriminate].
  - exact (proj2 X).
Qed.

Section Order.
  Variable stmts : list stmt.
  Let decls := decls_of stmts.

  Definition is_decl_of_program (d : stmt) : Prop := In d stmts /\ decl_var d <> None.

  Lemma decl_of_program v d : decl_of v decls = Some d -> In d stmts /\ decl_var d = Some v.
  Proof. intros H. pose proof (decl_of_spec v decls) as X. rewrite H in X. now apply decls_of_In. Qed.

  (* every marked variable is being visited (pending) or its declaration has been pushed *)
  Definition marked_ok (P : list N) (st : dstate) : Prop :=
    forall v, In v (fst st) -> In v P \/ exists d, decl_of v decls = Some d /\ In d (snd st).
  Definition pushed_ok (st : dstate) : Prop := forall d, In d (snd st) -> In d stmts /\ decl_var d <> None.

  Lemma visit_spec : forall fuel var P st,
    marked_ok P st -> pushed_ok st ->
    let st' := visit fuel decls var st in
    marked_ok P st' /\ pushed_ok st' /\ incl (fst st) (fst st') /\ incl (snd st) (snd st') /\
    (fuel <> O -> decl_of var decls <> None -> In var (fst st')).
  Proof.
    induction fuel as [|f IH]; intros var P st M Q; cbn [visit].
    - split; [exact M|]. split; [exact Q|]. split; [apply incl_refl|]. split; [apply incl_refl|]. intros X; contradiction.
    - destruct (decl_of var decls) as [d|] eqn:Ed.
      2:{ split; [exact M|]. split; [exact Q|]. split; [apply incl_refl|]. split; [apply incl_refl|]. intros _ X; contradiction. }
      destruct (existsb (N.eqb var) (fst st)) eqn:Ev.
      { split; [exact M|]. split; [exact Q|]. split; [apply incl_refl|]. split; [apply incl_refl|].
        intros _ _. apply existsb_exists in Ev as (x & Hx & E). apply N.eqb_eq in E. now subst. }
      set (st1 := (var :: fst st, snd st)).
      assert (L : forall l st0, marked_ok (var :: P) st0 -> pushed_ok st0 -> In var (fst st0) ->
                  let st2 := fold_left (fun st0 o => visit f decls o st0) l st0 in
                  marked_ok (var :: P) st2 /\ pushed_ok st2 /\ incl (fst st0) (fst st2) /\ incl (snd st0) (snd st2)).
      { induction l as [|o l IHl]; intros st0 M0 Q0 I0; cbn [fold_left].
        - split; [exact M0|]. split; [exact Q0|]. split; apply incl_refl.
        - destruct (IH o (var :: P) st0 M0 Q0) as (M1 & Q1 & I1 & J1 & _).
          destruct (IHl _ M1 Q1 (I1 _ I0)) as (M2 & Q2 & I2 & J2).
          split; [exact M2|]. split; [exact Q2|]. split; eapply incl_tran; eassumption. }
      destruct (L (mentioned d) st1) as (M2 & Q2 & I2 & J2).
      { intros v [<-|Hv]; [left; now left|]. destruct (M v Hv) as [H|H]; [left; now right|now right]. }
      { exact Q. }
      { now left. }
      set (st2 := fold_left (fun st0 o => visit f decls o st0) (mentioned d) st1) in *.
      cbn [fst snd]. split; [|split; [|split; [|split]]].
      + intros v Hv. destruct (M2 v Hv) as [[<-|H]|(d' & Hd' & Hin)].
        * right. exists d. split; [exact Ed|]. apply in_or_app. right. now left.
        * now left.
        * right. exists d'. split; [exact Hd'|]. apply in_or_app. now left.
      + intros d' Hd'. apply in_app_or in Hd' as [H|[<-|[]]]; [now apply Q2|].
        destruct (decl_of_program _ _ Ed) as [H1 H2]. split; [exact H1|congruence].
      + intros v Hv. apply I2. now right.
      + intros d' Hd'. apply in_or_app. left. now apply J2.
      + intros _ _. apply I2. now left.
  Qed.

  (* every element of the order is a type declaration of the program *)
  Theorem type_decl_order_sound d : In d (type_decl_order stmts) -> In d stmts /\ decl_var d <> None.
  Proof.
    unfold type_decl_order. fold decls.
    assert (X : forall (l : list (N * stmt)) st, marked_ok [] st -> pushed_ok st ->
                pushed_ok (fold_left (fun st (p : N * stmt) => visit (S (length decls)) decls (fst p) st) l st)).
    { induction l as [|p l IH]; intros st M Q; cbn [fold_left]; [exact Q|].
      destruct (visit_spec (S (length decls)) (fst p) [] st M Q) as (M1 & Q1 & _). now apply IH. }
    apply X; [intros v []|intros d' []].
  Qed.

  (* the variable of every type declaration of the program has a declaration in the order *)
  Theorem type_decl_order_covers d v :
    In d stmts -> decl_var d = Some v -> exists d', In d' (type_decl_order stmts) /\ decl_var d' = Some v.
  Proof.
    intros Hin Hv. unfold type_decl_order. fold decls.
    assert (Hd : In (v, d) decls) by (apply decls_of_In; auto).
    assert (X : forall (l : list (N * stmt)) st, marked_ok [] st -> pushed_ok st -> (In (v, d) l \/ In v (fst st)) ->
                let st' := fold_left (fun st (p : N * stmt) => visit (S (length decls)) decls (fst p) st) l st in
                marked_ok [] st' /\ In v (fst st')).
    { induction l as [|p l IH]; intros st M Q H; cbn [fold_left].
      - split; [exact M|]. destruct H as [[]|H]; exact H.
      - destruct (visit_spec (S (length decls)) (fst p) [] st M Q) as (M1 & Q1 & I1 & _ & V1).
        apply IH; [exact M1|exact Q1|]. destruct H as [[->|H]|H]; [|now left|right; now apply I1].
        right. apply V1; [discriminate|]. cbn [fst]. pose proof (decl_of_spec v decls) as S.
        destruct (decl_of v decls); [discriminate|]. exfalso. exact (S d Hd). }
    destruct (X decls ([], [])) as [M V]; [intros x []|intros x []|now left|].
    destruct (M v V) as [[]|(d' & Hd' & Hi)]. exists d'. split; [exact Hi|]. exact (proj2 (decl_of_program _ _ Hd')).
  Qed.

  Theorem type_decl_order_no_decl : (forall d, In d stmts -> decl_var d = None) -> type_decl_order stmts = [].
  Proof.
    intros H. unfold type_decl_order. fold decls.
    assert (E : decls = []).
    { unfold decls. clear decls. induction stmts as [|s r IH]; [reflexivity|]. cbn [decls_of].
      rewrite (H s (or_introl eq_refl)). apply IH. intros d Hd. apply H. now right. }
    rewrite E. reflexivity.
  Qed.

  (* ---------------------------------------------------------------- the order respects the mentions *)
  Definition mentions (v w : N) : Prop := exists d, decl_of v decls = Some d /\ In w (mentioned d).

  Inductive reach : N -> N -> Prop :=
  | reach_refl v : reach v v
  | reach_step u v w : mentions u v -> reach v w -> reach u w.

  Lemma reach_trans a b c : reach a b -> reach b c -> reach a c.
  Proof. induction 1; intros H'; [exact H'|]. eapply reach_step; eauto. Qed.

  Definition before (a b : stmt) (l : list stmt) : Prop := exists l1 l2 l3, l = l1 ++ a :: l2 ++ b :: l3.

  Lemma before_app a b l r : before a b l -> before a b (l ++ r).
  Proof. intros (l1 & l2 & l3 & ->). exists l1, l2, (l3 ++ r). now rewrite <- !app_assoc, <- !app_comm_cons, <- app_assoc. Qed.

  Lemma before_snoc a b l : In a l -> before a b (l ++ [b]).
  Proof. intros H. apply in_split in H as (l1 & l2 & ->). exists l1, l2, []. now rewrite <- app_assoc. Qed.

  (* the declaration of v stands after the declaration of everything it mentions, as far as that does not mention v back *)
  Definition ordered_var (v : N) (l : list stmt) : Prop :=
    forall d w dw, decl_of v decls = Some d -> In w (mentioned d) -> decl_of w decls = Some dw -> ~ reach w v -> before dw d l.

  Definition order_ok (P : list N) (st : dstate) : Prop := forall v, In v (fst st) -> ~ In v P -> ordered_var v (snd st).

  (* the number of declarations not yet marked *)
  Definition unmarked (vis : list N) : nat := length (filter (fun k => negb (existsb (N.eqb k) vis)) (map fst decls)).

  Lemma filter_le {A} (p q : A -> bool) l : (forall x, q x = true -> p x = true) -> length (filter q l) <= length (filter p l).
  Proof.
    intros H. induction l as [|x l IH]; cbn [filter]; [lia|]. destruct (q x) eqn:Q; [rewrite (H x Q); cbn; lia|].
    destruct (p x); cbn; lia.
  Qed.

  Lemma filter_lt {A} (p q : A -> bool) l x :
    (forall y, q y = true -> p y = true) -> In x l -> p x = true -> q x = false -> length (filter q l) < length (filter p l).
  Proof.
    intros H. induction l as [|y l IH]; intros Hin Px Qx; [destruct Hin|]. cbn [filter]. destruct Hin as [->|Hin].
    - rewrite Px, Qx. cbn. pose proof (filter_le p q l H). lia.
    - specialize (IH Hin Px Qx). destruct (q y) eqn:Q; [rewrite (H y Q); cbn; lia|]. destruct (p y); cbn; lia.
  Qed.

  Lemma existsb_eqb_In k vis : existsb (N.eqb k) vis = true <-> In k vis.
  Proof.
    rewrite existsb_exists. split; [intros (x & Hx & E); apply N.eqb_eq in E; now subst|intros H; exists k; split; [exact H|apply N.eqb_refl]].
  Qed.

  Lemma unmarked_mono vis vis' : incl vis vis' -> unmarked vis' <= unmarked vis.
  Proof.
    intros H. apply filter_le. intros k Hk. apply negb_true_iff in Hk. apply negb_true_iff.
    destruct (existsb (N.eqb k) vis) eqn:E; [|reflexivity]. apply existsb_eqb_In in E. apply H in E. apply existsb_eqb_In in E. congruence.
  Qed.

  Lemma unmarked_mark var d vis : decl_of var decls = Some d -> ~ In var vis -> unmarked (var :: vis) < unmarked vis.
  Proof.
    intros Hd Hn. apply (filter_lt _ _ _ var).
    - intros k Hk. apply negb_true_iff in Hk. apply negb_true_iff. cbn [existsb] in Hk. apply orb_false_iff in Hk. tauto.
    - pose proof (decl_of_spec var decls) as X. rewrite Hd in X. apply in_map_iff. exists (var, d). auto.
    - apply negb_true_iff. destruct (existsb (N.eqb var) vis) eqn:E; [|reflexivity]. apply existsb_eqb_In in E. contradiction.
    - apply negb_false_iff. cbn [existsb]. rewrite N.eqb_refl. reflexivity.
  Qed.

  Lemma visit_order : forall fuel var P st,
    marked_ok P st -> order_ok P st -> (forall p, In p P -> reach p var) -> unmarked (fst st) < fuel ->
    let st' := visit fuel decls var st in
    marked_ok P st' /\ order_ok P st' /\ incl (fst st) (fst st') /\ (exists r, snd st' = snd st ++ r) /\
    (decl_of var decls <> None -> In var (fst st')).
  Proof.
    induction fuel as [|f IH]; intros var P st M O Pa Hf; [lia|]. cbn [visit].
    destruct (decl_of var decls) as [d|] eqn:Ed.
    2:{ split; [exact M|]. split; [exact O|]. split; [apply incl_refl|]. split; [exists []; now rewrite app_nil_r|]. intros X; contradiction. }
    destruct (existsb (N.eqb var) (fst st)) eqn:Ev.
    { split; [exact M|]. split; [exact O|]. split; [apply incl_refl|]. split; [exists []; now rewrite app_nil_r|].
      intros _. now apply existsb_eqb_In. }
    assert (Nv : ~ In var (fst st)) by (intros X; apply existsb_eqb_In in X; congruence).
    set (st1 := (var :: fst st, snd st)).
    assert (L : forall l st0, marked_ok (var :: P) st0 -> order_ok (var :: P) st0 -> incl (fst st1) (fst st0) ->
                (forall o, In o l -> mentions var o) ->
                let st2 := fold_left (fun st0 o => visit f decls o st0) l st0 in
                marked_ok (var :: P) st2 /\ order_ok (var :: P) st2 /\ incl (fst st0) (fst st2) /\ (exists r, snd st2 = snd st0 ++ r) /\
                (forall o, In o l -> decl_of o decls <> None -> In o (fst st2))).
    { induction l as [|o l IHl]; intros st0 M0 O0 I0 Hm; cbn [fold_left].
      - split; [exact M0|]. split; [exact O0|]. split; [apply incl_refl|]. split; [exists []; now rewrite app_nil_r|]. intros o [].
      - destruct (IH o (var :: P) st0 M0 O0) as (M1 & O1 & I1 & (r1 & R1) & V1).
        { intros p [<-|Hp]; [eapply reach_step; [apply Hm; now left|apply reach_refl]|].
          eapply reach_trans; [exact (Pa p Hp)|]. eapply reach_step; [apply Hm; now left|apply reach_refl]. }
        { pose proof (unmarked_mono _ _ I0). pose proof (unmarked_mark var d (fst st) Ed Nv). cbn [fst st1] in *. lia. }
        destruct (IHl _ M1 O1 (incl_tran I0 I1) (fun o' H' => Hm o' (or_intror H'))) as (M2 & O2 & I2 & (r2 & R2) & V2).
        split; [exact M2|]. split; [exact O2|]. split; [eapply incl_tran; eassumption|].
        split; [exists (r1 ++ r2); rewrite R2, R1, app_assoc; reflexivity|].
        intros o' [<-|H'] Hd'; [apply I2; now apply V1|now apply V2]. }
    destruct (L (mentioned d) st1) as (M2 & O2 & I2 & (r2 & R2) & V2).
    { intros v [<-|Hv]; [left; now left|]. destruct (M v Hv) as [H|H]; [left; now right|now right]. }
    { intros v Hv Np. destruct Hv as [<-|Hv]; [exfalso; apply Np; now left|]. apply O; [exact Hv|]. intros X. apply Np. now right. }
    { apply incl_refl. }
    { intros o Ho. exists d. auto. }
    set (st2 := fold_left (fun st0 o => visit f decls o st0) (mentioned d) st1) in *.
    cbn [fst snd]. split; [|split; [|split; [|split]]].
    - intros v Hv. destruct (M2 v Hv) as [[<-|H]|(d' & Hd' & Hin)].
      + right. exists d. split; [exact Ed|]. apply in_or_app. right. now left.
      + now left.
      + right. exists d'. split; [exact Hd'|]. apply in_or_app. now left.
    - intros v Hv Np. destruct (N.eq_dec v var) as [->|Ne].
      + (* the declaration that is pushed now *)
        intros d0 w dw Hd0 Hw Hdw Nr. rewrite Ed in Hd0. injection Hd0 as <-.
        apply before_snoc.
        assert (Hwm : In w (fst st2)) by (apply V2; [exact Hw|congruence]).
        destruct (M2 w Hwm) as [[<-|Hp]|(d' & Hd' & Hin)].
        * exfalso. apply Nr. apply reach_refl.
        * exfalso. apply Nr. exact (Pa w Hp).
        * rewrite Hdw in Hd'. injection Hd' as <-. exact Hin.
      + intros d0 w dw Hd0 Hw Hdw Nr. apply before_app.
        assert (Nvp : ~ In v (var :: P)) by (intros [X|X]; [congruence|contradiction]).
        exact (O2 v Hv Nvp d0 w dw Hd0 Hw Hdw Nr).
    - intros v Hv. apply I2. now right.
    - exists (r2 ++ [d]). rewrite R2. cbn [snd st1]. now rewrite app_assoc.
    - intros _. apply I2. now left.
  Qed.

  (* fn type_declaration_order: a declaration stands after the declaration of every type it mentions, unless that type
     mentions it back (then the two are on a circle and stay as the search found them) *)
  Theorem decl_order_respects_mentions v d w dw :
    decl_of v decls = Some d -> In w (mentioned d) -> decl_of w decls = Some dw -> ~ reach w v ->
    before dw d (type_decl_order stmts).
  Proof.
    intros Hd Hw Hdw Nr. unfold type_decl_order. fold decls.
    assert (X : forall (l : list (N * stmt)) st, marked_ok [] st -> order_ok [] st -> (In (v, d) l \/ In v (fst st)) ->
                let st' := fold_left (fun st (p : N * stmt) => visit (S (length decls)) decls (fst p) st) l st in
                order_ok [] st' /\ In v (fst st')).
    { induction l as [|p l IH]; intros st M O H; cbn [fold_left].
      - split; [exact O|]. destruct H as [[]|H]; exact H.
      - destruct (visit_order (S (length decls)) (fst p) [] st M O) as (M1 & O1 & I1 & _ & V1).
        { intros q []. }
        { unfold unmarked. pose proof (filter_le (fun _ => true) (fun k => negb (existsb (N.eqb k) (fst st))) (map fst decls) (fun _ _ => eq_refl)) as Y.
          assert (Z : length (filter (fun _ : N => true) (map fst decls)) = length decls).
          { clear. induction decls as [|x l IH]; cbn; [reflexivity|now rewrite IH]. }
          lia. }
        apply IH; [exact M1|exact O1|]. destruct H as [[->|H]|H]; [|now left|right; now apply I1].
        right. apply V1. cbn [fst]. congruence. }
    destruct (X decls ([], [])) as [O V]; [intros x []|intros x []|left|].
    - pose proof (decl_of_spec v decls) as S. rewrite Hd in S. exact S.
    - exact (O v V (fun X0 => X0) d w dw Hd Hw Hdw Nr).
  Qed.
End Order.
