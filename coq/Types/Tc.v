(* Model of sylt-compiler/src/typechecker.rs (the functions below carry the names of the Rust
   functions they follow; comments give the line of the pinned tree where the order of effects or the
   choice of error span is not obvious).  Definitions only.

   Input: the resolved AST of coq/Syntax/Resolved.v (what name resolution produced), the statements
   already in the order `compiler.rs` passes to `typechecker::solve` (after `initialization_order` and
   the types-first sort).  Output: `Ok tt` or the returned `Vec<Error>` as (kind, span) pairs (message
   text and helper notes are not modelled, the order in which checks fire is), `Panic site` for the
   panic sites on the path, `OutOfFuel`.

   Recursion: open recursion over records of callbacks.  `gfix (S f) = gstep (gfix f)` for the
   functions that recurse over the type graph (sub_unify, check_constraints, the operator checks, copy),
   `afix G (S f) = astep G (afix G f)` for the traversal of the syntax. *)
From Coq Require Import String List NArith ZArith PArith Bool FMapPositive.
From Sylt Require Import Syntax.Resolved Types.TyGraph Types.DeclOrder.
Import ListNotations.
Local Open Scope positive_scope.
Local Open Scope tc_scope.

(* ------------------------------------------------------------------ TypeCtx *)
Record tctx := mkCtx { inside_loop : bool; inside_pure : bool }.
Definition ctx_new := mkCtx false false.
Definition enter_loop (c : tctx) := mkCtx true (inside_pure c).
Definition enter_pure (c : tctx) := mkCtx (inside_loop c) true.
(* the condition of a loop is not part of its body: `TypeCtx { inside_loop: false, ..ctx }` (since fcfe8d3) *)
Definition leave_loop (c : tctx) := mkCtx false (inside_pure c).
(* entering the body of a function expression: `TypeCtx { inside_loop: false, ..ctx }`, then enter_pure for `pu` *)
Definition enter_fn (pure : bool) (c : tctx) :=
  let c := mkCtx false (inside_pure c) in if pure then enter_pure c else c.

(* ------------------------------------------------------------------ graph level *)

Definition seenset := list (tyid * tyid).           (* BTreeSet<(TyID, TyID)> of sub_unify *)
Definition copymap := list (tyid * tyid).           (* HashMap<TyID, TyID> of inner_copy (lookups only) *)

Definition seen_mem (a b : tyid) (s : seenset) : bool :=
  existsb (fun p => Pos.eqb (fst p) a && Pos.eqb (snd p) b) s.

Fixpoint copy_lookup (a : tyid) (m : copymap) : option tyid :=
  match m with
  | [] => None
  | (k, v) :: r => if Pos.eqb k a then Some v else copy_lookup a r
  end.

Inductive arithk := AAdd | ASub | AMul | ACmp.

Record grec := mkG {
  g_unify : span -> tyid -> tyid -> seenset -> M (tyid * seenset);     (* fn sub_unify *)
  g_check : span -> tyid -> M unit;                                    (* fn check_constraints *)
  g_arith : arithk -> span -> tyid -> tyid -> M unit;                  (* fn add / sub / mul / cmp *)
  g_div : span -> tyid -> tyid -> M unit;                              (* fn div *)
  g_divres : span -> tyid -> tyid -> M unit;                           (* fn div_res *)
  g_copy : tyid -> copymap -> M (tyid * copymap);                      (* fn inner_copy *)
  g_neg : span -> tyid -> M unit;                                      (* fn neg (since 612fb00) *)
  g_inside : span -> tyid -> list tyid -> list tyid -> M unit          (* the loop of fn check_not_inside (since 1d60c01) *)
}.

Definition g_bottom : grec :=
  mkG (fun _ _ _ _ => out_of_fuel) (fun _ _ => out_of_fuel) (fun _ _ _ _ => out_of_fuel)
      (fun _ _ _ => out_of_fuel) (fun _ _ _ => out_of_fuel) (fun _ _ => out_of_fuel) (fun _ _ => out_of_fuel)
      (fun _ _ _ _ => out_of_fuel).

(* fn unify: a fresh `seen` set *)
Definition unify (R : grec) (sp : span) (a b : tyid) : M tyid :=
  r <- g_unify R sp a b [] ;; ret (fst r).

(* fn unify_option *)
Definition unify_option (R : grec) (sp : span) (a b : option tyid) : M (option tyid) :=
  match a, b with
  | Some a, Some b => r <- unify R sp a b ;; ret (Some r)
  | Some a, None => ret (Some a)
  | None, Some b => ret (Some b)
  | None, None => ret None
  end.

(* fn copy *)
Definition copy (R : grec) (a : tyid) : M tyid := r <- g_copy R a [] ;; ret (fst r).

(* for (a, b) in xs.iter().zip(ys.iter()) { f(a, b)?; } *)
Fixpoint iter2 (f : tyid -> tyid -> M unit) (xs ys : list tyid) : M unit :=
  match xs, ys with
  | x :: xs', y :: ys' => f x y ;;; iter2 f xs' ys'
  | _, _ => ret tt
  end.

(* the same with the `seen` set of sub_unify threaded through *)
Fixpoint unify2 (R : grec) (sp : span) (xs ys : list tyid) (seen : seenset) : M seenset :=
  match xs, ys with
  | x :: xs', y :: ys' => r <- g_unify R sp x y seen ;; unify2 R sp xs' ys' (snd r)
  | _, _ => ret seen
  end.

Definition arith_base_ok (k : arithk) (a b : tyh) : bool :=
  match k, a, b with
  | _, HFloat, HFloat | _, HInt, HInt => true
  | AAdd, HStr, HStr | ACmp, HStr, HStr => true
  | ACmp, HInt, HFloat | ACmp, HFloat, HInt => true
  | _, _, _ => false
  end.

Definition arith_constr (k : arithk) (t : tyid) : constr :=
  match k with AAdd => CAdd t | ASub => CSub t | AMul => CMul t | ACmp => CCmp t end.

Definition is_num (t : tyh) : bool := match t with HInt | HFloat => true | _ => false end.

(* fn add, sub, mul, cmp (1799-1872, 1950-1978): identical but for the base pairs and the operator
   name in the message.  They (and neg, div, div_res) recurse over the components of tuples.  Since 1d60c01 the
   occurs check in sub_unify (check_not_inside below) refuses to bind an unknown class to a tuple from which that
   class is reachable through tuple components alone, so no tuple-only cycle is built and this recursion is over a
   finite tree; before, `y = (y, 1) ; y + y` recursed for ever (OutOfFuel here, a stack overflow in the compiler).
   One-step statement: Mismatch.unify_occurs_rejected. *)
Definition arith_body (R : grec) (k : arithk) (sp : span) (a b : tyid) : M unit :=
  ta <- find_type a ;; tb <- find_type b ;;
  if is_unknown ta || is_unknown tb then
    (* checked again when the unknown side becomes known (since 9e46917; matters for components of tuples) *)
    add_constraint a (arith_constr k b) ;;; add_constraint b (arith_constr k a)
  else if arith_base_ok k ta tb then ret tt
  else match ta, tb with
       | HTuple xs, HTuple ys =>
         if Nat.eqb (length xs) (length ys) then iter2 (g_arith R k sp) xs ys else fail KBinOp sp
       | _, _ => fail KBinOp sp
       end.

(* fn div (1874) *)
Definition div_body (R : grec) (sp : span) (a b : tyid) : M unit :=
  ta <- find_type a ;; tb <- find_type b ;;
  if is_unknown ta || is_unknown tb then
    (* checked again when the unknown side becomes known (since 98fbc93) *)
    add_constraint a (CDivTop b) ;;; add_constraint b (CDivBot a)
  else if is_num ta && is_num tb then ret tt
  else match ta with
       | HTuple xs =>
         if is_num tb then iterM (fun x => g_div R sp x b) xs
         else match tb with
              | HTuple ys => if Nat.eqb (length xs) (length ys) then iter2 (g_div R sp) xs ys else fail KBinOp sp
              | _ => fail KBinOp sp
              end
       | _ => fail KBinOp sp
       end.

(* fn check_not_inside (since 1d60c01): an unknown type cannot become a tuple that contains itself as a (nested)
   component.  One turn of the `while let Some(ty) = todo.pop()` loop; `todo` is the stack with its top first,
   `seen` the set of representatives already visited.  Only tuples are descended into: lists, blobs and enums may
   still be cyclic.  The state is only read. *)
Definition inside_body (R : grec) (sp : span) (unknown : tyid) (todo seen : list tyid) : M unit :=
  match todo with
  | [] => ret tt
  | ty :: todo =>
    ty <- find ty ;;
    if existsb (Pos.eqb ty) seen then g_inside R sp unknown todo seen else
    let seen := ty :: seen in
    t <- find_type ty ;;
    match t with
    | HTuple tys =>
      let todo := rev tys ++ todo in
      reps <- mapM find todo ;;
      if existsb (Pos.eqb unknown) seen || existsb (Pos.eqb unknown) reps then fail KExotic sp
      else g_inside R sp unknown todo seen
    | _ => g_inside R sp unknown todo seen
    end
  end.

Definition check_not_inside (R : grec) (sp : span) (unknown ty : tyid) : M unit :=
  u <- find unknown ;; g_inside R sp u [ty] [].

(* fn div_res (1907); arm order: (Float|Int, Float), (Unknown, _), (Float|Int, _), (Tuple, Unknown),
   (Tuple, Tuple) of equal length, otherwise Exotic *)
Definition divres_body (R : grec) (sp : span) (a b : tyid) : M unit :=
  ta <- find_type a ;; tb <- find_type b ;;
  if is_num ta && (match tb with HFloat => true | _ => false end) then ret tt
  else if is_unknown ta then ret tt
  else if is_num ta then
    fl <- push_type HFloat ;; unify R sp b fl ;;; ret tt
  else match ta with
       | HTuple xs =>
         match tb with
         | HUnknown =>
           (* the result of dividing a tuple cannot be one of its own components (since 356c2fa): without the occurs
              check every retry nested the result one level deeper -- `/` was the one operator whose constraint solving
              could GROW a type (OutOfFuel here, a native stack overflow in the compiler) *)
           check_not_inside R sp b a ;;;
           tys <- mapM (fun _ => push_type HUnknown) xs ;;
           tup <- push_type (HTuple tys) ;;
           unify R sp b tup ;;;
           g_divres R sp a b
         | HTuple ys =>
           if Nat.eqb (length xs) (length ys) then iter2 (g_divres R sp) xs ys else fail KExotic sp
         | _ => fail KExotic sp
         end
       | _ => fail KExotic sp
       end.

(* fn neg: int, float, and (nested) tuples of them *)
Definition neg_body (R : grec) (sp : span) (a : tyid) : M unit :=
  t <- find_type a ;;
  match t with
  | HUnknown => add_constraint a CNeg          (* checked again when the type becomes known (9e46917) *)
  | HInt | HFloat => ret tt
  | HTuple tys => iterM (g_neg R sp) tys
  | _ => fail KUniOp sp
  end.

(* fn constant_index (1980) *)
Definition constant_index (R : grec) (sp : span) (a : tyid) (index : Z) (r : tyid) : M unit :=
  ta <- find_type a ;;
  match ta with
  | HUnknown => ret tt
  | HTuple tys =>
    match (if Z.ltb index 0 then None else nth_error tys (Z.to_nat index)) with
    | Some t => unify R sp t r ;;; ret tt
    | None => fail KTupleIndexOutOfRange sp
    end
  | _ => fail KViolating sp
  end.

(* one arm of the match in fn check_constraints (1203) *)
Definition check_one (R : grec) (sp : span) (a : tyid) (c : constr) : M unit :=
  match c with
  | CAdd b => g_arith R AAdd sp a b
  | CSub b => g_arith R ASub sp a b
  | CMul b => g_arith R AMul sp a b
  | CDivTop b => g_div R sp a b
  | CDivBot b => g_div R sp b a
  | CDivRes b => g_divres R sp b a
  | CEqu b => unify R sp a b ;;; ret tt
  | CCmp b => g_arith R ACmp sp a b
  (* `self.equ(..).and(self.cmp(..))`: both run, the error of equ wins *)
  | CCmpEqu b => unify R sp a b ;;; g_arith R ACmp sp a b
  | CNeg => g_neg R sp a
  | CConstIdx i r => constant_index R sp a i r
  | CField name expected =>
    t <- find_type a ;;
    match t with
    | HUnknown => ret tt
    | HExtBlob _ _ fields _ _ | HBlob _ _ fields _ =>
      match flookup name fields with
      | Some (fsp, actual) => unify R fsp expected actual ;;; ret tt     (* the span of the field (1235) *)
      | None => fail KMissingField sp
      end
    | _ => fail KExotic sp
    end
  | CNum =>
    t <- find_type a ;;
    match t with HUnknown | HFloat | HInt => ret tt | _ => fail KViolating sp end
  | CEnum =>
    t <- find_type a ;;
    match t with HUnknown | HEnum _ _ _ _ => ret tt | _ => fail KViolating sp end
  | CVariant v mb =>
    t <- find_type a ;;
    match t with
    | HUnknown => ret tt
    | HEnum _ _ variants _ =>
      match flookup v variants, mb with
      | Some _, None => ret tt
      | Some (_, va), Some vb => unify R sp va vb ;;; ret tt
      | None, _ => fail KUnknownVariant sp
      end
    | _ => fail KViolating sp
    end
  | CTotalEnum vs =>
    t <- find_type a ;;
    match t with
    | HUnknown => ret tt
    | HEnum _ _ variants _ =>
      if existsb (fun v => negb (fmem v variants)) vs then fail KMissingVariants sp
      else if existsb (fun kv => negb (smem (fst kv) vs)) variants then fail KExtraVariants sp
      else ret tt
    | _ => fail KViolating sp
    end
  | CVariable =>
    t <- find_type a ;;
    match t with HVoid => fail KExotic sp | _ => ret tt end
  end.

(* fn check_constraints: iterates a clone of the constraint map of the representative *)
Definition check_body (R : grec) (sp : span) (a : tyid) : M unit :=
  n <- find_node a ;;
  iterM (check_one R sp a) (ncons n).

Definition purity_compatible (a b : purity) : bool :=
  match a, b with
  | PUndefined, _ | _, PUndefined | PPure, PPure | PImpure, PImpure => true
  | _, _ => false
  end.

(* for (k, (_, a_ty)) in b_fields { a_fields.get(k) -> sub_unify(a_ty, b_ty) }, `missing` the error kind *)
Fixpoint unify_fields (R : grec) (sp : span) (missing : ekind) (a_fields b_fields : fieldmap)
         (seen : seenset) : M seenset :=
  match b_fields with
  | [] => ret seen
  | (k, (_, b_ty)) :: rest =>
    match flookup k a_fields with
    | None => fail missing sp
    | Some (_, a_ty) =>
      r <- g_unify R sp a_ty b_ty seen ;;
      unify_fields R sp missing a_fields rest (snd r)
    end
  end.

(* fn sub_unify (1422) *)
Definition unify_body (R : grec) (sp : span) (a b : tyid) (seen : seenset) : M (tyid * seenset) :=
  a <- find a ;; b <- find b ;;
  if Pos.eqb a b || seen_mem a b seen then ret (a, seen) else
  let seen := (b, a) :: (a, b) :: seen in
  ta <- find_type a ;; tb <- find_type b ;;
  seen' <- (match ta, tb with
            | _, HUnknown => check_not_inside R sp b a ;;; set_type b ta ;;; ret seen
            | HUnknown, _ => check_not_inside R sp a b ;;; set_type a tb ;;; ret seen
            | HTy, HTy | HVoid, HVoid | HNil, HNil | HInt, HInt | HFloat, HFloat | HBool, HBool
            | HStr, HStr => ret seen
            | HList x, HList y => r <- g_unify R sp x y seen ;; ret (snd r)
            | HTuple xs, HTuple ys =>
              if negb (Nat.eqb (length xs) (length ys)) then fail KTupleLengthMismatch sp
              else unify2 R sp xs ys seen
            | HFn a_args a_ret a_pur, HFn b_args b_ret b_pur =>
              if negb (purity_compatible a_pur b_pur) then fail KImpurity sp
              else if negb (Nat.eqb (length a_args) (length b_args)) then fail KWrongArity sp
              else seen1 <- unify2 R sp a_args b_args seen ;;
                   r <- g_unify R sp a_ret b_ret seen1 ;; ret (snd r)
            | HBlob _ _ a_fields _, HBlob _ _ b_fields _ =>
              if existsb (fun kv => negb (fmem (fst kv) b_fields)) a_fields then fail KMissingField sp
              else unify_fields R sp KMissingField a_fields b_fields seen
            | HExtBlob _ _ _ a_args a_id, HExtBlob _ _ _ b_args b_id =>
              if N.eqb a_id b_id then unify2 R sp a_args b_args seen else fail KMismatch sp
            | HEnum _ _ a_vars _, HEnum _ _ b_vars _ =>
              if existsb (fun kv => negb (fmem (fst kv) b_vars)) a_vars then fail KUnknownVariant sp
              else unify_fields R sp KUnknownVariant a_vars b_vars seen
            | _, _ => fail KMismatch sp
            end) ;;
  union a b ;;;
  g_check R sp a ;;;
  ret (a, seen').

(* the TyID inside a constraint, copied *)
Definition copy_constr (R : grec) (c : constr) (m : copymap) : M (constr * copymap) :=
  let via (k : tyid -> constr) (x : tyid) := r <- g_copy R x m ;; ret (k (fst r), snd r) in
  match c with
  | CAdd x => via CAdd x | CSub x => via CSub x | CMul x => via CMul x
  | CDivTop x => via CDivTop x | CDivBot x => via CDivBot x | CDivRes x => via CDivRes x
  | CEqu x => via CEqu x | CCmp x => via CCmp x | CCmpEqu x => via CCmpEqu x
  | CNeg => ret (CNeg, m)
  | CConstIdx i x => via (CConstIdx i) x
  | CField f x => via (CField f) x
  | CNum => ret (CNum, m)
  | CEnum => ret (CEnum, m)
  | CVariant v (Some y) => via (fun t => CVariant v (Some t)) y
  | CVariant v None => ret (CVariant v None, m)
  | CTotalEnum x => ret (CTotalEnum x, m)
  | CVariable => ret (CVariable, m)
  end.

Fixpoint copy_list (R : grec) (l : list tyid) (m : copymap) : M (list tyid * copymap) :=
  match l with
  | [] => ret ([], m)
  | x :: xs => r <- g_copy R x m ;; rs <- copy_list R xs (snd r) ;; ret (fst r :: fst rs, snd rs)
  end.

Fixpoint copy_fields (R : grec) (l : fieldmap) (m : copymap) : M (fieldmap * copymap) :=
  match l with
  | [] => ret ([], m)
  | (k, (sp, x)) :: xs =>
    r <- g_copy R x m ;; rs <- copy_fields R xs (snd r) ;; ret ((k, (sp, fst r)) :: fst rs, snd rs)
  end.

(* the children of a type, copied (the second half of fn inner_copy) *)
Definition copy_ty (R : grec) (t : tyh) (m : copymap) : M (tyh * copymap) :=
  match t with
  | HInvalid | HUnknown | HTy | HVoid | HNil | HInt | HFloat | HBool | HStr => ret (t, m)
  | HTuple tys => r <- copy_list R tys m ;; ret (HTuple (fst r), snd r)
  | HList x => r <- g_copy R x m ;; ret (HList (fst r), snd r)
  | HFn args r p =>
    ra <- copy_list R args m ;; rr <- g_copy R r (snd ra) ;; ret (HFn (fst ra) (fst rr) p, snd rr)
  | HExtBlob name sp fields args ns =>
    rf <- copy_fields R fields m ;; ra <- copy_list R args (snd rf) ;;
    ret (HExtBlob name sp (fst rf) (fst ra) ns, snd ra)
  | HBlob name sp fields args =>
    rf <- copy_fields R fields m ;; ra <- copy_list R args (snd rf) ;;
    ret (HBlob name sp (fst rf) (fst ra), snd ra)
  | HEnum name sp variants args =>
    rf <- copy_fields R variants m ;; ra <- copy_list R args (snd rf) ;;
    ret (HEnum name sp (fst rf) (fst ra), snd ra)
  end.

(* matches!(ty, Type::Void | Type::Nil | Type::Int | Type::Float | Type::Bool | Type::Str) *)
Definition is_basic (t : tyh) : bool :=
  match t with HVoid | HNil | HInt | HFloat | HBool | HStr => true | _ => false end.

(* fn inner_copy (1729) *)
Definition copy_body (R : grec) (old : tyid) (m : copymap) : M (tyid * copymap) :=
  old <- find old ;;
  match copy_lookup old m with
  | Some r => ret (r, m)
  | None =>
    new <- push_type HUnknown ;;
    let m := (old, new) :: m in
    (* a basic type is fully known: the copy gets that type and NO constraints (since 8ab9717; following the
       constraints of int / float / bool / str nodes copied everything ever combined with them, and doubled it with
       every later copy) *)
    t0 <- find_type old ;;
    if is_basic t0 then set_type new t0 ;;; ret (new, m) else
    n <- find_node old ;;
    '(cs, m) <- foldM (fun acc c => r <- copy_constr R c (snd acc) ;; ret (cinsert (fst r) (fst acc), snd r))
                      (ncons n) ([], m) ;;
    set_cons new cs ;;;
    t <- find_type old ;;
    '(t', m) <- copy_ty R t m ;;
    set_type new t' ;;;
    ret (new, m)
  end.

Definition gstep (R : grec) : grec :=
  mkG (unify_body R) (check_body R) (arith_body R) (div_body R) (divres_body R) (copy_body R) (neg_body R)
      (inside_body R).

Fixpoint gfix (fuel : nat) : grec :=
  match fuel with
  | O => g_bottom
  | S f => gstep (gfix f)
  end.

(* ------------------------------------------------------------------ syntax level *)

Definition genmap := list (string * tyid).          (* HashMap<String, TyID> of inner_resolve_type *)

Fixpoint gen_lookup (k : string) (m : genmap) : option tyid :=
  match m with
  | [] => None
  | (k', v) :: r => if String.eqb k k' then Some v else gen_lookup k r
  end.

Definition retn := (option tyid * tyid)%type.       (* RetNValue *)

Record arec := mkA {
  r_expr : expr -> tctx -> M retn;                                (* fn expression *)
  r_stmt : stmt -> tctx -> M (option tyid);                       (* fn statement *)
  r_type : ty -> genmap -> M (tyid * genmap)                      (* fn inner_resolve_type *)
}.

Definition a_bottom : arec :=
  mkA (fun _ _ => out_of_fuel) (fun _ _ => out_of_fuel) (fun _ _ => out_of_fuel).

Definition is_void_ty (t : ty) : bool :=
  match t with TResolved BVoid _ => true | _ => false end.

Section WithVars.
  (* the resolver's variable table: kinds by TyID (variable v <-> TyID v, i.e. positive v+1) *)
  Variable kinds : PositiveMap.t varkind.
  Variable G : grec.

  (* self.variables[var].ty *)
  Definition var_ty (v : N) : M tyid :=
    match PositiveMap.find (N.succ_pos v) kinds with
    | Some _ => ret (N.succ_pos v)
    | None => panic PVarIndex
    end.

  (* self.variables[var].kind *)
  Definition var_kind (v : N) : M varkind :=
    match PositiveMap.find (N.succ_pos v) kinds with
    | Some k => ret k
    | None => panic PVarIndex
    end.

  Definition immutable (k : varkind) : bool := match k with Const => true | Mutable => false end.

  (* fn resolve_constraint (232) *)
  Definition resolve_constraint (sp : span) (var : tyid) (c : tconstraint) : M unit :=
    let nargs := length (tc_args c) in
    if String.eqb (tc_name c) "Num" then
      if negb (Nat.eqb nargs 0) then fail KWrongConstraintArity sp
      else add_constraint var CNum
    else if String.eqb (tc_name c) "CmpEqu" then
      if negb (Nat.eqb nargs 0) then fail KWrongConstraintArity sp
      else add_constraint var (CCmpEqu var)
    else fail KUnknownConstraint sp.

  Fixpoint resolve_types (R : arec) (l : list ty) (seen : genmap) : M (list tyid * genmap) :=
    match l with
    | [] => ret ([], seen)
    | t :: ts => r <- r_type R t seen ;; rs <- resolve_types R ts (snd r) ;; ret (fst r :: fst rs, snd rs)
    end.

  (* the loop over `vars` in the UserType arm (298-316): `defsp` is the span of the blob/enum declaration *)
  Fixpoint user_args (R : arec) (defsp : span) (vars : list ty) (sub : list tyid) (seen : genmap) : M genmap :=
    match vars with
    | [] => ret seen
    | v :: vs =>
      match sub with
      | [] => fail KExotic (ty_span v)
      | s :: ss =>
        r <- r_type R v seen ;;
        unify G defsp (fst r) s ;;;
        user_args R defsp vs ss (snd r)
      end
    end.

  (* fn inner_resolve_type (271) *)
  Definition type_body (R : arec) (t : ty) (seen : genmap) : M (tyid * genmap) :=
    match t with
    | TImplied _ => i <- push_type HUnknown ;; ret (i, seen)
    | TResolved b _ =>
      i <- push_type (match b with
                      | BVoid => HVoid | BNil => HNil | BUnknown => HUnknown | BInt => HInt
                      | BFloat => HFloat | BBool => HBool | BStr => HStr
                      end) ;;
      ret (i, seen)
    | TUser var vars sp =>
      vt <- var_ty var ;;
      t <- copy G vt ;;
      h <- find_type t ;;
      match h with
      | HBlob _ defsp _ sub | HExtBlob _ defsp _ sub _ | HEnum _ defsp _ sub =>
        seen' <- user_args R defsp vars sub seen ;; ret (t, seen')
      | HUnknown => ret (t, seen)
      | _ => fail KViolating sp
      end
    | TFn constraints params r is_pure sp =>
      ps <- resolve_types R params seen ;;
      rr <- r_type R r (snd ps) ;;
      let seen := snd rr in
      iterM (fun kc : string * list tconstraint =>
               match gen_lookup (fst kc) seen with
               | Some var => iterM (resolve_constraint sp var) (snd kc)
               | None => fail KUnresolvedName sp
               end) constraints ;;;
      i <- push_type (HFn (fst ps) (fst rr) (if is_pure then PPure else PUndefined)) ;;
      ret (i, seen)
    | TTuple fields _ =>
      fs <- resolve_types R fields seen ;;
      i <- push_type (HTuple (fst fs)) ;; ret (i, snd fs)
    | TList kind _ =>
      k <- r_type R kind seen ;;
      i <- push_type (HList (fst k)) ;; ret (i, snd k)
    | TGeneric name _ =>
      match gen_lookup name seen with
      | Some i => ret (i, seen)
      | None => i <- push_type HUnknown ;; ret (i, (name, i) :: seen)
      end
    end.

  (* fn resolve_type *)
  Definition resolve_type (R : arec) (t : ty) : M tyid := r <- r_type R t [] ;; ret (fst r).

  (* fn type_from_function (383) *)
  Definition type_from_function (R : arec) (params : list (string * N * span * ty)) (r : ty) (pure : bool)
    : M (tyid * tyid) :=
    '(args, seen) <- foldM (fun (acc : list tyid * genmap) (p : string * N * span * ty) =>
                              let '(_, var, psp, pty) := p in
                              vt <- var_ty var ;;
                              rt <- r_type R pty (snd acc) ;;
                              a <- unify G psp vt (fst rt) ;;
                              ret (fst acc ++ [a], snd rt)) params ([], []) ;;
    rr <- r_type R r seen ;;
    f <- push_type (HFn args (fst rr) (if pure then PPure else PImpure)) ;;
    ret (f, fst rr).

  (* fn can_assign (1752) *)
  Definition can_assign (sp : span) (target : expr) : M unit :=
    match target with
    | ERead var rsp =>
      k <- var_kind var ;;
      if immutable k then fail KAssignability rsp else ret tt
    | EBlobAccess _ _ _ | EIndex _ _ _ => ret tt
    | _ => fail KAssignability sp
    end.

  Fixpoint last_stmt (l : list stmt) : option stmt :=
    match l with
    | [] => None
    | [x] => Some x
    | _ :: xs => last_stmt xs
    end.

  (* fn falls_through_without_value (since 2b939af): control reaches the end of the block and the block has no value *)
  Definition falls_through (body : list stmt) : bool :=
    match last_stmt body with
    | Some (SStatementExpression _ _) | Some (SRet _ _) | Some (SBreak _) | Some (SContinue _)
    | Some (SUnreachable _) => false
    | _ => true
    end.

  Definition if_falls (b : ifbranch) : bool := match b with IfBranch _ body _ => falls_through body end.
  Definition case_falls (b : casebranch) : bool := match b with CaseBranch _ _ _ body _ => falls_through body end.

  (* statements.split_last() in fn expression_block (since f1d69d9): the statements before a final expression
     statement, and its expression; all the statements and None when the block does not end with an expression *)
  Fixpoint block_split (l : list stmt) : list stmt * option expr :=
    match l with
    | [] => ([], None)
    | [SStatementExpression value _] => ([], Some value)
    | x :: xs => let '(i, v) := block_split xs in (x :: i, v)
    end.

  (* fn expression_block (700): the statements; a last expression statement is checked once, as the value of the
     block (before f1d69d9 it went through fn statement too and every nesting level doubled the work) *)
  Definition expression_block (R : arec) (sp : span) (stmts : list stmt) (ctx : tctx)
    : M (option tyid * option tyid) :=
    r <- foldM (fun (acc : option tyid) (s : stmt) =>
                  sr <- r_stmt R s ctx ;; unify_option G sp acc sr) (fst (block_split stmts)) None ;;
    match snd (block_split stmts) with
    | Some value =>
      '(vret, v) <- r_expr R value ctx ;;
      r' <- unify_option G sp r vret ;;
      ret (r', Some v)
    | None => ret (r, None)
    end.

  (* macro bin_op! (89) *)
  Definition bin_op (R : arec) (sp : span) (ctx : tctx) (a b : expr) (con : tyid -> constr) : M retn :=
    '(a_ret, a) <- r_expr R a ctx ;;
    '(b_ret, b) <- r_expr R b ctx ;;
    add_constraint a (con b) ;;;
    add_constraint b (con a) ;;;
    g_check G sp a ;;;
    g_check G sp b ;;;
    r <- unify_option G sp a_ret b_ret ;;
    ret (r, a).

  Definition bin_op_ret (R : arec) (sp : span) (ctx : tctx) (a b : expr) (con : tyid -> constr) (h : tyh)
    : M retn :=
    '(r, _) <- bin_op R sp ctx a b con ;;
    t <- push_type h ;;
    ret (r, t).

  (* the loop over args.zip(params) in the Call arm (745) *)
  Fixpoint call_args (R : arec) (ctx : tctx) (args : list expr) (params : list tyid) (r : option tyid)
    : M (option tyid) :=
    match args, params with
    | a :: args', p :: params' =>
      let asp := expr_span a in
      '(a_ret, at_) <- r_expr R a ctx ;;
      unify G asp p at_ ;;;
      add_constraint at_ CVariable ;;;
      g_check G asp at_ ;;;
      r' <- unify_option G asp r a_ret ;;
      call_args R ctx args' params' r'
    | _, _ => ret r
    end.

  (* value.or(ret).unwrap_or_else(|| self.push_type(Type::Void)) *)
  Definition value_or_ret (value r : option tyid) : M tyid :=
    match value with
    | Some v => ret v
    | None => match r with Some x => ret x | None => push_type HVoid end
    end.

  Definition if_branch (R : arec) (sp : span) (ctx : tctx) (br : ifbranch) : M (option tyid * option tyid) :=
    let 'IfBranch cond body _ := br in
    cret <- (match cond with
             | Some c =>
               let csp := expr_span c in
               '(r, ct) <- r_expr R c ctx ;;
               b <- push_type HBool ;;
               unify G csp b ct ;;;
               ret r
             | None => ret None
             end) ;;
    '(bret, bval) <- expression_block R sp body ctx ;;
    r <- unify_option G sp cret bret ;;
    ret (r, bval).

  Fixpoint last_branch (l : list ifbranch) : option ifbranch :=
    match l with
    | [] => None
    | [x] => Some x
    | _ :: xs => last_branch xs
    end.

  Definition case_branch (R : arec) (sp : span) (ctx : tctx) (m : tyid)
             (acc : option tyid * option tyid * list string) (br : casebranch)
    : M (option tyid * option tyid * list string) :=
    let '(r, value, names) := acc in
    let 'CaseBranch pat _ var body _ := br in
    c <- (match var with Some v => t <- var_ty v ;; ret (Some t) | None => ret None end) ;;
    add_constraint m (CVariant pat c) ;;;
    g_check G sp m ;;;
    '(bret, bval) <- expression_block R sp body ctx ;;
    value' <- unify_option G sp value bval ;;
    r' <- unify_option G sp r bret ;;
    ret (r', value', sinsert pat names).

  Definition is_pure_p (p : purity) : bool := match p with PPure => true | _ => false end.

  (* fn expression (694) *)
  Definition expr_body (R : arec) (e : expr) (ctx : tctx) : M retn :=
    '(expr_ret, ex) <-
      (match e with
       | ERead var sp =>
         (* the name of a blob or an enum is a type, it has no value (since 9c09349) *)
         tn <- is_type_name var ;;
         if tn then fail KExotic sp else
         k <- var_kind var ;;
         if inside_pure ctx && negb (immutable k) then fail KImpurity sp
         else t <- var_ty var ;; ret (None, t)
       | EVariant ty variant value sp =>
         '(vret, v) <- r_expr R value ctx ;;
         et <- var_ty ty ;;
         enum_ty <- copy G et ;;
         add_constraint enum_ty (CVariant variant (Some v)) ;;;
         g_check G sp enum_ty ;;;
         ret (vret, enum_ty)
       | ECall f args sp =>
         '(ret0, fn) <- r_expr R f ctx ;;
         t <- find_type fn ;;
         match t with
         | HFn params ret_ty pur =>
           if negb (Nat.eqb (length args) (length params)) then fail KWrongArity sp
           else if inside_pure ctx && negb (is_pure_p pur) then fail KImpurity sp
           else
             r <- call_args R ctx args params ret0 ;;
             g_check G sp ret_ty ;;;
             ret (r, ret_ty)
         | _ => fail KViolating sp
         end
       | EBlobAccess value field sp =>
         '(oret, outer) <- r_expr R value ctx ;;
         field_ty <- push_type HUnknown ;;
         add_constraint outer (CField field field_ty) ;;;
         g_check G sp outer ;;;
         t <- find_type outer ;;
         ft <- (match t with HFn _ _ _ => copy G field_ty | _ => ret field_ty end) ;;
         ret (oret, ft)
       | EIndex value index sp =>
         '(vret, v) <- r_expr R value ctx ;;
         '(iret, i) <- r_expr R index ctx ;;
         int_t <- push_type HInt ;;
         unify G sp i int_t ;;;
         ex <- push_type HUnknown ;;
         (match index with
          | EInt z _ => add_constraint v (CConstIdx z ex)
          | _ => panic PIndexNotInt
          end) ;;;
         g_check G sp v ;;;
         g_check G sp i ;;;
         r <- unify_option G sp vret iret ;;
         ret (r, ex)
       | EBinOp op a b sp =>
         match op with
         | Nop => panic PBinOpNop
         | Equals | AssertEq | NotEquals => bin_op_ret R sp ctx a b CEqu HBool
         | Greater | Less => bin_op_ret R sp ctx a b CCmp HBool
         | GreaterEqual | LessEqual => bin_op_ret R sp ctx a b CCmpEqu HBool
         | Add => bin_op R sp ctx a b CAdd
         | Sub => bin_op R sp ctx a b CSub
         | Mul => bin_op R sp ctx a b CMul
         | Div =>
           '(a_ret, a) <- r_expr R a ctx ;;
           '(b_ret, b) <- r_expr R b ctx ;;
           add_constraint a (CDivTop b) ;;;
           add_constraint b (CDivBot a) ;;;
           c <- push_type HUnknown ;;
           add_constraint c (CDivRes a) ;;;
           g_check G sp a ;;;
           g_check G sp b ;;;
           g_check G sp c ;;;
           r <- unify_option G sp a_ret b_ret ;;
           ret (r, c)
         | And | Or =>
           '(a_ret, a) <- r_expr R a ctx ;;
           '(b_ret, b) <- r_expr R b ctx ;;
           boolean <- push_type HBool ;;
           unify G sp a boolean ;;;
           unify G sp b boolean ;;;
           r <- unify_option G sp a_ret b_ret ;;
           ret (r, a)
         end
       | EUniOp op a sp =>
         match op with
         | Neg =>
           '(a_ret, a) <- r_expr R a ctx ;;
           add_constraint a CNeg ;;;
           g_check G sp a ;;;                    (* since a470734 *)
           ret (a_ret, a)
         | Not =>
           '(a_ret, a) <- r_expr R a ctx ;;
           boolean <- push_type HBool ;;
           u <- unify G sp a boolean ;;
           ret (a_ret, u)
         end
       | EIf branches sp =>
         tys <- mapM (if_branch R sp ctx) branches ;;
         match last_branch branches with
         | None => panic PIfNoBranch
         | Some (IfBranch lastc _ _) =>
           (* the returns of all branches are unified, else-branch or not (since fe5f053) *)
           r <- foldM (fun (acc : option tyid) (b : option tyid * option tyid) =>
                         unify_option G sp (fst b) acc) tys None ;;
           match lastc with
           | Some _ =>
             (* no else branch: the value is void *)
             v <- push_type HVoid ;; ret (r, v)
           | None =>
             value <- foldM (fun (acc : option tyid) (b : option tyid * option tyid) =>
                               unify_option G sp (snd b) acc) tys None ;;
             (* a branch that can be left without producing a value makes the whole expression valueless (2b939af) *)
             value <- (if existsb if_falls branches then vd <- push_type HVoid ;; ret (Some vd) else ret value) ;;
             v <- value_or_ret value r ;;
             ret (r, v)
           end
         end
       | ECase to_match branches fall sp =>
         '(ret0, m) <- r_expr R to_match ctx ;;
         add_constraint m CEnum ;;;
         g_check G sp m ;;;                   (* since 33535f8 *)
         '(r, value, names) <- foldM (case_branch R sp ctx m) branches (ret0, None, []) ;;
         '(r, value) <- (match fall with
                         | Some ft =>
                           '(fret, f) <- expression_block R sp ft ctx ;;
                           r' <- unify_option G sp fret r ;;
                           v' <- unify_option G sp f value ;;
                           ret (r', v')
                         | None =>
                           add_constraint m (CTotalEnum names) ;;;
                           g_check G sp m ;;;
                           ret (r, value)
                         end) ;;
         value <- (if existsb case_falls branches || (match fall with Some ft => falls_through ft | None => false end)
                   then vd <- push_type HVoid ;; ret (Some vd) else ret value) ;;
         v <- value_or_ret value r ;;
         ret (r, v)
       | EFunction _ params rty body pure sp =>
         '(f_ty, ret_ty) <- type_from_function R params rty pure ;;
         let ctx := enter_fn pure ctx in       (* a loop around the definition is not a loop of the function (c3c408a) *)
         '(actual_ret, implicit_ret) <- expression_block R sp body ctx ;;
         actual_ret <- (if is_void_ty rty
                        then v <- push_type HVoid ;; unify_option G sp actual_ret (Some v)
                        else unify_option G sp actual_ret implicit_ret) ;;
         unify_option G sp (Some ret_ty) actual_ret ;;;
         isv <- (match actual_ret with Some x => is_void x | None => ret true end) ;;
         if isv && negb (is_void_ty rty) then fail KExotic (ty_span rty)
         else
           unify_option G sp (Some ret_ty) actual_ret ;;;
           ret (None, f_ty)
       | EBlob blob fields self_var sp =>
         bt <- var_ty blob ;;
         blob_ty <- copy G bt ;;
         t <- find_type blob_ty ;;
         match t with
         | HBlob name _ bfields bargs =>
           given <- foldM (fun (acc : fieldmap) (fe : string * expr) =>
                             u <- push_type HUnknown ;;
                             ret (finsert (fst fe) (expr_span (snd fe), u) acc)) fields [] ;;
           let missing := map (fun _ => mkErr KMissingField sp)
                              (filter (fun kv : string * (span * tyid) => negb (fmem (fst kv) given)) bfields) in
           let unknown := map (fun kv : string * (span * tyid) => mkErr KUnknownField (fst (snd kv)))
                              (filter (fun kv : string * (span * tyid) => negb (fmem (fst kv) bfields)) given) in
           match missing ++ unknown with
           | e1 :: more => fail_many e1 more
           | [] =>
             given_blob <- push_type (HBlob name sp given bargs) ;;
             (* `self` inside the methods is the instance that is being created (since 6a11bb8) *)
             self_ty <- var_ty self_var ;;
             unify G sp self_ty given_blob ;;;
             (* the literal returns from the function only if one of its parts does (since 8f8db35; before, a made-up
                unknown return type made `fn -> int do l := [1] end` count as returning) *)
             ret0 <- foldM (fun (acc : option tyid) (fe : string * expr) =>
                              '(iret, ety) <- r_expr R (snd fe) ctx ;;
                              acc' <- unify_option G sp acc iret ;;
                              match flookup (fst fe) given with
                              | Some (_, ft) => unify G (expr_span (snd fe)) ety ft ;;; ret acc'
                              | None => panic PFieldIndex
                              end) fields None ;;
             u <- unify G sp given_blob blob_ty ;;
             ret (ret0, u)
           end
         | HExtBlob _ _ _ _ _ => fail KExternBlobInstance sp
         | _ => fail KViolating sp
         end
       | ECollection CTuple values sp =>
         '(ret0, tys) <- foldM (fun (acc : option tyid * list tyid) (v : expr) =>
                                  '(iret, t) <- r_expr R v ctx ;;
                                  r' <- unify_option G sp (fst acc) iret ;;
                                  ret (r', snd acc ++ [t])) values (None, []) ;;
         t <- push_type (HTuple tys) ;;
         ret (ret0, t)
       | ECollection CList values sp =>
         inner <- push_type HUnknown ;;
         ret0 <- foldM (fun (acc : option tyid) (v : expr) =>
                          '(eret, et) <- r_expr R v ctx ;;
                          unify G sp inner et ;;;
                          unify_option G sp acc eret) values None ;;
         t <- push_type (HList inner) ;;
         ret (ret0, t)
       | EFloat _ _ => t <- push_type HFloat ;; ret (None, t)
       | EInt _ _ => t <- push_type HInt ;; ret (None, t)
       | EStr _ _ => t <- push_type HStr ;; ret (None, t)
       | EBool _ _ => t <- push_type HBool ;; ret (None, t)
       | ENil _ => t <- push_type HNil ;; ret (None, t)
       end) ;;
    (* every function-typed expression value is re-instantiated (1093-1097) *)
    t <- find_type ex ;;
    match t with
    | HFn _ _ _ => c <- copy G ex ;; ret (expr_ret, c)
    | _ => ret (expr_ret, ex)
    end.

  (* fn definition (403) *)
  Definition definition (R : arec) (var : N) (kind : varkind) (t : ty) (value : expr) (sp : span) (ctx : tctx)
    : M (option tyid) :=
    if inside_pure ctx && negb (immutable kind) then fail KImpurity sp else
    vt <- var_ty var ;;
    (match value with
     | EFunction _ params rty _ pure _ =>
       '(f_ty, _) <- type_from_function R params rty pure ;;
       unify G sp vt f_ty ;;; ret tt
     | _ => ret tt
     end) ;;;
    dt <- resolve_type R t ;;
    add_constraint dt CVariable ;;;
    unify G sp vt dt ;;;
    '(value_ret, value_ty) <- r_expr R value ctx ;;
    unify G sp vt value_ty ;;;
    ret value_ret.

  (* fn statement (433) *)
  Definition stmt_body (R : arec) (s : stmt) (ctx : tctx) : M (option tyid) :=
    match s with
    | SRet (Some value) sp =>
      '(r, v) <- r_expr R value ctx ;;
      match r with
      | Some r => u <- unify G sp v r ;; ret (Some u)
      | None => ret (Some v)
      end
    | SRet None _ => v <- push_type HVoid ;; ret (Some v)
    | SBlock stmts sp => '(r, _) <- expression_block R sp stmts ctx ;; ret r
    | SStatementExpression value _ => '(r, _) <- r_expr R value ctx ;; ret r
    | SAssignment op target value sp =>
      can_assign sp target ;;;
      if inside_pure ctx then fail KExotic sp else
      '(e_ret, e_ty) <- r_expr R value ctx ;;
      '(t_ret, t_ty) <- r_expr R target ctx ;;
      (match op with
       | Add => add_constraint e_ty (CAdd t_ty) ;;; add_constraint t_ty (CAdd e_ty)
       | Sub => add_constraint e_ty (CSub t_ty) ;;; add_constraint t_ty (CSub e_ty)
       | Mul => add_constraint e_ty (CMul t_ty) ;;; add_constraint t_ty (CMul e_ty)
       | _ => ret tt
       end) ;;;
      (match op with
       | Div =>
         add_constraint e_ty (CDivBot t_ty) ;;;
         add_constraint t_ty (CDivRes t_ty) ;;;
         add_constraint t_ty (CDivTop e_ty) ;;;
         g_check G sp e_ty ;;;
         g_check G sp t_ty
       | _ => unify G sp e_ty t_ty ;;; g_check G sp t_ty       (* the check: since d6dfc5c (`x += x`) *)
       end) ;;;
      unify_option G sp e_ret t_ret
    | SDefinition _ var kind t value sp => definition R var kind t value sp ctx
    | SLoop condition body sp =>
      '(r, c) <- r_expr R condition (leave_loop ctx) ;;
      boolean <- push_type HBool ;;
      unify G sp boolean c ;;;
      '(body_ret, _) <- expression_block R sp body (enter_loop ctx) ;;
      unify_option G sp r body_ret
    | SBreak sp => if inside_loop ctx then ret None else fail KExotic sp
    | SContinue sp => if inside_loop ctx then ret None else fail KExotic sp
    | SUnreachable _ => ret None
    (* the parser accepts these anywhere a statement is allowed: a type error since e6cc715 *)
    | SBlob _ _ _ _ _ _ | SEnum _ _ _ _ _ | SExternalDefinition _ _ _ _ _ => fail KExotic (stmt_span s)
    end.

  Definition astep (R : arec) : arec := mkA (expr_body R) (stmt_body R) (type_body R).

  Fixpoint afix (fuel : nat) : arec :=
    match fuel with
    | O => a_bottom
    | S f => astep (afix f)
    end.

  (* HashMap::insert on the generics map: the number of entries is the number of distinct names *)
  Fixpoint gen_insert (k : string) (v : tyid) (m : genmap) : genmap :=
    match m with
    | [] => [(k, v)]
    | (k', v') :: r => if String.eqb k k' then (k, v) :: r else (k', v') :: gen_insert k v r
    end.

  (* the fields / variants of a declaration are walked in source order: `sort_by_key(|(_, (s, _))|
     (s.line_start, s.col_start))`, a stable sort (since 42df46d; no dependence on hash order) *)
  Definition pos_le (a b : string * (span * ty)) : bool :=
    let sa := fst (snd a) in let sb := fst (snd b) in
    N.ltb (sp_line0 sa) (sp_line0 sb) || (N.eqb (sp_line0 sa) (sp_line0 sb) && N.leb (sp_col0 sa) (sp_col0 sb)).

  Fixpoint pos_insert (x : string * (span * ty)) (l : list (string * (span * ty))) :=
    match l with
    | [] => [x]
    | y :: ys => if pos_le y x then y :: pos_insert x ys else x :: l
    end.

  Definition source_order (l : list (string * (span * ty))) := fold_left (fun acc x => pos_insert x acc) l [].

  (* the two loops of the Enum / Blob arms of fn outer_statement (560-640) *)
  Definition decl_params (variables : list string) : M (list tyid * genmap) :=
    foldM (fun (acc : list tyid * genmap) (v : string) =>
             t <- push_type HUnknown ;;
             ret (fst acc ++ [t], gen_insert v t (snd acc))) variables ([], []).

  Definition decl_fields (R : arec) (num_vars : nat) (fields : list (string * (span * ty))) (seen : genmap)
    : M fieldmap :=
    r <- foldM (fun (acc : fieldmap * genmap) (f : string * (span * ty)) =>
                  let '(k, (ksp, t)) := f in
                  rt <- r_type R t (snd acc) ;;
                  if negb (Nat.eqb num_vars (length (snd rt))) then fail KExotic ksp
                  else ret (finsert k (ksp, fst rt) (fst acc), snd rt)) fields ([], seen) ;;
    ret (fst r).

  (* fn outer_statement (555) *)
  Definition outer_statement (R : arec) (s : stmt) (ctx : tctx) : M unit :=
    match s with
    | SEnum name var sp variables variants =>
      add_type_name var ;;;
      enum_ty <- var_ty var ;;
      '(type_params, seen) <- decl_params variables ;;
      resolved <- decl_fields R (length seen) (source_order variants) seen ;;
      t <- push_type (HEnum name sp resolved type_params) ;;
      unify G sp t enum_ty ;;; ret tt
    | SBlob name var sp variables fields external =>
      add_type_name var ;;;
      blob_ty <- var_ty var ;;
      '(type_params, seen) <- decl_params variables ;;
      resolved <- decl_fields R (length seen) (source_order fields) seen ;;
      t <- push_type (if external then HExtBlob name sp resolved type_params var
                      else HBlob name sp resolved type_params) ;;
      unify G sp t blob_ty ;;; ret tt
    | SDefinition _ var kind t value sp => definition R var kind t value sp ctx ;;; ret tt
    | SExternalDefinition _ var _ t sp =>
      dt <- resolve_type R t ;;
      vt <- var_ty var ;;
      unify G sp vt dt ;;; ret tt
    | _ => panic POuterStmt
    end.

  (* `.or_else(|_| err_type_error!(.., Mismatch ..))` *)
  Definition or_else_err {A} (m : M A) (k : ekind) (sp : span) : M A := fun s =>
    match m s with
    | Err _ _ => Err (mkErr k sp) []
    | o => o
    end.

  (* matches!(statement, Statement::Blob { .. } | Statement::Enum { .. }) *)
  Definition is_type_decl (s : stmt) : bool :=
    match s with SBlob _ _ _ _ _ _ | SEnum _ _ _ _ _ => true | _ => false end.

  (* fn TypeChecker::solve (2166).  The type declarations are gone through before everything else (3c0758d: a blob or
     enum may mention a type declared further down; the first time the mention of a type that has not been seen copies a
     still-unknown type), each after the declarations it mentions (58eff66: dependency::type_declaration_order,
     Types/DeclOrder.v), and again, in place, with all the statements. *)
  Definition solve (R : arec) (stmts : list stmt) (start_var : option var) : M unit :=
    iterM (fun s => outer_statement R s ctx_new) (type_decl_order stmts) ;;;
    iterM (fun s => outer_statement R s ctx_new) stmts ;;;
    match start_var with
    | Some v =>
      void <- push_type HVoid ;;
      start <- push_type (HFn [] void PUndefined) ;;
      t <- var_ty (v_id v) ;;
      or_else_err (unify G (v_def v) t start ;;; ret tt) KMismatch (v_def v)
    | None => fail KExotic (span_zero 0)
    end.

End WithVars.

(* ------------------------------------------------------------------ typechecker::solve *)

Fixpoint kinds_of (vars : list var) (i : positive) (m : PositiveMap.t varkind) : PositiveMap.t varkind :=
  match vars with
  | [] => m
  | v :: vs => kinds_of vs (Pos.succ i) (PositiveMap.add i (v_kind v) m)
  end.

Definition find_start (vars : list var) : option var :=
  List.find (fun v => String.eqb (v_name v) "start" && v_global v) vars.

(* pub(crate) fn solve: the result of type checking (the final state is what `intermediate::compile` reads;
   only the verdict is observable here) *)
Definition typecheck (fuel : nat) (r : resolved) : outcome unit :=
  let vars := r_vars r in
  let kinds := kinds_of vars 1 (PositiveMap.empty varkind) in
  let G := gfix fuel in
  match (init_vars (length vars) ;;; solve kinds G (afix kinds G fuel) (r_stmts r) (find_start vars)) empty_st with
  | Ok _ => Ok tt
  | Err e more => Err e more
  | Panic p => Panic p
  | OutOfFuel => OutOfFuel
  end.

(* compiler.rs 106-116: the Lua text is produced (by `lower`, whatever it is) only after the type
   checker returned Ok; nothing is written otherwise. *)
Inductive compiled (L : Type) :=
| COk (lua : L)
| CErr (e : err) (more : list err)
| CPanic (p : site)
| COutOfFuel.
Arguments COk {L}. Arguments CErr {L}. Arguments CPanic {L}. Arguments COutOfFuel {L}.

Definition compile_after_order {L} (lower : resolved -> L) (fuel : nat) (r : resolved) : compiled L :=
  match typecheck fuel r with
  | Ok _ => COk (lower r)
  | Err e more => CErr e more
  | Panic p => CPanic p
  | OutOfFuel => COutOfFuel
  end.
