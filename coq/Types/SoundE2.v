(* C02 with tuples: blocks as in SoundE1 whose expressions may also build tuples of base-typed components
   `(e1, .., en)`, index them with a constant `t[i]`, compare them with == != < >, choose between them with
   if-expressions, and keep them in local variables.
   The class of a tuple value has a tuple type whose component classes have the components' base types; that this
   survives every extension of the type graph is TcInv.kid_keep (the components of a class stay put).
   The fragment is delimited by a shape analysis (base / n-tuple) that does not look at the types: operands of the
   arithmetic and boolean operators are base-shaped, the operands of a comparison and the branches of an if have the
   same shape, an index is applied to a tuple shape and is in range.  Acceptance by the checker then gives the types. *)
From Coq Require Import String List NArith ZArith PArith Bool Lia FMapPositive.
From Sylt Require Import Syntax.Resolved Types.TyGraph Types.Tc Types.Ctx Types.TcInv Types.Reject Types.Mismatch
     Types.ShapesDecl Types.SoundE0 Types.SoundE1.
Import ListNotations.
Local Open Scope tc_scope.

(* ------------------------------------------------------------------ syntax *)

Inductive e2 :=
| I2 (z : Z) | F2 (r : string) | S2 (s : string) | B2 (b : bool)
| Bin2 (op : binop) (a b : e2)
| Un2 (op : uniop) (a : e2)
| If2 (c a b : e2)
| R2 (x : N)
| T2 (es : list e2)                   (* (e1, .., en) *)
| Ix2 (e : e2) (i : nat).             (* e[i] *)

Inductive s2 :=
| D2 (x : N) (kind : varkind) (e : e2)
| A2 (x : N) (e : e2)
| X2 (e : e2).

Fixpoint to_expr2 (sp : span) (e : e2) : expr :=
  match e with
  | I2 z => EInt z sp | F2 r => EFloat r sp | S2 s => EStr s sp | B2 b => EBool b sp
  | Bin2 op a b => EBinOp op (to_expr2 sp a) (to_expr2 sp b) sp
  | Un2 op a => EUniOp op (to_expr2 sp a) sp
  | If2 c a b =>
    EIf [IfBranch (Some (to_expr2 sp c)) [SStatementExpression (to_expr2 sp a) sp] sp;
         IfBranch None [SStatementExpression (to_expr2 sp b) sp] sp] sp
  | R2 x => ERead x sp
  | T2 es => ECollection CTuple ((fix go l := match l with [] => [] | x :: r => to_expr2 sp x :: go r end) es) sp
  | Ix2 e i => EIndex (to_expr2 sp e) (EInt (Z.of_nat i) sp) sp
  end.

Lemma to_expr2_go sp es :
  (fix go l := match l with [] => [] | x :: r => to_expr2 sp x :: go r end) es = map (to_expr2 sp) es.
Proof. induction es as [|x l IH]; [reflexivity|]. cbn [map]. now rewrite IH. Qed.

Definition to_stmt2 (sp : span) (st : s2) : stmt :=
  match st with
  | D2 x k e => SDefinition "" x k (TImplied sp) (to_expr2 sp e) sp
  | A2 x e => SAssignment Nop (ERead x sp) (to_expr2 sp e) sp
  | X2 e => SStatementExpression (to_expr2 sp e) sp
  end.

Definition to_block2 (sp : span) (ss : list s2) (e : e2) : list stmt :=
  map (to_stmt2 sp) ss ++ [SStatementExpression (to_expr2 sp e) sp].

(* ------------------------------------------------------------------ shapes: what delimits the fragment *)

Inductive shape := SB | ST (n : nat).
Definition shape_eqb (a b : shape) : bool :=
  match a, b with SB, SB => true | ST n, ST m => Nat.eqb n m | _, _ => false end.

Definition senv := list (N * shape).
Fixpoint shlookup (E : senv) (x : N) : option shape :=
  match E with [] => None | (y, t) :: r => if N.eqb x y then Some t else shlookup r x end.

Definition cmp_like (op : binop) : bool :=
  match op with Equals | NotEquals | AssertEq | Greater | Less => true | _ => false end.

Fixpoint shp (E : senv) (e : e2) : option shape :=
  match e with
  | I2 _ | F2 _ | S2 _ | B2 _ => Some SB
  | Bin2 op a b =>
    match op with
    | Nop | Div => None
    | _ =>
      match shp E a, shp E b with
      | Some SB, Some SB => Some SB
      | Some (ST n), Some (ST m) => if cmp_like op && Nat.eqb n m then Some SB else None
      | _, _ => None
      end
    end
  | Un2 _ a => match shp E a with Some SB => Some SB | _ => None end
  | If2 c a b =>
    match shp E c, shp E a, shp E b with
    | Some SB, Some sa, Some sb => if shape_eqb sa sb then Some sa else None
    | _, _, _ => None
    end
  | R2 x => shlookup E x
  | T2 es =>
    if (fix all l := match l with [] => true | x :: r => match shp E x with Some SB => all r | _ => false end end) es
    then Some (ST (length es)) else None
  | Ix2 e i => match shp E e with Some (ST n) => if Nat.ltb i n then Some SB else None | _ => None end
  end.

Definition shp_stmt (E : senv) (st : s2) : option senv :=
  match st with
  | D2 x _ e => match shp E e with Some sh => Some ((x, sh) :: E) | None => None end
  | A2 x e => match shp E e, shlookup E x with Some sa, Some sx => if shape_eqb sa sx then Some E else None | _, _ => None end
  | X2 e => match shp E e with Some _ => Some E | None => None end
  end.

Fixpoint frag2 (E : senv) (ss : list s2) (e : e2) : bool :=
  match ss with
  | [] => match shp E e with Some _ => true | None => false end
  | st :: r => match shp_stmt E st with Some E' => frag2 E' r e | None => false end
  end.

(* ------------------------------------------------------------------ types *)

Inductive ty2 := Base (t : bty) | Tup (ts : list bty).
Definition shape_of (t : ty2) : shape := match t with Base _ => SB | Tup ts => ST (length ts) end.

Fixpoint btys_eqb (a b : list bty) : bool :=
  match a, b with
  | [], [] => true
  | x :: a', y :: b' => bty_eqb x y && btys_eqb a' b'
  | _, _ => false
  end.
Definition ty2_eqb (a b : ty2) : bool :=
  match a, b with Base x, Base y => bty_eqb x y | Tup x, Tup y => btys_eqb x y | _, _ => false end.

Lemma btys_eqb_eq a : forall b, btys_eqb a b = true -> a = b.
Proof.
  induction a as [|x a IH]; intros [|y b] H; cbn in H; try discriminate; [reflexivity|].
  apply andb_true_iff in H as [H1 H2]. apply bty_eqb_eq in H1. apply IH in H2. congruence.
Qed.
Lemma btys_eqb_refl a : btys_eqb a a = true.
Proof. induction a as [|x a IH]; [reflexivity|]. cbn. rewrite IH. destruct x; reflexivity. Qed.
Lemma ty2_eqb_eq a b : ty2_eqb a b = true -> a = b.
Proof. destruct a, b; cbn; intros H; try discriminate; [apply bty_eqb_eq in H|apply btys_eqb_eq in H]; congruence. Qed.
Lemma ty2_eqb_refl a : ty2_eqb a a = true.
Proof. destruct a; cbn; [destruct t; reflexivity|apply btys_eqb_refl]. Qed.

Definition tenv2 := list (N * ty2).
Fixpoint tlookup2 (E : tenv2) (x : N) : option ty2 :=
  match E with [] => None | (y, t) :: r => if N.eqb x y then Some t else tlookup2 r x end.

(* ordering / equality of two tuples: component by component *)
Fixpoint cmp_all (op : binop) (a b : list bty) : bool :=
  match a, b with
  | [], [] => true
  | x :: a', y :: b' => (match bin_ty op x y with Some TB => true | _ => false end) && cmp_all op a' b'
  | _, _ => false
  end.

Definition bin_ty2 (op : binop) (a b : ty2) : option ty2 :=
  match a, b with
  | Base x, Base y => option_map Base (bin_ty op x y)
  | Tup x, Tup y => if cmp_like op && cmp_all op x y then Some (Base TB) else None
  | _, _ => None
  end.

Fixpoint ty2of (E : tenv2) (e : e2) : option ty2 :=
  match e with
  | I2 _ => Some (Base TI) | F2 _ => Some (Base TF) | S2 _ => Some (Base TS) | B2 _ => Some (Base TB)
  | Bin2 op a b => match ty2of E a, ty2of E b with Some ta, Some tb => bin_ty2 op ta tb | _, _ => None end
  | Un2 op a => match ty2of E a with Some (Base ta) => option_map Base (un_ty op ta) | _ => None end
  | If2 c a b =>
    match ty2of E c, ty2of E a, ty2of E b with
    | Some (Base TB), Some ta, Some tb => if ty2_eqb ta tb then Some ta else None
    | _, _, _ => None
    end
  | R2 x => tlookup2 E x
  | T2 es =>
    option_map Tup
      ((fix go l := match l with
                    | [] => Some []
                    | x :: r => match ty2of E x, go r with Some (Base t), Some ts => Some (t :: ts) | _, _ => None end
                    end) es)
  | Ix2 e i => match ty2of E e with Some (Tup ts) => option_map Base (nth_error ts i) | _ => None end
  end.

Definition ty_stmt2 (E : tenv2) (st : s2) : option tenv2 :=
  match st with
  | D2 x _ e => match ty2of E e with Some t => Some ((x, t) :: E) | None => None end
  | A2 x e => match ty2of E e, tlookup2 E x with Some t, Some tx => if ty2_eqb t tx then Some E else None | _, _ => None end
  | X2 e => match ty2of E e with Some _ => Some E | None => None end
  end.

Fixpoint ty_stmts2 (E : tenv2) (ss : list s2) : option tenv2 :=
  match ss with [] => Some E | st :: r => match ty_stmt2 E st with Some E' => ty_stmts2 E' r | None => None end end.

Definition ty_block2 (E : tenv2) (ss : list s2) (e : e2) : option ty2 :=
  match ty_stmts2 E ss with Some E' => ty2of E' e | None => None end.

(* ------------------------------------------------------------------ the tagged evaluator *)

Inductive value2 := V0 (v : value) | VT (vs : list value).
Definition tag2 (v : value2) : ty2 := match v with V0 x => Base (tag x) | VT vs => Tup (map tag vs) end.

Section Eval2.
  Variable farith : binop -> string -> string -> string.
  Variable fneg : string -> string.
  Variable fcmp : binop -> string -> string -> bool.
  Variable of_int : Z -> string.
  Variable scmp : binop -> string -> string -> bool.

  Definition store2 := list (N * value2).
  Fixpoint slookup2 (r : store2) (x : N) : option value2 :=
    match r with [] => None | (y, v) :: q => if N.eqb x y then Some v else slookup2 q x end.

  (* all component comparisons are evaluated (stuck on a tag error in any of them); the result is their lexicographic
     combination for < >, the conjunction for ==, its negation for != *)
  Fixpoint cmp_vals (op : binop) (a b : list value) : option (list bool) :=
    match a, b with
    | [], [] => Some []
    | x :: a', y :: b' =>
      match eval_bin farith fcmp of_int scmp op x y, cmp_vals op a' b' with
      | Some (VBool c), Some cs => Some (c :: cs)
      | _, _ => None
      end
    | _, _ => None
    end.

  Definition eval_bin2 (op : binop) (x y : value2) : option value2 :=
    match x, y with
    | V0 a, V0 b => option_map V0 (eval_bin farith fcmp of_int scmp op a b)
    | VT a, VT b =>
      if cmp_like op then
        match cmp_vals op a b with
        | Some cs => Some (V0 (VBool (match op with
                                      | NotEquals => negb (forallb (fun c => negb c) cs)
                                      | Equals | AssertEq => forallb (fun c => c) cs
                                      | _ => existsb (fun c => c) cs
                                      end)))
        | None => None
        end
      else None
    | _, _ => None
    end.

  Fixpoint eval2 (r : store2) (e : e2) : option value2 :=
    match e with
    | I2 z => Some (V0 (VInt z)) | F2 x => Some (V0 (VFloat x)) | S2 s => Some (V0 (VStr s)) | B2 b => Some (V0 (VBool b))
    | Bin2 op a b => match eval2 r a, eval2 r b with Some x, Some y => eval_bin2 op x y | _, _ => None end
    | Un2 op a => match eval2 r a with Some (V0 x) => option_map V0 (eval_un fneg op x) | _ => None end
    | If2 c a b =>
      match eval2 r c, eval2 r a, eval2 r b with
      | Some (V0 (VBool true)), Some x, Some _ => Some x
      | Some (V0 (VBool false)), Some _, Some y => Some y
      | _, _, _ => None
      end
    | R2 x => slookup2 r x
    | T2 es =>
      option_map VT
        ((fix go l := match l with
                      | [] => Some []
                      | x :: q => match eval2 r x, go q with Some (V0 v), Some vs => Some (v :: vs) | _, _ => None end
                      end) es)
    | Ix2 e i => match eval2 r e with Some (VT vs) => option_map V0 (nth_error vs i) | _ => None end
    end.

  Definition exec2 (r : store2) (st : s2) : option store2 :=
    match st with
    | D2 x _ e | A2 x e => match eval2 r e with Some v => Some ((x, v) :: r) | None => None end
    | X2 e => match eval2 r e with Some _ => Some r | None => None end
    end.

  Fixpoint run2 (r : store2) (ss : list s2) (e : e2) : option value2 :=
    match ss with
    | [] => eval2 r e
    | st :: q => match exec2 r st with Some r' => run2 r' q e | None => None end
    end.

  Definition store_ok2 (E : tenv2) (r : store2) : Prop :=
    forall x t, tlookup2 E x = Some t -> exists v, slookup2 r x = Some v /\ tag2 v = t.

  Lemma cmp_vals_typed op : forall a b, cmp_all op (map tag a) (map tag b) = true -> exists cs, cmp_vals op a b = Some cs.
  Proof.
    induction a as [|x a IH]; intros [|y b] H; cbn [map cmp_all] in H; try discriminate; [cbn; eauto|].
    apply andb_true_iff in H as [H1 H2]. destruct (IH _ H2) as [cs Hcs]. cbn [cmp_vals]. rewrite Hcs.
    destruct (bin_ty op (tag x) (tag y)) as [[]|] eqn:Bt; try discriminate.
    assert (T : ty0 (Bin0 op (match x with VInt z => I0 z | VFloat r => F0 r | VStr s => S0 s | VBool b0 => B0 b0 end)
                             (match y with VInt z => I0 z | VFloat r => F0 r | VStr s => S0 s | VBool b0 => B0 b0 end)) = Some TB).
    { cbn [ty0]. destruct x, y; exact Bt. }
    destruct (simply_typed_sound farith fneg fcmp of_int scmp _ _ T) as (v & Hv & Tv).
    cbn [eval] in Hv. assert (Hv' : eval_bin farith fcmp of_int scmp op x y = Some v) by (destruct x, y; exact Hv).
    rewrite Hv'. destruct v; try discriminate. eauto.
  Qed.

  Lemma typed_eval2 E r : store_ok2 E r -> forall e t, ty2of E e = Some t -> exists v, eval2 r e = Some v /\ tag2 v = t.
  Proof.
    intros SO.
    fix IH 1. intros e t H. destruct e as [z|x|s|b|op a b|op a|c a b|x|es|e i]; cbn [ty2of eval2] in *.
    - injection H as <-. eauto.
    - injection H as <-. eauto.
    - injection H as <-. eauto.
    - injection H as <-. eauto.
    - destruct (ty2of E a) as [ta|] eqn:Ea; [|discriminate]. destruct (ty2of E b) as [tb|] eqn:Eb; [|discriminate].
      destruct (IH _ _ Ea) as (x & -> & Tx). destruct (IH _ _ Eb) as (y & -> & Ty).
      destruct x as [x|xs], y as [y|ys]; cbn [tag2] in Tx, Ty; subst ta tb; cbn [bin_ty2 eval_bin2] in *; try discriminate.
      + destruct (bin_ty op (tag x) (tag y)) as [t0|] eqn:Bt; [|discriminate]. injection H as <-.
        assert (T : ty0 (Bin0 op (match x with VInt z => I0 z | VFloat r0 => F0 r0 | VStr s => S0 s | VBool b0 => B0 b0 end)
                                 (match y with VInt z => I0 z | VFloat r0 => F0 r0 | VStr s => S0 s | VBool b0 => B0 b0 end)) = Some t0).
        { cbn [ty0]. destruct x, y; exact Bt. }
        destruct (simply_typed_sound farith fneg fcmp of_int scmp _ _ T) as (v & Hv & Tv).
        cbn [eval] in Hv. assert (Hv' : eval_bin farith fcmp of_int scmp op x y = Some v) by (destruct x, y; exact Hv).
        rewrite Hv'. cbn. eexists. split; [reflexivity|]. cbn. congruence.
      + destruct (cmp_like op) eqn:Cl; cbn [andb] in H; [|discriminate].
        destruct (cmp_all op (map tag xs) (map tag ys)) eqn:Ca; [|discriminate]. injection H as <-.
        destruct (cmp_vals_typed _ _ _ Ca) as [cs ->]. eexists. split; [reflexivity|reflexivity].
    - destruct (ty2of E a) as [[ta|]|] eqn:Ea; try discriminate. destruct (IH _ _ Ea) as (x & -> & Tx).
      destruct x as [x|xs]; cbn [tag2] in Tx; [|discriminate]. injection Tx as Tx. subst ta.
      destruct (un_ty op (tag x)) as [t0|] eqn:Ut; [|discriminate]. injection H as <-.
      destruct op, x; cbn in Ut; try discriminate; injection Ut as <-; cbn; eauto.
    - destruct (ty2of E c) as [[[]|]|] eqn:Ec; try discriminate.
      destruct (ty2of E a) as [ta|] eqn:Ea; [|discriminate]. destruct (ty2of E b) as [tb|] eqn:Eb; [|discriminate].
      destruct (ty2_eqb ta tb) eqn:Eq; [|discriminate]. injection H as <-. apply ty2_eqb_eq in Eq. subst tb.
      destruct (IH _ _ Ec) as (vc & -> & Tc). destruct (IH _ _ Ea) as (x & -> & Tx). destruct (IH _ _ Eb) as (y & -> & Ty).
      destruct vc as [vc|]; cbn [tag2] in Tc; [|discriminate]. injection Tc as Tc. destruct vc; try discriminate.
      destruct b0; eauto.
    - exact (SO _ _ H).
    - match type of H with option_map Tup ?g = _ => destruct g as [ts|] eqn:Eg end; [|discriminate]. injection H as <-.
      assert (X : exists vs, (fix go l := match l with
                                         | [] => Some []
                                         | x :: q => match eval2 r x, go q with Some (V0 v), Some vs => Some (v :: vs) | _, _ => None end
                                         end) es = Some vs /\ map tag vs = ts).
      { revert ts Eg. induction es as [|x es IHes]; intros ts Eg.
        - injection Eg as <-. exists []. auto.
        - destruct (ty2of E x) as [[tx|]|] eqn:Ex; try discriminate.
          match type of Eg with match ?g with _ => _ end = _ => destruct g as [ts'|] eqn:Eg' end; [|discriminate].
          injection Eg as <-. destruct (IH _ _ Ex) as (vx & -> & Tvx). destruct vx as [vx|]; cbn [tag2] in Tvx; [|discriminate].
          injection Tvx as Tvx. destruct (IHes _ eq_refl) as (vs & -> & Tvs). exists (vx :: vs). cbn [map]. split; congruence. }
      destruct X as (vs & -> & Tvs). eexists. split; [reflexivity|]. cbn. congruence.
    - destruct (ty2of E e) as [[|ts]|] eqn:Ee; try discriminate. destruct (IH _ _ Ee) as (v & -> & Tv).
      destruct v as [|vs]; cbn [tag2] in Tv; [discriminate|]. injection Tv as Tv. subst ts.
      rewrite nth_error_map in H. destruct (nth_error vs i) as [vi|]; [|discriminate]. injection H as <-. cbn. eauto.
  Qed.

  Lemma typed_exec2 E r st E' : store_ok2 E r -> ty_stmt2 E st = Some E' -> exists r', exec2 r st = Some r' /\ store_ok2 E' r'.
  Proof.
    intros SO H. destruct st as [x k e|x e|e]; cbn [ty_stmt2 exec2] in *.
    - destruct (ty2of E e) as [t|] eqn:Et; [|discriminate]. injection H as <-.
      destruct (typed_eval2 _ _ SO _ _ Et) as (v & -> & Tv). eexists. split; [reflexivity|].
      intros y ty L. cbn [tlookup2 slookup2] in *. destruct (N.eqb y x); [injection L as <-; eauto|exact (SO _ _ L)].
    - destruct (ty2of E e) as [t|] eqn:Et; [|discriminate]. destruct (tlookup2 E x) as [tx|] eqn:Ex; [|discriminate].
      destruct (ty2_eqb t tx) eqn:Eq; [|discriminate]. injection H as <-. apply ty2_eqb_eq in Eq. subst tx.
      destruct (typed_eval2 _ _ SO _ _ Et) as (v & -> & Tv). eexists. split; [reflexivity|].
      intros y ty L. cbn [slookup2]. destruct (N.eqb_spec y x) as [->|N]; [|exact (SO _ _ L)].
      rewrite Ex in L. injection L as <-. eauto.
    - destruct (ty2of E e) as [t|] eqn:Et; [|discriminate]. injection H as <-.
      destruct (typed_eval2 _ _ SO _ _ Et) as (v & -> & Tv). eauto.
  Qed.

  Theorem typed_run2 : forall ss E r e t,
    store_ok2 E r -> ty_block2 E ss e = Some t -> exists v, run2 r ss e = Some v /\ tag2 v = t.
  Proof.
    unfold ty_block2. induction ss as [|st ss IH]; intros E r e t SO H; cbn [ty_stmts2 run2] in *.
    - eapply typed_eval2; eassumption.
    - destruct (ty_stmt2 E st) as [E'|] eqn:Es; [|discriminate].
      destruct (typed_exec2 _ _ _ _ SO Es) as (r' & -> & SO'). eapply IH; eassumption.
  Qed.
End Eval2.

(* ------------------------------------------------------------------ accepted => typed *)

Lemma nth_Forall2 {A B} (P : A -> B -> Prop) : forall l l',
  length l = length l' -> (forall n x y, nth_error l n = Some x -> nth_error l' n = Some y -> P x y) -> Forall2 P l l'.
Proof.
  induction l as [|a l IH]; intros [|b l'] Hl H; cbn in Hl; try discriminate; constructor.
  - apply (H 0%nat); reflexivity.
  - apply IH; [lia|]. intros n x y Hx Hy. apply (H (S n)); assumption.
Qed.

Lemma Forall2_nth {A B} (P : A -> B -> Prop) l l' :
  Forall2 P l l' -> length l = length l' /\ (forall n x y, nth_error l n = Some x -> nth_error l' n = Some y -> P x y).
Proof.
  induction 1 as [|a b l l' Hab H IH]; [split; [reflexivity|intros [|n] x y Hx; discriminate]|].
  destruct IH as [IH1 IH2]. split; [cbn; lia|]. intros [|n] x y Hx Hy; cbn [nth_error] in Hx, Hy.
  - injection Hx as <-. injection Hy as <-. exact Hab.
  - eapply IH2; eassumption.
Qed.

Lemma Forall2_imp {A B} (P Q : A -> B -> Prop) l l' : (forall a b, P a b -> Q a b) -> Forall2 P l l' -> Forall2 Q l l'.
Proof. intros H. induction 1; constructor; auto. Qed.

Section Accepted2.
  Variable kinds : PositiveMap.t varkind.
  Variable g : nat.
  Notation G := (gfix g).
  Notation afix := (afix kinds G).
  Let PG : gpres G := gfix_pres g.
  Let PA f : apres (afix f) := afix_pres kinds G PG f.

  (* the class c has the type t *)
  Definition has_ty (s : st) (c : tyid) (t : ty2) : Prop :=
    match t with
    | Base b => head s c = Some (bty_head b)
    | Tup ts => exists ys, head s c = Some (HTuple ys) /\ Forall2 (fun y b => head s y = Some (bty_head b)) ys ts
    end.

  Lemma has_ty_ext s s' c t : ext s s' -> has_ty s c t -> has_ty s' c t.
  Proof.
    intros E H. destruct t as [b|ts]; cbn [has_ty] in *; [exact (head_keep _ _ _ _ E H (rigid_bty b))|].
    destruct H as (ys & Hh & Hys). pose proof E as (_ & _ & _ & E4 & _).
    destruct (E4 _ _ Hh eq_refl) as (h' & Hh' & Sh). destruct h'; try discriminate Sh. cbn [same_shape] in Sh.
    apply PeanoNat.Nat.eqb_eq in Sh. exists ts0. split; [assumption|].
    destruct (Forall2_nth _ _ _ Hys) as [Hl Hn]. apply nth_Forall2; [lia|].
    intros n y' b Hy' Hb. destruct (nth_error_same_length ts0 ys n y' (eq_sym Sh) Hy') as [y Hy].
    apply (kid_keep s s' c (HTuple ys) (HTuple ts0) (KElem n) y y'); try assumption; try reflexivity; [|apply rigid_bty].
    eapply Hn; eassumption.
  Qed.

  Lemma has_ty_head s a b t : head s a = head s b -> has_ty s a t -> has_ty s b t.
  Proof. intros E H. destruct t; cbn [has_ty] in *; [congruence|]. destruct H as (ys & Hh & Hys). exists ys. split; congruence. Qed.

  Lemma has_ty_inj s c t t' : has_ty s c t -> has_ty s c t' -> t = t'.
  Proof.
    destruct t as [b|ts], t' as [b'|ts']; cbn [has_ty]; intros H H'.
    - rewrite H in H'. injection H' as H'. apply bty_head_inj in H'. congruence.
    - destruct H' as (ys & Hh & _). rewrite H in Hh. destruct b; discriminate.
    - destruct H as (ys & Hh & _). rewrite H' in Hh. destruct b'; discriminate.
    - destruct H as (ys & Hh & Hys). destruct H' as (ys' & Hh' & Hys'). rewrite Hh in Hh'. injection Hh' as <-. f_equal.
      clear Hh. revert ts' Hys'. induction Hys as [|y b ys ts Hy Hys IH]; intros ts' Hys'; inversion Hys' as [|y0 b' ys0 ts0 Hy' Hys0]; subst;
        [reflexivity|].
      f_equal; [|now apply IH]. rewrite Hy in Hy'. injection Hy' as Hy'. now apply bty_head_inj.
  Qed.

  (* two classes that unify have the same type *)
  Lemma unify_has_ty g' sp a b s r s' ta tb :
    wf s -> unify (gfix g') sp a b s = Ok (r, s') -> has_ty s a ta -> has_ty s b tb ->
    wf s' /\ ext s s' /\ ta = tb /\ has_ty s' r ta.
  Proof.
    intros W H Ha Hb. destruct (unify_result_head _ _ _ _ _ _ _ W H) as (W' & E' & Hr & Heq).
    split; [assumption|]. split; [assumption|].
    pose proof (has_ty_ext _ _ _ _ E' Ha) as Ha'. pose proof (has_ty_ext _ _ _ _ E' Hb) as Hb'.
    split; [exact (has_ty_inj _ _ _ _ (has_ty_head _ _ _ _ Heq Ha') Hb')|]. exact (has_ty_head _ _ _ _ (eq_sym Hr) Ha').
  Qed.

  Definition env_ok2 (E : tenv2) (s : st) : Prop := forall x t, tlookup2 E x = Some t -> has_ty s (N.succ_pos x) t.

  Lemma env_ok2_ext E s s' : wf s -> ext s s' -> env_ok2 E s -> env_ok2 E s'.
  Proof. intros _ X H x t L. exact (has_ty_ext _ _ _ _ X (H _ _ L)). Qed.

  Definition sound2 (E : tenv2) (e : expr) (ot : option ty2) : Prop :=
    forall f ctx s r s', wf s -> env_ok2 E s -> r_expr (afix f) e ctx s = Ok (r, s') ->
      wf s' /\ ext s s' /\ exists t, ot = Some t /\ has_ty s' (snd r) t.

  Lemma sound2_weaken E e X Y : (forall t, X = Some t -> Y = Some t) -> sound2 E e X -> sound2 E e Y.
  Proof. intros H S0 f ctx s r s' W HI Hr. destruct (S0 _ _ _ _ _ W HI Hr) as (W' & E' & (t & Ht & Hh)). eauto 8. Qed.

  Definition proj (ot : option ty2) : option bty := match ot with Some (Base t) => Some t | _ => None end.

  Lemma down E e ot : (forall t, ot = Some t -> exists b, t = Base b) -> sound2 E e ot -> sound_expr kinds g (env_ok2 E) e (proj ot).
  Proof.
    intros Hb S0 f ctx s r s' W HI Hr. destruct (S0 _ _ _ _ _ W HI Hr) as (W' & E' & (t & -> & Hh)).
    destruct (Hb _ eq_refl) as [b ->]. split; [assumption|]. split; [assumption|]. exists b. auto.
  Qed.

  Lemma up E e ob : sound_expr kinds g (env_ok2 E) e ob -> sound2 E e (option_map Base ob).
  Proof.
    intros S0 f ctx s r s' W HI Hr. destruct (S0 _ _ _ _ _ W HI Hr) as (W' & E' & (b & -> & Hh)).
    split; [assumption|]. split; [assumption|]. exists (Base b). auto.
  Qed.

  (* ---- shapes and types agree *)
  Definition shapes (E : tenv2) : senv := map (fun xt => (fst xt, shape_of (snd xt))) E.

  Lemma shlookup_shapes E x : shlookup (shapes E) x = option_map shape_of (tlookup2 E x).
  Proof. induction E as [|[y t] E IH]; [reflexivity|]. cbn [shapes map shlookup tlookup2 fst snd]. destruct (N.eqb x y); [reflexivity|exact IH]. Qed.

  Lemma shape_ty E : forall e sh t, shp (shapes E) e = Some sh -> ty2of E e = Some t -> sh = shape_of t.
  Proof.
    induction e as [z|r|s|b|op a IHa b IHb|op a IHa|c IHc a IHa b IHb|x|es|e IHe i]; intros sh t Hs Ht; cbn [shp ty2of] in *.
    - injection Hs as <-. now injection Ht as <-.
    - injection Hs as <-. now injection Ht as <-.
    - injection Hs as <-. now injection Ht as <-.
    - injection Hs as <-. now injection Ht as <-.
    - destruct (ty2of E a) as [ta|]; [|discriminate]. destruct (ty2of E b) as [tb|]; [|discriminate].
      assert (sh = SB).
      { destruct op; try discriminate; destruct (shp (shapes E) a) as [[|n]|]; try discriminate;
          destruct (shp (shapes E) b) as [[|m]|]; try discriminate; try (now injection Hs);
          match type of Hs with (if ?c then _ else _) = _ => destruct c end; try discriminate; now injection Hs. }
      subst sh. destruct ta, tb; cbn [bin_ty2] in Ht; try discriminate.
      + destruct (bin_ty op t0 t1); [|discriminate]. now injection Ht as <-.
      + destruct (cmp_like op && cmp_all op ts ts0); [|discriminate]. now injection Ht as <-.
    - destruct (shp (shapes E) a) as [[|n]|]; try discriminate. injection Hs as <-.
      destruct (ty2of E a) as [[ta|]|]; try discriminate. destruct (un_ty op ta); [|discriminate]. now injection Ht as <-.
    - destruct (shp (shapes E) c) as [[|n]|]; try discriminate.
      destruct (shp (shapes E) a) as [sa|] eqn:Ea; [|discriminate]. destruct (shp (shapes E) b) as [sb|]; [|discriminate].
      destruct (shape_eqb sa sb); [|discriminate]. injection Hs as <-.
      destruct (ty2of E c) as [[[]|]|]; try discriminate. destruct (ty2of E a) as [ta|] eqn:Ta; [|discriminate].
      destruct (ty2of E b) as [tb|]; [|discriminate]. destruct (ty2_eqb ta tb); [|discriminate]. injection Ht as <-.
      now apply IHa.
    - rewrite shlookup_shapes, Ht in Hs. now injection Hs as <-.
    - match type of Hs with (if ?c then _ else _) = _ => destruct c end; [|discriminate]. injection Hs as <-.
      match type of Ht with option_map Tup ?gg = _ => destruct gg as [ts|] eqn:Eg end; [|discriminate]. injection Ht as <-.
      cbn [shape_of]. f_equal. revert ts Eg. induction es as [|x es IH]; intros ts Eg; [now injection Eg as <-|].
      destruct (ty2of E x) as [[tx|]|]; try discriminate.
      match type of Eg with match ?gg with _ => _ end = _ => destruct gg as [ts'|] eqn:Eg' end; [|discriminate].
      injection Eg as <-. cbn [length]. f_equal. now apply IH.
    - destruct (shp (shapes E) e) as [[|n]|]; try discriminate. destruct (Nat.ltb i n); [|discriminate]. injection Hs as <-.
      destruct (ty2of E e) as [[|ts]|]; try discriminate. destruct (nth_error ts i); [|discriminate]. now injection Ht as <-.
  Qed.

  Lemma base_of_shape E e t : shp (shapes E) e = Some SB -> ty2of E e = Some t -> exists b, t = Base b.
  Proof. intros Hs Ht. pose proof (shape_ty E e _ _ Hs Ht) as X. destruct t; [eauto|discriminate]. Qed.

  Lemma tup_of_shape E e n t : shp (shapes E) e = Some (ST n) -> ty2of E e = Some t -> exists ts, t = Tup ts.
  Proof. intros Hs Ht. pose proof (shape_ty E e _ _ Hs Ht) as X. destruct t; [discriminate|eauto]. Qed.

  (* ---- the value of a read *)
  Lemma tail_noncopy (er : option tyid) (ex : tyid) s r s' t :
    has_ty s ex t ->
    (t0 <- find_type ex ;;
     match t0 with
     | HFn _ _ _ => c <- copy G ex ;; ret (er, c)
     | _ => ret (er, ex)
     end) s = Ok (r, s') ->
    r = (er, ex) /\ s' = s.
  Proof.
    intros Hh H. destruct t as [b|ts]; cbn [has_ty] in Hh.
    - exact (tail_base g _ _ _ _ _ _ Hh H).
    - destruct Hh as (ys & Hh & _). rewrite (bind_ok _ _ _ _ _ (find_type_ok _ _ _ Hh)) in H. injection H as <- <-. auto.
  Qed.

  Lemma sound_read2 E x t sp : tlookup2 E x = Some t -> sound2 E (ERead x sp) (Some t).
  Proof.
    intros L f ctx s r s' W HI H. destruct f as [|f]; [discriminate|]. cbn [Tc.afix astep r_expr] in H. unfold expr_body in H.
    apply bind_inv in H as ([er ex] & s1 & H1 & H). cbv beta iota in H1.
    apply bind_inv in H1 as (tn & s2 & Ht & H1). apply is_type_name_inv in Ht as [-> _].
    destruct tn; [discriminate|].
    apply bind_inv in H1 as (k & s3 & Hk & H1).
    assert (s3 = s) by (unfold var_kind in Hk; destruct (PositiveMap.find _ kinds); [now injection Hk|discriminate]).
    subst s3. destruct (inside_pure ctx && negb (immutable k)); [discriminate|].
    apply bind_inv in H1 as (t0 & s4 & Hvt & H1). apply ShapesDecl_var_ty_inv in Hvt as [-> ->].
    injection H1 as <- <- <-.
    pose proof (HI _ _ L) as Hh. destruct (tail_noncopy _ _ _ _ _ _ Hh H) as [-> ->].
    split; [assumption|]. split; [apply ext_refl|]. eauto.
  Qed.

  (* ---- what a successful check_constraints tells about one constraint of the class *)
  Lemma iterM_in_inv {A} (fn : A -> M unit) l x s u s' :
    (forall y, pres (fn y)) -> wf s -> In x l -> iterM fn l s = Ok (u, s') ->
    exists s1 s2, wf s1 /\ ext s s1 /\ fn x s1 = Ok (tt, s2) /\ wf s2 /\ ext s1 s2 /\ wf s' /\ ext s2 s'.
  Proof.
    intros P. revert s. induction l as [|p l IH]; intros s W Hin H; [destruct Hin|]. cbn [iterM] in H.
    apply bind_inv in H as ([] & s0 & H1 & H). destruct (P p _ _ _ W H1) as [W0 E0].
    destruct Hin as [->|Hin].
    - destruct (pres_iterM fn l P _ _ _ W0 H) as [W' E'].
      exists s, s0. repeat (split; [first [assumption|apply ext_refl]|]). assumption.
    - destruct (IH _ W0 Hin H) as (s1 & s2 & X1 & X2 & X3 & X4 & X5 & X6 & X7).
      exists s1, s2. split; [assumption|]. split; [eapply ext_trans; eassumption|]. auto.
  Qed.

  Lemma check_ok_con sp a c s u s' :
    wf s -> has_con s a c -> g_check G sp a s = Ok (u, s') ->
    exists g' s1 s2, wf s1 /\ ext s s1 /\ check_one (gfix g') sp a c s1 = Ok (tt, s2) /\ wf s2 /\ ext s1 s2 /\ wf s' /\ ext s2 s'.
  Proof.
    intros W (r & n & Hr & Hn & Hc) H. destruct g as [|g0]; [discriminate|].
    cbn [gfix gstep g_check] in H. unfold check_body in H.
    assert (Fn : find_node a s = Ok (n, s)).
    { unfold find_node, find, get_node, bind, ret. unfold rep, lk in *.
      destruct (PositiveMap.find a (nodes s)) as [x|]; [|discriminate]. cbn in Hr. injection Hr as ->.
      rewrite Hn. reflexivity. }
    rewrite (bind_ok _ _ _ _ _ Fn) in H.
    destruct (iterM_in_inv (check_one (gfix g0) sp a) (ncons n) c s u s') as (s1 & s2 & X);
      [intros y; apply pres_check_one, gfix_pres|assumption|assumption|assumption|].
    exists g0, s1, s2. exact X.
  Qed.

  (* ---- two known leaf types pass the ordering check only if they are comparable *)
  Lemma arith_ok_base g' sp a b s u s' ta tb :
    head s a = Some (bty_head ta) -> head s b = Some (bty_head tb) -> wf s ->
    g_arith (gfix g') ACmp sp a b s = Ok (u, s') -> bin_ty Less ta tb = Some TB.
  Proof.
    intros Ha Hb W H. destruct (arith_base_ok ACmp (bty_head ta) (bty_head tb)) eqn:Bk.
    - destruct ta, tb; cbn in Bk |- *; congruence.
    - exfalso. eapply (arith_rejects g' ACmp sp a b s _ _ W Ha Hb); eauto using rigid_bty.
  Qed.

  Lemma iter2_cmp g' sp : forall xs ys ts ts' s u s',
    wf s -> Forall2 (fun y b => head s y = Some (bty_head b)) xs ts -> Forall2 (fun y b => head s y = Some (bty_head b)) ys ts' ->
    iter2 (g_arith (gfix g') ACmp sp) xs ys s = Ok (u, s') -> length xs = length ys -> cmp_all Less ts ts' = true.
  Proof.
    induction xs as [|x xs IH]; intros [|y ys] ts ts' s u s' W Hx Hy H Hl; cbn in Hl; try discriminate;
      inversion Hx; inversion Hy; subst; [reflexivity|].
    cbn [iter2] in H. apply bind_inv in H as ([] & s1 & H1 & H).
    destruct (gp_arith _ (gfix_pres g') ACmp sp x y _ _ _ W H1) as [W1 E1].
    cbn [cmp_all]. erewrite arith_ok_base; try eassumption. cbn [andb].
    eapply IH; [exact W1| | |exact H|lia].
    - eapply Forall2_imp; [|eassumption]. intros c b0 Hc. exact (head_keep _ _ _ _ E1 Hc (rigid_bty b0)).
    - eapply Forall2_imp; [|eassumption]. intros c b0 Hc. exact (head_keep _ _ _ _ E1 Hc (rigid_bty b0)).
  Qed.

  Lemma arith_ok_tuple g' sp a b s u s' ts ts' :
    has_ty s a (Tup ts) -> has_ty s b (Tup ts') -> wf s ->
    g_arith (gfix g') ACmp sp a b s = Ok (u, s') -> cmp_all Less ts ts' = true.
  Proof.
    intros (xs & Ha & Hxs) (ys & Hb & Hys) W H. destruct g' as [|g']; [discriminate|].
    cbn [gfix gstep g_arith] in H. unfold arith_body in H.
    rewrite (bind_ok _ _ _ _ _ (find_type_ok _ _ _ Ha)), (bind_ok _ _ _ _ _ (find_type_ok _ _ _ Hb)) in H.
    cbn [is_unknown orb arith_base_ok] in H.
    destruct (Nat.eqb (length xs) (length ys)) eqn:El; [|discriminate]. apply PeanoNat.Nat.eqb_eq in El.
    eapply iter2_cmp; eassumption.
  Qed.

  Lemma cmp_all_ops op ts ts' : (op = Greater \/ op = Less) -> cmp_all Less ts ts' = true -> cmp_all op ts ts' = true.
  Proof. intros [-> | ->] H; [|exact H]. revert ts' H. induction ts as [|x ts IH]; intros [|y ts'] H; cbn in *; try discriminate; auto.
    apply andb_true_iff in H as [H1 H2]. rewrite (IH _ H2), andb_true_r. destruct x, y; cbn in *; congruence. Qed.

  Lemma cmp_all_eq op t : (op = Equals \/ op = NotEquals \/ op = AssertEq) -> cmp_all op t t = true.
  Proof. intros Hop. induction t as [|x t IH]; [reflexivity|]. cbn [cmp_all]. rewrite IH, andb_true_r.
    destruct Hop as [->|[->| ->]]; destruct x; reflexivity. Qed.

  (* ---- comparison of two tuples *)
  Lemma sound_tuple_cmp E op a b oa ob sp :
    cmp_like op = true ->
    sound2 E a oa -> sound2 E b ob ->
    (forall t, oa = Some t -> exists ts, t = Tup ts) -> (forall t, ob = Some t -> exists ts, t = Tup ts) ->
    sound2 E (EBinOp op a b sp) (match oa, ob with Some ta, Some tb => bin_ty2 op ta tb | _, _ => None end).
  Proof.
    intros Hop Sa Sb Ta Tb f ctx s r s' W HI H. destruct f as [|f]; [discriminate|]. apply expr_inv in H. unfold expr_body in H.
    apply bind_inv in H as ([er ex] & s1 & H1 & H).
    assert (Hb : exists con, (con = CEqu /\ (op = Equals \/ op = NotEquals \/ op = AssertEq) \/ con = CCmp /\ (op = Greater \/ op = Less)) /\
                             bin_op_ret G (afix f) sp ctx a b con HBool s = Ok ((er, ex), s1)).
    { destruct op; try discriminate Hop; [exists CEqu|exists CEqu|exists CCmp|exists CCmp|exists CEqu]; split; auto 6. }
    destruct Hb as (con & Hcon & Hb). clear H1.
    unfold bin_op_ret in Hb. apply bind_inv in Hb as ([r0 x0] & s2 & Hb & Hp).
    unfold bin_op in Hb.
    apply bind_inv in Hb as ([ar x] & sa & Ha & Hb).
    destruct (Sa _ _ _ _ _ W HI Ha) as (Wa & Ea & (ta & -> & Hx)). cbn [snd] in Hx.
    apply bind_inv in Hb as ([br y] & sb & Hbb & Hb).
    destruct (Sb _ _ _ _ _ Wa (env_ok2_ext _ _ _ W Ea HI) Hbb) as (Wb & Eb & (tb & -> & Hy)). cbn [snd] in Hy.
    destruct (Ta _ eq_refl) as [tsa ->]. destruct (Tb _ eq_refl) as [tsb ->].
    apply bind_inv in Hb as (u3 & s3 & H3 & Hb).
    destruct (add_constraint_spec _ _ _ _ _ Wb H3) as (W3 & E3 & Hd3 & _ & C3 & _).
    apply bind_inv in Hb as (u4 & s4 & H4 & Hb).
    destruct (add_constraint_spec _ _ _ _ _ W3 H4) as (W4 & E4 & Hd4 & _ & C4 & K4).
    apply bind_inv in Hb as (u5 & s5 & H5 & Hb).
    destruct (check_ok_con _ _ _ _ _ _ W4 (K4 _ _ C3) H5) as (g' & s6 & s7 & W6 & E6 & Hc & W7 & E7 & W5 & E75).
    apply bind_inv in Hb as (u6 & s8 & H8 & Hb).
    destruct (gp_check G PG _ _ _ _ _ W5 H8) as [W8 E8].
    apply bind_inv in Hb as (r' & s9 & H9 & Hb). injection Hb as <- <- <-.
    assert (P9 : pres (unify_option G sp ar br)) by prs. destruct (P9 _ _ _ W8 H9) as [W9 E9].
    apply bind_inv in Hp as (t & s10 & Hp & Hr). injection Hr as <- <- <-.
    destruct (push_spec _ _ _ _ W9 Hp) as (W10 & E10 & Ht).
    assert (Hx6 : has_ty s6 x (Tup tsa)).
    { eapply has_ty_ext; [|exact Hx]. eapply ext_trans; [exact Eb|]. eapply ext_trans; [exact E3|]. eapply ext_trans; [exact E4|exact E6]. }
    assert (Hy6 : has_ty s6 y (Tup tsb)).
    { eapply has_ty_ext; [|exact Hy]. eapply ext_trans; [exact E3|]. eapply ext_trans; [exact E4|exact E6]. }
    assert (Ty : bin_ty2 op (Tup tsa) (Tup tsb) = Some (Base TB)).
    { cbn [bin_ty2]. rewrite Hop. cbn [andb].
      destruct Hcon as [[-> Ho]|[-> Ho]]; cbn [check_one] in Hc.
      - apply bind_inv in Hc as (ru & s11 & Hu & _).
        destruct (unify_has_ty g' sp x y s6 ru s11 _ _ W6 Hu Hx6 Hy6) as (_ & _ & Eq & _). injection Eq as <-.
        rewrite (cmp_all_eq op tsa Ho). reflexivity.
      - rewrite (cmp_all_ops op tsa tsb Ho (arith_ok_tuple g' sp x y s6 tt s7 tsa tsb Hx6 Hy6 W6 Hc)). reflexivity. }
    destruct (tail_base g _ _ _ _ _ TB Ht H) as [-> ->].
    split; [assumption|]. split.
    { eapply ext_trans; [exact Ea|]. eapply ext_trans; [exact Eb|]. eapply ext_trans; [exact E3|]. eapply ext_trans; [exact E4|].
      eapply ext_trans; [exact E6|]. eapply ext_trans; [exact E7|]. eapply ext_trans; [exact E75|]. eapply ext_trans; [exact E8|].
      eapply ext_trans; [exact E9|exact E10]. }
    exists (Base TB). split; [exact Ty|exact Ht].
  Qed.
  (* ---- construction of a tuple *)
  Fixpoint all_some (l : list (option bty)) : option (list bty) :=
    match l with
    | [] => Some []
    | x :: r => match x, all_some r with Some t, Some ts => Some (t :: ts) | _, _ => None end
    end.

  Lemma foldM_tuple E sp f ctx : forall es obs acc tsacc s r s',
    wf s -> env_ok2 E s -> Forall2 (fun e ob => sound_expr kinds g (env_ok2 E) e ob) es obs ->
    Forall2 (fun y b => head s y = Some (bty_head b)) (snd acc) tsacc ->
    foldM (fun (acc : option tyid * list tyid) (v : expr) =>
             '(iret, t) <- r_expr (afix f) v ctx ;; r' <- unify_option G sp (fst acc) iret ;; ret (r', snd acc ++ [t])) es acc s
    = Ok (r, s') ->
    wf s' /\ ext s s' /\ exists ts, all_some obs = Some ts /\ Forall2 (fun y b => head s' y = Some (bty_head b)) (snd r) (tsacc ++ ts).
  Proof.
    induction es as [|e es IH]; intros obs acc tsacc s r s' W HI Hs Ha H; inversion Hs as [|e0 ob es0 obs0 He Hes]; subst; cbn [foldM] in H.
    - injection H as <- <-. split; [assumption|]. split; [apply ext_refl|]. exists []. split; [reflexivity|]. rewrite app_nil_r. exact Ha.
    - apply bind_inv in H as (acc1 & s1 & H1 & H).
      apply bind_inv in H1 as ([iret t] & s2 & Hr & H1).
      destruct (He _ _ _ _ _ W HI Hr) as (W2 & E2 & (b & -> & Hb)). cbn [snd] in Hb.
      apply bind_inv in H1 as (u & s3 & Hu & H1). injection H1 as <- <-.
      assert (Pu : pres (unify_option G sp (fst acc) iret)) by prs. destruct (Pu _ _ _ W2 Hu) as [W3 E3].
      assert (E03 : ext s s3) by (eapply ext_trans; eassumption).
      assert (Ha1 : Forall2 (fun y b0 => head s3 y = Some (bty_head b0)) (snd (u, snd acc ++ [t])) (tsacc ++ [b])).
      { cbn [snd]. apply Forall2_app.
        - eapply Forall2_imp; [|exact Ha]. intros c b0 Hc. exact (head_keep _ _ _ _ E03 Hc (rigid_bty b0)).
        - constructor; [|constructor]. exact (head_keep _ _ _ _ E3 Hb (rigid_bty b)). }
      destruct (IH _ _ _ _ _ _ W3 (env_ok2_ext _ _ _ W E03 HI) Hes Ha1 H) as (W4 & E4 & (ts & Hts & Hys)).
      split; [assumption|]. split; [eapply ext_trans; eassumption|].
      exists (b :: ts). cbn [all_some]. rewrite Hts. split; [reflexivity|]. rewrite <- app_assoc in Hys. exact Hys.
  Qed.

  Lemma sound_tuple E es obs sp :
    Forall2 (fun e ob => sound_expr kinds g (env_ok2 E) e ob) es obs ->
    sound2 E (ECollection CTuple es sp) (option_map Tup (all_some obs)).
  Proof.
    intros Hs f ctx s r s' W HI H. destruct f as [|f]; [discriminate|]. apply expr_inv in H. unfold expr_body in H.
    apply bind_inv in H as ([er ex] & s1 & H1 & H). cbv beta iota in H1.
    apply bind_inv in H1 as ([ret0 tys] & s3 & Hm & H1).
    destruct (foldM_tuple E sp f ctx _ _ (None, []) [] _ _ _ W HI Hs (Forall2_nil _) Hm) as (W3 & E3 & (ts & Hts & Hys)).
    cbn [snd app] in Hys.
    apply bind_inv in H1 as (t & s4 & Hp4 & H1). injection H1 as <- <- <-.
    destruct (push_spec _ _ _ _ W3 Hp4) as (W4 & E4 & Ht).
    assert (HT : has_ty s4 t (Tup ts)).
    { exists tys. split; [exact Ht|]. eapply Forall2_imp; [|exact Hys]. intros c b Hc. exact (head_keep _ _ _ _ E4 Hc (rigid_bty b)). }
    destruct (tail_noncopy _ _ _ _ _ _ HT H) as [-> ->].
    split; [assumption|]. split; [eapply ext_trans; eassumption|].
    exists (Tup ts). rewrite Hts. auto.
  Qed.

  (* ---- constant index *)
  Lemma sound_index E e oe i isp sp :
    sound2 E e oe -> (forall t, oe = Some t -> exists ts, t = Tup ts) ->
    sound2 E (EIndex e (EInt (Z.of_nat i) isp) sp)
           (match oe with Some (Tup ts) => option_map Base (nth_error ts i) | _ => None end).
  Proof.
    intros Se Te f ctx s r s' W HI H. destruct f as [|f]; [discriminate|]. apply expr_inv in H. unfold expr_body in H.
    apply bind_inv in H as ([er ex] & s1 & H1 & H). cbv beta iota in H1.
    apply bind_inv in H1 as ([vret v] & sa & Hv & H1).
    destruct (Se _ _ _ _ _ W HI Hv) as (Wa & Ea & (t & -> & Hvt)). cbn [snd] in Hvt. destruct (Te _ eq_refl) as [ts ->].
    apply bind_inv in H1 as ([iret i0] & sb & Hi & H1).
    destruct (lit_spec kinds G f (EInt (Z.of_nat i) isp) HInt ctx sa _ sb eq_refl eq_refl Wa Hi) as (Wb & Eb & _).
    apply bind_inv_pres0 in H1 as (int_t & s2 & _ & W2 & E2 & H1); [|apply pres_push|assumption].
    apply bind_inv_pres0 in H1 as (u3 & s3 & _ & W3 & E3 & H1); [|apply (TcInv.pres_unify G PG)|assumption].
    apply bind_inv_pres0 in H1 as (ex0 & s4 & _ & W4 & E4 & H1); [|apply pres_push|assumption].
    apply bind_inv in H1 as (u5 & s5 & H5 & H1).
    destruct (add_constraint_spec _ _ _ _ _ W4 H5) as (W5 & E5 & _ & _ & C5 & _).
    apply bind_inv in H1 as (u6 & s6 & H6 & H1).
    destruct (check_ok_con _ _ _ _ _ _ W5 C5 H6) as (g' & s7 & s8 & W7 & E7 & Hc & W8 & E8 & W6 & E86).
    apply bind_inv_pres0 in H1 as (u9 & s9 & _ & W9 & E9 & H1); [|apply (gp_check G PG)|assumption].
    apply bind_inv in H1 as (r' & s10 & H10 & H1). injection H1 as <- <- <-.
    assert (P10 : pres (unify_option G sp vret iret)) by prs. destruct (P10 _ _ _ W9 H10) as [W10 E10].
    (* the constraint: the indexed component and the result are one class *)
    assert (Ea7 : ext sa s7).
    { eapply ext_trans; [exact Eb|]. eapply ext_trans; [exact E2|]. eapply ext_trans; [exact E3|]. eapply ext_trans; [exact E4|].
      eapply ext_trans; [exact E5|exact E7]. }
    destruct (has_ty_ext _ _ _ _ Ea7 Hvt) as (ys & Hh7 & Hys7).
    cbn [check_one] in Hc. unfold constant_index in Hc.
    rewrite (bind_ok _ _ _ _ _ (find_type_ok _ _ _ Hh7)) in Hc.
    assert (Z.ltb (Z.of_nat i) 0 = false) by (apply Z.ltb_ge; lia). rewrite H0, Nat2Z.id in Hc.
    destruct (nth_error ys i) as [y|] eqn:Ey; [|discriminate].
    apply bind_inv in Hc as (ru & s11 & Hu & Hc). injection Hc as <-.
    destruct (Forall2_nth _ _ _ Hys7) as [Hl Hn].
    destruct (nth_error_same_length ys ts i y Hl Ey) as [b Eb'].
    pose proof (Hn _ _ _ Ey Eb') as Hy7.
    destruct (unify_result_head _ _ _ _ _ _ _ W7 Hu) as (_ & E11 & _ & Heq).
    assert (Hex : head s10 ex0 = Some (bty_head b)).
    { eapply head_keep; [|rewrite <- Heq; exact (head_keep _ _ _ _ E11 Hy7 (rigid_bty b))|apply rigid_bty].
      eapply ext_trans; [exact E86|]. eapply ext_trans; [exact E9|exact E10]. }
    destruct (tail_base g _ _ _ _ _ _ Hex H) as [-> ->].
    split; [assumption|]. split.
    { eapply ext_trans; [exact Ea|]. eapply ext_trans; [exact Ea7|]. eapply ext_trans; [exact E8|]. eapply ext_trans; [exact E86|].
      eapply ext_trans; [exact E9|exact E10]. }
    exists (Base b). rewrite Eb'. auto.
  Qed.

  (* ---- if over any two branches of one type *)
  Lemma block_single2 E a oa sp sp1 f ctx s r ov s' :
    sound2 E a oa -> wf s -> env_ok2 E s ->
    expression_block G (afix f) sp [SStatementExpression a sp1] ctx s = Ok ((r, ov), s') ->
    wf s' /\ ext s s' /\ exists ta v, oa = Some ta /\ ov = Some v /\ has_ty s' v ta.
  Proof.
    intros Sa W HI H. unfold expression_block in H. cbn [block_split fst snd foldM] in H.
    apply bind_inv in H as (r1 & s1 & H1 & H). injection H1 as <- <-.
    apply bind_inv in H as ([vret v] & s5 & He2 & H).
    destruct (Sa _ _ _ _ _ W HI He2) as (W5 & E5 & (ta & -> & Hv)). cbn [snd] in Hv.
    apply bind_inv in H as (r' & s6 & H6 & H). injection H as _ <- <-.
    assert (P6 : pres (unify_option G sp None vret)) by prs. destruct (P6 _ _ _ W5 H6) as [W6 E6].
    split; [assumption|]. split; [eapply ext_trans; eassumption|].
    exists ta, v. repeat split. exact (has_ty_ext _ _ _ _ E6 Hv).
  Qed.

  Definition if_ty2 (oc oa ob : option ty2) : option ty2 :=
    match oc, oa, ob with
    | Some (Base TB), Some ta, Some tb => if ty2_eqb ta tb then Some ta else None
    | _, _, _ => None
    end.

  Lemma sound_if2 E c a b oc oa ob sp :
    sound2 E c oc -> (forall t, oc = Some t -> exists b0, t = Base b0) -> sound2 E a oa -> sound2 E b ob ->
    sound2 E (EIf [IfBranch (Some c) [SStatementExpression a sp] sp; IfBranch None [SStatementExpression b sp] sp] sp)
           (if_ty2 oc oa ob).
  Proof.
    intros Sc Tc Sa Sb f ctx s r s' W HI H. destruct f as [|f]; [discriminate|]. apply expr_inv in H. unfold expr_body in H.
    apply bind_inv in H as ([er ex] & s1 & H1 & H). cbv beta iota in H1.
    apply bind_inv in H1 as (tys & s2 & Hm & H1). cbn [mapM] in Hm.
    apply bind_inv in Hm as ([r1 v1] & s3 & Hb1 & Hm). unfold if_branch in Hb1.
    apply bind_inv in Hb1 as (cret & s4 & Hc & Hb1).
    apply bind_inv in Hc as ([cr ct] & s5 & Hce & Hc).
    destruct (Sc _ _ _ _ _ W HI Hce) as (W5 & E5 & (tc0 & -> & Hct)). cbn [snd] in Hct.
    destruct (Tc _ eq_refl) as [tc ->]. cbn [has_ty] in Hct.
    apply bind_inv in Hc as (bo & s6 & Hp & Hc). destruct (push_spec _ _ _ _ W5 Hp) as (W6 & E6 & Hbo).
    apply bind_inv in Hc as (u7 & s7 & H7 & Hc). injection Hc as <- <-.
    destruct (unify_result_head _ _ _ _ _ _ _ W6 H7) as (W7 & E7 & _ & _).
    assert (Tcb : tc = TB).
    { destruct (bty_eqb TB tc) eqn:Eq; [symmetry; now apply bty_eqb_eq|]. exfalso.
      eapply (unify_rejects g _ bo ct s6 HBool (bty_head tc) W6 Hbo); eauto using rigid_known, rigid_bty.
      - eapply head_keep; [exact E6|exact Hct|apply rigid_bty].
      - rewrite <- (shape_bty TB tc) in Eq. exact Eq. }
    subst tc.
    assert (I7 : env_ok2 E s7)
      by (eapply env_ok2_ext; [exact W| |exact HI]; eapply ext_trans; [exact E5|]; eapply ext_trans; [exact E6|exact E7]).
    apply bind_inv in Hb1 as ([bret bval] & s8 & Hblk & Hb1).
    destruct (block_single2 _ _ _ _ _ _ _ _ _ _ _ Sa W7 I7 Hblk) as (W8 & E8 & (ta & va & -> & -> & Hva)).
    apply bind_inv in Hb1 as (ru & s9 & H9 & Hb1). injection Hb1 as <- <- <-.
    assert (P9 : pres (unify_option G sp cr bret)) by prs. destruct (P9 _ _ _ W8 H9) as [W9 E9].
    assert (I9 : env_ok2 E s9) by (eapply env_ok2_ext; [exact W7| |exact I7]; eapply ext_trans; [exact E8|exact E9]).
    apply bind_inv in Hm as (ys & s10 & Hm & Hr). injection Hr as <- <-.
    apply bind_inv in Hm as ([r2 v2] & s11 & Hb2 & Hm). apply bind_inv in Hm as (ys' & s12 & Hn & Hm).
    injection Hn as <- <-. injection Hm as <- <-.
    unfold if_branch in Hb2. rewrite (bind_ok (ret None) _ s9 None s9 eq_refl) in Hb2.
    apply bind_inv in Hb2 as ([bret2 bval2] & s13 & Hblk2 & Hb2).
    destruct (block_single2 _ _ _ _ _ _ _ _ _ _ _ Sb W9 I9 Hblk2) as (W13 & E13 & (tb & vb & -> & -> & Hvb)).
    apply bind_inv in Hb2 as (ru2 & s14 & H14 & Hb2). injection Hb2 as <- <- <-.
    assert (P14 : pres (unify_option G sp None bret2)) by prs. destruct (P14 _ _ _ W13 H14) as [W14 E14].
    cbn [last_branch] in H1.
    apply bind_inv in H1 as (rr & s15 & Hfr & H1).
    assert (Pfr : pres (foldM (fun (acc : option tyid) (b0 : option tyid * option tyid) => unify_option G sp (fst b0) acc)
                              [(ru, Some va); (ru2, Some vb)] None)) by prs.
    destruct (Pfr _ _ _ W14 Hfr) as [W15 E15].
    apply bind_inv in H1 as (value & s16 & Hfv & H1). cbn [foldM fst snd unify_option] in Hfv.
    rewrite (bind_ok (ret (Some va)) _ s15 (Some va) s15 eq_refl) in Hfv.
    apply bind_inv in Hfv as (b'' & s17 & Hu & Hfv). injection Hfv as <- <-.
    apply bind_inv in Hu as (u & s18 & Hu & Hr). injection Hr as <- <-.
    assert (Hva15 : has_ty s15 va ta).
    { eapply has_ty_ext; [|exact Hva]. eapply ext_trans; [exact E9|]. eapply ext_trans; [exact E13|].
      eapply ext_trans; [exact E14|exact E15]. }
    assert (Hvb15 : has_ty s15 vb tb) by (eapply has_ty_ext; [|exact Hvb]; eapply ext_trans; [exact E14|exact E15]).
    destruct (unify_has_ty g sp vb va s15 u s18 tb ta W15 Hu Hvb15 Hva15) as (W18 & E18 & Eq & Hu18). subst tb.
    (* no branch falls through: both end in an expression statement *)
    cbn [existsb if_falls falls_through last_stmt orb] in H1.
    rewrite (bind_ok (ret (Some u)) _ s18 (Some u) s18 eq_refl) in H1.
    apply bind_inv in H1 as (v & s19 & Hv & H1). cbn [value_or_ret] in Hv. injection Hv as <- <-. injection H1 as <- <- <-.
    destruct (tail_noncopy _ _ _ _ _ _ Hu18 H) as [-> ->].
    split; [assumption|]. split.
    { eapply ext_trans; [exact E5|]. eapply ext_trans; [exact E6|]. eapply ext_trans; [exact E7|].
      eapply ext_trans; [exact E8|]. eapply ext_trans; [exact E9|]. eapply ext_trans; [exact E13|].
      eapply ext_trans; [exact E14|]. eapply ext_trans; [exact E15|exact E18]. }
    exists ta. split; [|assumption]. cbn [if_ty2]. rewrite ty2_eqb_refl. reflexivity.
  Qed.
End Accepted2.

Section Main2.
  Variable kinds : PositiveMap.t varkind.
  Variable g : nat.
  Notation G := (gfix g).
  Notation afix := (afix kinds G).
  Let PG : gpres G := gfix_pres g.
  Let PA f : apres (afix f) := afix_pres kinds G PG f.
  Notation S2 E := (sound2 kinds g E).
  Notation SE E := (sound_expr kinds g (env_ok2 E)).

  Lemma all_some_go E es ts :
    all_some (map (fun x => proj (ty2of E x)) es) = Some ts ->
    (fix go l := match l with
                 | [] => Some []
                 | x :: r => match ty2of E x, go r with Some (Base t), Some ts => Some (t :: ts) | _, _ => None end
                 end) es = Some ts.
  Proof.
    revert ts. induction es as [|x es IH]; intros ts H; cbn [map all_some] in H; [exact H|].
    destruct (ty2of E x) as [[t|]|]; cbn [proj] in H; try discriminate.
    destruct (all_some (map (fun x0 => proj (ty2of E x0)) es)) as [ts'|]; [|discriminate]. injection H as <-.
    rewrite (IH _ eq_refl). reflexivity.
  Qed.

  Theorem accepted_typed2 E sp : forall e sh, shp (shapes E) e = Some sh -> S2 E (to_expr2 sp e) (ty2of E e).
  Proof.
    pose proof (env_ok2_ext E) as IE.
    fix IH 1. intros e sh Hs.
    assert (DN : forall a, shp (shapes E) a = Some SB -> S2 E (to_expr2 sp a) (ty2of E a) -> SE E (to_expr2 sp a) (proj (ty2of E a))).
    { intros a Ha Sa. apply down; [|exact Sa]. intros t Ht. exact (base_of_shape E a t Ha Ht). }
    destruct e as [z|x|s|b|op a b|op a|c a b|x|es|e i]; cbn [to_expr2 ty2of shp] in *.
    - exact (up kinds g E (EInt z sp) (Some TI) (sound_lit kinds g _ (EInt z sp) TI eq_refl)).
    - exact (up kinds g E (EFloat x sp) (Some TF) (sound_lit kinds g _ (EFloat x sp) TF eq_refl)).
    - exact (up kinds g E (EStr s sp) (Some TS) (sound_lit kinds g _ (EStr s sp) TS eq_refl)).
    - exact (up kinds g E (EBool b sp) (Some TB) (sound_lit kinds g _ (EBool b sp) TB eq_refl)).
    - (* binary operators *)
      destruct (shp (shapes E) a) as [[|n]|] eqn:Ha; try (destruct op; discriminate);
        destruct (shp (shapes E) b) as [[|m]|] eqn:Hb; try (destruct op; discriminate).
      + (* base operands *)
        pose proof (DN a Ha (IH a _ Ha)) as Sa. pose proof (DN b Hb (IH b _ Hb)) as Sb.
        assert (Sop : SE E (EBinOp op (to_expr2 sp a) (to_expr2 sp b) sp) (lift2 (bin_ty op) (proj (ty2of E a)) (proj (ty2of E b)))).
        { destruct op; try discriminate.
          - apply (sound_equ kinds g _ IE); auto.
          - apply (sound_equ kinds g _ IE); auto.
          - apply (sound_cmp kinds g _ IE); auto.
          - apply (sound_cmpequ kinds g _ IE); auto.
          - apply (sound_cmp kinds g _ IE); auto.
          - apply (sound_cmpequ kinds g _ IE); auto.
          - apply (sound_equ kinds g _ IE); auto.
          - apply (sound_arith kinds g _ IE Add AAdd); auto.
          - apply (sound_arith kinds g _ IE Sub ASub); auto.
          - apply (sound_arith kinds g _ IE Mul AMul); auto 6.
          - apply (sound_andor kinds g _ IE); auto.
          - apply (sound_andor kinds g _ IE); auto. }
        eapply sound2_weaken; [|exact (up kinds g E _ _ Sop)].
        intros t. destruct (ty2of E a) as [[ta|]|], (ty2of E b) as [[tb|]|]; cbn; try discriminate; auto.
      + (* tuples *)
        assert (Hc : cmp_like op = true /\ Nat.eqb n m = true).
        { destruct op; try discriminate; destruct (Nat.eqb n m); cbn in Hs; try discriminate; auto. }
        destruct Hc as [Hc _].
        apply (sound_tuple_cmp kinds g E op _ _ _ _ sp Hc (IH a _ Ha) (IH b _ Hb)).
        * intros t Ht. exact (tup_of_shape E a n t Ha Ht).
        * intros t Ht. exact (tup_of_shape E b m t Hb Ht).
    - (* unary operators *)
      destruct (shp (shapes E) a) as [[|n]|] eqn:Ha; try discriminate.
      pose proof (DN a Ha (IH a _ Ha)) as Sa.
      assert (Sop : SE E (EUniOp op (to_expr2 sp a) sp) (match proj (ty2of E a) with Some t => un_ty op t | None => None end)).
      { destruct op; [apply (sound_neg kinds g)|apply (sound_not kinds g)]; assumption. }
      eapply sound2_weaken; [|exact (up kinds g E _ _ Sop)].
      intros t. destruct (ty2of E a) as [[ta|]|]; cbn; try discriminate; auto.
    - (* if *)
      destruct (shp (shapes E) c) as [[|n]|] eqn:Hc; try discriminate.
      destruct (shp (shapes E) a) as [sa|] eqn:Ha; [|discriminate]. destruct (shp (shapes E) b) as [sb|] eqn:Hb; [|discriminate].
      apply (sound_if2 kinds g E _ _ _ _ _ _ sp (IH c _ Hc)); [|exact (IH a _ Ha)|exact (IH b _ Hb)].
      intros t Ht. exact (base_of_shape E c t Hc Ht).
    - (* read *)
      rewrite shlookup_shapes in Hs. destruct (tlookup2 E x) as [t|] eqn:L; [|discriminate]. now apply sound_read2.
    - (* tuple *)
      rewrite to_expr2_go.
      match type of Hs with (if ?c then _ else _) = _ => destruct c eqn:Hall end; [|discriminate].
      assert (F : Forall2 (fun e ob => SE E e ob) (map (to_expr2 sp) es) (map (fun x => proj (ty2of E x)) es)).
      { clear Hs. induction es as [|x es IHes]; cbn [map]; [constructor|].
        destruct (shp (shapes E) x) as [[|n]|] eqn:Hx; try discriminate.
        constructor; [exact (DN x Hx (IH x _ Hx))|exact (IHes Hall)]. }
      eapply sound2_weaken; [|exact (sound_tuple kinds g E _ _ sp F)].
      intros t Ht. destruct (all_some (map (fun x => proj (ty2of E x)) es)) as [ts|] eqn:Ea; [|discriminate].
      injection Ht as <-. rewrite (all_some_go E es ts Ea). reflexivity.
    - (* index *)
      destruct (shp (shapes E) e) as [[|n]|] eqn:He; try discriminate.
      apply (sound_index kinds g E _ _ i sp sp (IH e _ He)). intros t Ht. exact (tup_of_shape E e n t He Ht).
  Qed.

  Lemma to_expr2_not_fn sp e {A} (k1 : list (string * N * span * ty) -> ty -> bool -> M A) (d : M A) :
    match to_expr2 sp e with EFunction _ params rty _ pure _ => k1 params rty pure | _ => d end = d.
  Proof. destruct e; reflexivity. Qed.

  Lemma env_ok2_cons E x t s :
    env_ok2 E s -> has_ty s (N.succ_pos x) t -> env_ok2 ((x, t) :: E) s.
  Proof.
    intros H Hx y ty L. cbn [tlookup2] in L. destruct (N.eqb_spec y x) as [->|N]; [injection L as <-; exact Hx|exact (H _ _ L)].
  Qed.

  Lemma accepted_stmt2 E sp st f ctx s r s' S' :
    shp_stmt (shapes E) st = Some S' ->
    wf s -> env_ok2 E s -> r_stmt (afix f) (to_stmt2 sp st) ctx s = Ok (r, s') ->
    wf s' /\ ext s s' /\ exists E', ty_stmt2 E st = Some E' /\ env_ok2 E' s' /\ S' = shapes E'.
  Proof.
    intros Hf W HI H. destruct (ap_stmt _ (PA f) _ _ _ _ _ W H) as [W' X']. split; [assumption|]. split; [assumption|].
    destruct f as [|f]; [discriminate|]. cbn [Tc.afix astep r_stmt] in H.
    destruct st as [x k e|x e|e]; cbn [ty_stmt2 shp_stmt to_stmt2] in *.
    - destruct (shp (shapes E) e) as [sh|] eqn:Hs; [|discriminate]. injection Hf as <-.
      unfold stmt_body, definition in H. destruct (inside_pure ctx && negb (immutable k)); [discriminate|].
      apply bind_inv in H as (vt & s0 & Hv & Hd). apply ShapesDecl_var_ty_inv in Hv as [-> ->].
      rewrite to_expr2_not_fn in Hd. rewrite (bind_ok (ret tt) _ s tt s eq_refl) in Hd.
      apply bind_inv_pres0 in Hd as (dt & s2 & Hr & W2 & E2 & Hd); [|apply pres_resolve_type, PA|assumption].
      apply bind_inv_pres0 in Hd as (u3 & s3 & Hc & W3 & E3 & Hd); [|apply pres_add_constraint|assumption].
      apply bind_inv_pres0 in Hd as (u4 & s4 & Hu & W4 & E4 & Hd); [|apply (TcInv.pres_unify G PG)|assumption].
      apply bind_inv in Hd as ([vr vty] & s5 & He & Hd).
      assert (E04 : ext s s4) by (eapply ext_trans; [exact E2|]; eapply ext_trans; [exact E3|exact E4]).
      destruct (accepted_typed2 E sp e sh Hs _ _ _ _ _ W4 (env_ok2_ext _ _ _ W E04 HI) He) as (W5 & E5 & (t & Ety & Hvty)).
      cbn [snd] in Hvty. rewrite Ety.
      apply bind_inv in Hd as (u6 & s6 & Hu6 & Hd). injection Hd as _ <-.
      destruct (unify_result_head _ _ _ _ _ _ _ W5 Hu6) as (W6 & E6 & _ & Heq6).
      exists ((x, t) :: E). split; [reflexivity|]. split.
      + apply env_ok2_cons.
        * eapply env_ok2_ext; [exact W| |exact HI]. eapply ext_trans; [exact E04|]. eapply ext_trans; [exact E5|exact E6].
        * apply (has_ty_head _ _ _ _ (eq_sym Heq6)). exact (has_ty_ext _ _ _ _ E6 Hvty).
      + cbn [shapes map fst snd]. rewrite (shape_ty E e sh t Hs Ety). reflexivity.
    - destruct (shp (shapes E) e) as [sa|] eqn:Hs; [|discriminate]. destruct (shlookup (shapes E) x) as [sx|] eqn:Hx; [|discriminate].
      destruct (shape_eqb sa sx); [|discriminate]. injection Hf as <-.
      rewrite shlookup_shapes in Hx. destruct (tlookup2 E x) as [tx|] eqn:Lx; [|discriminate].
      unfold stmt_body in H.
      apply bind_inv in H as (u0 & s0 & Hca & H).
      assert (s0 = s).
      { unfold can_assign in Hca. apply bind_inv in Hca as (kd & sk & Hk & Hca).
        assert (sk = s) by (unfold var_kind in Hk; destruct (PositiveMap.find _ kinds); [now injection Hk|discriminate]).
        subst sk. destruct (immutable kd); [discriminate|]. now injection Hca. }
      subst s0. destruct (inside_pure ctx); [discriminate|].
      apply bind_inv in H as ([er ety] & s1 & He & H).
      destruct (accepted_typed2 E sp e sa Hs _ _ _ _ _ W HI He) as (W1 & E1 & (t & Ety & Hety)). cbn [snd] in Hety. rewrite Ety.
      apply bind_inv in H as ([tr tty] & s2 & Ht & H).
      destruct (sound_read2 kinds g E x tx sp Lx _ _ _ _ _ W1 (env_ok2_ext _ _ _ W E1 HI) Ht) as (W2 & E2 & (t' & Et' & Htty)).
      injection Et' as <-. cbn [snd] in Htty.
      rewrite (bind_ok (ret tt) _ s2 tt s2 eq_refl) in H.
      apply bind_inv in H as (u3 & s3 & Hu & H).
      apply bind_inv in Hu as (u4 & s4 & Hu & _).
      destruct (unify_has_ty g sp ety tty s2 u4 s4 t tx W2 Hu (has_ty_ext _ _ _ _ E2 Hety) Htty) as (_ & _ & Eq & _). subst tx.
      rewrite ty2_eqb_refl. exists E. split; [reflexivity|]. split; [exact (env_ok2_ext _ _ _ W X' HI)|reflexivity].
    - destruct (shp (shapes E) e) as [sa|] eqn:Hs; [|discriminate]. injection Hf as <-.
      unfold stmt_body in H. apply bind_inv in H as ([er ety] & s1 & He & H). injection H as _ <-.
      destruct (accepted_typed2 E sp e sa Hs _ _ _ _ _ W HI He) as (W1 & E1 & (t & Ety & _)). rewrite Ety.
      exists E. split; [reflexivity|]. split; [exact (env_ok2_ext _ _ _ W X' HI)|reflexivity].
  Qed.

  Lemma accepted_stmts2 sp f ctx : forall ss E e acc s r s',
    frag2 (shapes E) ss e = true -> wf s -> env_ok2 E s ->
    foldM (fun (acc : option tyid) (st : stmt) => sr <- r_stmt (afix f) st ctx ;; unify_option G sp acc sr)
          (map (to_stmt2 sp) ss) acc s = Ok (r, s') ->
    wf s' /\ ext s s' /\ exists E' sh, ty_stmts2 E ss = Some E' /\ env_ok2 E' s' /\ shp (shapes E') e = Some sh.
  Proof.
    induction ss as [|st ss IH]; intros E e acc s r s' Hf W HI H; cbn [map foldM frag2] in *.
    - injection H as <- <-. split; [assumption|]. split; [apply ext_refl|].
      destruct (shp (shapes E) e) as [sh|] eqn:Hs; [|discriminate].
      exists E, sh. split; [reflexivity|]. split; [exact HI|exact Hs].
    - destruct (shp_stmt (shapes E) st) as [S'|] eqn:Hst; [|discriminate].
      apply bind_inv in H as (acc1 & s1 & H1 & H).
      apply bind_inv in H1 as (sr & s2 & Hs & Hu).
      destruct (accepted_stmt2 E sp st f ctx s sr s2 S' Hst W HI Hs) as (W2 & E2 & (E1 & Ty1 & EO1 & ->)).
      assert (Pu : pres (unify_option G sp acc sr)) by (pose proof PG; prs).
      destruct (Pu _ _ _ W2 Hu) as [W1 X1].
      destruct (IH E1 e acc1 s1 r s' Hf W1 (env_ok2_ext _ _ _ W2 X1 EO1) H) as (W' & X' & (E' & sh & Tys & EO' & Hfe)).
      split; [assumption|]. split; [eapply ext_trans; [exact E2|]; eapply ext_trans; eassumption|].
      exists E', sh. cbn [ty_stmts2]. rewrite Ty1. auto.
  Qed.

  Theorem accepted_block2 sp ss e f ctx s r ov s' :
    frag2 [] ss e = true -> wf s ->
    expression_block G (afix f) sp (to_block2 sp ss e) ctx s = Ok ((r, ov), s') ->
    exists t v, ty_block2 [] ss e = Some t /\ ov = Some v /\ has_ty s' v t.
  Proof.
    intros Hf W H. unfold expression_block, to_block2 in H. rewrite block_split_snoc in H. cbn [fst snd] in H.
    apply bind_inv in H as (r1 & s1 & H1 & H).
    assert (EO : env_ok2 [] s) by (intros x t L; discriminate).
    destruct (accepted_stmts2 sp f ctx ss [] e None s r1 s1 Hf W EO H1) as (W1 & E1 & (E' & sh & Tys & EO' & Hfe)).
    apply bind_inv in H as ([vret v] & s2 & He & H).
    destruct (accepted_typed2 E' sp e sh Hfe _ _ _ _ _ W1 EO' He) as (W2 & E2 & (t & Ety & Hv)). cbn [snd] in Hv.
    apply bind_inv in H as (r' & s3 & Hu & H). injection H as <- <- <-.
    assert (Pu : pres (unify_option G sp r1 vret)) by (pose proof PG; prs).
    destruct (Pu _ _ _ W2 Hu) as [W3 E3].
    exists t, v. unfold ty_block2. rewrite Tys. split; [exact Ety|]. split; [reflexivity|]. exact (has_ty_ext _ _ _ _ E3 Hv).
  Qed.
End Main2.

(* ================================================================== C02_E2 *)

(* If the type checker accepts a block of the tuple fragment, the tagged evaluator does not get stuck on it: it returns
   a value (a base value or a tuple of base values) whose tag -- a base type, or the list of the components' base types --
   is the type the class of the block's value has in the type graph. *)
Theorem C02_E2 : forall farith fneg fcmp of_int scmp kinds g f ctx sp ss (e : e2) s r ov s',
  frag2 [] ss e = true -> wf s ->
  expression_block (gfix g) (afix kinds (gfix g) f) sp (to_block2 sp ss e) ctx s = Ok ((r, ov), s') ->
  exists v t c, run2 farith fneg fcmp of_int scmp [] ss e = Some v /\ tag2 v = t /\ ov = Some c /\ has_ty s' c t.
Proof.
  intros farith fneg fcmp of_int scmp kinds g f ctx sp ss e s r ov s' Hf W H.
  destruct (accepted_block2 kinds g sp ss e f ctx s r ov s' Hf W H) as (t & c & Ty & -> & Hh).
  assert (SO : store_ok2 [] []) by (intros x tx L; discriminate).
  destruct (typed_run2 farith fneg fcmp of_int scmp ss [] [] e t SO Ty) as (v & Hv & Tv).
  exists v, t, c. auto.
Qed.
