-- expect-wf: bad undefined label 'nowhere'
goto nowhere
