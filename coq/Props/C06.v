(* C06 -- every accepted program yields loadable Lua.  Pinned statements only.
   The claim "the interpreter loads the chunk" is decided on the REAL emitted text by the lua_wf model
   (coq/Lua/LuaWf.v) in the check; the theorems here cover, for all programs, the structural reasons
   for which a chunk could fail to load that depend on the source program's contents. *)
From Coq Require Import String List NArith ZArith Bool.
From Sylt Require Import Syntax.Resolved Back.IR Back.Emit Back.Scope Back.RScope Back.ScopeProofs Back.EmitProofs.
Import ListNotations.

(* blocks (function/if/else/loop ... end) are balanced and every assignment target is a real local,
   never an inlined temporary -- for every lexically scoped resolved program *)
Theorem C06_blocks_balanced : forall (fuel : nat) (r : resolved) (code : list ir),
  rs_resolved fuel r = true -> lower fuel r = Ok code -> exists l, scope_run [[]] code = Some [l].
Proof.
  intros fuel r code H1 H2. pose proof (lower_scoped fuel r code H1 H2) as H. unfold ir_scoped in H.
  destruct (scope_run [[]] code) as [[|l [|? ?]]|]; try discriminate. eauto.
Qed.

(* whatever bytes a Sylt string literal contains, the emitted literal is free of raw line breaks,
   unescaped quotes and malformed escapes, and the Lua lexer reads back exactly the original bytes *)
Theorem C06_string_literal_roundtrip : forall s : string,
  lua_unescape (S (String.length s)) (lua_escape s) = Some s.
Proof. exact lua_unescape_escape. Qed.

(* whatever a blob field is called, the emitter never writes a Lua reserved word after `.` or as a bare
   table-constructor key: reserved names are written in bracket form *)
Theorem C06_field_names_safe : forall name : string,
  (is_lua_keyword name = false /\ lua_field name = ("." ++ name)%string /\ lua_key name = name) \/
  (is_lua_keyword name = true /\ lua_field name = ("[" ++ lua_string name ++ "]")%string /\
   lua_key name = ("[" ++ lua_string name ++ "]")%string).
Proof. exact lua_field_safe. Qed.

Example C06_example_string : lua_string ("a\b" ++ String (Ascii.ascii_of_N 10) "c") = """a\\b\nc"""%string.
Proof. vm_compute. reflexivity. Qed.
Example C06_example_field : lua_field "then" = "[""then""]"%string /\ lua_field "x" = ".x"%string.
Proof. split; vm_compute; reflexivity. Qed.

Print Assumptions C06_blocks_balanced.
Print Assumptions C06_string_literal_roundtrip.
Print Assumptions C06_field_names_safe.
