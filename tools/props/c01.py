"""C01 -- compiled Lua behaves as the Sylt source denotes (reference interpreter vs Lua interpreter model)."""
import collections
import glob
import json
import os

import lua_run
import prog_gen
import resolved_io
import vlib

GEN = ["GenSrcDigest"]
LEVEL = "proof"
TRUSTED = [
    "for the THEOREM C01_fragment_preservation (Coq, all programs of the fragment coq/Pres/Frag.v): Coq 8.16.1 kernel, no axioms; the definitions SyltSem (source semantics), LuaCore (Lua 5.3 semantics), Back/IR.v lower, Pres/EmitAst.v emit_ast; the run-time tie 'emit_ast' (parse of the real chunk == pre_block ++ emit_ast code, evaluated by the extracted code: ocaml/pres_driver.ml, OCaml structural equality) and the byte tie of Back/IR.v with the real compiler (C10)",
    "coq/Sem/SyltSem.v: the reference interpreter for resolved Sylt programs (the definition of 'what the source denotes'); operators, printing and structural comparison are those of Sem/Runtime.v",
    "coq/Lua/LuaCore.v (dialect Lua 5.3): the interpreter that runs the REAL emitted chunk incl. the real preamble.lua; it is the definition of Lua's behaviour here (no real interpreter exists in the sandbox)",
    "the cfg-guarded hook sylt_compiler::verif::phases (the reference interpreter runs on the real resolver's output) and tools/resolved_io.py",
    "extraction (ExtrOcamlBasic + ExtrOcamlString only), ocaml/sem_driver.ml, ocaml/lua_driver.ml",
    "Coq 8.16.1 kernel for the supporting theorems (C10_lower_scoped, C06 lemmas); no axioms",
]
ASSUMPTIONS = ["numbers: ints are unbounded (no 64-bit wrap), floats and division are outside the compared fragment",
               "programs run with --no-std and declare `print` themselves; programs the reference interpreter cannot handle (OUnsup) are skipped and counted"]
EXPLANATION = ("THEOREM for a fragment + validation beyond it. C01_fragment_preservation (Coq, closed under the global context): for every resolved "
               "program in the computable fragment coq/Pres/Frag.v (stage 4l: print external + top-level global values and top-level functions with parameters, called by name, recursion and early `ret e` included, in any order the resolver gives them, start (no parameters) among them; LOCAL functions in any statement list (function bodies, blocks, loop bodies, if-branches) that capture and assign the mutable locals of the enclosing functions -- every pass of a loop its own closure -- called by name, and functions (top-level, local closures, function parameters) passed BY NAME, and LAMBDA expressions passed, to parameters of function type and called there; FUNCTIONS THAT RETURN CLOSURES over the parameters and locals of the call (a new closure per call; passed on to a function parameter, returned again, or named by a constant `c :: mk(1)` and called / passed on by that name, or called where it is computed `mk(1)(2)`); bodies have definitions of int/bool/string "
               "expressions, assignments = += -= *=, print calls, + - *, comparisons, <=>, and/or/not, unary minus, if/elif/else expressions and "
               "statements, loops with break and continue (loop condition without if-expressions), nested blocks), if the lowering gives IR `code` and "
               "the reference interpreter ends with done/assert/unreachable, then LuaCore running the statements of the real preamble.lua followed "
               "by emit_ast code prints the same lines and ends the same way, for every sufficiently large fuel. The tie component 'emit_ast' checks "
               "on every accepted program that the Lua parser model reads the REAL compiler output as exactly that abstract syntax, and evaluates "
               "`frag` on the real resolver output (programs_in_fragment). Beyond the fragment: per-program validation: for generated well-typed programs dense in recursion, closures over "
               "mutable variables, if/case expressions held across calls, short-circuit operators, loops with break/continue, early ret, blobs, "
               "enums, tuples, lists and globals, the trace and final outcome of the REAL emitted Lua run in the Coq Lua 5.3 interpreter must equal "
               "those of the Coq reference interpreter run on the real resolver output. The full statement C01_full is left as a Prop.")

_m = {}


def build(ctx):
    ok, exe, out = vlib.build_ocaml("sem", "ExtractSem.v", "sem_driver.ml", "semmodel", includes=["rast_reader.ml"])
    _m["sem"] = exe
    if not ok:
        return ok, out
    try:
        lua_run.build()
    except Exception as e:
        return False, str(e)
    ok, exe, out = vlib.build_ocaml("pres", "ExtractPres.v", "pres_driver.ml", "presmodel", includes=["rast_reader.ml"])
    _m["pres"] = exe
    if not ok:
        return ok, out
    return True, ""


def corpus():
    out = []
    for f in sorted(glob.glob(os.path.join(vlib.VERIF, "corpus", "c01", "*.sy"))):
        out.append(("corpus", open(f).read()))
    return out


def gen_cases(ctx):
    out = corpus()
    n = 160 if ctx.tier == "quick" else 4000
    for i in range(n):
        out.append(("gen", prog_gen.program(vlib.rng(ctx.seed, "c01-%d" % i), 3 if i % 3 else 2)))
    # programs inside the fragment of the preservation theorem (coq/Pres/Frag.v), stage 1, 2, 3a and 3b shapes (frag4 = top-level functions, frag5 = early returns, frag6 = definitions after start, frag7 = local functions capturing mutable locals, frag8 = local functions in nested blocks / branches / loop bodies, frag9 = strings, frag10 = functions passed to function parameters, frag11 = lambda expressions as arguments, frag12 = functions that return closures, frag13 = function-valued constants, frag14 = computed callees mk(1)(2), frag15 = ret of a function value, frag16 = early returns of function values (guards), frag17 = mutable variables holding functions, assigned)
    nf = 102 if ctx.tier == "quick" else 2550
    for i in range(nf):
        out.append(("frag%d" % (1 + i % 17), prog_gen.fragment_program(vlib.rng(ctx.seed, "c01-frag-%d" % i), 1 + i % 17)))
    return out


def sem_run(sexps):
    exe = _m["sem"]
    return vlib.sharded(lambda cs: vlib.run_lines(["/bin/sh", "-c", 'ulimit -s unlimited; exec "$0" "$@"', exe, "20000"], cs, 120),
                        sexps)


def canon_lua(l):
    f = l["final"]
    if f == "error":
        if "Assert failed!" in l["msg"]:
            return "assert"
        if "!!CRASH!!" in l["msg"]:
            return "unreachable"
        return "error"
    return f


def canon_sem(s):
    parts = s.split(" ")
    fin = parts[1].split(":")[0]
    trace = [vlib.unhex(x).decode("latin-1") for x in parts[3:]]
    why = vlib.unhex(parts[1].split(":")[1]).decode("utf-8", "replace") if ":" in parts[1] else ""
    return fin, trace, why


def compare(ctx, srcs, pres=None):
    """-> list of (verdict, detail) per source: verdict in same|diff|skip.
    pres: optional dict, filled with index -> output line of the pres driver for every accepted program"""
    lines = ["nostd\t/main.sy\t/main.sy=%s" % vlib.hexs(p) for p in srcs]
    ph = vlib.harness("phases", lines, timeout_s=60)
    real = vlib.harness("compile", lines, timeout_s=60)
    idx, mc, luas, rawhex = [], [], [], []
    out = [("skip", "not accepted")] * len(srcs)
    for i, (p, r) in enumerate(zip(ph, real)):
        d, tail = resolved_io.parse_phases_line(p)
        if "ordered" in d and tail.startswith("OK") and r.startswith("OK "):
            idx.append(i)
            mc.append(resolved_io.resolved_sexp(d["vars"], d["ordered"]))
            luas.append(vlib.unhex(r[3:]).decode("utf-8", "replace"))
            rawhex.append(r[3:])
    sem = sem_run(mc)
    lua = lua_run.run_lua(luas, fuel=400000, timeout=120)
    if pres is not None:
        # the AST tie of the preservation theorem: parse(real chunk) == pre_block ++ emit_ast(lower(real resolver output)),
        # and the fragment predicate, both evaluated by the extracted Coq code on every accepted program
        pr = vlib.model(_m["pres"], [], ["%s\t%s" % (t, m) for t, m in zip(rawhex, mc)])
        for i, x in zip(idx, pr):
            pres[i] = x
    for i, s, l in zip(idx, sem, lua):
        if not s.startswith("SEM") or "READFAIL" in s:
            out[i] = ("skip", "reference interpreter could not read the program: " + s[:80])
            continue
        sfin, strace, why = canon_sem(s)
        lfin = canon_lua(l)
        if sfin in ("unsup", "fuel", "timeout") or lfin in ("unsupported", "fuel", "crash"):
            out[i] = ("skip", "%s / %s %s" % (sfin, lfin, why))
            continue
        if sfin == "stuck":
            # the reference interpreter hit a dynamic type error: C02's business; compare classes only
            out[i] = ("same", "stuck") if lfin == "error" else ("diff", {"reference": "stuck: " + why, "lua": lfin, "lua_msg": l["msg"][:200]})
            continue
        if sfin == lfin and strace == l["trace"]:
            out[i] = ("same", sfin)
        else:
            k = next((j for j, (a, b) in enumerate(zip(strace, l["trace"])) if a != b), min(len(strace), len(l["trace"])))
            out[i] = ("diff", {"reference_final": sfin, "lua_final": lfin, "lua_msg": l["msg"][:200], "first_differing_line": k,
                               "reference": strace[k:k + 3], "lua": l["trace"][k:k + 3]})
    return out


def tie(ctx):
    cases = gen_cases(ctx)
    pres = {}
    res = compare(ctx, [c[1] for c in cases], pres)
    pres_tie(ctx, cases, res, pres)
    verdicts = collections.Counter(v for v, _ in res)
    skips = collections.Counter(d.split(" ")[0] if isinstance(d, str) else "?" for v, d in res if v == "skip")
    mism = [{"class": cases[i][0], "program": cases[i][1][:3000], "difference": d} for i, (v, d) in enumerate(res) if v == "diff"][:10]
    ctx.c01 = {"cases": cases, "res": res}
    finals = collections.Counter(d for v, d in res if v == "same")
    samples = [{"class": cases[i][0], "program": cases[i][1][:400], "verdict": res[i][0]} for i in (0, 1, len(cases) - 1)]
    return {"name": "trace", "ok": not mism, "mismatches": mism, "evaluations": len(cases),
            "distinct_nontrivial": len(set(cases[i][1] for i, (v, _) in enumerate(res) if v == "same")),
            "rule": "hand-written corpus (closures per iteration, blob self methods, enums, recursion) + generated typed programs (G-prog); "
                    "non-trivial = accepted by the real compiler and run by both interpreters; distinct by source",
            "samples": samples,
            "distribution": {"verdicts": dict(verdicts), "skipped_because": dict(skips), "finals_when_equal": dict(finals)}}


def pres_tie(ctx, cases, res, pres):
    """tie component "emit_ast" + fragment coverage.  A mismatch means the theorem C01_fragment_preservation
    (which is about pre_block ++ emit_ast code) does not speak about what the real compiler printed."""
    by_class = collections.Counter()
    in_frag = collections.Counter()
    frag_verdicts = collections.Counter()
    outcomes = collections.Counter()
    bad = []
    for i, line in sorted(pres.items()):
        cls = cases[i][0]
        by_class[cls] += 1
        parts = dict(p.split("=", 1) for p in line.split(" ")[1:] if "=" in p) if line.startswith("PRES") else {}
        ast = parts.get("ast", line[:60])
        outcomes[ast.split(":")[0]] += 1
        if ast != "ok":
            bad.append({"class": cls, "program": cases[i][1][:3000], "pres_driver": line[:300]})
        if parts.get("frag") == "1":
            in_frag[cls] += 1
            frag_verdicts[res[i][0] + ":" + (res[i][1] if isinstance(res[i][1], str) else "diff")] += 1
    for b in bad[:3]:
        ctx.brk("tie:emit_ast", json.dumps(b, ensure_ascii=False))
    ctx.c01_pres = {
        "emit_ast_tie": {"name": "emit_ast", "ok": not bad, "evaluations": len(pres), "mismatches": bad[:10],
                         "outcomes": dict(outcomes),
                         "rule": "for every accepted program of the tie: LuaParse.parse_lua Lua53 (the real compiler's whole output) "
                                 "== ParseOk (pre_block ++ emit_ast (lower (real resolver output))), evaluated by the extracted Coq code"},
        "programs_in_fragment": {"accepted_programs": len(pres), "in_fragment": sum(in_frag.values()),
                                 "accepted_by_class": dict(by_class), "in_fragment_by_class": dict(in_frag),
                                 "validation_verdicts_of_fragment_programs": dict(frag_verdicts),
                                 "fragment": "coq/Pres/Frag.v `frag` (stage stated there), evaluated on the real resolver output"},
    }


def always(ctx):
    return getattr(ctx, "c01_pres", {})


def search(ctx):
    st = getattr(ctx, "c01", None)
    if not st:
        return None
    bad = [(i, d) for i, (v, d) in enumerate(st["res"]) if v == "diff"]
    if not bad:
        return None
    i, d = min(bad, key=lambda x: len(st["cases"][x[0]][1]))
    src = st["cases"][i][1]
    lines = src.rstrip("\n").split("\n")
    small = vlib.shrink_seq(lines, lambda cands: [v == "diff" for v, _ in compare(ctx, ["\n".join(c) + "\n" for c in cands])], max_rounds=40)
    src2 = "\n".join(small) + "\n"
    v, d2 = compare(ctx, [src2])[0]
    return {"program": src2, "difference": d2 if v == "diff" else d,
            "what": "the emitted Lua (run in the Lua 5.3 interpreter model) behaves differently from the reference interpreter on the source",
            "programs_affected": len(bad)}


def replay_known(ctx, kf):
    return False


def replay(ctx, rep):
    fi = rep.get("failing_input") or {}
    if not fi:
        print("nothing to replay")
        return 0
    vlib.build_harness()
    build(ctx)
    v, d = compare(ctx, [fi["program"]])[0]
    print(v, d)
    return 1 if v == "diff" else 0
