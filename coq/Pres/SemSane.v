(* SemSane: the reference interpreter never STOPS with the outcome ODone (that outcome is only produced by
   `run` for a normal end).  For every program, by induction on the fuel over the five interpreter
   functions.  Used by the C01 preservation theorem to tell a normal end from a stop. *)
From Coq Require Import String Ascii List NArith ZArith QArith Bool Lia.
From Sylt Require Import Syntax.Resolved Sem.Values Sem.Runtime Sem.SyltSem.
Import ListNotations.

(* the interpreter never stops with ODone: that outcome is only produced by `run` for a normal end *)
Definition Q {A} (r : res A * state) : Prop := match fst r with RStop ODone => False | _ => True end.

Lemma Q_bind {A B} (m : M A) (k : A -> M B) st :
  Q (m st) -> (forall a st1, Q (k a st1)) -> Q (bind m k st).
Proof. unfold bind, Q. destruct (m st) as [[a|o|c] st1]; cbn; intros H1 H2; auto. apply H2. Qed.

Lemma Q_ret {A} (a : A) st : Q (ret a st). Proof. exact I. Qed.
Lemma Q_abrupt {A} c st : Q (@abrupt A c st). Proof. exact I. Qed.
Lemma Q_lift {A} w (x : Values.res A) st : Q (lift_res w x st). Proof. destruct x; exact I. Qed.

Lemma Q_mapM {A B} (f : A -> M B) l : (forall a st, Q (f a st)) -> forall st, Q (mapM f l st).
Proof.
  intros Hf. induction l as [|a l IH]; intros st; cbn [mapM]; [exact I|].
  apply Q_bind; [apply Hf|]. intros y st1. apply Q_bind; [apply IH|]. intros; exact I.
Qed.

Ltac qleaf :=
  match goal with
  | |- Q (ret _ _) => exact I
  | |- Q (stop _ _) => exact I
  | |- Q (abrupt _ _) => exact I
  | |- Q (lift_res _ _ _) => apply Q_lift
  | |- Q (new_cell _ _) => exact I
  | |- Q (write_cell _ _ _) => exact I
  | |- Q (new_blob _ _) => exact I
  | |- Q (write_blob _ _ _ ) => exact I
  | |- Q (new_clos _ _) => exact I
  | |- Q (emit_line _ _) => exact I
  | |- Q (read_cell ?c ?st) => unfold read_cell; destruct (nth_error (cells st) c); exact I
  | |- Q (read_blob ?c ?st) => unfold read_blob; destruct (nth_error (blobs st) c); exact I
  | |- Q (get_clos ?c ?st) => unfold get_clos; destruct (nth_error (clos st) c); exact I
  | |- Q (snapshot ?v ?st) => unfold snapshot; destruct (reify 64 st v); exact I
  | |- Q (as_value _ ?v _) => destruct v; exact I
  | |- Q (truth _ ?v _) => unfold truth; destruct v as [[]| | |]; exact I
  | |- Q (binop_val ?op _ _ _) => unfold binop_val; destruct op; repeat first [apply Q_lift | exact I | (apply Q_bind; [|intros ? ?])]
  end.

Ltac qstep :=
  first
    [ qleaf
    | apply Q_bind; [|intros ? ?]
    | match goal with
      | |- Q (match ?x with _ => _ end _) => destruct x
      | |- Q ((if ?x then _ else _) _) => destruct x
      | |- Q (match ?x with _ => _ end) => destruct x
      | |- Q (if ?x then _ else _) => destruct x
      end ].

Record sane (n : nat) : Prop := mkSane {
  s_eval : forall e x st, Q (eval n e x st);
  s_bv : forall e b st, Q (block_value n e b st);
  s_eb : forall e ss st, Q (exec_block n e ss st);
  s_exec : forall e s st, Q (exec n e s st);
  s_apply : forall fv args st, Q (apply n fv args st)
}.

Lemma sane_zero : sane O.
Proof. constructor; intros; exact I. Qed.

Lemma sane_succ n : sane n -> sane (S n).
Proof.
  intros [He Hbv Heb Hex Hap]. constructor.
  - intros e x st. destruct x; cbn [eval].
    all: repeat first [ apply He | apply Hbv | apply Heb | apply Hex | apply Hap | (apply Q_mapM; intros ? ?) | qstep ].
    + (* EIf *)
      revert st. induction branches as [|[[cond|] body bsp] brs IH]; intros st; [exact I | |apply Hbv].
      apply Q_bind; [apply He|]. intros c st1. apply Q_bind; [qleaf|]. intros bc st2. destruct bc; [apply Hbv | apply IH].
    + (* ECase *)
      revert st1. induction branches as [|[pat psp var body bsp] brs IH]; intros st1; [apply Hbv|].
      destruct (String.eqb pat tag); [|apply IH].
      destruct var; [|apply Hbv]. apply Q_bind; [exact I|]. intros; apply Hbv.
  - intros e b st. cbn [block_value].
    repeat first [ apply He | apply Hbv | apply Heb | apply Hex | apply Hap | qstep ].
  - intros e ss st. cbn [exec_block].
    repeat first [ apply He | apply Hbv | apply Heb | apply Hex | apply Hap | qstep ].
  - intros e s st. destruct s; cbn [exec].
    all: repeat first [ apply He | apply Hbv | apply Heb | apply Hex | apply Hap | (apply Q_mapM; intros ? ?) | qstep ].
    (* SLoop *)
    match goal with |- Q (?F n st) => assert (H : forall m st, Q (F m st)); [|apply H] end.
    intros m. induction m as [|m IH]; intros st0; [exact I|].
    apply Q_bind; [apply He|]. intros c st1. apply Q_bind; [qleaf|]. intros bc st2. destruct bc; [|exact I].
    pose proof (Heb e body st2) as Hq. destruct (exec_block n e body st2) as [[e1|o|[| |v]] st3]; try exact I; try apply IH.
    unfold Q in *. cbn in *. exact Hq.
  - intros fv args st. cbn [apply]. destruct fv; try exact I.
    + apply Q_bind; [qleaf|]. intros cl st1. destruct (Nat.eqb (length (cl_params cl)) (length args)); [|exact I].
      apply Q_bind; [apply Q_mapM; intros; exact I|]. intros cs st2.
      pose proof (Hbv (combine (cl_params cl) cs ++ cl_env cl) (cl_body cl) st2) as Hq.
      destruct (block_value n (combine (cl_params cl) cs ++ cl_env cl) (cl_body cl) st2) as [[v|o|[| |v]] st3]; try exact I.
      unfold Q in *. cbn in *. exact Hq.
    + repeat first [ qstep ].
Qed.

Theorem sane_all n : sane n.
Proof. induction n; [apply sane_zero | apply sane_succ; assumption]. Qed.

Theorem block_value_not_done n e b st st' : block_value n e b st <> (RStop ODone, st').
Proof. intros H. pose proof (s_bv _ (sane_all n) e b st) as Hq. rewrite H in Hq. exact Hq. Qed.
