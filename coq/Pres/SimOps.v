(* Lua-side lemmas of the simulation: what the statements emitted for ONE IR instruction do.
   `lframe c c'`: the effect of the statements emitted for a code segment whose temporaries are numbered
   in [c, c'): the environment grows by names V<t>, c <= t < c'; only cells of such names are written;
   tables are untouched. *)
From Coq Require Import String Ascii List NArith ZArith QArith Bool Lia.
From Sylt Require Import Syntax.Resolved.
From Sylt Require Sem.Values Sem.Runtime Sem.SyltSem.
From Sylt Require Import Back.IR Back.Emit.
From Sylt Require Import Pres.EmitAst Pres.EmitRel Pres.Names Pres.LuaFuel Pres.LuaEv Pres.Preamble.
From Sylt Require Import Pres.SimDefs.
From Sylt Require Import Lua.LuaAst Lua.LuaMap Lua.LuaNum Lua.LuaProofs Lua.LuaCore.
Import ListNotations.
Local Open Scope N_scope.

Ltac splits := repeat match goal with |- _ /\ _ => split end.

Definition in_rng (c c' : N) (x : string) : Prop := exists t, x = fmt_var t /\ c <= t < c'.

Record lframe (c c' : N) (E : env) (st : state) (E' : env) (st' : state) : Prop := mkLframe {
  lf_incl : env_incl E E';
  lf_new : forall x p, sget x E' = Some p -> sget x E = Some p \/ in_rng c c' x;
  lf_cells : forall x p, sget x E = Some p -> ~ in_rng c c' x -> get_cell st' p = get_cell st p;
  lf_tabs : s_tabs st' = s_tabs st;
  lf_ncell : (s_ncell st <= s_ncell st')%positive;
  lf_wf : wfenv E' st';
  lf_linv : linv st'
}.

Lemma lframe_refl c c' E st : wfenv E st -> linv st -> lframe c c' E st E st.
Proof. intros Hwf Hl. constructor; auto; [apply env_incl_refl | lia]. Qed.

Lemma in_rng_widen a b a' b' x : in_rng a b x -> a' <= a -> b <= b' -> in_rng a' b' x.
Proof. intros (t & -> & H) H1 H2. exists t. split; [reflexivity | lia]. Qed.

Lemma lframe_widen a b a' b' E st E' st' :
  lframe a b E st E' st' -> a' <= a -> b <= b' -> lframe a' b' E st E' st'.
Proof.
  intros [Hi Hn Hc Ht Hnc Hw Hl] H1 H2. constructor; auto.
  - intros x p H. destruct (Hn x p H) as [H'|H']; [left; exact H' | right; eapply in_rng_widen; eassumption].
  - intros x p H Hr. apply (Hc x p H). intros Hr'. apply Hr. eapply in_rng_widen; eassumption.
Qed.

Lemma lframe_trans c c' E1 s1 E2 s2 E3 s3 :
  lframe c c' E1 s1 E2 s2 -> lframe c c' E2 s2 E3 s3 -> lframe c c' E1 s1 E3 s3.
Proof.
  intros [Hi Hn Hc Ht Hnc Hw Hl] [Hi' Hn' Hc' Ht' Hnc' Hw' Hl']. constructor; auto.
  - eapply env_incl_trans; eassumption.
  - intros x p H. destruct (Hn' x p H) as [H'|H']; [apply (Hn x p H') | right; exact H'].
  - intros x p H Hr. rewrite (Hc' x p (Hi x p H) Hr). apply (Hc x p H Hr).
  - congruence.
  - lia.
Qed.

Lemma lframe_cells_ext c c' E st st' : wfenv E st -> linv st -> cells_ext st st' -> lframe c c' E st E st'.
Proof.
  intros Hwf Hl Hx. constructor.
  - apply env_incl_refl.
  - auto.
  - intros x p H _. apply Hx. eapply wf_alloc; eassumption.
  - apply Hx.
  - apply Hx.
  - eapply wfenv_ext; [exact Hwf | apply Hx].
  - eapply cells_ext_linv; eassumption.
Qed.

Lemma env_incl_fresh (E : env) x (p : positive) : sget x E = None -> env_incl E (sset x p E).
Proof.
  intros Hn y q H. destruct (string_dec y x) as [->|Hne]; [congruence|].
  rewrite sget_sset_other by exact Hne. exact H.
Qed.

Lemma lframe_local c c' E st t v :
  wfenv E st -> linv st -> sget (fmt_var t) E = None -> c <= t < c' ->
  lframe c c' E st (sset (fmt_var t) (s_ncell st) E) (snd (alloc_cell st v)).
Proof.
  intros Hwf Hl Hlt Ht. constructor.
  - apply env_incl_fresh. exact Hlt.
  - intros x p H. destruct (string_dec x (fmt_var t)) as [->|Hne].
    + right. exists t. split; [reflexivity | exact Ht].
    + left. rewrite sget_sset_other in H by exact Hne. exact H.
  - intros x p H _. apply get_cell_alloc_old. eapply wf_alloc; eassumption.
  - reflexivity.
  - cbn; lia.
  - apply wfenv_local. exact Hwf.
  - apply linv_alloc_cell. exact Hl.
Qed.

Lemma lframe_set c c' E st t p v :
  wfenv E st -> linv st -> c <= t < c' -> sget (fmt_var t) E = Some p ->
  lframe c c' E st E (set_cell st p v).
Proof.
  intros Hwf Hl Ht Hp. constructor.
  - apply env_incl_refl.
  - auto.
  - intros x q H Hr. apply get_cell_set_other. intros ->.
    apply Hr. exists t. split; [eapply wf_inj; eassumption | exact Ht].
  - reflexivity.
  - cbn; lia.
  - eapply wfenv_ext; [exact Hwf | cbn; lia].
  - apply linv_set_cell. exact Hl.
Qed.

(* the frozen temporaries are temporaries, none of them numbered in [c, c') *)
(* leaving a block: the environment is the one before the block again *)
Lemma lframe_forget c c' E st E' st' : lframe c c' E st E' st' -> wfenv E st -> lframe c c' E st E st'.
Proof.
  intros [Hi Hn Hc Ht Hnc Hw Hl] Hwf. constructor; auto.
  - apply env_incl_refl.
  - eapply wfenv_ext; eassumption.
Qed.

(* the weaker frame of statements and of expressions that contain statements: user variables (ids below
   `bound`) may be declared and written too; temporaries outside [c, c') keep their values *)
Record wframe (bound c c' : N) (E : env) (st : state) (E' : env) (st' : state) : Prop := mkWframe {
  wr_incl : forall t p, bound <= t -> sget (fmt_var t) E = Some p -> sget (fmt_var t) E' = Some p;
  wr_new : forall x p, sget x E' = Some p ->
           sget x E = Some p \/ in_rng c c' x \/ (exists v, x = fmt_var v /\ v < bound);
  wr_cells : forall t p, bound <= t -> ~ (c <= t < c') -> sget (fmt_var t) E = Some p -> get_cell st' p = get_cell st p;
  wr_ncell : (s_ncell st <= s_ncell st')%positive
}.

Lemma lframe_w bound c c' E st E' st' : lframe c c' E st E' st' -> wframe bound c c' E st E' st'.
Proof.
  intros [Hi Hn Hc Ht Hnc Hw Hl]. constructor; auto.
  - intros x p H. destruct (Hn x p H); auto.
  - intros t p Hb Hr H. apply (Hc _ _ H). intros (t' & Heq & Hr'). apply fmt_var_inj in Heq. subst. contradiction.
Qed.

Lemma wframe_refl bound c c' E st : wframe bound c c' E st E st.
Proof. constructor; auto; lia. Qed.

Lemma wframe_widen bound a b a' b' E st E' st' :
  wframe bound a b E st E' st' -> a' <= a -> b <= b' -> wframe bound a' b' E st E' st'.
Proof.
  intros [Hi Hn Hc Hnc] H1 H2. constructor; auto.
  - intros x p H. destruct (Hn x p H) as [H'|[H'|H']]; auto. right; left. eapply in_rng_widen; eassumption.
  - intros t p Hb Hr H. apply (Hc t p Hb); [lia | exact H].
Qed.

Lemma wframe_trans bound c c' E1 s1 E2 s2 E3 s3 :
  wframe bound c c' E1 s1 E2 s2 -> wframe bound c c' E2 s2 E3 s3 -> wframe bound c c' E1 s1 E3 s3.
Proof.
  intros [Hi Hn Hc Hnc] [Hi' Hn' Hc' Hnc']. constructor.
  - intros t p Hb H. apply Hi'; [exact Hb|]. apply Hi; assumption.
  - intros x p H. destruct (Hn' x p H) as [H'|H']; [apply (Hn x p H') | right; exact H'].
  - intros t p Hb Hr H. rewrite (Hc' t p Hb Hr (Hi _ _ Hb H)). apply (Hc t p Hb Hr H).
  - lia.
Qed.

Lemma wframe_forget bound c c' E st E' st' : wframe bound c c' E st E' st' -> wframe bound c c' E st E st'.
Proof. intros [Hi Hn Hc Hnc]. constructor; auto. Qed.

Definition F_out (bound : N) (F : list N) (c c' : N) : Prop :=
  forall t, In t F -> bound <= t /\ ~ (c <= t < c').

Lemma fut_wframe bound F c c' E st E' st' : wframe bound c c' E st E' st' -> F_out bound F c c' -> fut F E st E' st'.
Proof.
  intros Hf HF t p Ht Hp. destruct (HF t Ht) as [Hb Hr].
  split; [apply (wr_incl _ _ _ _ _ _ _ Hf); assumption | apply (wr_cells _ _ _ _ _ _ _ Hf t p Hb Hr Hp)].
Qed.

Lemma fut_lframe bound F c c' E st E' st' : lframe c c' E st E' st' -> F_out bound F c c' -> fut F E st E' st'.
Proof.
  intros Hf HF t p Ht Hp. split; [apply (lf_incl _ _ _ _ _ _ Hf); exact Hp|].
  apply (lf_cells _ _ _ _ _ _ Hf _ _ Hp). intros (t' & Heq & Hr).
  apply fmt_var_inj in Heq. subst t'. destruct (HF t Ht). contradiction.
Qed.

(* `local V<t> = v` after an evaluation that only allocated garbage *)
Lemma rel_op_local pv sv bound u fl W sc e s0 E st stm t lv :
  rel pv sv bound u fl W sc e s0 E st -> cells_ext st stm -> bound <= t ->
  rel pv sv bound u fl W sc e s0 (sset (fmt_var t) (s_ncell stm) E) (snd (alloc_cell stm lv)).
Proof. intros Hr Hx Hb. apply rel_local_temp; [eapply rel_cells_ext; eassumption | exact Hb]. Qed.

(* ------------------------------------------------------------------ one `local V<t> = ex` *)

Lemma bind_locals_one E x vs st :
  bind_locals E [x] vs st = (sset x (s_ncell st) E, snd (alloc_cell st (first vs))).
Proof. reflexivity. Qed.

Lemma op_local c c' E st t ex lv :
  wfenv E st -> linv st -> sget (fmt_var t) E = None -> c <= t < c' ->
  PureEval E st ex lv ->
  exists stm, cells_ext st stm /\
    Exec E (SLocal [fmt_var t] [ex]) st
         (ROk (sset (fmt_var t) (s_ncell stm) E, SigNormal) (snd (alloc_cell stm lv))) /\
    lframe c c' E st (sset (fmt_var t) (s_ncell stm) E) (snd (alloc_cell stm lv)).
Proof.
  intros Hwf Hl Hlt Ht (stm & _ & Hev & Hx). exists stm. split; [exact Hx|].
  apply EvalList_one in Hev.
  split.
  - pose proof (Exec_local E [fmt_var t] [ex] st [lv] stm Hev) as H.
    rewrite bind_locals_one in H. cbn [fst snd first] in H. exact H.
  - eapply lframe_trans.
    + apply lframe_cells_ext; eassumption.
    + apply lframe_local; [eapply wfenv_ext; [exact Hwf | apply Hx] | eapply cells_ext_linv; eassumption | exact Hlt | exact Ht].
Qed.

(* ------------------------------------------------------------------ iis: a value computed into a temporary *)

Section Ops.
Variable u : counts.
Lemma alut_get_set_same l t ex : alut_get (alut_set l t ex) t = Some ex.
Proof. unfold alut_set. cbn [alut_get]. rewrite N.eqb_refl. reflexivity. Qed.
Lemma alut_get_set_other l t ex w : w <> t -> alut_get (alut_set l t ex) w = alut_get l w.
Proof. intros H. unfold alut_set. cbn [alut_get]. destruct (N.eqb_spec t w); [congruence | reflexivity]. Qed.

Lemma aiis_lut l t ex w : w <> t -> alut_get (snd (aiis u l t ex)) w = alut_get l w.
Proof.
  intros H. unfold aiis. destruct (count_of u t =? 0); [reflexivity|].
  destruct (count_of u t =? 1); [|reflexivity]. cbn [snd]. apply alut_get_set_other. exact H.
Qed.

Theorem op_iis F E st l t ex sv c c' :
  wfenv E st -> linv st -> sget (fmt_var t) E = None -> c <= t < c' -> alut_get l t = None ->
  denotes F E st ex sv ->
  exists E' st' F',
    ExecS E (fst (aiis u l t ex)) st (ROk (E', SigNormal) st') /\
    lframe c c' E st E' st' /\ s_out st' = s_out st /\
    (F' = F \/ F' = t :: F) /\
    (1 <= count_of u t -> denotes F' E' st' (aexpand (snd (aiis u l t ex)) t) sv) /\
    (forall pv sv bound fl W sc e s0, bound <= t -> rel pv sv bound u fl W sc e s0 E st -> rel pv sv bound u fl W sc e s0 E' st').
Proof.
  intros Hwf Hl Hlt Ht Hnone Hd. unfold aiis.
  destruct (N.eqb_spec (count_of u t) 0) as [H0|H0]; [|destruct (N.eqb_spec (count_of u t) 1) as [H1|H1]]; cbn [fst snd].
  - exists E, st, F. splits.
    + apply XS_nil.
    + apply lframe_refl; assumption.
    + reflexivity.
    + left. reflexivity.
    + intros Hc. lia.
    + intros; assumption.
  - exists E, st, F. splits.
    + apply XS_nil.
    + apply lframe_refl; assumption.
    + reflexivity.
    + left. reflexivity.
    + intros _. unfold aexpand. rewrite alut_get_set_same. exact Hd.
    + intros; assumption.
  - destruct (denotes_now _ _ _ _ _ Hd Hwf Hl) as (lv & Hv & Hp).
    destruct (op_local c c' E st t ex lv Hwf Hl Hlt Ht Hp) as (stm & Hx & Hex & Hfr).
    exists (sset (fmt_var t) (s_ncell stm) E), (snd (alloc_cell stm lv)), (t :: F). splits.
    + apply ExecS_one. exact Hex.
    + exact Hfr.
    + cbn [alloc_cell snd s_out]. apply Hx.
    + right. reflexivity.
    + intros _. unfold aexpand. rewrite Hnone.
      eapply denotes_local; [left; reflexivity | apply sget_sset_same | rewrite get_cell_alloc_new; exact Hv].
    + intros pv0 sv0 bound0 fl0 W0 sc0 e0 s0 Hb Hr. apply (rel_op_local pv0 sv0 bound0 u fl0 W0 sc0 e0 s0 E st stm t lv Hr Hx Hb).
Qed.

End Ops.
