(* C16 -- compilation is deterministic.  Pinned statements only. *)
From Coq Require Import String List NArith Bool Permutation.
From Sylt Require Import Det.Consumers Det.ConsumersProofs Det.DocHashSites Gen.GenHashSites.
Import ListNotations.

Fixpoint sites_eqb (a : list site) (b : list (string * string * string * string)) : bool :=
  match a, b with
  | [], [] => true
  | s :: a', (f, fn, c, st) :: b' =>
      String.eqb (s_file s) f && String.eqb (s_fn s) fn && String.eqb (s_container s) c
      && String.eqb (s_stmt s) st && sites_eqb a' b'
  | _, _ => false
  end.

(* Obligation 1 (table tie): the iterations over hash containers found in /repo on this run are exactly
   the reviewed ones (same file, function, container and statement text, in the same order). *)
Theorem C16_sites_covered : sites_eqb doc_sites GenHashSites.sites = true.
Proof. vm_compute. reflexivity. Qed.

(* Obligation 2: every reviewed site consumes the iteration in an order-free way. *)
Theorem C16_all_sites_order_free : forallb (fun s => order_free (s_class s)) doc_sites = true.
Proof. vm_compute. reflexivity. Qed.

(* For every order-free consumer class, every payload-failure predicate and every two visiting orders
   of the same entries (keys distinct, as in a hash map), what the rest of the compiler can observe
   is the same. *)
Theorem C16_order_free_invariant : forall bad c l l',
  order_free c = true -> NoDup (keys l) -> Permutation l l' -> obs_eq (run bad c l) (run bad c l').
Proof. exact order_free_invariant. Qed.

(* Why FirstErr is not order-free (the shape the four repaired sites had): *)
Theorem C16_first_err_order_sensitive :
  exists bad l l', NoDup (keys l) /\ Permutation l l' /\ ~ obs_eq (run bad FirstErr l) (run bad FirstErr l').
Proof. exact first_err_order_sensitive. Qed.

(* Non-vacuity: a sorted-first-error consumer on two orders of three entries of which two fail. *)
Example C16_example :
  run (fun e => negb (snd e =? 0)%N) SortedFirstErr [(3, 7); (1, 0); (2, 5)]%N
  = run (fun e => negb (snd e =? 0)%N) SortedFirstErr [(2, 5); (3, 7); (1, 0)]%N.
Proof. vm_compute. reflexivity. Qed.

Print Assumptions C16_sites_covered.
Print Assumptions C16_all_sites_order_free.
Print Assumptions C16_order_free_invariant.
Print Assumptions C16_first_err_order_sensitive.
