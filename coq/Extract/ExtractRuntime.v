(* Extraction of the Runtime model (Sem/Runtime.v).
   Directives: only those of ExtrOcamlBasic and ExtrOcamlString; nat/N/Z/Q/positive stay inductive. *)
From Coq Require Import Extraction ExtrOcamlBasic ExtrOcamlString.
From Sylt Require Import Sem.Values Sem.Runtime.
Extraction Language OCaml.
Extraction "runtimemodel.ml"
  rt_tostring rt_eq rt_neq rt_lt rt_le rt_gt rt_ge rt_add rt_sub rt_mul rt_div rt_neg rt_index
  rt_is_just rt_is_none rt_or_default
  rt_list_push rt_list_prepend rt_list_get rt_list_set rt_list_pop rt_len rt_list_map rt_list_filter
  rt_list_fold rt_list_find rt_list_contains rt_list_last
  rt_dict_new rt_dict_update rt_dict_remove rt_dict_get rt_dict_from_list rt_dict_contains_key
  rt_set_new rt_set_add rt_set_remove rt_set_contains rt_set_from_list
  rt_min rt_max rt_abs rt_clamp rt_sign rt_idiv rt_floor rt_rem vint.
