(* C08, "annotations are optional", for the E1 fragment: erasing any subset of the type annotations of an ACCEPTED block
   keeps it accepted.
     accepted (annotated)  ==SoundE1.accepted_block1==>  typed  ==erase1_typed==>  the erased block is typed
                           ==CompleteE1.complete_block==>  the erased block is accepted.
   The checks of the checker that do not look at types (kinds of variables, purity) are the same for both blocks: they
   are read off the accepted run (side_of_accepted). *)
From Coq Require Import String List NArith ZArith PArith Bool Lia FMapPositive.
From Sylt Require Import Syntax.Resolved Types.TyGraph Types.Tc Types.TcInv Types.Reject Types.Mismatch Types.Purity
  Types.SoundE0 Types.SoundE1 Types.PureSem Types.Complete1 Types.CompleteE1.
Import ListNotations.
Local Open Scope tc_scope.

(* ------------------------------------------------------------------ erasure of a subset of the annotations *)
(* sel decides by the position of the statement in the block *)
Fixpoint erase1 (sel : nat -> bool) (i : nat) (ss : list s1) : list s1 :=
  match ss with
  | [] => []
  | D1 x k annot e :: q => D1 x k (if sel i then None else annot) e :: erase1 sel (S i) q
  | st :: q => st :: erase1 sel (S i) q
  end.

Lemma erase1_typed sel : forall ss i E E', ty_stmts1 E ss = Some E' -> ty_stmts1 E (erase1 sel i ss) = Some E'.
Proof.
  induction ss as [|st q IH]; intros i E E' H; [exact H|]. cbn [ty_stmts1] in H.
  destruct (ty_stmt1 E st) as [E1|] eqn:T1; [|discriminate].
  assert (X : forall st', ty_stmt1 E st' = Some E1 -> ty_stmts1 E (st' :: erase1 sel (S i) q) = Some E').
  { intros st' T'. cbn [ty_stmts1]. rewrite T'. now apply IH. }
  destruct st as [x k annot e|x e|e]; cbn [erase1]; try (apply X; exact T1).
  apply X. cbn [ty_stmt1] in *. destruct (ty1 E e) as [t|]; [|discriminate].
  destruct (sel i); [|exact T1]. destruct annot as [t0|]; [destruct (bty_eqb t0 t); [exact T1|discriminate]|exact T1].
Qed.

Lemma erase1_block_typed sel ss e t : ty_block1 [] ss e = Some t -> ty_block1 [] (erase1 sel 0 ss) e = Some t.
Proof.
  unfold ty_block1. intros H. destruct (ty_stmts1 [] ss) as [E'|] eqn:T; [|discriminate].
  rewrite (erase1_typed sel ss 0 [] E' T). exact H.
Qed.

Section Same.
  Variable kinds : PositiveMap.t varkind.
  Variable ctx : tctx.

  Lemma erase1_side sel : forall ss i, forallb (side_s kinds ctx) (erase1 sel i ss) = forallb (side_s kinds ctx) ss.
  Proof.
    induction ss as [|st q IH]; intros i; [reflexivity|]. destruct st; cbn [erase1 forallb side_s]; rewrite IH; reflexivity.
  Qed.

  Lemma erase1_defs sel : forall ss i, defs (erase1 sel i ss) = defs ss.
  Proof.
    unfold defs. induction ss as [|st q IH]; intros i; [reflexivity|]. destruct st; cbn [erase1 flat_map def_of]; rewrite IH; reflexivity.
  Qed.

  Lemma erase1_depth sel e : forall ss i, max_depth (erase1 sel i ss) e = max_depth ss e.
  Proof.
    induction ss as [|st q IH]; intros i; [reflexivity|]. destruct st; cbn [erase1 max_depth depth_s]; rewrite IH; reflexivity.
  Qed.
End Same.

(* ------------------------------------------------------------------ the checks that do not look at types *)
Section Side.
  Variable kinds : PositiveMap.t varkind.
  Variable g : nat.
  Notation G := (gfix g).
  Notation afix := (afix kinds G).
  Variable ctx : tctx.
  Variable sp : span.

  Lemma checked_read_ok x : checked kinds g (ERead x sp) ctx -> read_ok kinds ctx x = true.
  Proof.
    intros (f & s & r & s' & H). destruct f as [|f]; [discriminate|]. apply (expr_inv kinds g) in H. unfold expr_body in H.
    apply bind_inv in H as ([er ex] & s1 & H1 & _). cbv beta iota in H1.
    apply bind_inv in H1 as (tn & s2 & Ht & H1). apply is_type_name_inv in Ht as [-> ->].
    destruct (existsb (N.eqb x) (tnames s)); [discriminate|].
    unfold var_kind, read_ok in *. destruct (PositiveMap.find (N.succ_pos x) kinds) as [k|]; [|discriminate].
    apply bind_inv in H1 as (k' & s3 & Hk & H1). injection Hk as <- <-.
    destruct (inside_pure ctx && negb (immutable k)); [discriminate|reflexivity].
  Qed.

  Lemma checked_side_e : forall e, checked kinds g (to_expr1 sp e) ctx -> side_e kinds ctx e = true.
  Proof.
    induction e as [z|x|s|b|op a IHa b IHb|op a IHa|c IHc a IHa b IHb|x]; intros H; cbn [to_expr1 side_e] in *; try reflexivity.
    - apply checked_bin in H as [Ha Hb]. rewrite (IHa Ha), (IHb Hb). reflexivity.
    - apply checked_un in H. auto.
    - apply checked_if in H as (Hc & Ha & Hb). rewrite (IHc Hc), (IHa Ha), (IHb Hb). reflexivity.
    - now apply checked_read_ok.
  Qed.

  Lemma checked_side_s st : checked_s kinds g (to_stmt1 sp st) ctx -> side_s kinds ctx st = true.
  Proof.
    intros (f & s & r & s' & H). destruct f as [|f]; [discriminate|]. destruct st as [x k annot e|x e|e]; cbn [side_s].
    - assert (D : exists t, definition kinds G (afix f) x k t (to_expr1 sp e) sp ctx s = Ok (r, s'))
        by (destruct annot; cbn [to_stmt1] in H; eexists; exact H).
      destruct D as [t D]. unfold definition in D. unfold kind_ok, has_var.
      destruct (inside_pure ctx && negb (immutable k)); [discriminate|]. cbn [negb andb].
      apply bind_inv in D as (vt & s1 & Hvt & D). unfold var_ty in Hvt.
      destruct (PositiveMap.find (N.succ_pos x) kinds); [|discriminate]. cbn [andb].
      apply bind_inv in D as (u & s2 & _ & D).
      apply bind_inv in D as (dt & s3 & _ & D).
      apply bind_inv in D as (u4 & s4 & _ & D).
      apply bind_inv in D as (u5 & s5 & _ & D).
      apply bind_inv in D as ([vr vty] & s6 & He & _). apply checked_side_e. exists f; eauto.
    - cbn [to_stmt1 Tc.afix astep r_stmt] in H. unfold stmt_body in H.
      apply bind_inv in H as (u & s1 & Hc & H). unfold can_assign, var_kind, is_mut in *.
      destruct (PositiveMap.find (N.succ_pos x) kinds) as [k|]; [|discriminate].
      apply bind_inv in Hc as (k' & s2 & Hk & Hc). injection Hk as <- <-. destruct k; [discriminate|]. cbn [andb].
      destruct (inside_pure ctx); [discriminate|]. cbn [negb andb].
      apply bind_inv in H as ([er ety] & s3 & He & _). apply checked_side_e. exists f; eauto.
    - cbn [to_stmt1 Tc.afix astep r_stmt] in H. unfold stmt_body in H.
      apply bind_inv in H as ([r0 v0] & s1 & He & _). apply checked_side_e. exists f; eauto.
  Qed.

  Theorem side_of_accepted ss e f s r s' :
    expression_block G (afix f) sp (to_block1 sp ss e) ctx s = Ok (r, s') -> side_block kinds ctx ss e = true.
  Proof.
    intros H. unfold expression_block, to_block1 in H. rewrite block_split_snoc in H. cbn [fst snd] in H.
    apply bind_inv in H as (r1 & s1 & H1 & H). apply bind_inv in H as ([vret v] & s2 & He & _).
    unfold side_block. apply andb_true_iff. split.
    - apply forallb_forall. intros st Hin. apply checked_side_s.
      destruct (foldM_each _ (to_stmt1 sp st) _ _ _ _ _ H1 (in_map _ _ _ Hin)) as (acc0 & s0 & r0 & s3 & Hs).
      apply bind_inv in Hs as (sr & s4 & Hs & _). exists f; eauto.
    - apply checked_side_e. exists f; eauto.
  Qed.
End Side.

(* ================================================================== C08_accept_erase_E1 *)

(* An accepted block of the E1 fragment -- local definitions `x := e`, `x :: e`, `x: t = e`, `x: t : e` with t a base type,
   assignments, reads, the E0 expressions; each definition with its own variable (NoDup: the resolver gives every
   definition a fresh variable), checked in a state in which these variables are still as TypeChecker::new made them
   (fresh) -- stays accepted when the annotations of ANY subset of its definitions (sel, by position) are erased; and
   the value of the erased block gets the same type.  The fuel of the second run is explicit: 4 + any g for the graph
   functions, 2 + the nesting depth of the expressions for the syntax functions. *)
Theorem accept_erase_E1 kinds g0 f0 ctx sp ss e sel s r ov s' :
  frag_stmts1 [] ss e = true -> NoDup (defs ss) -> wf s -> (forall x, In x (defs ss) -> fresh s x) ->
  expression_block (gfix g0) (afix kinds (gfix g0) f0) sp (to_block1 sp ss e) ctx s = Ok ((r, ov), s') ->
  forall g f, (max_depth ss e < S f)%nat ->
    exists t c v s'',
      ov = Some c /\ head s' c = Some (bty_head t) /\
      expression_block (gfix (S (S (S (S g))))) (afix kinds (gfix (S (S (S (S g))))) (S (S f))) sp
                       (to_block1 sp (erase1 sel 0 ss) e) ctx s = Ok ((None, Some v), s'') /\
      wf s'' /\ head s'' v = Some (bty_head t).
Proof.
  intros Hf Nd W Fr H g f Hd.
  destruct (accepted_block1 kinds g0 sp ss e f0 ctx s r ov s' Hf W H) as (t & c & Ty & -> & Hc).
  pose proof (side_of_accepted kinds g0 ctx sp ss e f0 s _ s' H) as Sd.
  assert (Sd' : side_block kinds ctx (erase1 sel 0 ss) e = true).
  { unfold side_block in *. rewrite erase1_side. exact Sd. }
  destruct (complete_block kinds g ctx sp (erase1 sel 0 ss) e t f s (erase1_block_typed sel ss e t Ty) Sd')
    as (v & s'' & H' & W'' & Hv).
  - rewrite erase1_defs. exact Nd.
  - rewrite erase1_depth. exact Hd.
  - exact W.
  - intros x Hx. rewrite erase1_defs in Hx. now apply Fr.
  - exists t, c, v, s''. auto.
Qed.

(* the checker is complete on typed blocks of the fragment (no false rejection): a by-product *)
Theorem typed_accepted_E1 kinds g f ctx sp ss e t s :
  ty_block1 [] ss e = Some t -> side_block kinds ctx ss e = true -> NoDup (defs ss) ->
  (max_depth ss e < S f)%nat -> wf s -> (forall x, In x (defs ss) -> fresh s x) ->
  exists v s', expression_block (gfix (S (S (S (S g))))) (afix kinds (gfix (S (S (S (S g))))) (S (S f))) sp
                 (to_block1 sp ss e) ctx s = Ok ((None, Some v), s') /\ wf s' /\ head s' v = Some (bty_head t).
Proof. apply complete_block. Qed.

(* ------------------------------------------------------------------ the erasure of Types/Erasure.v (the one of C08_bytes_erase) on a block *)
From Sylt Require Import Types.Erasure.

Lemma erase_s_expr sel e sp : erase_s sel (SStatementExpression e sp) = SStatementExpression (erase_e sel e) sp.
Proof. reflexivity. Qed.

Lemma erase_e_to_expr1 sel sp : forall e, erase_e sel (to_expr1 sp e) = to_expr1 sp e.
Proof.
  induction e as [z|x|s|b|op a IHa b IHb|op a IHa|c IHc a IHa b IHb|x]; cbn [to_expr1]; try reflexivity.
  - change (erase_e sel (EBinOp op (to_expr1 sp a) (to_expr1 sp b) sp))
      with (EBinOp op (erase_e sel (to_expr1 sp a)) (erase_e sel (to_expr1 sp b)) sp). rewrite IHa, IHb. reflexivity.
  - change (erase_e sel (EUniOp op (to_expr1 sp a) sp)) with (EUniOp op (erase_e sel (to_expr1 sp a)) sp). rewrite IHa. reflexivity.
  - rewrite erase_e_if. cbn [map]. rewrite !erase_b_eq. cbn [map]. rewrite !erase_s_expr, IHc, IHa, IHb. reflexivity.
Qed.

(* on the statements of the fragment, erase_s erases the annotation of a definition when sel chooses its span *)
Lemma erase_s_to_stmt1 sel sp st :
  erase_s sel (to_stmt1 sp st) =
  to_stmt1 sp (match st with D1 x k annot e => D1 x k (if sel sp then None else annot) e | _ => st end).
Proof.
  destruct st as [x k [t|] e|x e|e]; cbn [to_stmt1].
  - change (erase_s sel (SDefinition "" x k (TResolved (base_of t) sp) (to_expr1 sp e) sp))
      with (SDefinition "" x k (erase_var_ty sel (TResolved (base_of t) sp)) (erase_e sel (to_expr1 sp e)) sp).
    rewrite erase_e_to_expr1. unfold erase_var_ty. cbn [ty_span]. destruct t; cbn [base_of ground_ty andb]; destruct (sel sp); reflexivity.
  - change (erase_s sel (SDefinition "" x k (TImplied sp) (to_expr1 sp e) sp))
      with (SDefinition "" x k (erase_var_ty sel (TImplied sp)) (erase_e sel (to_expr1 sp e)) sp).
    rewrite erase_e_to_expr1. unfold erase_var_ty. cbn [ground_ty andb]. destruct (sel sp); reflexivity.
  - change (erase_s sel (SAssignment Nop (ERead x sp) (to_expr1 sp e) sp))
      with (SAssignment Nop (erase_e sel (ERead x sp)) (erase_e sel (to_expr1 sp e)) sp).
    rewrite erase_e_to_expr1. reflexivity.
  - rewrite erase_s_expr, erase_e_to_expr1. reflexivity.
Qed.

Lemma erase1_const b : forall ss i,
  erase1 (fun _ => b) i ss = map (fun st => match st with D1 x k annot e => D1 x k (if b then None else annot) e | _ => st end) ss.
Proof. induction ss as [|st q IH]; intros i; [reflexivity|]. destruct st; cbn [erase1 map]; rewrite IH; reflexivity. Qed.

Theorem erase_s_block sel sp ss e :
  map (erase_s sel) (to_block1 sp ss e) = to_block1 sp (erase1 (fun _ => sel sp) 0 ss) e.
Proof.
  unfold to_block1. rewrite map_app, map_map. cbn [map]. rewrite erase_s_expr, erase_e_to_expr1. f_equal.
  rewrite erase1_const, map_map. apply map_ext. intros st. apply erase_s_to_stmt1.
Qed.

(* ------------------------------------------------------------------ the variables are fresh when checking starts *)
Local Open Scope positive_scope.

Lemma init_vars_spec : forall n s, wf s ->
  exists s', init_vars n s = Ok (tt, s') /\ wf s' /\ tnames s' = tnames s /\
    (forall i m, lk s i = Some m -> lk s' i = Some m) /\
    (forall i, next s <= i -> i < next s' -> lk s' i = Some (mkNode HUnknown i 1%N [])) /\
    Pos.to_nat (next s') = (Pos.to_nat (next s) + n)%nat.
Proof.
  induction n as [|n IH]; intros s W; cbn [init_vars].
  - exists s. split; [reflexivity|]. split; [exact W|]. split; [reflexivity|]. split; [auto|]. split; [intros; lia|lia].
  - rewrite (bind_ok _ _ _ _ _ (push_type_eq HUnknown s)).
    destruct (pres_push HUnknown s (next s) _ W (push_type_eq HUnknown s)) as [W1 _].
    destruct (IH _ W1) as (s' & H & W' & T & K & Nw & N). exists s'. split; [exact H|]. split; [exact W'|].
    split; [rewrite T; reflexivity|]. split; [|split].
    + intros i m L. apply K. rewrite lk_push_old; [exact L|]. exact (wf_below _ _ _ W L).
    + intros i Lo Hi. destruct (Pos.eq_dec i (next s)) as [->|Ne].
      * apply K. apply lk_push_new.
      * apply Nw; [cbn [push_st next]; lia|exact Hi].
    + rewrite N. cbn [push_st next]. lia.
Qed.

(* after TypeChecker::new every variable is fresh *)
Theorem fresh_after_init n x s' :
  init_vars n empty_st = Ok (tt, s') -> (N.to_nat x < n)%nat -> fresh s' x.
Proof.
  intros H Hx. destruct (init_vars_spec n empty_st wf_empty) as (s1 & H1 & W1 & T1 & _ & Nw & N1).
  rewrite H in H1. injection H1 as <-. cbn [empty_st next] in *.
  exists (mkNode HUnknown (N.succ_pos x) 1%N []). split; [|split; [reflexivity|split; [reflexivity|split; [reflexivity|]]]].
  - apply Nw; [lia|]. assert (Pos.to_nat (N.succ_pos x) = S (N.to_nat x)).
    { destruct x as [|p]; cbn; [reflexivity|]. rewrite Pos2Nat.inj_succ. reflexivity. }
    lia.
  - rewrite T1. reflexivity.
Qed.

(* ------------------------------------------------------------------ the other direction: writing the inferred types *)
(* the definitions chosen by sel get the type of their value as annotation (whatever they had) *)
Fixpoint annotate1 (sel : nat -> bool) (i : nat) (E : tenv) (ss : list s1) : list s1 :=
  match ss with
  | [] => []
  | st :: q =>
    let st' := match st with
               | D1 x k annot e => D1 x k (if sel i then (match ty1 E e with Some t => Some t | None => annot end) else annot) e
               | _ => st
               end in
    st' :: annotate1 sel (S i) (match ty_stmt1 E st with Some E1 => E1 | None => E end) q
  end.

Lemma bty_eqb_refl t : bty_eqb t t = true.
Proof. destruct t; reflexivity. Qed.

Lemma annotate1_typed sel : forall ss i E E', ty_stmts1 E ss = Some E' -> ty_stmts1 E (annotate1 sel i E ss) = Some E'.
Proof.
  induction ss as [|st q IH]; intros i E E' H; [exact H|]. cbn [ty_stmts1] in H.
  destruct (ty_stmt1 E st) as [E1|] eqn:T1; [|discriminate]. cbn [annotate1]. rewrite T1. cbn [ty_stmts1].
  assert (X : ty_stmt1 E match st with
                         | D1 x k annot e => D1 x k (if sel i then (match ty1 E e with Some t => Some t | None => annot end) else annot) e
                         | _ => st end = Some E1).
  { destruct st as [x k annot e|x e|e]; try exact T1. cbn [ty_stmt1] in *. destruct (ty1 E e) as [t|]; [|discriminate].
    destruct (sel i); [|exact T1]. rewrite bty_eqb_refl. destruct annot as [t0|]; [destruct (bty_eqb t0 t); [exact T1|discriminate]|exact T1]. }
  rewrite X. now apply IH.
Qed.

Section Same2.
  Variable kinds : PositiveMap.t varkind.
  Variable ctx : tctx.
  Lemma annotate1_side sel : forall ss i E, forallb (side_s kinds ctx) (annotate1 sel i E ss) = forallb (side_s kinds ctx) ss.
  Proof.
    induction ss as [|st q IH]; intros i E; [reflexivity|]. destruct st; cbn [annotate1 forallb side_s]; rewrite IH; reflexivity.
  Qed.
  Lemma annotate1_defs sel : forall ss i E, defs (annotate1 sel i E ss) = defs ss.
  Proof.
    unfold defs. induction ss as [|st q IH]; intros i E; [reflexivity|]. destruct st; cbn [annotate1 flat_map def_of]; rewrite IH; reflexivity.
  Qed.
  Lemma annotate1_depth sel e : forall ss i E, max_depth (annotate1 sel i E ss) e = max_depth ss e.
  Proof.
    induction ss as [|st q IH]; intros i E; [reflexivity|]. destruct st; cbn [annotate1 max_depth depth_s]; rewrite IH; reflexivity.
  Qed.
End Same2.

(* an accepted block stays accepted when the inferred types are written on any subset of its definitions *)
Theorem accept_annotate_E1 kinds g0 f0 ctx sp ss e sel s r ov s' :
  frag_stmts1 [] ss e = true -> NoDup (defs ss) -> wf s -> (forall x, In x (defs ss) -> fresh s x) ->
  expression_block (gfix g0) (afix kinds (gfix g0) f0) sp (to_block1 sp ss e) ctx s = Ok ((r, ov), s') ->
  forall g f, (max_depth ss e < S f)%nat ->
    exists t c v s'',
      ov = Some c /\ head s' c = Some (bty_head t) /\
      expression_block (gfix (S (S (S (S g))))) (afix kinds (gfix (S (S (S (S g))))) (S (S f))) sp
                       (to_block1 sp (annotate1 sel 0 [] ss) e) ctx s = Ok ((None, Some v), s'') /\
      wf s'' /\ head s'' v = Some (bty_head t).
Proof.
  intros Hf Nd W Fr H g f Hd.
  destruct (accepted_block1 kinds g0 sp ss e f0 ctx s r ov s' Hf W H) as (t & c & Ty & -> & Hc).
  pose proof (side_of_accepted kinds g0 ctx sp ss e f0 s _ s' H) as Sd.
  assert (Sd' : side_block kinds ctx (annotate1 sel 0 [] ss) e = true).
  { unfold side_block in *. rewrite annotate1_side. exact Sd. }
  assert (Ty' : ty_block1 [] (annotate1 sel 0 [] ss) e = Some t).
  { unfold ty_block1 in *. destruct (ty_stmts1 [] ss) as [E'|] eqn:T; [|discriminate].
    rewrite (annotate1_typed sel ss 0 [] E' T). exact Ty. }
  destruct (complete_block kinds g ctx sp (annotate1 sel 0 [] ss) e t f s Ty' Sd') as (v & s'' & H' & W'' & Hv).
  - rewrite annotate1_defs. exact Nd.
  - rewrite annotate1_depth. exact Hd.
  - exact W.
  - intros x Hx. rewrite annotate1_defs in Hx. now apply Fr.
  - exists t, c, v, s''. auto.
Qed.

(* ------------------------------------------------------------------ under an environment *)
(* the body of a function whose parameters have base types (E0: their types; their classes are good, have these types and
   are no type names: env_good) *)
Lemma erase1_block_typed_env sel E0 ss e t : ty_block1 E0 ss e = Some t -> ty_block1 E0 (erase1 sel 0 ss) e = Some t.
Proof.
  unfold ty_block1. intros H. destruct (ty_stmts1 E0 ss) as [E'|] eqn:T; [|discriminate].
  rewrite (erase1_typed sel ss 0 E0 E' T). exact H.
Qed.

Lemma env_good_ok E s : env_good E s -> env_ok E s.
Proof. intros EG x t H. exact (proj2 (proj1 (EG x t H))). Qed.

Theorem accept_erase_E1_env kinds g0 f0 ctx sp E0 ss e sel s r ov s' :
  frag_stmts1 (map fst E0) ss e = true -> NoDup (defs ss) -> wf s -> env_good E0 s -> (forall x, In x (defs ss) -> fresh s x) ->
  expression_block (gfix g0) (afix kinds (gfix g0) f0) sp (to_block1 sp ss e) ctx s = Ok ((r, ov), s') ->
  forall g f, (max_depth ss e < S f)%nat ->
    exists t c v s'',
      ov = Some c /\ head s' c = Some (bty_head t) /\
      expression_block (gfix (S (S (S (S g))))) (afix kinds (gfix (S (S (S (S g))))) (S (S f))) sp
                       (to_block1 sp (erase1 sel 0 ss) e) ctx s = Ok ((None, Some v), s'') /\
      wf s'' /\ head s'' v = Some (bty_head t).
Proof.
  intros Hf Nd W EG Fr H g f Hd.
  destruct (accepted_block1_env kinds g0 E0 sp ss e f0 ctx s r ov s' Hf W (env_good_ok E0 s EG) H) as (t & c & Ty & -> & Hc).
  pose proof (side_of_accepted kinds g0 ctx sp ss e f0 s _ s' H) as Sd.
  assert (Sd' : side_block kinds ctx (erase1 sel 0 ss) e = true).
  { unfold side_block in *. rewrite erase1_side. exact Sd. }
  destruct (complete_block_env kinds g ctx sp E0 (erase1 sel 0 ss) e t f s (erase1_block_typed_env sel E0 ss e t Ty) Sd')
    as (v & s'' & H' & W'' & Hv).
  - rewrite erase1_defs. exact Nd.
  - rewrite erase1_depth. exact Hd.
  - exact W.
  - exact EG.
  - intros x Hx. rewrite erase1_defs in Hx. now apply Fr.
  - exists t, c, v, s''. auto.
Qed.
