(* C08 -- Type annotations are optional and never change the generated code.
   Only pinned statements, `exact`, Examples by vm_compute, and Print Assumptions. *)
From Coq Require Import String List NArith ZArith PArith Bool.
From Sylt Require Import Syntax.Resolved Types.TyGraph Types.Tc Back.IR Back.Emit Types.Erasure.
Import ListNotations.
Local Open Scope string_scope.

(* The type checker is only a judge: the lowering receives exactly the statements the checker was given. *)
Theorem C08_checker_does_not_rewrite : forall {L} (lower : resolved -> L) fuel r lua,
  compile_after_order lower fuel r = COk lua -> lua = lower r.
Proof. intros L. exact (@Erasure.checker_does_not_rewrite L). Qed.

(* The lowering to IR and the emitted Lua text do not depend on any type annotation: programs that are
   equal once every `ty` component is replaced by one fixed type give the same output. *)
Theorem C08_lower_ignores_annotations : forall fuel r, IR.lower fuel (strip r) = IR.lower fuel r.
Proof. exact Erasure.lower_ignores_annotations. Qed.

Theorem C08_backend_ignores_annotations : forall fuel req r1 r2,
  same_modulo_annotations r1 r2 -> Emit.backend fuel req r1 = Emit.backend fuel req r2.
Proof. exact Erasure.backend_ignores_annotations. Qed.

(* C08_bytes: two variants that differ only in annotations, both accepted: byte-identical Lua *)
Theorem C08_bytes : forall fuel_tc fuel req r1 r2 out1 out2,
  same_modulo_annotations r1 r2 ->
  compile_after_order (Emit.backend fuel req) fuel_tc r1 = COk out1 ->
  compile_after_order (Emit.backend fuel req) fuel_tc r2 = COk out2 ->
  out1 = out2.
Proof. exact Erasure.C08_bytes. Qed.

(* every erasure of (any subset of) ground annotations on variable definitions, parameters and return types is
   such a variant *)
Theorem C08_erase_same_modulo : forall sel r, same_modulo_annotations (erase sel r) r.
Proof. exact Erasure.erase_same_modulo. Qed.

Theorem C08_bytes_erase : forall sel fuel_tc fuel req r out1 out2,
  compile_after_order (Emit.backend fuel req) fuel_tc r = COk out1 ->
  compile_after_order (Emit.backend fuel req) fuel_tc (erase sel r) = COk out2 ->
  out1 = out2.
Proof. exact Erasure.C08_bytes_erase. Qed.

(* Acceptance: erasing ground annotations keeps a program accepted.  STATED ONLY (not proved); evaluated by
   the oracle of the check on the real compiler.  For non-ground annotations it is false (known finding
   C08-call-through-unknown-field). *)
Definition C08_accept_ground_statement : Prop := Erasure.C08_accept_ground_statement.

(* ---- non-vacuity: start :: fn do x: int = 1 + 2 end, and the same with `x := 1 + 2` *)
Definition sp0 : span := mkSpan 0 1 1 1 2.
Definition spl (l : N) : span := mkSpan 0 l l 1 2.
Definition annotated : resolved :=
  mkResolved [mkVar 0 "start" sp0 true Const; mkVar 1 "x" (spl 2) false Mutable]
             [SDefinition "start" 0 Const (TImplied sp0)
                (EFunction "lambda" [] (TResolved BVoid sp0)
                   [SDefinition "x" 1 Mutable (TResolved BInt (spl 2))
                      (EBinOp Add (EInt 1 (spl 2)) (EInt 2 (spl 2)) (spl 2)) (spl 2)] false sp0) sp0].

Example C08_example_erased_differs : erase (fun _ => true) annotated <> annotated.
Proof. vm_compute. discriminate. Qed.

Example C08_example_both_accepted :
  typecheck 40 annotated = TyGraph.Ok tt /\ typecheck 40 (erase (fun _ => true) annotated) = TyGraph.Ok tt.
Proof. split; vm_compute; reflexivity. Qed.

Example C08_example_same_bytes :
  exists out, compile_after_order (Emit.backend 100 None) 40 annotated = COk out /\
              compile_after_order (Emit.backend 100 None) 40 (erase (fun _ => true) annotated) = COk out /\
              String.length (match out with IR.Ok s => s | _ => "" end) <> 0.
Proof. eexists. split; [vm_compute; reflexivity|]. split; [vm_compute; reflexivity|]. vm_compute. discriminate. Qed.

Print Assumptions C08_checker_does_not_rewrite.
Print Assumptions C08_lower_ignores_annotations.
Print Assumptions C08_backend_ignores_annotations.
Print Assumptions C08_bytes.
Print Assumptions C08_erase_same_modulo.
Print Assumptions C08_bytes_erase.

(* ---- source tie: the hand-written model behind these theorems mirrors the files below; the digests of their
   functions regenerated from /repo on this run equal the reviewed ones (coq/Doc/DocSrcDigest.v).  Any edit of
   such a function breaks this obligation: the differential tie and the oracle then decide (tools/check.py). *)
From Sylt Require Doc.SrcDigest Doc.DocSrcDigest Gen.GenSrcDigest.
Theorem C08_model_sources_reviewed :
  Sylt.Doc.SrcDigest.sources_reviewed ["sylt-compiler/src/typechecker.rs"%string; "sylt-compiler/src/ty.rs"%string; "sylt-compiler/src/intermediate.rs"%string; "sylt-compiler/src/lua.rs"%string]
    Sylt.Doc.DocSrcDigest.doc_src_digests Sylt.Gen.GenSrcDigest.src_digests = true.
Proof. vm_compute. reflexivity. Qed.
Print Assumptions C08_model_sources_reviewed.
