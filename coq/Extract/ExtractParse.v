(* Extraction of the parser model.  Directives: only those of ExtrOcamlBasic and ExtrOcamlString. *)
From Coq Require Import Extraction ExtrOcamlBasic ExtrOcamlString.
From Sylt Require Import Lex.Regex Lex.Logos Gen.GenTokens Syntax.Ast Syntax.Tok Syntax.Sexp
  Parse.PrecTable Parse.Parser Parse.Entry Gen.GenPrec.
Extraction Language OCaml.
Definition gen_ptab := interp GenPrec.table.
Extraction "parsemodel.ml" Entry.drive GenTokens.gen_table gen_ptab.
