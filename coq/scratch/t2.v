From Coq Require Import String List NArith ZArith QArith.
From Sylt Require Import Lua.LuaNum Lua.LuaLex.
Import ListNotations.
Open Scope string_scope.
Definition f (s : string) := match parse_number s with Some q => fmt_g14 q | None => "?" end.
Compute map f ["1"; "0.1"; "100000000000000"; "99999999999999"; "123456789012345"; "1e100"; "0.0001"; "0.00001"; "3.14159265358979323"; "1e-7"; "2.5"; "1e15"; "123456.789"; "0.5"; "99999999999999.5";"1.5e300"; "12345678901234.5"; "0x10"].
Compute fmt_g14 (q_div (q_int 1) (q_int 3)).
Compute fmt_g14 (q_div (q_int (-2)) (q_int 3)).
Compute fmt_g14 (q_sqrt (q_int 2)).
Compute fmt_g14 (q_mod (q_int (-5)) (q_int 3)).
Compute fmt_g14 (q_mod (q_div (q_int 723) (q_int 100)) (q_div (q_int 34) (q_int 10))).
