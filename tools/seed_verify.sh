#!/bin/bash
# usage: tools/seed_verify.sh <ID>   -- confirms a seeded change delivered in /tmp/seed-<ID>:
# applies to a fresh worktree, compiles, the pinned tests pass as on the unchanged tree, the demo fails with
# the change and passes without it.  Prints a JSON summary.
id=$1
src=/tmp/seed-$id
wt=/tmp/wt-verify-$id
git -C /repo worktree remove --force $wt >/dev/null 2>&1
git -C /repo worktree add -q --detach $wt HEAD || exit 2
cd $wt
sed -i "s|/tmp/wt-seed-$id|$wt|g" $src/demo/run.sh 2>/dev/null
base_demo=$( (bash $src/demo/run.sh >/tmp/seed-$id/verify_base.log 2>&1; echo $?) )
git apply $src/patch.diff || { echo '{"applies": false}'; exit 2; }
tests=$(cargo test --workspace --offline --no-fail-fast 2>&1 | grep -E "^test result" | awk '{p+=$4; f+=$6} END {print p" passed "f" failed"}')
mut_demo=$( (bash $src/demo/run.sh >/tmp/seed-$id/verify_mut.log 2>&1; echo $?) )
echo "{\"id\": \"$id\", \"applies\": true, \"tests\": \"$tests\", \"demo_exit_without_change\": $base_demo, \"demo_exit_with_change\": $mut_demo}"
cd /
git -C /repo worktree remove --force $wt
sed -i "s|$wt|/tmp/wt-seed-$id|g" $src/demo/run.sh 2>/dev/null
