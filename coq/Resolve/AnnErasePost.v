(* The resolved form of a program whose definition annotations were erased (`implied`) carries no annotation that
   mentions a variable: a unary postcondition of the resolver model, read off its result.  Hence the syntactic
   condition of Dep/AnnTypes.v holds of the erased side for free. *)
From Coq Require Import String List NArith ZArith Bool Lia Arith.
From Sylt Require Resolve.AnnEraseProofs.
From Sylt Require Import Syntax.Resolved Resolve.PAst Resolve.Resolver Resolve.AnnErase Resolve.RefineProofs
     Dep.Deps Dep.AnnTypes.
Import ListNotations.
Local Open Scope list_scope.

(* what a computation returns when it succeeds *)
Definition post {A} (Q : A -> Prop) (m : M A) : Prop := forall st a st', m st = Ok (a, st') -> Q a.

Lemma post_ret {A} (Q : A -> Prop) a : Q a -> post Q (ret a).
Proof. intros H st b st' E. inversion E; subst. exact H. Qed.
Lemma post_fail {A} (Q : A -> Prop) k sp : post Q (@fail A k sp).
Proof. intros st b st' E. discriminate E. Qed.
Lemma post_bind {A B} (QA : A -> Prop) (QB : B -> Prop) (m : M A) (k : A -> M B) :
  post QA m -> (forall a, QA a -> post QB (k a)) -> post QB (bind m k).
Proof. intros Hm Hk st b st' E. apply bind_ok in E as (a & s1 & E1 & E2). eapply Hk; eauto. Qed.
Lemma post_any {A} (m : M A) : post (fun _ => True) m.
Proof. intros st a st' _. exact I. Qed.
Lemma post_mapM {X Y} (Q : Y -> Prop) (g : X -> M Y) l : (forall x, In x l -> post Q (g x)) -> post (Forall Q) (mapM g l).
Proof.
  induction l as [|x l IH]; intros H; cbn [mapM]; [apply post_ret; constructor|].
  eapply post_bind; [apply H; left; reflexivity|]. intros y Qy.
  eapply post_bind; [apply IH; intros z Hz; apply H; right; exact Hz|]. intros ys Qys. apply post_ret. constructor; assumption.
Qed.

(* no annotation of a definition inside mentions a variable *)
Definition NAe (x : expr) : Prop := forall t, In t (dann_e x) -> ty_dependency t = [].
Definition NAs (s : stmt) : Prop := forall t, In t (dann_s s) -> ty_dependency t = [].
Definition NAo (o : option stmt) : Prop := match o with Some s => NAs s | None => True end.
Definition NAl (l : list stmt) : Prop := forall t, In t (flat_map dann_s l) -> ty_dependency t = [].
Definition NAel (l : list expr) : Prop := forall t, In t (flat_map dann_e l) -> ty_dependency t = [].

Lemma NAl_of l : Forall NAs l -> NAl l.
Proof. intros H t Ht. apply in_flat_map in Ht as (s & Hs & Ht). rewrite Forall_forall in H. apply (H s Hs t Ht). Qed.
Lemma NAel_of l : Forall NAe l -> NAel l.
Proof. intros H t Ht. apply in_flat_map in Ht as (s & Hs & Ht). rewrite Forall_forall in H. apply (H s Hs t Ht). Qed.

Lemma post_block (rs : pstmt -> M (option stmt)) l : (forall x, In x l -> post NAo (rs x)) -> post NAl (block_with rs l).
Proof.
  induction l as [|x l IH]; intros H; cbn [block_with]; [apply post_ret; intros t []|].
  eapply post_bind; [apply H; left; reflexivity|]. intros o Qo.
  eapply post_bind; [apply IH; intros z Hz; apply H; right; exact Hz|]. intros rest Qr. apply post_ret.
  destruct o as [s|]; [|exact Qr]. intros t Ht. cbn [flat_map] in Ht. apply in_app_or in Ht as [Ht|Ht]; [apply Qo, Ht|apply Qr, Ht].
Qed.

Section Post.
Variables hp hr : pty -> pty.
Variable fl : rflags.
Notation ea_e := (ea_e implied hp hr).
Notation ea_a := (ea_a implied hp hr).
Notation ea_b := (ea_b implied hp hr).
Notation ea_c := (ea_c implied hp hr).
Notation ea_s := (ea_s implied hp hr).

Definition Ne (f : nat) : Prop := forall e, post NAe (expr_r fl f (ea_e e)).
Definition Na (f : nat) : Prop := forall a, post NAe (assign_r fl f (ea_a a)).
Definition Ns (f : nat) : Prop := forall s, post NAo (stmt_r fl f (ea_s s)).

Section Step.
Variable f : nat.
Hypothesis IHe : Ne f.
Hypothesis IHa : Na f.
Hypothesis IHs : Ns f.

Lemma n_args l : post NAel (mapM (expr_r fl f) (map ea_e l)).
Proof.
  intros st a st' E. apply NAel_of. eapply (post_mapM NAe); [|exact E]. intros x Hx. apply in_map_iff in Hx as (y & <- & _). apply IHe.
Qed.

Lemma n_blocks l : post NAl (block_with (stmt_r fl f) (map ea_s l)).
Proof. apply post_block. intros x Hx. apply in_map_iff in Hx as (y & <- & _). apply IHs. Qed.

Lemma n_binop op a b sp : post NAe (binop_with (expr_r fl f) op (ea_e a) (ea_e b) sp).
Proof.
  unfold binop_with. eapply post_bind; [apply IHe|]. intros x Qx. eapply post_bind; [apply IHe|]. intros y Qy.
  apply post_ret. intros t Ht. cbn [dann_e] in Ht. apply in_app_or in Ht as [Ht|Ht]; auto.
Qed.

Lemma n_uniop op a sp : post NAe (uniop_with (expr_r fl f) op (ea_e a) sp).
Proof. unfold uniop_with. eapply post_bind; [apply IHe|]. intros x Qx. apply post_ret. exact Qx. Qed.

Lemma nstep_e : Ne (S f).
Proof.
  intros e. destruct e; cbn [AnnErase.ea_e expr_r]; try (apply post_ret; intros t []).
  - apply IHa.
  - apply n_binop. - apply n_binop. - apply n_binop. - apply n_binop.
  - apply n_uniop.
  - apply n_binop. - apply n_binop. - apply n_binop. - apply n_binop.
  - apply n_uniop.
  - apply IHe.
  - (* PIf *)
    eapply post_bind.
    { apply (post_mapM (fun b : ifbranch => match b with IfBranch c body _ =>
                          (forall t, In t (match c with Some c => dann_e c | None => [] end) -> ty_dependency t = []) /\ NAl body end)).
      intros b Hb. apply in_map_iff in Hb as ([c body bsp] & <- & _). cbn [AnnErase.ea_b if_branch_with].
      eapply post_bind.
      { instantiate (1 := fun o : option expr => forall t, In t (match o with Some c => dann_e c | None => [] end) -> ty_dependency t = []).
        destruct c as [c|]; cbn [optM]; [|apply post_ret; intros t []].
        eapply post_bind; [apply IHe|]. intros y Qy. apply post_ret. exact Qy. }
      intros c' Qc. apply (post_bind (fun _ => True)); [apply post_any|]. intros len _.
      eapply post_bind; [apply n_blocks|]. intros b' Qb.
      apply (post_bind (fun _ => True)); [apply post_any|]. intros u _. apply post_ret. split; assumption. }
    intros brs Qbrs. apply post_ret. intros t Ht. cbn [dann_e] in Ht. apply in_flat_map in Ht as (b & Hb & Ht).
    rewrite Forall_forall in Qbrs. specialize (Qbrs b Hb). destruct b as [c body bsp]. destruct Qbrs as [Q1 Q2].
    apply in_app_or in Ht as [Ht|Ht]; [apply Q1, Ht|apply Q2, Ht].
  - (* PCase *)
    eapply post_bind; [apply IHe|]. intros tm Qtm.
    eapply post_bind.
    { apply (post_mapM (fun b : casebranch => match b with CaseBranch _ _ _ body _ => NAl body end)).
      intros b Hb. apply in_map_iff in Hb as ([pat v body] & <- & _). cbn [AnnErase.ea_c case_branch_with].
      apply (post_bind (fun _ => True)); [apply post_any|]. intros len _. apply (post_bind (fun _ => True)); [apply post_any|]. intros v' _.
      eapply post_bind; [apply n_blocks|]. intros b' Qb. apply (post_bind (fun _ => True)); [apply post_any|]. intros u _.
      apply post_ret. exact Qb. }
    intros brs Qbrs.
    eapply post_bind.
    { instantiate (1 := fun o : option (list stmt) => match o with Some l => NAl l | None => True end).
      destruct fall_through as [ft|]; cbn [optM]; [|apply post_ret; exact I].
      eapply post_bind; [|intros y Qy; apply post_ret; exact Qy].
      apply (post_bind (fun _ => True)); [apply post_any|]. intros len _. eapply post_bind; [apply n_blocks|]. intros b' Qb.
      apply (post_bind (fun _ => True)); [apply post_any|]. intros u _. apply post_ret. exact Qb. }
    intros ft' Qft. apply post_ret. intros t Ht. cbn [dann_e] in Ht.
    apply in_app_or in Ht as [Ht|Ht]; [apply Qtm, Ht|]. apply in_app_or in Ht as [Ht|Ht].
    + destruct ft'; [apply Qft, Ht|destruct Ht].
    + apply in_flat_map in Ht as (b & Hb & Ht). rewrite Forall_forall in Qbrs. specialize (Qbrs b Hb). destruct b. apply Qbrs, Ht.
  - (* PFunction *)
    apply (post_bind (fun _ => True)); [apply post_any|]. intros ss _. apply (post_bind (fun _ => True)); [apply post_any|]. intros ps _.
    apply (post_bind (fun _ => True)); [apply post_any|]. intros rt _. eapply post_bind; [apply n_blocks|]. intros b' Qb.
    apply (post_bind (fun _ => True)); [apply post_any|]. intros u _. apply post_ret. exact Qb.
  - (* PBlob *)
    apply (post_bind (fun _ => True)); [apply post_any|]. intros b _. apply (post_bind (fun _ => True)); [apply post_any|]. intros sv _.
    eapply post_bind.
    { apply (post_mapM (fun p : string * expr => NAe (snd p))). intros p Hp. apply in_map_iff in Hp as ([n v] & <- & _).
      cbn [fst snd blob_field_with]. apply (post_bind (fun _ => True)); [apply post_any|]. intros ss _. apply (post_bind (fun _ => True)); [apply post_any|]. intros u _.
      eapply post_bind; [apply IHe|]. intros v' Qv. apply (post_bind (fun _ => True)); [apply post_any|]. intros u2 _. apply post_ret. exact Qv. }
    intros fs Qfs. apply post_ret. intros t Ht. cbn [dann_e] in Ht. apply in_flat_map in Ht as (p & Hp & Ht).
    rewrite Forall_forall in Qfs. apply (Qfs p Hp t Ht).
  - eapply post_bind; [apply n_args|]. intros y Qy. apply post_ret. exact Qy.
  - eapply post_bind; [apply n_args|]. intros y Qy. apply post_ret. exact Qy.
Qed.

Lemma nstep_a : Na (S f).
Proof.
  intros a. destruct a; cbn [AnnErase.ea_a assign_r].
  - apply (post_bind (fun _ => True)); [apply post_any|]. intros v _. apply post_ret. intros t [].
  - eapply post_bind; [apply IHa|]. intros x Qx. destruct x; try apply post_fail.
    eapply post_bind; [apply IHe|]. intros y Qy. apply post_ret. exact Qy.
  - eapply post_bind; [apply IHa|]. intros x Qx. eapply post_bind; [apply n_args|]. intros y Qy.
    apply post_ret. intros t Ht. cbn [dann_e] in Ht. apply in_app_or in Ht as [Ht|Ht]; auto.
  - eapply post_bind; [apply IHe|]. intros z Qz. eapply post_bind; [apply IHa|]. intros x Qx.
    eapply post_bind; [apply n_args|]. intros y Qy.
    apply post_ret. intros t Ht. cbn [dann_e flat_map] in Ht. apply in_app_or in Ht as [Ht|Ht]; [auto|].
    apply in_app_or in Ht as [Ht|Ht]; auto.
  - apply (post_bind (fun _ => True)); [apply post_any|]. intros ns _. destruct ns as [ns|].
    + apply (post_bind (fun _ => True)); [apply post_any|]. intros o _. destruct o as [[v|g s0]|]; [apply post_ret; intros t []|apply post_fail|apply post_fail].
    + eapply post_bind; [apply IHa|]. intros v Qv. apply post_ret. exact Qv.
  - eapply post_bind; [apply IHa|]. intros x Qx. eapply post_bind; [apply IHe|]. intros y Qy.
    apply post_ret. intros t Ht. cbn [dann_e] in Ht. apply in_app_or in Ht as [Ht|Ht]; auto.
  - apply IHe.
Qed.

Lemma ty_r_implied st t t' : ty_r st (implied t) = Ok t' -> ty_dependency t' = [].
Proof. cbn. intros E. inversion E. reflexivity. Qed.

Lemma nstep_s : Ns (S f).
Proof.
  intros s. destruct s; cbn [AnnErase.ea_s stmt_r]; try (apply post_ret; exact I); try (apply post_ret; intros t []).
  - apply (post_bind (fun _ => True)); [apply post_any|]. intros v _. apply (post_bind (fun _ => True)); [apply post_any|]. intros fs _. apply post_ret. intros t [].
  - apply (post_bind (fun _ => True)); [apply post_any|]. intros v _. apply (post_bind (fun _ => True)); [apply post_any|]. intros fs _. apply post_ret. intros t [].
  - (* PAssignment *)
    eapply post_bind; [apply IHe|]. intros y Qy. eapply post_bind; [apply IHa|]. intros x Qx.
    apply post_ret. intros t Ht. cbn [dann_s] in Ht. apply in_app_or in Ht as [Ht|Ht]; auto.
  - (* PDefinition *)
    apply (post_bind (fun _ => True)); [apply post_any|]. intros stack _.
    eapply post_bind.
    { instantiate (1 := fun p : expr * N => NAe (fst p)). destruct stack as [|p0 rest].
      - apply (post_bind (fun _ => True)); [apply post_any|]. intros u _. eapply post_bind; [apply IHe|]. intros y Qy.
        apply (post_bind (fun _ => True)); [apply post_any|]. intros u2 _. apply (post_bind (fun _ => True)); [apply post_any|]. intros v _. apply post_ret. exact Qy.
      - match goal with |- context [if ?c then _ else _] => destruct c end.
        + apply (post_bind (fun _ => True)); [apply post_any|]. intros v _. eapply post_bind; [apply IHe|]. intros y Qy. apply post_ret. exact Qy.
        + eapply post_bind; [apply IHe|]. intros y Qy. apply (post_bind (fun _ => True)); [apply post_any|]. intros v _. apply post_ret. exact Qy. }
    intros vv Qv.
    eapply post_bind.
    { instantiate (1 := fun t' : ty => ty_dependency t' = []). intros st a st' E. unfold lift in E.
      destruct (ty_r st (implied t)) as [t'| | |] eqn:Et; inversion E; subst. eapply ty_r_implied; eauto. }
    intros t' Qt. apply post_ret. intros t0 Ht. cbn [dann_s] in Ht. destruct Ht as [<-|Ht]; [exact Qt|apply Qv, Ht].
  - apply (post_bind (fun _ => True)); [apply post_any|]. intros v _. apply (post_bind (fun _ => True)); [apply post_any|]. intros t' _. apply post_ret. intros t0 [].
  - (* PLoop *)
    eapply post_bind; [apply IHe|]. intros c Qc. eapply post_bind; [apply IHs|]. intros b Qb.
    apply post_ret. intros t Ht. cbn [dann_s] in Ht. apply in_app_or in Ht as [Ht|Ht]; [auto|].
    destruct b as [b|]; cbn in Ht; [rewrite app_nil_r in Ht; apply Qb, Ht|destruct Ht].
  - (* PRet *)
    destruct value as [v|]; cbn [AnnErase.ea_s stmt_r optM].
    + apply (post_bind (fun o : option expr => NAo (Some (SRet o sp))) NAo); [|intros o Qo; apply post_ret; exact Qo].
      eapply post_bind; [apply IHe|]. intros y Qy. apply post_ret. exact Qy.
    + apply (post_bind (fun o : option expr => o = None) NAo); [apply post_ret; reflexivity|].
      intros o ->. apply post_ret. intros t [].
  - (* PBlock *)
    apply (post_bind (fun _ => True)); [apply post_any|]. intros len _. eapply post_bind; [apply n_blocks|]. intros b Qb.
    apply (post_bind (fun _ => True)); [apply post_any|]. intros u _. apply post_ret. exact Qb.
  - eapply post_bind; [apply IHe|]. intros v Qv. apply post_ret. exact Qv.
Qed.

End Step.

Lemma n_all : forall f, Ne f /\ Na f /\ Ns f.
Proof.
  induction f as [|f (IHe & IHa & IHs)].
  - split; [|split]; intros x st a st' E; discriminate E.
  - split; [apply nstep_e; assumption|]. split; [apply nstep_a; assumption|apply nstep_s; assumption].
Qed.

(* the definitions of the erased program's resolved form carry no annotation that mentions a variable *)
Theorem resolve_erased_no_annotation_deps fuel ast r :
  resolve_fuel fl fuel (erase_ann implied hp hr ast) = Ok r -> NAl (r_stmts r).
Proof.
  unfold resolve_fuel, resolve_m. intros H.
  assert (P : post NAl
    (_ <- for_each insert_namespace_and_add_definitions (erase_ann implied hp hr ast) ;;
     _ <- import_pass (imports_fixpoint fl) (erase_ann implied hp hr ast) ;;
     out <- block_with (stmt_r fl fuel) (flat_map m_stmts (erase_ann implied hp hr ast)) ;;
     start <- lift (fun st => lookup_global st 0 "start") ;;
     match start with None => fail ENoStart (span_zero 0) | Some _ => ret out end)).
  { apply (post_bind (fun _ => True)); [apply post_any|]. intros u _.
    apply (post_bind (fun _ => True)); [apply post_any|]. intros u1 _.
    rewrite (Sylt.Resolve.AnnEraseProofs.flat_stmts_ea implied hp hr ast).
    eapply post_bind; [apply post_block; intros x Hx; apply in_map_iff in Hx as (y & <- & _); apply (proj2 (proj2 (n_all fuel)))|].
    intros out Qout. apply (post_bind (fun _ => True)); [apply post_any|]. intros start _.
    destruct start; [apply post_ret; exact Qout|apply post_fail]. }
  destruct ((_ <- for_each insert_namespace_and_add_definitions (erase_ann implied hp hr ast) ;;
             _ <- import_pass (imports_fixpoint fl) (erase_ann implied hp hr ast) ;;
             out <- block_with (stmt_r fl fuel) (flat_map m_stmts (erase_ann implied hp hr ast)) ;;
             start <- lift (fun st => lookup_global st 0 "start") ;;
             match start with None => fail ENoStart (span_zero 0) | Some _ => ret out end)
            (init_state (erase_ann implied hp hr ast))) as [[out st]| | |] eqn:E; try discriminate H.
  inversion H; subst. cbn [r_stmts]. eapply P. exact E.
Qed.

End Post.

Theorem erased_ann_types_only fl hp hr tgt ast r :
  resolve fl (erase_ann implied hp hr ast) = Ok r -> ann_types_only tgt (r_stmts r) = true.
Proof.
  unfold resolve. intros H. pose proof (resolve_erased_no_annotation_deps hp hr fl _ ast r H) as N.
  unfold ann_types_only. apply forallb_forall. intros t Ht. rewrite (N t Ht). reflexivity.
Qed.
