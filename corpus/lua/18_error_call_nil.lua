-- expect-error: attempt to call
-- expect: before
print("before")
undefined_function(1)
