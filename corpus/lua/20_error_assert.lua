-- expect-error: Assert failed!
-- expect: true	fine
-- expect: v	m	extra
-- expect: false	assertion failed!
-- expect: false	custom
-- expect: false	bad argument #1 to 'assert' (value expected, got no value)
-- expect: false	msg
-- expect: 2
-- expect: false	nil
-- expect: 2
-- expect: false	bad argument #1 to 'pcall' (value expected, got no value)
-- expect: false	table	7
-- expect: true	1	2
-- expect: true	false	inner
-- expect: false	deep
-- expect: 1
print(assert(1 == 1, "fine"))
print(assert("v", "m", "extra"))
print(pcall(assert, false))
print(pcall(assert, nil, "custom"))
print(pcall(assert))
print(pcall(error, "msg", 0))
print(select("#", pcall(error, {code = 1})))
print(pcall(error))
print(select("#", pcall(error)))
print(pcall(pcall))
local ok, e = pcall(function() error({code = 7}, 0) end)
print(ok, type(e), e.code)
-- pcall returns the function's results
print(pcall(function() return 1, 2 end))
-- nested pcall
print(pcall(pcall, error, "inner", 0))
-- the error propagates through several frames
local function l3() error("deep", 0) end
local function l2() l3() end
local function l1() l2() end
print(pcall(l1))
-- state changes before the error are kept
local cnt = 0
pcall(function() cnt = cnt + 1; error("x", 0) end)
print(cnt)
assert(false, "Assert failed!")
print("not reached")
