"""C05 -- blob, enum, tuple, loop and entry-point shape rules are enforced."""
import collections

import typed_gen as tg
import vlib
from props import c03 as base

GEN = ["GenSrcDigest"]
TRUSTED = base.TRUSTED + [
    "tools/lua_run.py lua_wf (LuaCore's loader, Lua 5.3 reference dialect) as the definition of 'the emitted Lua loads'",
]
ASSUMPTIONS = base.ASSUMPTIONS + [
    "a program without `start` in the main file is rejected by name resolution before the type checker runs (Compile error); "
    "the type checker's own rule (solve: no global `start`, or one that does not unify with fn -> void) is what the theorems cover",
]
EXPLANATION = ("Theorems over the type-checker model: loop_ctx (the inside_loop flag at a position is true iff the position is in "
               "a loop body of the same function) and rejection of break/continue elsewhere in every context; start_required; "
               "decl_stable (declared blob/enum nodes keep their field/variant sets).  Correspondence as for C03.  Oracle: every "
               "shape violation (missing/unknown field, absent field access, unknown variant constructed or matched, case arm sets, "
               "tuple index/length, externblob instantiation, break/continue outside a loop of the same function, missing or "
               "ill-typed start) planted at every position, using the program's own random blob/enum declarations; and the Lua "
               "emitted for the accepted base programs loads.")

_m = base._m
build = base.build


def classify(kind, sk, info):
    return None


def plants_of(t, g, r):
    return tg.c05_plants(t, g, r)


def tie(ctx):
    dirs = ("repo:blob/", "repo:enums/", "repo:looping/", "repo:externblob/", "repo:bugs/", "repo:hm_typing/", "repo:expression/tuple")
    cases = base.corpus_cases("C05") + [c for c in base.repo_test_cases() if c[0].startswith(dirs)]
    bs = base.bases(ctx, base.nbases(ctx))
    r = vlib.rng(ctx.seed, "c05-tie")
    per = 40 if ctx.tier == "quick" else 50
    for bi, (t, g) in enumerate(bs):
        plants = tg.c05_plants(t, g, vlib.rng(ctx.seed, "C05-plants%d" % bi))
        for p in r.sample(plants, min(per, len(plants))):
            cases.append(("plant:%d:%s:%s%d" % (bi, p[0], p[1], p[2]), tg.case_line(base.render_plant(t, p))))
        for name, src in tg.start_variants(tg.render(t)):
            cases.append(("start:%d:%s" % (bi, name), tg.case_line(src)))
    recs = base.tie_run(cases)
    return base.summarize_tie("typecheck", recs,
                              "corpus + /repo/tests blob, enums, looping, externblob, bugs, hm_typing, tuple programs (std bundled) + "
                              "a random sample of planted shape violations and the start-function variants of generated programs; "
                              "compared: accept/reject and kind, file, line of the first error; distinct by label")


def start_sweep(ctx):
    bs = base.bases(ctx, base.nbases(ctx))
    lines, meta = [], []
    for bi, (t, g) in enumerate(bs):
        b = tg.render(t)
        for name, src in tg.start_variants(b):
            lines.append(tg.case_line(src))
            meta.append((name, src))
    res = vlib.harness("compileb", lines)
    viol = []
    kinds = collections.Counter()
    for (name, src), l in zip(meta, res):
        v = tg.real_verdict(l)
        kinds["%s -> %s" % (name, v[1] if v[0] == "ERR" else v[0])] += 1
        if v[0] != "ERR" or v[4] < 1:
            viol.append((None, "start:" + name, "program", src, "accepted" if v[0] == "OK" else v[0]))
    return viol, dict(kinds)


def lua_loads(ctx):
    """the Lua emitted for accepted programs loads"""
    import lua_run
    bs = base.bases(ctx, min(base.nbases(ctx), 12 if ctx.tier == "quick" else 60))
    res = vlib.harness("compile", [tg.case_line(tg.render(t)) for t, _ in bs])
    texts = [vlib.unhex(l[3:]).decode("utf-8", "replace") for l in res if l.startswith("OK")]
    bad = []
    try:
        wf = lua_run.lua_wf(texts)
    except Exception as e:      # the Lua model is another component: its absence is not a C05 failure
        return {"lua_loads": "unavailable: %s" % str(e)[:200]}, []
    unsupported = 0
    for txt, w in zip(texts, wf):
        if w is None:
            continue
        if "unsupported" in w:
            unsupported += 1
        else:
            bad.append((w, txt))
    return {"lua_loads": {"programs": len(texts), "load": len(texts) - len(bad) - unsupported,
                          "outside_the_lua_model": unsupported, "rejected_by_loader": len(bad)}}, bad


def always(ctx):
    viol, dist = base.sweep(ctx, plants_of, "C05", classify)
    sv, skinds = start_sweep(ctx)
    viol = viol + sv
    ctx.c05_viol = viol
    out, _ = base.report_sweep(ctx, "C05", viol, dist)
    out["start_variants"] = skinds
    ll, bad = lua_loads(ctx)
    out.update(ll)
    known = base.known_ids("C05")
    if bad and "C05-lua-does-not-load" not in known:
        ctx.brk("oracle:C05", "emitted Lua of an accepted program does not load: %s" % bad[0][0])
        ctx.c05_lua_bad = bad
    return out


def search(ctx):
    viol = getattr(ctx, "c05_viol", None)
    if viol is None:
        viol, _ = base.sweep(ctx, plants_of, "C05", classify)
        viol += start_sweep(ctx)[0]
    known = base.known_ids("C05")
    unknown = [v for v in viol if v[0] is None or v[0] not in known]
    if unknown:
        unknown.sort(key=lambda v: len(v[3]))
        cls, k, info, src, bad = unknown[0]
        small = src
        if bad == "accepted" and not k.startswith("start:"):
            small = base.shrink_program(src, lambda cands: base.accepted(cands))
        return {"source": small, "kind": k, "position": info, "class": cls,
                "what": "planted %s: %s (the property demands Err with an error)" % (k, bad),
                "failing_inputs_found": len(unknown)}
    lb = getattr(ctx, "c05_lua_bad", None)
    if lb:
        return {"source": "<emitted Lua>", "lua": lb[0][1][-3000:], "what": "the Lua emitted for an accepted program does not load: " + lb[0][0]}
    return None


def replay_known(ctx, kf):
    src = (kf.get("witness") or {}).get("source")
    if not src:
        return True
    return base.accepted([src])[0]


def replay(ctx, rep):
    fi = rep.get("failing_input") or {}
    if not fi or fi.get("source") in (None, "<emitted Lua>"):
        print("nothing to replay through the compiler in this file")
        return 0
    vlib.build_harness()
    l = vlib.harness("compileb", [tg.case_line(fi["source"])])[0]
    v = tg.real_verdict(l)
    bad = v[0] != "ERR"
    print("replay:", fi.get("what"), "->", v, "VIOLATION" if bad else "property holds")
    return 1 if bad else 0
